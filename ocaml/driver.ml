(* driver.ml — runs the extracted Coq models (Model) on a case file and compares
   them, line by line, with the output of the C++ harness on the same file.
   Parsing and printing only; every decision about behaviour is made by Model.*.

   usage: driver <casefile> <implout> [--dump]
   prints  OK <id> <nlines>
       or  DIFF <id> <line-index> | <case line> | model=<..> | impl=<..>
   and a final  SUMMARY cases=<n> ok=<n> diff=<n> lines=<n>                         *)
open Model
type string = Stdlib.String.t   (* Model exports Coq's string type under the same name *)

let rec nat_of_int n = if n <= 0 then O else S (nat_of_int (n - 1))
let rec int_of_nat = function O -> 0 | S n -> 1 + int_of_nat n
let rec pos_of_int n =
  if n <= 1 then XH else if n land 1 = 0 then XO (pos_of_int (n lsr 1)) else XI (pos_of_int (n lsr 1))
let rec int_of_pos = function XH -> 1 | XO p -> 2 * int_of_pos p | XI p -> 2 * int_of_pos p + 1
let z_of_int n = if n = 0 then Z0 else if n > 0 then Zpos (pos_of_int n) else Zneg (pos_of_int (-n))
let int_of_z = function Z0 -> 0 | Zpos p -> int_of_pos p | Zneg p -> - (int_of_pos p)

let kind_of_int = function
  | 0 -> KLru | 1 -> KMru | 2 -> KFifo | 3 -> KRr | 4 -> KLfu | 5 -> KLfuda
  | 6 -> KTlru | 7 -> KUtlru | 8 -> KUtMap | 9 -> KUtSet
  | _ -> failwith "kind"

let allow_of_int a = { a_ins = (a land 1) <> 0; a_upd = (a land 2) <> 0 }

type line =
  | LOp of int * (z, z) op * string      (* now, op, raw text *)
  | LProbe of int

type case = {
  id : string; kind : int; cap : int; ttl : int; tick : int; rnum : int; rk : int;
  universe : int list; lines : line list;
}

let split s = List.filter (fun x -> x <> "") (String.split_on_char ' ' s)

let rec take n l = if n = 0 then ([], l) else match l with
  | [] -> failwith "take" | x :: r -> let (a, b) = take (n - 1) r in (x :: a, b)

let parse_op (ws : string list) raw : line =
  match ws with
  | now :: name :: rest ->
    let now = int_of_string now in
    let zi s = z_of_int (int_of_string s) in
    let keys l = List.map zi l in
    let o = match name, rest with
      | "insert", [ttl; k; v; a] -> Insert (zi ttl, zi k, zi v, allow_of_int (int_of_string a))
      | ("insert_range" | "insert_it"), a :: n :: r ->
        let n = int_of_string n in
        let rec go n r = if n = 0 then [] else match r with
          | t :: k :: v :: r' -> ((zi t, zi k), zi v) :: go (n - 1) r'
          | _ -> failwith "insert_range" in
        InsertRange (go n r, allow_of_int (int_of_string a))
      | "erase", [k] -> Erase (zi k)
      | ("erase_range" | "erase_it"), _ :: r -> EraseRange (keys r)
      | "find", [k; p] -> Find (zi k, p <> "0")
      | "find_use", [k; p] -> FindUse (zi k, p <> "0")
      | ("find_range" | "find_it"), p :: _ :: r -> FindRange (keys r, p <> "0")
      | ("find_range_fill" | "find_fill_it"), p :: _ :: r -> FindRangeFill (keys r, p <> "0")
      | "dyn_age", [] -> DynAge
      | "update_ttl", [d] -> UpdateTtl (zi d)
      | "clear", [] -> Clear
      | "clean", [] -> Clean
      | "size", [] -> Size
      | "empty", [] -> Empty
      | "capacity", [] -> Capacity
      | _ -> failwith ("bad op: " ^ raw) in
    LOp (now, o, raw)
  | _ -> failwith ("bad op line: " ^ raw)

let read_lines fn =
  let ic = open_in fn in
  let rec go acc = match input_line ic with
    | l -> go (l :: acc)
    | exception End_of_file -> close_in ic; List.rev acc in
  go []

let parse_cases fn : case list =
  let ls = read_lines fn in
  let rec go cur acc = function
    | [] -> List.rev acc
    | l :: r ->
      if l = "" || l.[0] = '#' then go cur acc r else
      match split l with
      | "case" :: id :: kind :: _ts :: _vt :: _lf :: cap :: ttl :: tick :: rnum :: rk :: nu :: us ->
        let nu = int_of_string nu in
        let (us, _) = take nu us in
        go (Some { id; kind = int_of_string kind; cap = int_of_string cap; ttl = int_of_string ttl;
                   tick = int_of_string tick; rnum = int_of_string rnum; rk = int_of_string rk;
                   universe = List.map int_of_string us; lines = [] }) acc r
      | "op" :: ws -> (match cur with
          | Some c -> go (Some { c with lines = parse_op ws l :: c.lines }) acc r
          | None -> failwith "op outside case")
      | ["probe"; now] -> (match cur with
          | Some c -> go (Some { c with lines = LProbe (int_of_string now) :: c.lines }) acc r
          | None -> failwith "probe outside case")
      | "end" :: _ -> (match cur with
          | Some c -> go None ({ c with lines = List.rev c.lines } :: acc) r
          | None -> go None acc r)
      | _ -> failwith ("bad line: " ^ l) in
  go None [] ls

(* ---- canonical printing, identical to harness/seq.cpp ---- *)
let fmt_opt = function None -> "-" | Some v -> "v" ^ string_of_int (int_of_z v)
let fmt_ret (r : (z, z) ret) : string = match r with
  | RB b -> if b then "b1" else "b0"
  | RN n -> "n" ^ string_of_int (int_of_nat n)
  | RO o -> fmt_opt o
  | RU None -> "-"
  | RU (Some (v, c)) -> "v" ^ string_of_int (int_of_z v) ^ ":c" ^ string_of_int (int_of_nat c)
  | RL l -> "L" ^ String.concat "" (List.map (fun (k, o) -> " " ^ string_of_int (int_of_z k) ^ "=" ^ fmt_opt o) l)
  | RUnit -> "u"
  | RUnsupported -> "unsupported"

let fmt_probe (c : case) st now : string =
  let size = int_of_nat (zc_size st) in
  let cap = match zc_capacity st with Some n -> string_of_int (int_of_nat n) | None -> "-" in
  let use = (c.kind = 4 || c.kind = 5) in
  let per k =
    let zk = z_of_int k in
    let s = if use then fmt_ret (RU (zc_view_use st zk)) else fmt_opt (zc_view st (z_of_int now) zk) in
    " " ^ string_of_int k ^ "=" ^ s in
  "P s" ^ string_of_int size ^ " e" ^ (if size = 0 then "1" else "0") ^ " c" ^ cap
  ^ String.concat "" (List.map per c.universe)

let config_of (c : case) : config =
  { c_cap = nat_of_int c.cap; c_ttl = z_of_int c.ttl; c_tick = z_of_int c.tick;
    c_rnum = nat_of_int c.rnum; c_rk = nat_of_int c.rk }

(* all draw lists of length n over [0,cap) *)
let rec draws cap n : int list list =
  if n = 0 then [[]] else
    let rest = draws cap (n - 1) in
    List.concat (List.init cap (fun r -> List.map (fun l -> r :: l) rest))

let n_elems = function Insert _ -> 1 | InsertRange (l, _) -> List.length l | _ -> 0

(* rr: the draws inferred for evicting single inserts, per case (C15: spread of the victims) *)
let inferred : (int list) ref = ref []

(* impl: the harness output lines of this case, in order *)
let run_case ~dump (c : case) (impl : string array) : (int * string * string * string) option * int =
  let st0 = zc_init (kind_of_int c.kind) (config_of c) in
  let lines = Array.of_list c.lines in
  let n = Array.length lines in
  let get i = if i < Array.length impl then impl.(i) else "<missing>" in
  let result = ref None in
  let st = ref st0 in
  let i = ref 0 in
  while !result = None && !i < n do
    (match lines.(!i) with
     | LProbe now ->
       let m = fmt_probe c !st now in
       if dump then Printf.printf "  M %s\n" m;
       if m <> get !i && get !i <> "*" then result := Some (!i, "probe " ^ string_of_int now, m, get !i)
     | LOp (now, o, raw) ->
       let znow = z_of_int now in
       if c.kind = 3 && n_elems o > 0 then begin
         (* rr: the draws are not an input we control: infer them from what the
            implementation did (result of this call + the probe that follows) *)
         let cands = draws (max c.cap 1) (min (n_elems o) 4) in
         let next_probe st' =
           if !i + 1 < n then (match lines.(!i + 1) with
               | LProbe pn -> Some (fmt_probe c st' pn) | _ -> None) else None in
         let ok = ref None in
         let first = ref None in
         List.iter (fun d ->
             if !ok = None then begin
               let (st', r) = zc_step !st o znow (List.map nat_of_int d) in
               let m = fmt_ret r in
               if !first = None then first := Some (st', m);
               if (m = get !i || get !i = "*") && (match next_probe st' with None -> true | Some p -> p = get (!i + 1))
               then ok := Some (st', m)
             end) cands;
         (match !ok, !first with
          | Some (st', m), _ -> if dump then Printf.printf "  M %s\n" m;
            (* a single insert that evicted: size stayed at capacity and the key was new; the draw is the first candidate that matched *)
            (match o with
             | Insert (_, k, _, _) when int_of_nat (zc_size !st) = c.cap && zc_view !st znow k = None && m = "b1" ->
               let rec find_d = function
                 | [] -> ()
                 | d :: r -> let (st2, r2) = zc_step !st o znow (List.map nat_of_int d) in
                   if fmt_ret r2 = get !i && (match next_probe st2 with None -> true | Some p -> p = get (!i + 1))
                   then (match d with x :: _ -> inferred := x :: !inferred | [] -> ()) else find_d r in
               find_d cands
             | _ -> ());
            st := st'
          | None, Some (st', m) ->
            if m <> get !i then result := Some (!i, raw, m, get !i)
            else begin
              let p = match next_probe st' with Some p -> p | None -> "" in
              result := Some (!i + 1, raw ^ " ; probe (no draw in [0,size) explains the survivors)", p, get (!i + 1))
            end
          | None, None -> failwith "no candidates")
       end else begin
         let (st', r) = zc_step !st o znow [] in
         let m = fmt_ret r in
         if dump then Printf.printf "  M %s\n" m;
         if m <> get !i && get !i <> "*" then result := Some (!i, raw, m, get !i);
         st := st'
       end);
    incr i
  done;
  (!result, n)


(* ------------------------------------------------------------------------------------------
   white-box mode (--wb): the literal (L3) Coq machines against the real internal structures
   dumped by harness/wb.cpp after every operation *)
let rec coq_string = function
  | EmptyString -> ""
  | String (Ascii (b0, b1, b2, b3, b4, b5, b6, b7), r) ->
    let bit b i = if b then 1 lsl i else 0 in
    let c = bit b0 0 + bit b1 1 + bit b2 2 + bit b3 3 + bit b4 4 + bit b5 5 + bit b6 6 + bit b7 7 in
    String.make 1 (Char.chr c) ^ coq_string r

let nats l = String.concat "," (List.map (fun n -> string_of_int (int_of_nat n)) l)
let zi z = string_of_int (int_of_z z)
let sorted_index ix = List.sort compare (List.map (fun (k, n) -> (int_of_z k, int_of_nat n)) ix)
let nth_opt l n = try Some (List.nth l n) with _ -> None
let okey = function Some k -> zi k | None -> "?"
let oval = function Some v -> zi v | None -> "?"

type lstate = LRr of (z, z) rrl | LLru of bool * (z, z) lrul | LFifo of (z, z) fifol
            | LLfuda of (z, z) lfdl | LLfu of (z, z) lfdl | LTtl of bool * (z, z) ttll | LUm of (z, z) uml

let dump_l = function
  | LRr s ->
    let ix = sorted_index s.l_index in
    "W end=" ^ string_of_int (int_of_nat s.l_end) ^ " open=" ^ nats s.l_open
    ^ " index=" ^ String.concat "," (List.map (fun (k, n) -> Printf.sprintf "%d:%d" k n) ix)
    ^ " elems=" ^ String.concat "," (List.map (fun (_, n) ->
        match nth_opt s.l_elems n with
        | Some e -> Printf.sprintf "%d:%s:%d:%s" n (okey e.e_keyed) (int_of_nat e.e_pos) (oval e.e_val)
        | None -> Printf.sprintf "%d:out-of-range" n) ix)
  | LLru (_, s) ->
    let ix = sorted_index s.ll_index in
    let it = function It n -> string_of_int (int_of_nat n) | End -> "E" in
    "W used=" ^ string_of_int (int_of_nat s.ll_used) ^ " list=" ^ nats s.ll_list ^ " end=" ^ it s.ll_end
    ^ " index=" ^ String.concat "," (List.map (fun (k, n) -> Printf.sprintf "%d:%d" k n) ix)
    ^ " elems=" ^ String.concat "," (List.map (fun (_, n) ->
        match nth_opt s.ll_elems n with
        | Some e -> Printf.sprintf "%d:%s:%s:%s" n (okey e.le_keyed)
                      (match e.le_pos with Some i -> it i | None -> "?") (oval e.le_val)
        | None -> Printf.sprintf "%d:out-of-range" n) ix)
  | LFifo s ->
    let ix = sorted_index s.fl_index in
    "W used=" ^ string_of_int (int_of_nat s.fl_used) ^ " list=" ^ nats s.fl_list
    ^ " index=" ^ String.concat "," (List.map (fun (k, n) -> Printf.sprintf "%d:%d" k n) ix)
    ^ " cells=" ^ String.concat "," (List.concat_map (fun n ->
        match nth_opt s.fl_cells (int_of_nat n) with
        | Some { fc_keyed = Some k; fc_val = v } -> [Printf.sprintf "%d:%s:%s" (int_of_nat n) (zi k) (oval v)]
        | _ -> []) s.fl_list)

let it_s = function It n -> string_of_int (int_of_nat n) | End -> "E"
let rec take_until_end l e = match l with
  | [] -> []
  | x :: r -> (match e with It n when n = x -> [] | _ -> x :: take_until_end r e)

let rec dump_l2 = function
  | LLfu s -> dump_l2 (LLfuda s)
  | LLfuda s ->
    let ix = sorted_index s.dl_index in
    "W used=" ^ string_of_int (int_of_nat s.dl_used) ^ " list=" ^ nats s.dl_list ^ " end=" ^ it_s s.dl_end
    ^ " index=" ^ String.concat "," (List.map (fun (k, n) -> Printf.sprintf "%d:%d" k n) ix)
    ^ " mm=" ^ String.concat "," (List.map (fun (c, n) -> Printf.sprintf "%d:%d" (int_of_nat c) (int_of_nat n)) s.dl_mm)
    ^ " cells=" ^ String.concat "," (List.map (fun n ->
        match nth_opt s.dl_cells (int_of_nat n) with
        | Some c -> Printf.sprintf "%d:%s:%s:%s:%s" (int_of_nat n) (okey c.dc_keyed)
                      (match c.dc_lfu with Some x -> string_of_int (int_of_nat x) | None -> "?") (zi c.dc_age) (oval c.dc_val)
        | None -> "?") (take_until_end s.dl_list s.dl_end))
  | LTtl (u, s) ->
    let ix = sorted_index s.tt_index in
    "W used=" ^ string_of_int (int_of_nat s.tt_used) ^ (if u then " ttl=" ^ zi s.tt_ttl else "")
    ^ " list=" ^ nats s.tt_list ^ " end=" ^ it_s s.tt_end
    ^ " index=" ^ String.concat "," (List.map (fun (k, n) -> Printf.sprintf "%d:%d" k n) ix)
    ^ " ord=" ^ String.concat "," (List.map (fun (z, n) -> Printf.sprintf "%s:%d" (zi z) (int_of_nat n)) s.tt_ord)
    ^ " elems=" ^ String.concat "," (List.map (fun (_, n) ->
        match nth_opt s.tt_elems n with
        | Some e -> Printf.sprintf "%d:%s:%s:%s:%s:%s" n (okey e.te_keyed) (zi e.te_expire)
                      (match e.te_lru with Some i -> it_s i | None -> "?")
                      (match e.te_ttl with Some x -> string_of_int (int_of_nat x) | None -> "?") (oval e.te_val)
        | None -> "?") ix)
  | LUm s ->
    (* nodes are named by their current position in the list (the harness cannot name them otherwise:
       addresses of destroyed nodes are re-used) *)
    let pos n = let rec go i = function [] -> -1 | x :: r -> if x = n then i else go (i + 1) r in go 0 s.ul_list in
    let mp = List.sort compare (List.map (fun (k, (v, tp)) -> (int_of_z k, int_of_z v, tp)) s.ul_map) in
    "W size=" ^ string_of_int (List.length s.ul_map) ^ " list=" ^ String.concat "," (List.mapi (fun i _ -> string_of_int i) s.ul_list)
    ^ " map=" ^ String.concat "," (List.map (fun (k, v, tp) ->
        Printf.sprintf "%d:%d:%s" k v (match tp with Some n -> string_of_int (pos n) | None -> "?")) mp)
    ^ " nodes=" ^ String.concat "," (List.map (fun n ->
        match List.assoc_opt n s.ul_nodes with
        | Some t -> Printf.sprintf "%d:%s:%s" (pos n) (zi t.tn_expire) (zi t.tn_keyed)
        | None -> "?") s.ul_list)
  | x -> dump_l x

let l_init_cfg (c : case) = match c.kind with
  | 4 -> LLfu (zl_lfuda_init (nat_of_int c.cap) (z_of_int 1) (nat_of_int 1) (nat_of_int 0))
  | 5 -> LLfuda (zl_lfuda_init (nat_of_int c.cap) (z_of_int c.tick) (nat_of_int c.rnum) (nat_of_int c.rk))
  | 6 -> LTtl (false, zl_ttl_init (nat_of_int c.cap) Z0)
  | 7 -> LTtl (true, zl_ttl_init (nat_of_int c.cap) (z_of_int c.ttl))
  | 8 | 9 -> LUm (zl_um_init (z_of_int c.ttl))
  | _ -> failwith "l_init_cfg"

let l_init kind cap = match kind with
  | 3 -> LRr (zl_rr_init (nat_of_int cap))
  | 0 -> LLru (false, zl_lru_init (nat_of_int cap))
  | 1 -> LLru (true, zl_lru_init (nat_of_int cap))
  | 2 -> LFifo (zl_fifo_init (nat_of_int cap))
  | _ -> failwith "no literal machine for this kind"

let l_step st o now rnd = match st with
  | LRr s -> (match zl_rr_step s o now rnd with Ok (s', r) -> Ok (LRr s', r) | UB w -> UB w)
  | LLru (m, s) -> (match zl_lru_step m s o now rnd with Ok (s', r) -> Ok (LLru (m, s'), r) | UB w -> UB w)
  | LFifo s -> (match zl_fifo_step s o now rnd with Ok (s', r) -> Ok (LFifo s', r) | UB w -> UB w)
  | LLfuda s -> (match zl_lfuda_step s o now rnd with Ok (s', r) -> Ok (LLfuda s', r) | UB w -> UB w)
  | LLfu s -> (match zl_lfu_step s o now rnd with Ok (s', r) -> Ok (LLfu s', r) | UB w -> UB w)
  | LTtl (u, s) -> (match zl_ttl_step u s o now rnd with Ok (s', r) -> Ok (LTtl (u, s'), r) | UB w -> UB w)
  | LUm s -> (match zl_um_step s o now rnd with Ok (s', r) -> Ok (LUm s', r) | UB w -> UB w)

(* impl: for every op two lines (result, W dump); probes produce nothing *)
let run_case_wb (c : case) (impl : string array) : (int * string * string * string) option * int =
  let ops = List.filter_map (function LOp (now, o, raw) -> Some (now, o, raw) | LProbe _ -> None) c.lines in
  let get i = if i < Array.length impl then impl.(i) else "<missing>" in
  let st = ref (if c.kind >= 4 then l_init_cfg c else l_init c.kind c.cap) in
  let res = ref None in
  let i = ref 0 in
  List.iter (fun (now, o, raw) ->
      if !res = None then begin
        let znow = z_of_int now in
        let cands = if c.kind = 3 && n_elems o > 0 then draws (max c.cap 1) (min (n_elems o) 4) else [[]] in
        let first = ref None and ok = ref None in
        List.iter (fun d ->
            if !ok = None then
              match l_step !st o znow (List.map nat_of_int d) with
              | Ok (st', r) ->
                let m = fmt_ret r and w = dump_l2 st' in
                if !first = None then first := Some (m, w);
                if m = get (2 * !i) && w = get (2 * !i + 1) then ok := Some st'
              | UB why -> if !first = None then first := Some ("UB: " ^ coq_string why, "")) cands;
        (match !ok, !first with
         | Some st', _ -> st := st'
         | None, Some (m, w) ->
           if m <> get (2 * !i) then res := Some (2 * !i, raw, m, get (2 * !i))
           else res := Some (2 * !i + 1, raw ^ " ; internal state", w, get (2 * !i + 1))
         | None, None -> failwith "no candidates");
        incr i
      end) ops;
  (!res, 2 * List.length ops)

let () =
  let args = Array.to_list Sys.argv in
  let dump = List.mem "--dump" args in
  let wbm = List.mem "--wb" args in
  match List.filter (fun a -> a <> "--dump" && a <> "--wb") (List.tl args) with
  | [casefile; implfile] ->
    let cases = parse_cases casefile in
    let impl = read_lines implfile in
    (* split impl output per case *)
    let tbl = Hashtbl.create 64 in
    let cur = ref None in
    let buf = ref [] in
    let flush () = match !cur with
      | Some id -> Hashtbl.replace tbl id (Array.of_list (List.rev !buf)); buf := []
      | None -> () in
    List.iter (fun l ->
        match split l with
        | ["case"; id] -> flush (); cur := Some id
        | _ -> buf := l :: !buf) impl;
    flush ();
    let nok = ref 0 and ndiff = ref 0 and nlines = ref 0 in
    List.iter (fun c ->
        let im = match Hashtbl.find_opt tbl c.id with Some a -> a | None -> [||] in
        if dump then Printf.printf "case %s\n" c.id;
        let (res, n) = if wbm then run_case_wb c im else run_case ~dump c im in
        nlines := !nlines + n;
        (* the trailing "end live<k>" line: every value ended with the container *)
        let endl = if Array.length im > n then im.(n) else "<missing>" in
        match res with
        | None when endl = "end live0" || (wbm && endl = "end") -> incr nok; Printf.printf "OK %s %d\n" c.id n;
          if c.kind = 3 && !inferred <> [] then
            Printf.printf "DRAWS %s cap=%d %s\n" c.id c.cap (String.concat "," (List.map string_of_int (List.rev !inferred)));
          inferred := []
        | None -> incr ndiff; Printf.printf "DIFF %s %d | end | model=end live0 | impl=%s\n" c.id n endl
        | Some (i, raw, m, g) -> incr ndiff;
          Printf.printf "DIFF %s %d | %s | model=%s | impl=%s\n" c.id i raw m g) cases;
    Printf.printf "SUMMARY cases=%d ok=%d diff=%d lines=%d\n" (List.length cases) !nok !ndiff !nlines
  | _ -> prerr_endline "usage: driver <casefile> <implout> [--dump]"; exit 2
