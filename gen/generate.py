#!/usr/bin/env python3
"""generate.py — operation-sequence generator for the sequential correspondence
check (DESIGN.md §2.2a).  Every random choice comes from one PRNG seeded by
--seed.  Grammar of the case file (one item per line):

  case <id> <kind> <ts> <vt> <load_factor> <cap> <ttl_ms> <tick_ms> <rnum> <rk> <nuniv> <k1> ... <kn>
  op <now_ns> insert <ttl_ms> <k> <v> <allow 0..3>
  op <now_ns> insert_range|insert_it <allow> <n> (<ttl_ms> <k> <v>)*n
  op <now_ns> erase <k>
  op <now_ns> erase_range|erase_it <n> <k>*n
  op <now_ns> find|find_use <k> <peek>
  op <now_ns> find_range|find_range_fill|find_it|find_fill_it <peek> <n> <k>*n
  op <now_ns> dyn_age | update_ttl <ms> | clear | clean | size | empty | capacity
  probe <now_ns>
  end

The generator is aimed at the case splits the proofs make: full / non-full,
key absent / live / dead-resident, boundary instants (deadline-1ns, deadline,
deadline+1ns; stamp+tick, stamp+tick+1ns), erase of head/middle/tail, duplicate
keys inside ranges, cap = 1, TTL 0, update_ttl lengthening and shortening.
"""
import argparse, json, random, sys

KINDS = ["lru", "mru", "fifo", "rr", "lfu", "lfuda", "tlru", "utlru", "ut_map", "ut_set"]
KID = {k: i for i, k in enumerate(KINDS)}
MS = 1000000
TTL = {"tlru", "utlru", "ut_map", "ut_set"}
PEEK = {"lru", "mru", "tlru", "utlru", "lfu", "lfuda"}


def gen_case(rnd, kind, cid, maxops, stats, allow_ttl0=True, probe_every=True):
    kd = KID[kind]
    ts = rnd.choice([0, 1])
    vt = rnd.choice([0, 1])
    lf = rnd.choice(["0.1", "0.5", "1", "3.7", "100"])
    if kind == "rr":
        cap = rnd.choice([1, 2, 2, 3, 3, 4, 5])
    else:
        cap = rnd.choice([1, 1, 2, 2, 3, 3, 4, 5, 8])
    ttls = [1, 2, 5, 10, 50]
    ttl = rnd.choice(ttls + ([0] if allow_ttl0 and kind in ("utlru",) else []))
    if kind in ("ut_map", "ut_set") and allow_ttl0 and rnd.random() < 0.08:
        ttl = 0
    tick = rnd.choice([1, 2, 5, 10])
    # ratio = rnum / 2^rk: dyadic, so exact in the float the constructor takes; includes ratios that are not a
    # whole number of percent or of tenths
    rnum, rk = rnd.choice([(0, 0), (1, 2), (1, 1), (3, 2), (1, 0), (1, 3), (3, 3), (5, 3), (7, 3), (1, 4), (1, 7), (11, 4)])
    nkeys = (cap + 3) if kind not in ("ut_map", "ut_set") else rnd.choice([3, 5, 7])
    universe = list(range(1, nkeys + 1))
    lines = ["case %s %d %d %d %s %d %d %d %d %d %d %s" % (
        cid, kd, ts, vt, lf, cap, ttl, tick, rnum, rk, len(universe), " ".join(map(str, universe)))]
    now = 1000 * MS
    vcount = [rnd.randrange(10, 90)]
    marks = []          # interesting instants: deadlines, stamp+tick
    cur_ttl = [ttl]
    hot = universe[:]   # keys, biased to a few
    lastv = {}          # key -> the value it was last handed

    def key():
        if rnd.random() < 0.7:
            return rnd.choice(hot[:max(2, min(len(hot), cap + 1))])
        return rnd.choice(hot)

    def val():
        if kind == "ut_set":
            return 1
        vcount[0] += 1
        return vcount[0]

    def allow():
        return rnd.choices([3, 1, 2, 0], weights=[50, 25, 20, 5])[0]

    def pk():
        return rnd.choice([0, 0, 1]) if kind in PEEK else 0

    def ttl_arg():
        return rnd.choice([0, 1, 1, 2, 5, 10, 50]) if kind == "tlru" else 0

    def note_write(t, tl):
        if kind == "tlru":
            marks.append(t + tl * MS)
        elif kind in TTL:
            marks.append(t + cur_ttl[0] * MS)
        elif kind == "lfuda":
            marks.append(t + tick * MS)

    def keylist():
        n = rnd.choice([0, 1, 2, 2, 3, cap, cap + 1, cap + 2])
        if kind == "rr":
            n = min(n, 4)
        n = min(n, 7)
        ks = [key() for _ in range(n)]
        if n >= 2 and rnd.random() < 0.3:
            ks[rnd.randrange(n)] = ks[rnd.randrange(n)]
        return ks

    weights = {
        "insert": 30, "insert_range": 8, "erase": 8, "erase_range": 3, "find": 22,
        "find_range": 5, "find_range_fill": 3, "size": 2, "empty": 1,
    }
    if kind not in ("ut_map", "ut_set"):
        weights["capacity"] = 1
    if kind == "fifo":
        weights.update({"insert_it": 4, "erase_it": 2, "find_it": 2, "find_fill_it": 2})
    if kind in ("lfu", "lfuda"):
        weights["find_use"] = 12
    if kind == "lfuda":
        weights["dyn_age"] = 8
    if kind in TTL:
        weights["clean"] = 6
    if kind == "utlru":
        weights["update_ttl"] = 6
        weights["clear"] = 2
    if kind == "ut_map":
        weights["clear"] = 2
    names = list(weights)
    ws = [weights[n] for n in names]
    nops = rnd.randrange(3, maxops + 1)

    def emit(l, t):
        # a scripted call: probe before it when the clock moved, probe after it
        if probe_every and lines and not lines[-1].startswith("probe %d" % t) and not lines[-1].startswith("case"):
            lines.append("probe %d" % t)
        lines.append(l)
        lines.append("probe %d" % t)
        stats["ops"]["scripted"] = stats["ops"].get("scripted", 0) + 1

    # ---- scripted preludes aimed at case splits random walks rarely reach ----
    if kind == "utlru" and rnd.random() < 0.45:
        # deadlines out of write order: long TTL, a few writes, update_ttl to a much shorter one, then an
        # UPDATE of an existing entry (or a fresh write), then the clock crosses only the short deadline
        t1, t2 = rnd.choice([(50, 1), (50, 5), (100, 10), (10, 1), (5, 2)])
        lines[0] = lines[0].replace(" %d %d %d %d %d " % (cap, ttl, tick, rnum, rk), " %d %d %d %d %d " % (cap, t1, tick, rnum, rk), 1)
        cur_ttl[0] = t1
        ks = universe[:max(2, min(cap, 4))]
        for j, k in enumerate(ks):
            emit("op %d insert 0 %d %d 3" % (now, k, val()), now)
            marks.append(now + t1 * MS)
            now += rnd.choice([0, 1, MS])
        emit("op %d update_ttl %d" % (now, t2), now)
        cur_ttl[0] = t2
        now += rnd.choice([0, 1, MS // 2])
        victim = rnd.choice(ks[1:] + [universe[-1]])      # an existing key that is not the oldest, or a new key
        emit("op %d insert 0 %d %d %d" % (now, victim, val(), rnd.choice([3, 3, 2, 1])), now)
        marks.append(now + t2 * MS)
        now = now + t2 * MS + rnd.choice([-1, 0, 0, 1, MS])
        fin = rnd.choice(["clean", "insert", "find", "find", "clean"])
        if fin == "clean":
            emit("op %d clean" % now, now)
        elif fin == "insert":
            emit("op %d insert 0 %d %d 3" % (now, universe[-2], val()), now)
        else:
            emit("op %d find %d %d" % (now, victim, rnd.choice([0, 1])), now)
        nops = max(3, nops // 2)
    if kind == "utlru" and rnd.random() < 0.25:
        # several update_ttl calls in a row (long, short, in between): entries written under the first TTL outlive
        # entries written under the last one, although no single step "shortened after the last write"
        tl_, ts_, tm_ = rnd.choice([(100, 10, 50), (50, 1, 10), (100, 5, 50), (50, 2, 10)])
        lines[0] = lines[0].replace(" %d %d %d %d %d " % (cap, ttl, tick, rnum, rk), " %d %d %d %d %d " % (cap, tl_, tick, rnum, rk), 1)
        cur_ttl[0] = tl_
        t0 = now
        ks = universe[:max(1, min(cap - 1, 2))]
        for k in ks:
            emit("op %d insert 0 %d %d 3" % (now, k, val()), now)
            marks.append(now + tl_ * MS)
        emit("op %d update_ttl %d" % (now, ts_), now)
        if rnd.random() < 0.5:
            emit("op %d find %d 1" % (now, ks[0]), now)
        emit("op %d update_ttl %d" % (now, tm_), now)
        cur_ttl[0] = tm_
        now += rnd.choice([0, 1, MS])
        emit("op %d insert 0 %d %d 3" % (now, universe[-1], val()), now)
        marks.append(now + tm_ * MS)
        now = now + tm_ * MS + rnd.choice([0, 1, MS])      # the last write is expired, the first ones are not (tm_ < tl_)
        fin = rnd.choice(["clean", "clean", "insert", "find"])
        if fin == "clean":
            emit("op %d clean" % now, now)
        elif fin == "insert":
            for k in universe[len(ks):len(ks) + cap]:
                emit("op %d insert 0 %d %d 3" % (now, k, val()), now)
        else:
            emit("op %d find %d 0" % (now, universe[-1]), now)
        emit("op %d size" % now, now)
        nops = max(3, nops // 2)
    if kind in ("utlru", "ut_map", "tlru") and rnd.random() < 0.25:
        # refresh of an entry (newest / oldest / middle one) part-way through its life, then a purge
        # (clean, or any call) at an instant between its old and its new deadline
        t = cur_ttl[0] if kind != "tlru" else rnd.choice([5, 10, 50])
        ks = universe[:rnd.choice([1, 2, 3])]
        t0 = now
        for k in ks:
            emit("op %d insert %d %d %d 3" % (now, t if kind == "tlru" else 0, k, val()), now)
            marks.append(now + t * MS)
            now += rnd.choice([0, 1, MS])
        now = max(now, t0 + (t * MS) // 2)
        tgt = rnd.choice([ks[-1], ks[-1], ks[0], rnd.choice(ks)])
        emit("op %d insert %d %d %d %d" % (now, t if kind == "tlru" else 0, tgt, val(), rnd.choice([3, 2])), now)
        marks.append(now + t * MS)
        now = t0 + t * MS + len(ks) * MS + rnd.choice([0, 1, MS // 2])
        if now < marks[-1]:
            fin = rnd.choice(["clean", "clean", "find", "size"])
            if fin == "clean":
                emit("op %d clean" % now, now)
            elif fin == "find":
                emit("op %d find %d 1" % (now, universe[-1]), now)
            emit("op %d size" % now, now)
        nops = max(3, nops // 2)
    if kind in ("utlru", "ut_map") and rnd.random() < 0.3:
        # clear() on a partially filled container with a hole, then a continuation long enough to
        # re-use every slot: a few writes, an erase, clear, then distinct new keys and lookups
        ks = universe[:max(2, min(cap - 1 if cap > 2 else cap, 4))]
        for k in ks:
            emit("op %d insert 0 %d %d 3" % (now, k, val()), now)
            marks.append(now + cur_ttl[0] * MS)
        if rnd.random() < 0.8:
            emit("op %d erase %d" % (now, rnd.choice(ks)), now)
        if kind == "utlru" and rnd.random() < 0.4:
            t_new = rnd.choice([1, 5, 50, 100])
            emit("op %d update_ttl %d" % (now, t_new), now)
            cur_ttl[0] = t_new
        now += rnd.choice([0, 1, MS])
        emit("op %d clear" % now, now)
        for k in universe[-min(len(universe), cap + 1):]:
            emit("op %d insert 0 %d %d 3" % (now, k, val()), now)
            marks.append(now + cur_ttl[0] * MS)
        for k in universe[-3:]:
            emit("op %d find %d 0" % (now, k), now)
        nops = max(3, nops // 2)
    if kind == "lfuda" and rnd.random() < 0.35:
        # a large use count, then an aging point reached by dynamically_age() or by an evicting insert, then the
        # count read back: exercises the exact value of floor(count * ratio)
        ks = universe[:max(1, min(cap, 3))]
        for k in ks:
            emit("op %d insert 0 %d %d 3" % (now, k, val()), now)
        hotk = ks[0]
        for _ in range(rnd.choice([7, 8, 9, 15, 16, 31, 40])):
            emit_plain = "op %d find %d 0" % (now, hotk)
            lines.append(emit_plain)
        lines.append("probe %d" % now)
        now += tick * MS + rnd.choice([1, 1, MS])
        if rnd.random() < 0.5:
            emit("op %d dyn_age" % now, now)
        else:
            for k in universe[len(ks):len(ks) + cap]:
                emit("op %d insert 0 %d %d 3" % (now, k, val()), now)
        emit("op %d find_use %d 1" % (now, hotk), now)
        nops = max(3, nops // 2)
    if kind == "tlru" and rnd.random() < 0.45:
        # an update that lands on exactly the same deadline (same instant + same TTL, or later with a
        # correspondingly shorter TTL), or that moves the deadline earlier; then fill up and evict
        ttls = [1, 2, 5, 10, 50]
        a = rnd.choice(ttls[1:])
        ks = universe[:max(2, min(cap, 4))]
        emit("op %d insert %d %d %d 3" % (now, a, ks[0], val()), now)
        d0 = now + a * MS
        marks.append(d0)
        for k in ks[1:]:
            now += rnd.choice([0, 1, 1000])
            emit("op %d insert %d %d %d 3" % (now, rnd.choice(ttls), k, val()), now)
        mode = rnd.choice(["same", "same", "shorter", "earlier", "range_dup"])
        if mode == "same":
            b = rnd.choice([x for x in ttls if x <= a])
            tgt = d0 - b * MS
            if tgt >= now:
                now = tgt
            emit("op %d insert %d %d %d %d" % (now, b, ks[0], val(), rnd.choice([3, 2])), now)
        elif mode == "shorter":
            b = rnd.choice([x for x in ttls if x <= a])
            emit("op %d insert %d %d %d 3" % (now, b, ks[0], val()), now)
            marks.append(now + b * MS)
        elif mode == "earlier":
            emit("op %d insert 0 %d %d 3" % (now, ks[0], val()), now)
        else:
            emit("op %d insert_range 3 2 %d %d %d %d %d %d" % (now, a, ks[-1], val(), a, ks[-1], val()), now)
        for k in universe[len(ks):len(ks) + 2]:
            now += rnd.choice([0, 1])
            emit("op %d insert %d %d %d 3" % (now, rnd.choice([10, 50]), k, val()), now)
        nops = max(3, nops // 2)
    for _ in range(nops):
        # clock move, aimed at tracked instants
        r = rnd.random()
        timed = kind in TTL or kind == "lfuda"
        if timed and r < 0.55 and marks:
            cands = [m for m in marks if m + 1 >= now]
            if cands:
                m = rnd.choice(sorted(cands)[:3]) if rnd.random() < 0.7 else rnd.choice(cands)
                tgt = m + rnd.choice([-1, 0, 0, 1])
                if tgt >= now:
                    now = tgt
        elif timed and r < 0.7:
            now += rnd.choice([1, 1000, MS // 2, MS, 3 * MS, 20 * MS])
        elif not timed and r < 0.2:
            now += rnd.choice([1, MS])
        if probe_every and timed and lines and not lines[-1].startswith("probe %d" % now) and not lines[-1].startswith("case"):
            lines.append("probe %d" % now)   # the state as seen at the new instant, before the call
        name = rnd.choices(names, weights=ws)[0]
        stats["ops"][name] = stats["ops"].get(name, 0) + 1
        if name == "insert":
            t = ttl_arg()
            k_ = key()
            # now and then the value the key was last written with: an update that does not change the value is
            # still an update (a use, a TTL restart)
            v_ = lastv[k_] if (k_ in lastv and rnd.random() < 0.2) else val()
            lastv[k_] = v_
            lines.append("op %d insert %d %d %d %d" % (now, t, k_, v_, allow()))
            note_write(now, t)
        elif name in ("insert_range", "insert_it"):
            ks = keylist()
            items = []
            for k in ks:
                t = ttl_arg()
                v_ = lastv[k] if (k in lastv and rnd.random() < 0.2) else val()
                lastv[k] = v_
                items.append("%d %d %d" % (t, k, v_))
                note_write(now, t)
            stats["range_len"][str(len(ks))] = stats["range_len"].get(str(len(ks)), 0) + 1
            lines.append(("op %d %s %d %d %s" % (now, name, allow(), len(ks), " ".join(items))).rstrip())
        elif name == "erase":
            lines.append("op %d erase %d" % (now, key()))
        elif name in ("erase_range", "erase_it"):
            ks = keylist()
            lines.append(("op %d %s %d %s" % (now, name, len(ks), " ".join(map(str, ks)))).rstrip())
        elif name in ("find", "find_use"):
            lines.append("op %d %s %d %d" % (now, name, key(), pk()))
            if kind == "lfuda":
                marks.append(now + tick * MS)
        elif name in ("find_range", "find_range_fill", "find_it", "find_fill_it"):
            ks = keylist()
            lines.append(("op %d %s %d %d %s" % (now, name, pk(), len(ks), " ".join(map(str, ks)))).rstrip())
        elif name == "update_ttl":
            cur_ttl[0] = rnd.choice([0, 1, 2, 5, 10, 50, 100]) if allow_ttl0 else rnd.choice([1, 2, 5, 10, 50, 100])
            lines.append("op %d update_ttl %d" % (now, cur_ttl[0]))
        else:
            lines.append("op %d %s" % (now, name))
        if probe_every or kind == "rr":
            lines.append("probe %d" % now)
    lines.append("end")
    stats["caps"][str(cap)] = stats["caps"].get(str(cap), 0) + 1
    stats["nops"] += nops
    if ttl == 0 and kind in ("ut_map", "ut_set", "utlru"):
        stats["ttl0_cases"] += 1
    return lines


def gen_rr_stress(rnd, cid, cap, nins):
    """rr: many inserts of fresh keys into a full cache, a probe after each: the victims' slots (C15 spread)"""
    keys = list(range(1, cap + nins + 1))
    lines = ["case %s 3 %d 0 1 %d 0 1 0 0 %d %s" % (cid, rnd.choice([0, 1]), cap, len(keys), " ".join(map(str, keys)))]
    now = 1000 * MS
    for i, k in enumerate(keys):
        lines.append("op %d insert 0 %d %d 3" % (now, k, 100 + i))
        lines.append("probe %d" % now)
    lines.append("end")
    return lines


def gen_big(rnd, kind, cid):
    """a large capacity with a small max_load_factor: fill beyond capacity, look up / erase / re-insert early keys.
    The index must not rehash while iterators into it are stored (C08: reserve vs. max_load_factor in the
    constructor); small capacities never reach a rehash."""
    cap = rnd.choice([64, 100])
    lf = rnd.choice(["0.1", "0.25", "0.5"])
    keys = list(range(1, cap + 9))
    tl = 50
    lines = ["case %s %d %d %d %s %d %d %d %d %d %d %s" % (cid, KID[kind], rnd.choice([0, 1]), rnd.choice([0, 1]), lf, cap, tl, 5, 1, 1,
                                                         len(keys), " ".join(map(str, keys)))]
    now = 1000 * MS
    v = [500]

    def ins(k):
        v[0] += 1
        lines.append("op %d insert %d %d %d 3" % (now, tl if kind == "tlru" else 0, k, 1 if kind == "ut_set" else v[0]))
    for k in keys[:cap]:
        ins(k)
    pkarg = " 0" if kind in PEEK else " 0"
    for k in rnd.sample(keys[:cap], 12):
        lines.append("op %d find %d%s" % (now, k, pkarg))
    for k in rnd.sample(keys[:cap], 8):
        lines.append("op %d erase %d" % (now, k))
    for k in keys[cap:] + rnd.sample(keys[:cap], 6):
        ins(k)
    ks = rnd.sample(keys, 5)
    lines.append("op %d find_range %d %d %s" % (now, 0, len(ks), " ".join(map(str, ks))))
    lines.append("probe %d" % now)
    lines.append("end")
    if kind == "rr":
        # the driver infers rr's draws from the observation after an eviction, and the monitors want an observation
        # on both sides of every call
        out = []
        for l in lines:
            out.append(l)
            if l.startswith("op "):
                out.append("probe %d" % now)
        lines = [l for i, l in enumerate(out) if not (l.startswith("probe") and i + 1 < len(out) and out[i + 1] == l)]
    return lines


def gen_exhaustive(kind):
    """every sequence of length <= 3 over a 13-18 letter alphabet, and of length 4 over a 7 letter core
    alphabet, for capacities 1 and 2 (thorough tier); 'tick' letters move the clock past the short deadline / tick"""
    import itertools
    kd = KID[kind]
    timed = kind in TTL or kind == "lfuda"
    pk = kind in PEEK
    def letters(full):
        L = [("insert", 1, 3), ("insert", 2, 3), ("insert", 3, 3), ("erase", 1), ("find", 1, 0), ("find", 2, 0)]
        if timed:
            L.append(("tick",))
        if full:
            L += [("insert", 1, 1), ("insert", 1, 2), ("erase", 2), ("irange",), ("frange",)]
            if pk:
                L.append(("find", 1, 1))
            if kind in ("lfu", "lfuda"):
                L.append(("find_use", 1, 0))
            if kind == "lfuda":
                L.append(("dyn_age",))
            if kind in TTL:
                L.append(("clean",))
            if kind == "utlru":
                L += [("update_ttl", 1), ("update_ttl", 50), ("clear",)]
            if kind == "ut_map":
                L.append(("clear",))
        return L
    n = 0
    for cap in (1, 2):
        for (full, length) in ((True, 3), (False, 5)):
            for seq in itertools.product(letters(full), repeat=length):
                if not full and len(set(seq)) == 1:
                    continue
                n += 1
                now = 1000 * MS
                v = 10
                lines = ["case %s-x%d %d 0 0 1 %d 5 1 1 1 4 1 2 3 4" % (kind, n, kd, cap)]
                for a in seq:
                    if a[0] == "tick":
                        now += 5 * MS + 1
                        lines.append("probe %d" % now)
                        continue
                    v += 1
                    vv = 1 if kind == "ut_set" else v
                    if a[0] == "insert":
                        ttl = 5 if kind == "tlru" and a[1] != 3 else (50 if kind == "tlru" else 0)
                        lines.append("op %d insert %d %d %d %d" % (now, ttl, a[1], vv, a[2]))
                    elif a[0] == "erase":
                        lines.append("op %d erase %d" % (now, a[1]))
                    elif a[0] in ("find", "find_use"):
                        lines.append("op %d %s %d %d" % (now, a[0], a[1], a[2]))
                    elif a[0] == "irange":
                        lines.append("op %d insert_range 3 2 %d 2 %d %d 3 %d" % (now, 5 if kind == "tlru" else 0, vv, 5 if kind == "tlru" else 0, vv))
                    elif a[0] == "frange":
                        lines.append("op %d find_range 0 2 1 3" % now)
                    elif a[0] == "update_ttl":
                        lines.append("op %d update_ttl %d" % (now, a[1]))
                    else:
                        lines.append("op %d %s" % (now, a[0]))
                    lines.append("probe %d" % now)
                lines.append("end")
                yield lines


def main():
    ap = argparse.ArgumentParser()
    ap.add_argument("--seed", type=int, default=1)
    ap.add_argument("--kind", required=True)
    ap.add_argument("--n", type=int, default=100)
    ap.add_argument("--maxops", type=int, default=40)
    ap.add_argument("--no-ttl0", action="store_true")
    ap.add_argument("--out", required=True)
    ap.add_argument("--stats", default=None)
    ap.add_argument("--exhaustive", action="store_true")
    a = ap.parse_args()
    if a.exhaustive:
        n = 0
        with open(a.out, "w") as f:
            for lines in gen_exhaustive(a.kind):
                n += 1
                f.write("\n".join(lines) + "\n")
        if a.stats:
            with open(a.stats, "w") as f:
                json.dump({"kind": a.kind, "exhaustive_cases": n, "ops": {}, "caps": {"1": 0, "2": 0}, "range_len": {}, "nops": 0, "ttl0_cases": 0, "cases": n, "seed": 0}, f)
        return
    rnd = random.Random("%d/%s" % (a.seed, a.kind))
    stats = {"kind": a.kind, "seed": a.seed, "cases": a.n, "ops": {}, "caps": {}, "range_len": {}, "nops": 0,
             "ttl0_cases": 0}
    with open(a.out, "w") as f:
        for i in range(a.n):
            mo = a.maxops if i % 4 else max(6, a.maxops // 4)
            for l in gen_case(rnd, a.kind, "%s-%d-%d" % (a.kind, a.seed, i), mo, stats, allow_ttl0=not a.no_ttl0):
                f.write(l + "\n")
        if a.kind in ("ut_map", "ut_set"):
            # a burst of thousands of keys that all expire at once: the purge at the start of the next call must take them all
            nk, tl = 2500, 5
            keys = list(range(1, nk + 1))
            now = 1000 * MS
            L = ["case %s-%d-burst %d %d %d 1 8 %d 1 1 0 %d %s" % (a.kind, a.seed, KID[a.kind], rnd.choice([0, 1]), rnd.choice([0, 1]), tl, nk, " ".join(map(str, keys)))]
            L.append("op %d insert_range 3 %d %s" % (now, nk, " ".join("0 %d %d" % (k, 1 if a.kind == "ut_set" else 100000 + k) for k in keys)))
            L.append("op %d size" % now)
            now += tl * MS
            L.append("op %d %s" % (now, rnd.choice(["find 7 0", "erase 9", "insert 0 3 %d 3" % (1 if a.kind == "ut_set" else 5), "find_range 0 2 1 2500"])))
            L.append("op %d size" % now)
            L.append("probe %d" % now)
            L.append("op %d clean" % now)
            L.append("op %d size" % now)
            L.append("end")
            for l in L:
                f.write(l + "\n")
        if a.kind not in ("ut_map", "ut_set"):
            for j in range(2):
                for l in gen_big(rnd, a.kind, "%s-%d-big%d" % (a.kind, a.seed, j)):
                    f.write(l + "\n")
        if a.kind == "rr":
            for j, cap in enumerate([2, 3, 4, 5, 2, 3, 4, 5]):
                for l in gen_rr_stress(rnd, "rr-%d-stress%d" % (a.seed, j), cap, 120):
                    f.write(l + "\n")
            # capacities that are not powers of two, each with enough evictions for the never-chosen test of its own
            for j, (cap, n) in enumerate([(6, 200), (7, 200), (9, 300), (12, 330)]):
                for l in gen_rr_stress(rnd, "rr-%d-stressn%d" % (a.seed, j), cap, n):
                    f.write(l + "\n")
    if a.stats:
        with open(a.stats, "w") as f:
            json.dump(stats, f)


if __name__ == "__main__":
    main()
