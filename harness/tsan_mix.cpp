// tsan_mix.cpp — free-running multi-thread driver over EVERY public method of one container
// (thread_safe::yes), built with -fsanitize=thread from /repo/inc as it is now.
// ThreadSanitizer's happens-before analysis reports any pair of public methods that performs
// conflicting unsynchronised accesses (C07).  Also used to cross-check the skeleton
// translator: a report here on a tree whose skeletons are all guarded is a translator defect.
#include <atomic>
#include <chrono>
#include <cstdint>
#include <cstdio>
#include <cstdlib>
#include <optional>
#include <thread>
#include <tuple>
#include <vector>

#include "cappuccino/cappuccino.hpp"

using namespace cappuccino;
using Key = uint64_t;
using ms  = std::chrono::milliseconds;

#ifndef KIND
#error "compile with -DKIND=<0..9>"
#endif

static std::atomic<int> g_ready{0};
static std::atomic<bool> g_go{false};

template<class C>
static void worker(C& c, int id, int iters)
{
    g_ready.fetch_add(1, std::memory_order_relaxed);
    while (!g_go.load(std::memory_order_relaxed))
    {
    }
    for (int it = 0; it < iters; ++it)
    {
        Key k = static_cast<Key>((it * 7 + id * 3) % 6);
        int m = (it + id * 5) % 16;
        switch (m)
        {
            case 0:
            case 1:
#if KIND == 6
                (void)c.insert(ms{1}, k, it);
#elif KIND == 9
                (void)c.insert(k);
#else
                (void)c.insert(k, it);
#endif
                break;
            case 2:
            {
#if KIND == 6
                std::vector<std::tuple<ms, Key, int>> v{{ms{1}, k, it}, {ms{2}, k + 1, it}};
#elif KIND == 9
                std::vector<Key> v{k, k + 1};
#else
                std::vector<std::pair<Key, int>> v{{k, it}, {k + 1, it}};
#endif
                (void)c.insert_range(std::move(v));
                break;
            }
            case 3: (void)c.erase(k); break;
            case 4:
            {
                std::vector<Key> v{k, k + 2};
                (void)c.erase_range(v);
                break;
            }
            case 5:
            case 6: (void)c.find(k); break;
            case 7:
            {
                std::vector<Key> v{k, k + 1};
                (void)c.find_range(v);
                break;
            }
            case 8:
            {
#if KIND == 9
                std::vector<std::pair<Key, bool>> v{{k, false}, {k + 1, false}};
#else
                std::vector<std::pair<Key, std::optional<int>>> v{{k, std::nullopt}, {k + 1, std::nullopt}};
#endif
                c.find_range_fill(v);
                break;
            }
            case 9: (void)c.size(); break;
            case 10: (void)c.empty(); break;
            case 11:
#if KIND != 8 && KIND != 9
                (void)c.capacity();
#endif
                break;
            case 12:
#if KIND == 4 || KIND == 5
                (void)c.find_with_use_count(k);
#endif
#if KIND == 2
                {
                    std::vector<Key> v{k, k + 1};
                    (void)c.find(v.begin(), v.end());
                    (void)c.erase(v.begin(), v.end());
                    std::vector<std::pair<Key, int>> w{{k, it}};
                    (void)c.insert(w.begin(), w.end());
                }
#endif
                break;
            case 13:
#if KIND == 5
                (void)c.dynamically_age();
#endif
#if KIND == 6 || KIND == 7 || KIND == 8 || KIND == 9
                (void)c.clean_expired_values();
#endif
                break;
            case 14:
#if KIND == 7
                c.update_ttl(ms{1 + (it % 3)});
#endif
                break;
            case 15:
#if KIND == 7 || KIND == 8
                if (it % 64 == 0) c.clear();
#endif
                break;
        }
    }
}

int main(int argc, char** argv)
{
    int threads = argc > 1 ? atoi(argv[1]) : 4;
    int iters   = argc > 2 ? atoi(argv[2]) : 3000;
#if KIND == 0
    lru_cache<Key, int> c{4};
#elif KIND == 1
    mru_cache<Key, int> c{4};
#elif KIND == 2
    fifo_cache<Key, int> c{4};
#elif KIND == 3
    rr_cache<Key, int> c{4};
#elif KIND == 4
    lfu_cache<Key, int> c{4};
#elif KIND == 5
    lfuda_cache<Key, int> c{4, ms{1}, 0.5f};
#elif KIND == 6
    tlru_cache<Key, int> c{4};
#elif KIND == 7
    utlru_cache<Key, int> c{ms{1}, 4};
#elif KIND == 8
    ut_map<Key, int> c{ms{1}};
#elif KIND == 9
    ut_set<Key> c{ms{1}};
#endif
    std::vector<std::thread> ts;
    for (int i = 0; i < threads; ++i)
        ts.emplace_back([&c, i, iters] { worker(c, i, iters); });
    while (g_ready.load(std::memory_order_relaxed) < threads)
    {
    }
    g_go.store(true, std::memory_order_relaxed);
    for (auto& t : ts)
        t.join();
    std::printf("done size=%zu\n", c.size());
    return 0;
}
