// excl.cpp — mutual-exclusion probe (search for a failing input after a C06/C07 obligation broke):
//   excl <A: insert|find> <op line of B ...>
// Thread A is parked INSIDE the critical section of A (in the value type's move assignment of an updating
// insert, or in the copy construction of a successful find: the only user code the containers run under
// their lock).  Thread B then runs one public call.  If B completes while A is still parked, B was not
// mutually excluded from A's critical section: prints OVERLAP.  If B is still blocked after the grace
// period: EXCLUDED (A is then released and both finish).  Built per container kind from /repo/inc as it is
// now, no hooks needed:  g++ -std=c++17 -O1 -I/repo/inc -DKIND=<k> excl.cpp /repo/src/*.cpp -pthread
#include "common.hpp"

#include <atomic>
#include <chrono>
#include <iostream>
#include <sstream>
#include <thread>

#ifndef KIND
#error "compile with -DKIND=<n>"
#endif

static std::atomic<bool>            g_armed{false}, g_parked{false}, g_release{false};
static std::atomic<std::thread::id> g_a_thread{};
static int                          g_where = 0;

static void park_hook(int what)
{
    if (g_armed.load() && what == g_where && std::this_thread::get_id() == g_a_thread.load())
    {
        g_armed = false;
        g_parked = true;
        while (!g_release.load())
            std::this_thread::sleep_for(std::chrono::milliseconds(1));
    }
}

int main(int argc, char** argv)
{
    if (argc < 3)
        return 2;
    if constexpr (KIND == UTSET)
    {
        std::cout << "INCONCLUSIVE ut_set stores no value to park in\n";
        return 0;
    }
    else
    {
        using C = typename Sel<Val, thread_safe::yes>::type;
        const std::string a = argv[1];
        std::string       bline = "0";
        for (int i = 2; i < argc; ++i)
            bline += std::string(" ") + argv[i];
        std::istringstream bs(bline);
        Op                 bop = parse_op(bs);
        Config             cfg{1, 1, 1.0f, 4, 100000, 100000, 1, 1, {1, 2, 3, 4, 5}};
        vclock::now_ns = 1000000000;
        C* c           = make<C>(cfg);
        for (int k = 1; k <= 2; ++k)
        {
            std::istringstream ps("1000000000 insert 100000 " + std::to_string(k) + " " + std::to_string(10 * k) + " 3");
            Op                 o = parse_op(ps);
            (void)apply<C, Val>(*c, o);
        }
        Val::hook = park_hook;
        g_where   = (a == "find") ? 1 : 2;
        std::atomic<bool> b_done{false};
        std::thread       ta([&] {
            g_a_thread = std::this_thread::get_id();
            g_armed    = true;
            std::istringstream as(a == "find" ? std::string("1000000000 find 1 0") : std::string("1000000000 insert 100000 1 77 3"));
            Op                 o = parse_op(as);
            (void)apply<C, Val>(*c, o);
        });
        for (int i = 0; i < 2000 && !g_parked.load(); ++i)
            std::this_thread::sleep_for(std::chrono::milliseconds(1));
        if (!g_parked.load())
        {
            g_release = true;
            ta.join();
            std::cout << "INCONCLUSIVE " << a << " never reached the value operation\n";
            return 0;
        }
        std::thread tb([&] {
            bop.now = 1000000000;
            (void)apply<C, Val>(*c, bop);
            b_done = true;
        });
        for (int i = 0; i < 400 && !b_done.load(); ++i)
            std::this_thread::sleep_for(std::chrono::milliseconds(1));
        const bool overlap = b_done.load();
        g_release          = true;
        ta.join();
        tb.join();
        std::cout << (overlap ? "OVERLAP " : "EXCLUDED ") << a << " | " << bline.substr(2) << "\n";
        return 0;
    }
}
