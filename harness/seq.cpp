// seq.cpp — sequential correspondence harness (DESIGN.md §2.2a).
// Compiled once per container with -DKIND=<n> against /repo/inc as it is now.
// Reads a case file (see gen/generate.py for the grammar), drives the real
// container under a link-time virtual steady_clock, and prints one canonical line
// per operation / probe.  No repository change is needed for any of this.
#include "common.hpp"

template<class V, thread_safe ts>
static void run_case(const Config& cfg, const std::vector<Op>& ops, std::ostream& out)
{
    using C = typename Sel<V, ts>::type;
    vclock::now_ns = 0;
    C*              c = make<C>(cfg);
    std::vector<Op> log;
    for (const Op& o : ops)
    {
        if (o.name == "probe")
        {
            std::ostringstream p;
            vclock::now_ns = o.now;
            p << "P s" << c->size() << " e" << (c->empty() ? 1 : 0) << " c";
            if constexpr (KD == UTMAP || KD == UTSET)
                p << "-";
            else
                p << c->capacity();
            if constexpr (KD == RR)
            {
                for (Key k : cfg.universe)
                    p << " " << k << "=" << peek_key<C, V>(*c, k);
            }
            else
            {
                // replica: a fresh instance replayed through the same prefix at the same clock readings
                C* r = make<C>(cfg);
                for (const Op& q : log)
                    (void)apply<C, V>(*r, q);
                vclock::now_ns = o.now;
                for (Key k : cfg.universe)
                    p << " " << k << "=" << peek_key<C, V>(*r, k);
                delete r;
            }
            out << p.str() << "\n";
        }
        else
        {
            out << apply<C, V>(*c, o) << "\n";
            log.push_back(o);
        }
    }
    delete c;
}

int main(int argc, char** argv)
{
    if (argc < 2)
    {
        std::cerr << "usage: seq_<kind> <casefile>\n";
        return 2;
    }
    std::ifstream in(argv[1]);
    if (!in)
    {
        std::cerr << "cannot open " << argv[1] << "\n";
        return 2;
    }
    std::string line;
    Config      cfg;
    std::vector<Op> ops;
    std::string id;
    bool        in_case = false;
    while (std::getline(in, line))
    {
        if (line.empty() || line[0] == '#')
            continue;
        std::istringstream ls(line);
        std::string        w;
        ls >> w;
        if (w == "case")
        {
            int kind;
            size_t nu;
            ls >> id >> kind >> cfg.ts >> cfg.vt >> cfg.lf >> cfg.cap >> cfg.ttl_ms >> cfg.tick_ms >> cfg.rnum >> cfg.rk >> nu;
            cfg.universe.clear();
            for (size_t i = 0; i < nu; ++i)
            {
                Key k;
                ls >> k;
                cfg.universe.push_back(k);
            }
            if (kind != KIND)
            {
                std::cerr << "case " << id << " is for kind " << kind << ", this binary is kind " << KIND << "\n";
                return 2;
            }
            ops.clear();
            in_case = true;
        }
        else if (w == "op" || w == "probe")
        {
            if (w == "probe")
            {
                Op o;
                ls >> o.now;
                o.name = "probe";
                ops.push_back(o);
                continue;
            }
            Op o = parse_op(ls);
            ops.push_back(o);
        }
        else if (w == "end")
        {
            if (!in_case)
                continue;
            std::cout << "case " << id << "\n";
            long before = Val::live;
            if (cfg.ts && cfg.vt)
                run_case<Val, thread_safe::yes>(cfg, ops, std::cout);
            else if (cfg.ts && !cfg.vt)
                run_case<int64_t, thread_safe::yes>(cfg, ops, std::cout);
            else if (!cfg.ts && cfg.vt)
                run_case<Val, thread_safe::no>(cfg, ops, std::cout);
            else
                run_case<int64_t, thread_safe::no>(cfg, ops, std::cout);
            // every value handed to the container has ended with it
            std::cout << "end live" << (Val::live - before) << "\n";
            in_case = false;
        }
    }
    return 0;
}
