#pragma once
// common.hpp — shared by seq.cpp and sched.cpp: virtual clock, value types, op parsing, apply().
// Compiled once per container with -DKIND=<n> against /repo/inc as it is now.
// Reads a case file (see gen/generate.py for the grammar), drives the real
// container under a link-time virtual steady_clock, and prints one canonical line
// per operation / probe.  No repository change is needed for any of this.
#include <chrono>
#include <cstdint>
#include <cstdio>
#include <cstdlib>
#include <fstream>
#include <iostream>
#include <optional>
#include <sstream>
#include <string>
#include <tuple>
#include <vector>

#ifdef WB_PRIVATE_PUBLIC
// white-box build: every standard header the library uses is included above / here first, then the
// library's private members are opened for the state dump (harness/wb.cpp); nothing in /repo changes
#include <atomic>
#include <list>
#include <map>
#include <mutex>
#include <numeric>
#include <random>
#include <unordered_map>
#include <utility>
#define private public
#endif
#include "cappuccino/cappuccino.hpp"
#ifdef WB_PRIVATE_PUBLIC
#undef private
#endif

// ---------------------------------------------------------------- virtual clock
namespace vclock
{
int64_t now_ns = 0;
}
namespace std
{
namespace chrono
{
inline namespace _V2
{
steady_clock::time_point steady_clock::now() noexcept
{
    return time_point(duration(vclock::now_ns));
}
} // namespace _V2
} // namespace chrono
} // namespace std

// ---------------------------------------------------------------- value types
struct Val
{
    static long live;
    // optional probe, called from the copy constructor (1) and the move assignment (2): the two pieces of user
    // code the containers run inside their critical sections (harness/excl.cpp parks a thread there)
    static void (*hook)(int);
    int64_t*    p;
    Val() : p(new int64_t(0)) { ++live; }
    Val(int64_t x) : p(new int64_t(x)) { ++live; }
    Val(const Val& o) : p(o.p ? new int64_t(*o.p) : nullptr)
    {
        ++live;
        if (hook)
            hook(1);
    }
    Val(Val&& o) noexcept : p(o.p)
    {
        o.p = nullptr;
        ++live;
    }
    Val& operator=(const Val& o)
    {
        if (this != &o)
        {
            delete p;
            p = o.p ? new int64_t(*o.p) : nullptr;
        }
        return *this;
    }
    Val& operator=(Val&& o) noexcept
    {
        if (this != &o)
        {
            delete p;
            p   = o.p;
            o.p = nullptr;
        }
        if (hook)
            hook(2);
        return *this;
    }
    // equality comparable, like the value types of the project's own tests (a moved-from Val equals nothing)
    bool operator==(const Val& o) const { return p != nullptr && o.p != nullptr && *p == *o.p; }
    bool operator!=(const Val& o) const { return !(*this == o); }
    ~Val()
    {
        delete p;
        --live;
    }
    int64_t get() const { return p ? *p : -999; }
};
long Val::live = 0;
void (*Val::hook)(int) = nullptr;

static inline int64_t vget(const int64_t& x)
{
    return x;
}
static inline int64_t vget(const Val& x)
{
    return x.get();
}

using Key = uint64_t;
using ms  = std::chrono::milliseconds;
using namespace cappuccino;

enum Kind
{
    LRU    = 0,
    MRU    = 1,
    FIFO   = 2,
    RR     = 3,
    LFU    = 4,
    LFUDA  = 5,
    TLRU   = 6,
    UTLRU  = 7,
    UTMAP  = 8,
    UTSET  = 9
};

#ifndef KIND
#error "compile with -DKIND=<0..9>"
#endif
constexpr Kind KD = static_cast<Kind>(KIND);

struct Config
{
    int     ts, vt;
    float   lf;
    size_t  cap;
    int64_t ttl_ms, tick_ms;
    int     rnum, rk;
    std::vector<Key> universe;
};

struct Op
{
    int64_t                                     now;
    std::string                                 name;
    int64_t                                     ttl = 0;
    Key                                         k   = 0;
    int64_t                                     v   = 0;
    int                                         a   = 3;
    int                                         peek = 0;
    std::vector<std::tuple<int64_t, Key, int64_t>> kvs;
    std::vector<Key>                            keys;
};

template<class V, thread_safe ts>
struct Sel
{
    using lru    = lru_cache<Key, V, ts>;
    using mru    = mru_cache<Key, V, ts>;
    using fifo   = fifo_cache<Key, V, ts>;
    using rr     = rr_cache<Key, V, ts>;
    using lfu    = lfu_cache<Key, V, ts>;
    using lfuda  = lfuda_cache<Key, V, ts>;
    using tlru   = tlru_cache<Key, V, ts>;
    using utlru  = utlru_cache<Key, V, ts>;
    using utmap  = ut_map<Key, V, ts>;
    using utset  = ut_set<Key, ts>;
    using type   = std::tuple_element_t<KIND, std::tuple<lru, mru, fifo, rr, lfu, lfuda, tlru, utlru, utmap, utset>>;
};

template<class C>
static C* make(const Config& c)
{
    if constexpr (KD == LFUDA)
    {
        float ratio = static_cast<float>(c.rnum) / static_cast<float>(1u << c.rk);
        return new C(c.cap, ms{c.tick_ms}, ratio, c.lf);
    }
    else if constexpr (KD == UTLRU)
    {
        return new C(ms{c.ttl_ms}, c.cap, c.lf);
    }
    else if constexpr (KD == UTMAP || KD == UTSET)
    {
        return new C(ms{c.ttl_ms});
    }
    else
    {
        return new C(c.cap, c.lf);
    }
}

static allow mk_allow(int a)
{
    return static_cast<allow>(static_cast<uint64_t>(a));
}

template<class V>
static std::string fmt_opt(const std::optional<V>& o)
{
    if (!o.has_value())
        return "-";
    return "v" + std::to_string(vget(o.value()));
}
static std::string fmt_optb(bool b)
{
    return b ? "v1" : "-";
}

// Apply one public call; returns the canonical result string.
template<class C, class V>
static std::string apply(C& c, const Op& o)
{
    vclock::now_ns        = o.now;
    const std::string& n  = o.name;
    std::ostringstream out;
    if (n == "insert")
    {
        bool b;
        if constexpr (KD == TLRU)
            b = c.insert(ms{o.ttl}, o.k, V(o.v), mk_allow(o.a));
        else if constexpr (KD == UTSET)
            b = c.insert(o.k, mk_allow(o.a));
        else
            b = c.insert(o.k, V(o.v), mk_allow(o.a));
        out << "b" << (b ? 1 : 0);
    }
    else if (n == "insert_range" || n == "insert_it")
    {
        size_t r;
        // the range is handed over as an rvalue or as an lvalue (forwarding reference), chosen from the call's content
        // so that a case replays identically
        const bool lv = ((o.kvs.size() * 31 + (o.kvs.empty() ? 0 : (size_t)std::get<1>(o.kvs[0])) + (size_t)o.a) & 1) != 0;
        if constexpr (KD == TLRU)
        {
            std::vector<std::tuple<ms, Key, V>> vec;
            for (auto& [t, k, v] : o.kvs)
                vec.emplace_back(ms{t}, k, V(v));
            r = lv ? c.insert_range(vec, mk_allow(o.a)) : c.insert_range(std::move(vec), mk_allow(o.a));
        }
        else if constexpr (KD == UTSET)
        {
            std::vector<Key> vec;
            for (auto& [t, k, v] : o.kvs)
                vec.push_back(k);
            r = lv ? c.insert_range(vec, mk_allow(o.a)) : c.insert_range(std::move(vec), mk_allow(o.a));
        }
        else
        {
            std::vector<std::pair<Key, V>> vec;
            for (auto& [t, k, v] : o.kvs)
                vec.emplace_back(k, V(v));
            if constexpr (KD == FIFO)
            {
                if (n == "insert_it")
                    r = c.insert(vec.begin(), vec.end(), mk_allow(o.a));
                else
                    r = lv ? c.insert_range(vec, mk_allow(o.a)) : c.insert_range(std::move(vec), mk_allow(o.a));
            }
            else
                r = lv ? c.insert_range(vec, mk_allow(o.a)) : c.insert_range(std::move(vec), mk_allow(o.a));
        }
        out << "n" << r;
    }
    else if (n == "erase")
    {
        bool b = c.erase(o.k);
        out << "b" << (b ? 1 : 0);
    }
    else if (n == "erase_range" || n == "erase_it")
    {
        size_t r;
        if constexpr (KD == FIFO)
        {
            if (n == "erase_it")
                r = c.erase(o.keys.begin(), o.keys.end());
            else
                r = c.erase_range(o.keys);
        }
        else
            r = c.erase_range(o.keys);
        out << "n" << r;
    }
    else if (n == "find")
    {
        if constexpr (KD == LRU || KD == MRU || KD == TLRU || KD == UTLRU)
            out << fmt_opt(c.find(o.k, o.peek ? peek::yes : peek::no));
        else if constexpr (KD == LFU || KD == LFUDA)
            out << fmt_opt(c.find(o.k, o.peek != 0));
        else if constexpr (KD == UTSET)
            out << fmt_optb(c.find(o.k));
        else
            out << fmt_opt(c.find(o.k));
    }
    else if (n == "find_use")
    {
        if constexpr (KD == LFU || KD == LFUDA)
        {
            auto r = c.find_with_use_count(o.k, o.peek != 0);
            if (r.has_value())
                out << "v" << vget(r->first) << ":c" << r->second;
            else
                out << "-";
        }
        else
            out << "unsupported";
    }
    else if (n == "find_range" || n == "find_it")
    {
        out << "L";
        if constexpr (KD == UTSET)
        {
            auto r = c.find_range(o.keys);
            for (auto& [k, b] : r)
                out << " " << k << "=" << fmt_optb(b);
        }
        else
        {
            std::vector<std::pair<Key, std::optional<V>>> r;
            if constexpr (KD == LRU || KD == MRU || KD == TLRU || KD == UTLRU)
                r = c.find_range(o.keys, o.peek ? peek::yes : peek::no);
            else if constexpr (KD == LFU || KD == LFUDA)
                r = c.find_range(o.keys, o.peek != 0);
            else if constexpr (KD == FIFO)
            {
                if (n == "find_it")
                    r = c.find(o.keys.begin(), o.keys.end(), o.keys.size());
                else
                    r = c.find_range(o.keys);
            }
            else
                r = c.find_range(o.keys);
            for (auto& [k, ov] : r)
                out << " " << k << "=" << fmt_opt(ov);
        }
    }
    else if (n == "find_range_fill" || n == "find_fill_it")
    {
        out << "L";
        if constexpr (KD == UTSET)
        {
            // the answers handed in are sometimes already filled (a buffer that is used again): a lookup overwrites them
            const bool pre = ((o.keys.size() + (o.keys.empty() ? 0 : (size_t)o.keys[0])) & 1) != 0;
            std::vector<std::pair<Key, bool>> r;
            for (auto k : o.keys)
                r.emplace_back(k, pre);
            c.find_range_fill(r);
            for (auto& [k, b] : r)
                out << " " << k << "=" << fmt_optb(b);
        }
        else
        {
            // the optionals handed in are sometimes already engaged, holding a value no key was ever written with
            // (a result buffer that is used again): every lookup overwrites its slot, hit or miss
            const bool pre = ((o.keys.size() + (o.keys.empty() ? 0 : (size_t)o.keys[0])) & 1) != 0;
            std::vector<std::pair<Key, std::optional<V>>> r;
            for (auto k : o.keys)
            {
                if (pre)
                    r.emplace_back(k, std::optional<V>{V(-7)});
                else
                    r.emplace_back(k, std::nullopt);
            }
            if constexpr (KD == LRU || KD == MRU || KD == TLRU || KD == UTLRU)
                c.find_range_fill(r, o.peek ? peek::yes : peek::no);
            else if constexpr (KD == LFU || KD == LFUDA)
                c.find_range_fill(r, o.peek != 0);
            else if constexpr (KD == FIFO)
            {
                if (n == "find_fill_it")
                    c.find_range_fill(r.begin(), r.end());
                else
                    c.find_range_fill(r);
            }
            else
                c.find_range_fill(r);
            for (auto& [k, ov] : r)
                out << " " << k << "=" << fmt_opt(ov);
        }
    }
    else if (n == "dyn_age")
    {
        if constexpr (KD == LFUDA)
            out << "n" << c.dynamically_age();
        else
            out << "unsupported";
    }
    else if (n == "update_ttl")
    {
        if constexpr (KD == UTLRU)
        {
            c.update_ttl(ms{o.ttl});
            out << "u";
        }
        else
            out << "unsupported";
    }
    else if (n == "clear")
    {
        if constexpr (KD == UTLRU || KD == UTMAP)
        {
            c.clear();
            out << "u";
        }
        else
            out << "unsupported";
    }
    else if (n == "clean")
    {
        if constexpr (KD == TLRU || KD == UTLRU || KD == UTMAP || KD == UTSET)
            out << "n" << c.clean_expired_values();
        else
            out << "unsupported";
    }
    else if (n == "size")
        out << "n" << c.size();
    else if (n == "empty")
        out << "b" << (c.empty() ? 1 : 0);
    else if (n == "capacity")
    {
        if constexpr (KD == UTMAP || KD == UTSET)
            out << "unsupported";
        else
            out << "n" << c.capacity();
    }
    else
    {
        std::cerr << "unknown op " << n << "\n";
        std::exit(3);
    }
    return out.str();
}

// side-effect free observation of one key on a (throw-away or, for rr, the live) instance
template<class C, class V>
static std::string peek_key(C& c, Key k)
{
    if constexpr (KD == LRU || KD == MRU || KD == TLRU || KD == UTLRU)
        return fmt_opt(c.find(k, peek::yes));
    else if constexpr (KD == LFU || KD == LFUDA)
    {
        auto r = c.find_with_use_count(k, true);
        if (!r.has_value())
            return "-";
        return "v" + std::to_string(vget(r->first)) + ":c" + std::to_string(r->second);
    }
    else if constexpr (KD == UTSET)
        return fmt_optb(c.find(k));
    else
        return fmt_opt(c.find(k));
}


// parse "op <now> <name> args..." (after the leading word has been consumed)
static Op parse_op(std::istringstream& ls)
{
    Op o;
    ls >> o.now >> o.name;
    const std::string& n = o.name;
    if (n == "insert")
        ls >> o.ttl >> o.k >> o.v >> o.a;
    else if (n == "insert_range" || n == "insert_it")
    {
        size_t cnt;
        ls >> o.a >> cnt;
        for (size_t i = 0; i < cnt; ++i)
        {
            int64_t t, v;
            Key     k;
            ls >> t >> k >> v;
            o.kvs.emplace_back(t, k, v);
        }
    }
    else if (n == "erase")
        ls >> o.k;
    else if (n == "erase_range" || n == "erase_it")
    {
        size_t cnt;
        ls >> cnt;
        for (size_t i = 0; i < cnt; ++i)
        {
            Key k;
            ls >> k;
            o.keys.push_back(k);
        }
    }
    else if (n == "find" || n == "find_use")
        ls >> o.k >> o.peek;
    else if (n == "find_range" || n == "find_range_fill" || n == "find_it" || n == "find_fill_it")
    {
        size_t cnt;
        ls >> o.peek >> cnt;
        for (size_t i = 0; i < cnt; ++i)
        {
            Key k;
            ls >> k;
            o.keys.push_back(k);
        }
    }
    else if (n == "update_ttl")
        ls >> o.ttl;
    return o;
}
