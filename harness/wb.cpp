// wb.cpp — WHITE-BOX correspondence harness for the literal (L3) models: built with
// -DWB_PRIVATE_PUBLIC -DKIND=<0|1|2|3|5|6|7|8|9> from /repo/inc as it is now; after every operation it
// dumps the container's real internal structures in a canonical form (list order, partition
// position, counters, each in-use element's stored back-pointers, the index), which the driver
// compares with the state of the extracted literal Coq machine (RrLit / LruLit / FifoLit).
#define WB_PRIVATE_PUBLIC
#include <algorithm>
#include <map>

#include "common.hpp"

using C = typename Sel<int64_t, thread_safe::no>::type;

static std::vector<std::pair<const void*, long>> g_node_ids; // ut_map / ut_set: live list node -> creation number
static long                                      g_next_id = 0;

static std::string dump(C& c, std::vector<const void*>& nodes)
{
    std::ostringstream o;
    o << "W";
#if KIND == 3
    o << " end=" << c.m_open_list_end << " open=";
    for (size_t i = 0; i < c.m_open_list.size(); ++i)
        o << (i ? "," : "") << c.m_open_list[i];
    std::map<Key, size_t> idx(c.m_keyed_elements.begin(), c.m_keyed_elements.end());
    o << " index=";
    bool first = true;
    for (auto& [k, s] : idx)
    {
        o << (first ? "" : ",") << k << ":" << s;
        first = false;
    }
    o << " elems=";
    first = true;
    for (auto& [k, s] : idx)
    {
        auto& e = c.m_elements[s];
        o << (first ? "" : ",") << s << ":" << e.m_keyed_position->first << ":" << e.m_open_list_position << ":" << e.m_value;
        first = false;
    }
#elif KIND == 0 || KIND == 1
#if KIND == 0
    auto& lst = c.m_lru_list;
    auto  end = c.m_lru_end;
#else
    auto& lst = c.m_mru_list;
    auto  end = c.m_mru_end;
#endif
    o << " used=" << c.m_used_size << " list=";
    bool first = true;
    for (auto it = lst.begin(); it != lst.end(); ++it)
    {
        o << (first ? "" : ",") << *it;
        first = false;
    }
    o << " end=";
    if (end == lst.end())
        o << "E";
    else
        o << *end;
    std::map<Key, size_t> idx(c.m_keyed_elements.begin(), c.m_keyed_elements.end());
    o << " index=";
    first = true;
    for (auto& [k, s] : idx)
    {
        o << (first ? "" : ",") << k << ":" << s;
        first = false;
    }
    o << " elems=";
    first = true;
    for (auto& [k, s] : idx)
    {
        auto& e = c.m_elements[s];
#if KIND == 0
        auto p = e.m_lru_position;
#else
        auto p = e.m_mru_position;
#endif
        o << (first ? "" : ",") << s << ":" << e.m_keyed_position->first << ":" << *p << ":" << e.m_value;
        first = false;
    }
#elif KIND == 2
    // list nodes are identified by their position in the freshly constructed list
    auto id = [&](const void* p) { return std::find(nodes.begin(), nodes.end(), p) - nodes.begin(); };
    o << " used=" << c.m_used_size << " list=";
    bool first = true;
    for (auto it = c.m_fifo_list.begin(); it != c.m_fifo_list.end(); ++it)
    {
        o << (first ? "" : ",") << id(&*it);
        first = false;
    }
    std::map<Key, long> idx;
    for (auto& [k, it] : c.m_keyed_elements)
        idx[k] = id(&*it);
    o << " index=";
    first = true;
    for (auto& [k, s] : idx)
    {
        o << (first ? "" : ",") << k << ":" << s;
        first = false;
    }
    o << " cells=";
    first = true;
    for (auto it = c.m_fifo_list.begin(); it != c.m_fifo_list.end(); ++it)
        if (it->m_keyed_position.has_value())
        {
            o << (first ? "" : ",") << id(&*it) << ":" << it->m_keyed_position.value()->first << ":" << it->m_value;
            first = false;
        }
#elif KIND == 4 || KIND == 5
#if KIND == 4
    auto& agelist = c.m_open_list;
#else
    auto& agelist = c.m_dynamic_age_list;
#endif
    auto id = [&](const void* p) { return std::find(nodes.begin(), nodes.end(), p) - nodes.begin(); };
    o << " used=" << c.m_used_size << " list=";
    bool first = true;
    for (auto it = agelist.begin(); it != agelist.end(); ++it)
    {
        o << (first ? "" : ",") << id(&*it);
        first = false;
    }
    o << " end=";
    if (c.m_open_list_end == agelist.end())
        o << "E";
    else
        o << id(&*c.m_open_list_end);
    std::map<Key, long> idx;
    for (auto& [k, it] : c.m_keyed_elements)
        idx[k] = id(&*it);
    o << " index=";
    first = true;
    for (auto& [k, s] : idx)
    {
        o << (first ? "" : ",") << k << ":" << s;
        first = false;
    }
    o << " mm=";
    first = true;
    for (auto& [cnt, it] : c.m_lfu_list)
    {
        o << (first ? "" : ",") << cnt << ":" << id(&*it);
        first = false;
    }
    o << " cells=";
    first = true;
    for (auto it = agelist.begin(); it != c.m_open_list_end; ++it)
    {
        o << (first ? "" : ",") << id(&*it) << ":" << it->m_keyed_position->first << ":" << id(&*(it->m_lfu_position->second)) << ":"
          <<
#if KIND == 4
            0
#else
            it->m_dynamic_age.time_since_epoch().count()
#endif
          << ":" << it->m_value;
        first = false;
    }
#elif KIND == 6 || KIND == 7
    o << " used=" << c.m_used_size;
#if KIND == 7
    o << " ttl=" << c.m_ttl.count();
#endif
    o << " list=";
    bool first = true;
    for (auto it = c.m_lru_list.begin(); it != c.m_lru_list.end(); ++it)
    {
        o << (first ? "" : ",") << *it;
        first = false;
    }
    o << " end=";
    if (c.m_lru_end == c.m_lru_list.end())
        o << "E";
    else
        o << *c.m_lru_end;
    std::map<Key, size_t> idx(c.m_keyed_elements.begin(), c.m_keyed_elements.end());
    o << " index=";
    first = true;
    for (auto& [k, s] : idx)
    {
        o << (first ? "" : ",") << k << ":" << s;
        first = false;
    }
    o << " ord=";
    first = true;
#if KIND == 6
    for (auto& [tp, s] : c.m_ttl_list)
    {
        o << (first ? "" : ",") << tp.time_since_epoch().count() << ":" << s;
        first = false;
    }
#else
    for (auto s : c.m_ttl_list)
    {
        o << (first ? "" : ",") << 0 << ":" << s;
        first = false;
    }
#endif
    o << " elems=";
    first = true;
    for (auto& [k, s] : idx)
    {
        auto& e = c.m_elements[s];
#if KIND == 6
        size_t tslot = e.m_ttl_position->second;
#else
        size_t tslot = *e.m_ttl_position;
#endif
        o << (first ? "" : ",") << s << ":" << e.m_keyed_position->first << ":" << e.m_expire_time.time_since_epoch().count() << ":"
          << *e.m_lru_position << ":" << tslot << ":" << e.m_value;
        first = false;
    }
#elif KIND == 8 || KIND == 9
    // list nodes are created and destroyed dynamically (and addresses are re-used): name each node by its
    // current position in the list
    std::vector<const void*> present;
    for (auto it = c.m_ttl_list.begin(); it != c.m_ttl_list.end(); ++it)
        present.push_back(&*it);
    auto id = [&](const void* p) { return static_cast<long>(std::find(present.begin(), present.end(), p) - present.begin()); };
    o << " size=" << c.m_keyed_elements.size() << " list=";
    bool first = true;
    for (auto it = c.m_ttl_list.begin(); it != c.m_ttl_list.end(); ++it)
    {
        o << (first ? "" : ",") << id(&*it);
        first = false;
    }
    o << " map=";
    first = true;
    for (auto& [k, ke] : c.m_keyed_elements)
    {
#if KIND == 8
        o << (first ? "" : ",") << k << ":" << ke.m_value << ":" << id(&*ke.m_ttl_position);
#else
        o << (first ? "" : ",") << k << ":" << 1 << ":" << id(&*ke.m_ttl_position);
#endif
        first = false;
    }
    o << " nodes=";
    first = true;
    for (auto it = c.m_ttl_list.begin(); it != c.m_ttl_list.end(); ++it)
    {
        o << (first ? "" : ",") << id(&*it) << ":" << it->m_expire_time.time_since_epoch().count() << ":" << it->m_keyed_elements_position->first;
        first = false;
    }
#endif
    return o.str();
}

int main(int argc, char** argv)
{
    if (argc < 2)
        return 2;
    std::ifstream   in(argv[1]);
    std::string     line, id;
    Config          cfg;
    std::vector<Op> ops;
    while (std::getline(in, line))
    {
        if (line.empty() || line[0] == '#')
            continue;
        std::istringstream ls(line);
        std::string        w;
        ls >> w;
        if (w == "case")
        {
            int    kind;
            size_t nu;
            ls >> id >> kind >> cfg.ts >> cfg.vt >> cfg.lf >> cfg.cap >> cfg.ttl_ms >> cfg.tick_ms >> cfg.rnum >> cfg.rk >> nu;
            cfg.universe.clear();
            for (size_t i = 0; i < nu; ++i)
            {
                Key k;
                ls >> k;
                cfg.universe.push_back(k);
            }
            ops.clear();
        }
        else if (w == "op")
            ops.push_back(parse_op(ls));
        else if (w == "end")
        {
            std::cout << "case " << id << "\n";
            C*                       c = make<C>(cfg);
            std::vector<const void*> nodes;
#if KIND == 2
            for (auto it = c->m_fifo_list.begin(); it != c->m_fifo_list.end(); ++it)
                nodes.push_back(&*it);
#elif KIND == 4
            for (auto it = c->m_open_list.begin(); it != c->m_open_list.end(); ++it)
                nodes.push_back(&*it);
#elif KIND == 5
            for (auto it = c->m_dynamic_age_list.begin(); it != c->m_dynamic_age_list.end(); ++it)
                nodes.push_back(&*it);
#endif
            g_node_ids.clear();
            g_next_id = 0;
            for (const Op& o : ops)
            {
                std::cout << apply<C, int64_t>(*c, o) << "\n";
                std::cout << dump(*c, nodes) << "\n";
            }
            delete c;
            std::cout << "end\n";
        }
    }
    return 0;
}
