// wb.cpp — WHITE-BOX correspondence harness for the literal (L3) models: built with
// -DWB_PRIVATE_PUBLIC -DKIND=<0|1|2|3> from /repo/inc as it is now; after every operation it
// dumps the container's real internal structures in a canonical form (list order, partition
// position, counters, each in-use element's stored back-pointers, the index), which the driver
// compares with the state of the extracted literal Coq machine (RrLit / LruLit / FifoLit).
#define WB_PRIVATE_PUBLIC
#include <algorithm>
#include <map>

#include "common.hpp"

using C = typename Sel<int64_t, thread_safe::no>::type;

static std::string dump(C& c, std::vector<const void*>& nodes)
{
    std::ostringstream o;
    o << "W";
#if KIND == 3
    o << " end=" << c.m_open_list_end << " open=";
    for (size_t i = 0; i < c.m_open_list.size(); ++i)
        o << (i ? "," : "") << c.m_open_list[i];
    std::map<Key, size_t> idx(c.m_keyed_elements.begin(), c.m_keyed_elements.end());
    o << " index=";
    bool first = true;
    for (auto& [k, s] : idx)
    {
        o << (first ? "" : ",") << k << ":" << s;
        first = false;
    }
    o << " elems=";
    first = true;
    for (auto& [k, s] : idx)
    {
        auto& e = c.m_elements[s];
        o << (first ? "" : ",") << s << ":" << e.m_keyed_position->first << ":" << e.m_open_list_position << ":" << e.m_value;
        first = false;
    }
#elif KIND == 0 || KIND == 1
#if KIND == 0
    auto& lst = c.m_lru_list;
    auto  end = c.m_lru_end;
#else
    auto& lst = c.m_mru_list;
    auto  end = c.m_mru_end;
#endif
    o << " used=" << c.m_used_size << " list=";
    bool first = true;
    for (auto it = lst.begin(); it != lst.end(); ++it)
    {
        o << (first ? "" : ",") << *it;
        first = false;
    }
    o << " end=";
    if (end == lst.end())
        o << "E";
    else
        o << *end;
    std::map<Key, size_t> idx(c.m_keyed_elements.begin(), c.m_keyed_elements.end());
    o << " index=";
    first = true;
    for (auto& [k, s] : idx)
    {
        o << (first ? "" : ",") << k << ":" << s;
        first = false;
    }
    o << " elems=";
    first = true;
    for (auto& [k, s] : idx)
    {
        auto& e = c.m_elements[s];
#if KIND == 0
        auto p = e.m_lru_position;
#else
        auto p = e.m_mru_position;
#endif
        o << (first ? "" : ",") << s << ":" << e.m_keyed_position->first << ":" << *p << ":" << e.m_value;
        first = false;
    }
#elif KIND == 2
    // list nodes are identified by their position in the freshly constructed list
    auto id = [&](const void* p) { return std::find(nodes.begin(), nodes.end(), p) - nodes.begin(); };
    o << " used=" << c.m_used_size << " list=";
    bool first = true;
    for (auto it = c.m_fifo_list.begin(); it != c.m_fifo_list.end(); ++it)
    {
        o << (first ? "" : ",") << id(&*it);
        first = false;
    }
    std::map<Key, long> idx;
    for (auto& [k, it] : c.m_keyed_elements)
        idx[k] = id(&*it);
    o << " index=";
    first = true;
    for (auto& [k, s] : idx)
    {
        o << (first ? "" : ",") << k << ":" << s;
        first = false;
    }
    o << " cells=";
    first = true;
    for (auto it = c.m_fifo_list.begin(); it != c.m_fifo_list.end(); ++it)
        if (it->m_keyed_position.has_value())
        {
            o << (first ? "" : ",") << id(&*it) << ":" << it->m_keyed_position.value()->first << ":" << it->m_value;
            first = false;
        }
#endif
    return o.str();
}

int main(int argc, char** argv)
{
    if (argc < 2)
        return 2;
    std::ifstream   in(argv[1]);
    std::string     line, id;
    Config          cfg;
    std::vector<Op> ops;
    while (std::getline(in, line))
    {
        if (line.empty() || line[0] == '#')
            continue;
        std::istringstream ls(line);
        std::string        w;
        ls >> w;
        if (w == "case")
        {
            int    kind;
            size_t nu;
            ls >> id >> kind >> cfg.ts >> cfg.vt >> cfg.lf >> cfg.cap >> cfg.ttl_ms >> cfg.tick_ms >> cfg.rnum >> cfg.rk >> nu;
            cfg.universe.clear();
            for (size_t i = 0; i < nu; ++i)
            {
                Key k;
                ls >> k;
                cfg.universe.push_back(k);
            }
            ops.clear();
        }
        else if (w == "op")
            ops.push_back(parse_op(ls));
        else if (w == "end")
        {
            std::cout << "case " << id << "\n";
            C*                       c = make<C>(cfg);
            std::vector<const void*> nodes;
#if KIND == 2
            for (auto it = c->m_fifo_list.begin(); it != c->m_fifo_list.end(); ++it)
                nodes.push_back(&*it);
#endif
            for (const Op& o : ops)
            {
                std::cout << apply<C, int64_t>(*c, o) << "\n";
                std::cout << dump(*c, nodes) << "\n";
            }
            delete c;
            std::cout << "end\n";
        }
    }
    return 0;
}
