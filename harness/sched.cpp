// sched.cpp — concurrent correspondence harness (DESIGN.md §2.2c), built with
// -DCAPPUCCINO_VERIF_HOOKS -DKIND=<n> from /repo/inc as it is now.
// Real threads run small programs of public calls on ONE container (thread_safe::yes) under
// a controller that lets exactly one thread run at a time and hands control over only at
//   (a) the start of a call, and (b) the hook just before cappuccino::mutex::lock().
// All interleavings at that granularity are enumerated (stateless DFS over the choice
// points) and for each one the history is printed:
//   run <choices> | <tid>.<op#> inv=<n> ret=<n> <result> ; ... | final <probe>
// tools/sched_check.py checks every distinct history for linearizability against the
// extracted sequential model.
#include <condition_variable>
#include <mutex>
#include <thread>

#include "common.hpp"

// ---------------------------------------------------------------- the controller
namespace ctl
{
std::mutex              m;
std::condition_variable cv;
int                     turn = -2; // -1: controller, >=0: that thread
std::vector<bool>       finished;
thread_local int        my_tid = -1;
int                     seq    = 0;
bool                    dead   = false;

void yield()
{
    std::unique_lock lk(m);
    turn = -1;
    cv.notify_all();
    cv.wait(lk, [] { return turn == my_tid; });
}
} // namespace ctl

extern "C" void cappuccino_verif_before_lock(const void*)
{
    if (ctl::my_tid >= 0)
        ctl::yield();
}
namespace ctl
{
bool yield_after_unlock = false; // per scenario: also a scheduling point right after mutex::unlock()
}
extern "C" void cappuccino_verif_after_unlock(const void*)
{
    if (ctl::my_tid >= 0 && ctl::yield_after_unlock)
        ctl::yield();
}

struct Rec
{
    int         inv = 0, ret = 0;
    std::string res;
};

struct Scenario
{
    std::string                  id;
    Config                       cfg;
    int64_t                      now = 0;
    std::vector<Op>              pre;
    std::vector<std::vector<Op>> progs;
    bool                         unlock_yield = false;
    std::vector<Op>              post; // sequential calls after all threads finished, each at its own clock reading
};

using C = typename Sel<int64_t, thread_safe::yes>::type;

// one controlled execution following `choices` then the default policy (lowest runnable id);
// returns the (chosen, runnable) trace through out parameters
static bool run_once(const Scenario& sc, const std::vector<int>& choices, std::vector<int>& chosen,
                     std::vector<std::vector<int>>& runnable, std::string& line)
{
    vclock::now_ns          = sc.now;
    ctl::yield_after_unlock = sc.unlock_yield;
    C* c                    = make<C>(sc.cfg);
    for (const Op& o : sc.pre)
        (void)apply<C, int64_t>(*c, o);
    const int nt = static_cast<int>(sc.progs.size());
    std::vector<std::vector<Rec>> recs(nt);
    for (int t = 0; t < nt; ++t)
        recs[t].resize(sc.progs[t].size());
    ctl::finished.assign(nt, false);
    ctl::seq  = 0;
    ctl::turn = -1;
    ctl::dead = false;
    std::vector<std::thread> ths;
    for (int t = 0; t < nt; ++t)
    {
        ths.emplace_back([&, t] {
            ctl::my_tid = t;
            {
                std::unique_lock lk(ctl::m);
                ctl::cv.wait(lk, [t] { return ctl::turn == t; });
            }
            for (size_t j = 0; j < sc.progs[t].size(); ++j)
            {
                if (j > 0)
                    ctl::yield(); // the start of a call is a scheduling point
                recs[t][j].inv = ++ctl::seq;
                Op o           = sc.progs[t][j];
                o.now          = sc.now;
                recs[t][j].res = apply<C, int64_t>(*c, o);
                recs[t][j].ret = ++ctl::seq;
            }
            std::unique_lock lk(ctl::m);
            ctl::finished[t] = true;
            ctl::turn        = -1;
            ctl::cv.notify_all();
        });
    }
    size_t step = 0;
    chosen.clear();
    runnable.clear();
    bool ok = true;
    while (true)
    {
        std::vector<int> rs;
        for (int t = 0; t < nt; ++t)
            if (!ctl::finished[t])
                rs.push_back(t);
        if (rs.empty())
            break;
        int pick = rs[0];
        if (step < choices.size())
        {
            pick = choices[step];
            bool found = false;
            for (int r : rs)
                found = found || r == pick;
            if (!found)
                pick = rs[0];
        }
        chosen.push_back(pick);
        runnable.push_back(rs);
        ++step;
        std::unique_lock lk(ctl::m);
        ctl::turn = pick;
        ctl::cv.notify_all();
        if (!ctl::cv.wait_for(lk, std::chrono::seconds(5), [] { return ctl::turn == -1; }))
        {
            // a thread is blocked on the real mutex while another is parked holding it, or a call hangs
            ok = false;
            break;
        }
    }
    std::ostringstream out;
    out << "run";
    for (int x : chosen)
        out << " " << x;
    out << " |";
    if (!ok)
    {
        out << " DEADLOCK-or-hang";
        line = out.str();
        std::cout << line << std::endl;
        std::_Exit(3); // threads are stuck: cannot join
    }
    for (auto& th : ths)
        th.join();
    for (int t = 0; t < nt; ++t)
        for (size_t j = 0; j < recs[t].size(); ++j)
            out << " " << t << "." << j << " inv=" << recs[t][j].inv << " ret=" << recs[t][j].ret << " " << recs[t][j].res << " ;";
    // sequential epilogue (single-threaded now): later lookups that make stored deadlines observable
    ctl::my_tid = -1;
    for (size_t j = 0; j < sc.post.size(); ++j)
        out << " post." << j << " inv=0 ret=0 " << apply<C, int64_t>(*c, sc.post[j]) << " ;";
    vclock::now_ns = sc.post.empty() ? sc.now : sc.post.back().now;
    out << " | final s" << c->size();
    for (Key k : sc.cfg.universe)
        out << " " << k << "=" << peek_key<C, int64_t>(*c, k);
    delete c;
    line = out.str();
    return true;
}

static void explore(const Scenario& sc, size_t max_runs)
{
    std::vector<std::vector<int>> work{{}};
    size_t                        runs = 0;
    std::cout << "scenario " << sc.id << "\n";
    while (!work.empty() && runs < max_runs)
    {
        std::vector<int> prefix = work.back();
        work.pop_back();
        std::vector<int>              chosen;
        std::vector<std::vector<int>> runnable;
        std::string                   line;
        run_once(sc, prefix, chosen, runnable, line);
        std::cout << line << "\n";
        ++runs;
        for (size_t i = prefix.size(); i < chosen.size(); ++i)
            for (int alt : runnable[i])
                if (alt > chosen[i])
                {
                    std::vector<int> p(chosen.begin(), chosen.begin() + static_cast<long>(i));
                    p.push_back(alt);
                    work.push_back(p);
                }
    }
    std::cout << "endscenario " << sc.id << " runs=" << runs << (work.empty() ? " exhaustive" : " truncated") << "\n";
}

int main(int argc, char** argv)
{
    if (argc < 2)
    {
        std::cerr << "usage: sched_<kind> <scenariofile> [max_runs]\n";
        return 2;
    }
    size_t        max_runs = argc > 2 ? static_cast<size_t>(atol(argv[2])) : 5000;
    std::ifstream in(argv[1]);
    std::string   line;
    Scenario      sc;
    while (std::getline(in, line))
    {
        if (line.empty() || line[0] == '#')
            continue;
        std::istringstream ls(line);
        std::string        w;
        ls >> w;
        if (w == "scenario")
        {
            sc = Scenario{};
            int    kind;
            size_t nu;
            ls >> sc.id >> kind >> sc.cfg.cap >> sc.cfg.ttl_ms >> sc.cfg.tick_ms >> sc.cfg.rnum >> sc.cfg.rk >> sc.now >> nu;
            sc.cfg.ts = 1;
            sc.cfg.vt = 0;
            sc.cfg.lf = 1.0f;
            for (size_t i = 0; i < nu; ++i)
            {
                Key k;
                ls >> k;
                sc.cfg.universe.push_back(k);
            }
            if (kind != KIND)
            {
                std::cerr << "scenario for kind " << kind << " given to binary of kind " << KIND << "\n";
                return 2;
            }
        }
        else if (w == "pre")
        {
            std::string opw;
            ls >> opw; // "op"
            sc.pre.push_back(parse_op(ls));
        }
        else if (w == "unlockyield")
        {
            int v;
            ls >> v;
            sc.unlock_yield = v != 0;
        }
        else if (w == "post")
        {
            std::string opw;
            ls >> opw;
            sc.post.push_back(parse_op(ls));
        }
        else if (w == "thread")
        {
            size_t t;
            std::string opw;
            ls >> t >> opw;
            if (sc.progs.size() <= t)
                sc.progs.resize(t + 1);
            sc.progs[t].push_back(parse_op(ls));
        }
        else if (w == "end")
        {
            explore(sc, max_runs);
        }
    }
    return 0;
}
