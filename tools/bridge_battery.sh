#!/bin/bash
# bridge_battery.sh [kinds...] — semantics-preserving rewrites of the headers (scratch copies), and whether the
# source-translation bridges (tie g) still compile against the re-translated source.  A bridge that breaks here would
# raise `no-failing-input-found` on a harmless edit of that kind.
cd "$(dirname "$0")/.."
REPO_SRC=${BATTERY_REPO:-/repo}
declare -A T
T[inc]='s/^\( *\)++m_used_size;/\1m_used_size += 1;/'
T[dec]='s/^\( *\)--m_used_size;/\1m_used_size -= 1;/'
T[post]='s/^\( *\)++m_used_size;/\1m_used_size++;/'
T[ne0]='s/if (m_used_size > 0)/if (m_used_size != 0)/'
T[ren]='s/\bkeyed_position\b/kpos/g'
T[flip]='s/if (m_used_size >= m_elements.size())/if (m_elements.size() <= m_used_size)/'
T[cnt]='s/^\( *\)++\(inserted\|deleted_elements\|deleted\);/\1\2 += 1;/'
T[neq]='s/if (keyed_position != m_keyed_elements.end())/if (m_keyed_elements.end() != keyed_position)/'
T[pk]='s/if (peek == peek::no)/if (peek != peek::yes)/'
for t in ${BATTERY_TRANSFORMS:-inc dec post ne0 ren flip cnt neq pk}; do
  [ -n "${T[$t]:-}" ] || continue        # BATTERY_TRANSFORMS=none: only the refactorings
  r=/tmp/bat_$$_$t; rm -rf $r; mkdir -p $r/repo $r/build; cp -r $REPO_SRC/inc $REPO_SRC/src $r/repo/
  changed=""
  for h in $r/repo/inc/cappuccino/*_cache.hpp $r/repo/inc/cappuccino/ut_map.hpp $r/repo/inc/cappuccino/ut_set.hpp; do
    sed -i "${T[$t]}" $h
    cmp -s $h $REPO_SRC/inc/cappuccino/$(basename $h) || changed="$changed $(basename $h .hpp)"
  done
  out=$(VERIF_REPO=$r/repo VERIF_BUILD=$r/build python3 tools/gen_check.py "$@" 2>&1 | awk '$2=="ok"||$2=="BROKEN"{print $1"="$2}' | tr '\n' ' ')
  echo "transform=$t changed:[$changed ] -> $out"
  rm -rf $r
done
# realistic behaviour-preserving refactorings written by independent agents (harmless/<id>/patch.diff)
for pd in harmless/*/patch.diff; do
  [ -f "$pd" ] || continue
  id=$(basename $(dirname $pd))
  # BATTERY_ONLY="R3 R17": only these refactorings (e.g. to run the battery in parallel shards)
  if [ -n "${BATTERY_ONLY:-}" ]; then case " $BATTERY_ONLY " in *" $id "*) ;; *) continue;; esac; fi
  r=/tmp/bat_$$_$id; rm -rf $r; mkdir -p $r/repo $r/build; cp -r $REPO_SRC/inc $REPO_SRC/src $r/repo/
  (cd $r/repo && patch -p1 -s < "$OLDPWD/$pd") || { echo "refactoring=$id patch-failed"; rm -rf $r; continue; }
  out=$(VERIF_REPO=$r/repo VERIF_BUILD=$r/build python3 tools/gen_check.py "$@" 2>&1 | awk '$2=="ok"||$2=="BROKEN"{print $1"="$2}' | tr '\n' ' ')
  echo "refactoring=$id files:[ $(grep '^+++ ' $pd | sed 's#.*/##' | tr '\n' ' ')] -> $out"
  rm -rf $r
done
