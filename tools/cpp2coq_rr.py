"""cpp2coq_rr.py — family module of tools/cpp2coq.py for cappuccino::rr_cache.

State: `with_rng (rrl K V)` (coq/GenPrims.v): the state record of the literal machine RrLit.v plus the
member m_mt, the random engine, modelled as the list of the draws it will hand out.  The accessors
x_* / setters set_x_* emitted in front of the methods only select / replace one component.

Rules added to the base table (C++ construct -> primitive):
  m_open_list[i]           as a value                    -> vget "m_open_list[]" (x_open s) i      (bounds)
  a - b                    on size_t, as a value         -> usub a b                               (wrap reported)
  std::swap(v[i], v[j])    v the same vector<size_t> member -> vswap "v[]" v i j, written back to the member
  std::uniform_int_distribution<size_t> d{a, b}          -> uniform_dist a b                       (requires a <= b)
  ++m / --m / m++ / m--    m a size_t member, as a value -> the state update of the statement rule (-- at 0 reported),
                                                            then the new (pre) resp. the old (post) content of m
  m_open_list[i] = x       as a statement                -> x, then i, then vset "m_open_list[]" (x_open s) i x, written back
  d(m_mt)                                                -> rng_draw d (x_rnd s): head of the draw list, which must
                                                            lie in [a, b]; the member m_mt becomes the tail
(reading / assigning an element field of kind nat, e.m_open_list_position, is in the base table.)
"""
import cpp2coq
from cpp2coq import Unsupported

INST = '''template class cappuccino::%(cls)s<KeyT, ValT, cappuccino::thread_safe::yes>;
using C = cappuccino::%(cls)s<KeyT, ValT, cappuccino::thread_safe::yes>;
void use_all(C& c) {
  std::vector<std::pair<KeyT, ValT>> kv; c.insert_range(std::move(kv), cappuccino::allow::insert_or_update);
  std::vector<KeyT> ks; c.erase_range(ks); c.find_range(ks);
  std::vector<std::pair<KeyT, std::optional<ValT>>> fill; c.find_range_fill(fill);
}'''

cpp2coq.SCHEMA["rr_cache"] = dict(
    ctor=True, elem_default="{| e_keyed := None; e_pos := 0; e_val := None |}",
    # the engine is seeded from std::random_device: the draws are unconstrained (the theorems quantify over every
    # draw list), so the two members are not part of the initial state
    ctor_ignore=["m_random_device", "m_mt"], ctor_const={"x_rnd": "[]"},
    module="GenRr", requires=["Capp.Base", "Capp.Rr", "Capp.RrLit"], inst=INST,
    state="with_rng (rrl K V)", state_args="", elem="relem", elem_args="K V", cap="x_cap",
    # (accessor of the generated file, C++ member, kind, component of the literal record / of with_rng)
    fields=[("x_cap", None, "cap"), ("x_elems", "m_elements", "vec"), ("x_index", "m_keyed_elements", "umap"),
            ("x_open", "m_open_list", "natvec"), ("x_end", "m_open_list_end", "nat"), ("x_rnd", "m_mt", "rng")],
    lit_fields=[("x_cap", "l_cap"), ("x_elems", "l_elems"), ("x_index", "l_index"), ("x_open", "l_open"), ("x_end", "l_end")],
    rng_field="x_rnd",
    elem_fields=[("e_keyed", "m_keyed_position", "mit"), ("e_pos", "m_open_list_position", "nat"), ("e_val", "m_value", "optval")],
    methods=["do_erase", "do_prune", "do_insert", "do_update", "do_insert_update", "do_find",
             "insert", "insert_range", "erase", "erase_range", "find", "find_range", "find_range_fill",
             "empty", "size", "capacity"],
)


class Ext(cpp2coq.Tr):
    COQTY = dict(cpp2coq.Tr.COQTY, dist="(nat * nat)")

    def state_prelude(self):
        sc = self.sc
        ty = "%s %s" % (sc["state"], sc["state_args"])
        out = []
        for x, l in sc["lit_fields"]:
            out.append("Definition %s (s : %s) := %s (rs_st s)." % (x, ty, l))
        out.append("Definition %s (s : %s) := rs_rng s." % (sc["rng_field"], ty))
        for x, _ in sc["lit_fields"]:
            rec = "; ".join("%s := %s" % (l, "x" if y == x else "%s (rs_st s)" % l) for y, l in sc["lit_fields"])
            out.append("Definition set_%s (s : %s) x : %s := {| rs_st := {| %s |}; rs_rng := rs_rng s |}." % (x, ty, ty, rec))
        out.append("Definition set_%s (s : %s) x : %s := {| rs_st := rs_st s; rs_rng := x |}." % (sc["rng_field"], ty, ty))
        return out

    def ctor_record(self, F, params):
        rec = "; ".join("%s := %s" % (l, F[x]) for x, l in self.sc["lit_fields"])
        return "Definition g_init %s : rrl K V := {| %s |}." % (" ".join(params), rec)

    def akind_ext(self, t, param):
        if t.startswith("std::uniform_int_distribution<"):
            if t != "std::uniform_int_distribution<size_t>" and t != "std::uniform_int_distribution<unsigned long>":
                raise Unsupported("distribution type %r" % t)
            return "dist"
        if t in ("__gnu_cxx::__alloc_traits<std::allocator<unsigned long>, unsigned long>::value_type",
                 "std::vector<unsigned long>::value_type", "std::vector<size_t>::value_type"):
            return "nat"           # `auto x = v[i]` on a vector<size_t>: the element type, size_t
        return None

    def natvec_elem(self, c, st, env):
        """c = v[i] with v a vector<size_t> member: (binds, member name, vector term, index term), or None"""
        if c["k"] == "op" and c["n"] == "operator[]" and c["a"][0]["k"] == "field" \
                and self.f_by_cpp.get(c["a"][0]["n"], (None, None))[1] == "natvec":
            b0, t0, _ = self.E(c["a"][0], st, env)
            b1, t1, k1 = self.E(c["a"][1], st, env)
            if k1 != "nat":
                raise Unsupported("index of kind %s into %s" % (k1, c["a"][0]["n"]))
            return b0 + b1, c["a"][0]["n"], t0, t1
        return None

    def steps_member(self, c):
        """does the expression contain ++/-- of a member"""
        if c["k"] == "un" and c["n"] in ("pre++", "post++", "pre--", "post--") and c["a"][0]["k"] == "field":
            return True
        return any(self.steps_member(x) for x in c["a"])

    def E_ext(self, c, st, env):
        k = c["k"]
        if k == "un" and c["n"] in ("pre++", "post++", "pre--", "post--") and c["a"][0]["k"] == "field" \
                and self.f_by_cpp.get(c["a"][0]["n"], (None, None))[1] == "nat":
            # ++m / --m / m++ / m-- on a size_t member used as a VALUE: the state update is the one of the statement
            # rule of the base table (-- at 0 reported); the value is the content after (pre) resp. before (post) it
            coq, before = self.f_by_cpp[c["a"][0]["n"]][0], st[0]
            b = self.X(c, st, env)
            x = self.fresh("n")
            return b + ["let %s := (%s %s) in" % (x, coq, st[0] if c["n"].startswith("pre") else before)], x, "nat"
        if k == "op" and c["n"] == "operator[]":
            r = self.natvec_elem(c, st, env)
            if r is not None:
                b, name, vec, i = r
                x = self.fresh("n")
                return b + ["do %s <- vget \"%s[]\" %s %s;" % (x, name, vec, i)], x, "nat"
            return None
        if k == "bin" and c["n"] == "-":
            b1, t1, k1 = self.E(c["a"][0], st, env)
            b2, t2, k2 = self.E(c["a"][1], st, env)
            if (k1, k2) != ("nat", "nat"):
                raise Unsupported("subtraction on %s, %s" % (k1, k2))
            x = self.fresh("d")
            return b1 + b2 + ["do %s <- usub %s %s;" % (x, t1, t2)], x, "nat"
        if k == "construct" and c["t"].replace("const ", "").startswith("std::uniform_int_distribution<"):
            if self.akind(c["t"]) != "dist" or len(c["a"]) != 2:
                raise Unsupported("construction of %s with %d arguments" % (c["t"], len(c["a"])))
            b1, t1, k1 = self.E(c["a"][0], st, env)
            b2, t2, k2 = self.E(c["a"][1], st, env)
            if (k1, k2) != ("nat", "nat"):
                raise Unsupported("distribution bounds of kind %s, %s" % (k1, k2))
            x = self.fresh("dist")
            return b1 + b2 + ["do %s <- uniform_dist %s %s;" % (x, t1, t2)], x, "dist"
        if k == "op" and c["n"] == "operator()" and len(c["a"]) == 2:
            b1, t1, k1 = self.E(c["a"][0], st, env)
            if k1 != "dist":
                raise Unsupported("operator() on %s" % k1)
            g = c["a"][1]
            if g["k"] != "field" or self.f_by_cpp.get(g["n"], (None, None))[1] != "rng":
                raise Unsupported("distribution applied to %s" % cpp2coq.show(g))
            coq = self.f_by_cpp[g["n"]][0]
            x, r, rest, ns = self.fresh("dr"), self.fresh("r"), self.fresh("g"), self.fresh("s")
            b = b1 + ["do %s <- rng_draw %s (%s %s);" % (x, t1, coq, st[0]),
                      "let '(%s, %s) := %s in" % (r, rest, x),
                      "let %s := set_%s %s %s in" % (ns, coq, st[0], rest)]
            st[0] = ns
            return b, r, "nat"
        return None

    def X_ext(self, c, st, env):
        if c["k"] == "bin" and c["n"] == "=" and len(c["a"]) == 2:
            lhs, rhs = c["a"]
            if lhs["k"] == "op" and lhs["n"] == "operator[]" and lhs["a"][0]["k"] == "field" \
                    and self.f_by_cpp.get(lhs["a"][0]["n"], (None, None))[1] == "natvec":
                # v[i] = x on a vector<size_t> member: the right operand first (C++17), then the index, then the
                # store through the reference, which must be in range
                b, t, kd = self.E(rhs, st, env)
                if kd != "nat":
                    raise Unsupported("assignment of %s to an element of %s" % (kd, lhs["a"][0]["n"]))
                bl, name, vec, i = self.natvec_elem(lhs, st, env)
                coq = self.f_by_cpp[name][0]
                x, ns = self.fresh("v"), self.fresh("s")
                out = b + bl + ["do %s <- vset \"%s[]\" %s %s %s;" % (x, name, vec, i, t),
                                "let %s := set_%s %s %s in" % (ns, coq, st[0], x)]
                st[0] = ns
                return out
            if self.steps_member(rhs) and not (lhs["k"] == "member" and lhs["a"][0]["k"] == "ref"):
                # the base rule evaluates the left operand first, C++17 the right one: only accepted when the left
                # operand is a field of a named reference, whose evaluation does nothing
                raise Unsupported("assignment with ++/-- of a member on the right and %s on the left" % cpp2coq.show(lhs)[:120])
        if c["k"] == "call" and c["n"] == "swap" and len(c["a"]) == 2:
            r1 = self.natvec_elem(c["a"][0], st, env)
            r2 = self.natvec_elem(c["a"][1], st, env)
            if r1 is None or r2 is None or r1[1] != r2[1]:
                raise Unsupported("std::swap of %s" % cpp2coq.show(c)[:200])
            coq = self.f_by_cpp[r1[1]][0]
            x, ns = self.fresh("v"), self.fresh("s")
            out = r1[0] + r2[0] + ["do %s <- vswap \"%s[]\" (%s %s) %s %s;" % (x, r1[1], coq, st[0], r1[3], r2[3]),
                                   "let %s := set_%s %s %s in" % (ns, coq, st[0], x)]
            st[0] = ns
            return out
        return None
