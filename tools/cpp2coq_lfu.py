"""cpp2coq_lfu.py — family module of cpp2coq.py for cappuccino::lfu_cache.

State record: lfdl / dcell of coq/LfudaLit.v (the literal machine of lfuda_cache; lfu_cache is its
instance da = false; the fields dl_tick, dl_rnum, dl_rk and dc_age have no counterpart in
lfu_cache.hpp and are never read or written by the generated code).

What is new w.r.t. the base table (lru/mru):
  - std::list<element>: the element lives in the list node.  `*it` on a list iterator yields the
    element (kind eref = the node identity, l_deref: UB for end() / a node not in the list);
    the fields of the element of node n are read / written in cell n of dl_cells.
  - m_keyed_elements maps keys to LIST ITERATORS: `it->second` is the list iterator (It n);
    emplace(key, list iterator) stores the node (it_node: end() is not representable, UB).
  - m_lfu_list, std::multimap<size_t, list iterator>: iterators are `option nat` (the list node
    of the pair; None = end()/singular): begin(), it->first, it->second, emplace(count, list
    iterator) (at the upper bound of count, returns the iterator of the new pair),
    erase(iterator).  `*it` is the pair of the node (kind mmref = the node; mm_second: UB for end() / an
    erased node); `const auto& p = *it` names it, p.first / p.second read through it when they are
    evaluated (mm_deref / mm_second of that node); `const auto [c, pos] = *it` (by value) copies both
    components into locals at the declaration.
  - size_t + size_t, std::list::size(), std::make_pair(value cell, count) converted to
    std::optional<std::pair<V, size_t>>, the empty optional of that type.
"""
import cpp2coq
from cpp2coq import Unsupported

INST_LFU = '''template class cappuccino::%(cls)s<KeyT, ValT, cappuccino::thread_safe::yes>;
using C = cappuccino::%(cls)s<KeyT, ValT, cappuccino::thread_safe::yes>;
void use_all(C& c) {
  std::vector<std::pair<KeyT, ValT>> kv; c.insert_range(std::move(kv), cappuccino::allow::insert_or_update);
  std::vector<KeyT> ks; c.erase_range(ks); c.find_range(ks, false);
  std::vector<std::pair<KeyT, std::optional<ValT>>> fill; c.find_range_fill(fill, false);
}'''

cpp2coq.SCHEMA["lfu_cache"] = dict(
    ctor=True, cells="dl_cells", elem_default="{| dc_keyed := None; dc_lfu := None; dc_age := 0%Z; dc_val := None |}",
    ctor_const={"dl_tick": "1%Z", "dl_rnum": "1", "dl_rk": "0"},      # lfuda's aging parameters: no member of lfu_cache
    module="GenLfu", requires=["Capp.Base", "Capp.Rr", "Capp.RrLit", "Capp.LruLit", "Capp.LfudaLit"],
    state="lfdl", state_args="K V", elem="dcell", elem_args="K V", cap="dl_cap", inst=INST_LFU, elem_label="list node",
    fields=[("dl_cap", None, "cap"), ("dl_tick", None, "nofield_tick"), ("dl_rnum", None, "nofield_rnum"),
            ("dl_rk", None, "nofield_rk"),
            ("dl_list", "m_open_list", "list"), ("dl_cells", None, "vec"), ("dl_end", "m_open_list_end", "liter"),
            ("dl_index", "m_keyed_elements", "umap"), ("dl_mm", "m_lfu_list", "mmap"), ("dl_used", "m_used_size", "nat")],
    elem_fields=[("dc_keyed", "m_keyed_position", "mit"), ("dc_lfu", "m_lfu_position", "mmit"),
                 ("dc_age", "<none>", "nofield_age"), ("dc_val", "m_value", "optval")],
    methods=["do_access", "do_erase", "do_prune", "do_insert", "do_update", "do_insert_update", "do_find",
             "do_find_with_use_count",
             "insert", "insert_range", "erase", "erase_range", "find", "find_with_use_count", "find_range",
             "find_range_fill", "empty", "size", "capacity"],
)


class Ext(cpp2coq.Tr):
    COQTY = dict(cpp2coq.Tr.COQTY, mmit="option nat", optvaluse="option (V * nat)")

    # ---- types
    def akind_ext(self, t, param):
        if "_Rb_tree_iterator" in t or t.endswith("lfu_iterator") or (t.startswith("std::multimap<") and t.endswith("::iterator")):
            return "mmit"
        if "_Node_iterator" in t or t.endswith("keyed_iterator") or (t.startswith("std::unordered_map<") and t.endswith("::iterator")):
            return "mit"
        if t.endswith("open_list_iterator"):
            return "liter"
        if t.startswith("std::optional<std::pair<ValT, size_t>>"):
            return "optvaluse"
        if t.startswith("std::pair<unsigned long, std::_List_iterator<") and t.endswith("&"):
            return "mmref"      # (const) reference to a pair of m_lfu_list: the node it designates
        return None

    # ---- expressions
    def E_ext(self, c, st, env):
        k = c["k"]
        if k == "op" and c["n"] == "operator*":
            b, t, kd = self.E(c["a"][0], st, env)
            if kd == "liter" and c["t"].endswith("::element"):
                # *it : the element stored in the node; binding a reference to it needs a dereferenceable iterator
                x = self.fresh("d")
                return b + ["do %s <- l_deref %s %s;" % (x, self.fld("list", st[0]), t)], x, "eref"
            if kd == "mmit" and c["t"].replace("const ", "").startswith("std::pair<unsigned long, std::_List_iterator<"):
                # *it : the pair of the multimap node it points at (kind mmref = the node); end() / an erased node: UB
                x = self.fresh("nd")
                return b + ["do %s <- mm_second %s %s;" % (x, self.fld("mmap", st[0]), t)], x, "mmref"
            raise Unsupported("operator* on %s giving %s" % (kd, c["t"]))
        if k == "op" and c["n"] == "operator->":
            b, t, kd, commit = self.peek_E(c["a"][0], st, env)
            if kd == "mmit":
                commit()
                return b, t, "mmit->"
            return None
        if k == "member":
            b, t, kd, commit = self.peek_E(c["a"][0], st, env)
            if kd == "mmref" and c["n"] in ("first", "second"):
                # a read through a reference to the pair of node t (UB when the node has been erased meanwhile)
                commit()
                b, t, kd = b, "(Some %s)" % t, "mmit->"
            elif (kd, c["n"]) in (("mit->", "second"), ("mmit->", "first"), ("mmit->", "second")) or \
                    (kd == "eref" and self.ef_by_cpp.get(c["n"], (None, None))[1] == "mmit"):
                commit()
            else:
                return None
            if kd == "mit->" and c["n"] == "second":
                # the mapped value of m_keyed_elements is a list iterator
                x = self.fresh("sec")
                return b + ["do %s <- mit_second %s %s;" % (x, self.fld("umap", st[0]), t)], "(It %s)" % x, "liter"
            if kd == "mmit->" and c["n"] == "first":
                x = self.fresh("cnt")
                return b + ["do %s <- mm_deref %s %s;" % (x, self.fld("mmap", st[0]), t)], x, "nat"
            if kd == "mmit->" and c["n"] == "second":
                x = self.fresh("nd")
                return b + ["do %s <- mm_second %s %s;" % (x, self.fld("mmap", st[0]), t)], "(It %s)" % x, "liter"
            if kd == "eref" and c["n"] in self.ef_by_cpp and self.ef_by_cpp[c["n"]][1] == "mmit":
                x = self.fresh("e")
                return (b + ["do %s <- vget \"list node\" %s %s;" % (x, self.fld("vec", st[0]), t)],
                        "(%s %s)" % (self.ef_by_cpp[c["n"]][0], x), "mmit")
            return None
        if k == "bin" and c["n"] == "+":
            b1, t1, k1 = self.E(c["a"][0], st, env)
            b2, t2, k2 = self.E(c["a"][1], st, env)
            if (k1, k2) != ("nat", "nat"):
                raise Unsupported("+ on %s, %s" % (k1, k2))
            return b1 + b2, "(%s + %s)" % (t1, t2), "nat"
        if k == "call" and c["n"] == "make_pair" and len(c["a"]) == 2:
            b1, t1, k1 = self.E(c["a"][0], st, env)
            b2, t2, k2 = self.E(c["a"][1], st, env)
            if (k1, k2) != ("optval", "nat") or c["a"][0]["k"] != "member":
                raise Unsupported("make_pair(%s, %s)" % (k1, k2))
            return b1 + b2, "(cell_pair %s %s)" % (t1, t2), "cellpair"
        if k == "conv" and c["t"].replace("const ", "").startswith("std::optional<std::pair<ValT, size_t>>"):
            b, t, kd = self.E(c["a"][0], st, env)
            if kd != "cellpair":
                raise Unsupported("conversion of %s to %s" % (kd, c["t"]))
            return b, t, "optvaluse"
        if k == "construct" and not c["a"] and c["t"].replace("const ", "").startswith("std::optional<std::pair<ValT, size_t>>"):
            return [], "None", "optvaluse"
        if k == "mcall" and c["a"][0]["k"] != "this":
            obj, m, args = c["a"][0], c["n"], c["a"][1:]
            if obj["k"] != "field":
                return None
            k0 = self.f_by_cpp.get(obj["n"], (None, None))[1]
            if k0 == "list" and m == "size" and not args:
                b0, t0, _ = self.E(obj, st, env)
                return b0, "(List.length %s)" % t0, "nat"
            if k0 == "mmap" and m == "begin" and not args:
                b0, t0, _ = self.E(obj, st, env)
                return b0, "(mm_begin %s)" % t0, "mmit"
            if k0 == "mmap" and m == "emplace" and len(args) == 2:
                b1, t1, k1 = self.E(args[0], st, env)
                b2, t2, k2 = self.E(args[1], st, env)
                if (k1, k2) != ("nat", "liter"):
                    raise Unsupported("multimap emplace(%s, %s)" % (k1, k2))
                n, ns = self.fresh("nd"), self.fresh("s")
                coq = self.kind_field["mmap"]
                b = b1 + b2 + ["do %s <- it_node %s;" % (n, t2),
                               "let %s := set_%s %s (mm_emplace %s %s (%s %s)) in" % (ns, coq, st[0], t1, n, coq, st[0])]
                st[0] = ns
                return b, "(Some %s)" % n, "mmit"
            if k0 == "umap" and m == "emplace" and len(args) == 2:
                b1, t1, k1 = self.E(args[0], st, env)
                b2, t2, k2 = self.E(args[1], st, env)
                if (k1, k2) != ("key", "liter"):
                    raise Unsupported("emplace(%s, %s)" % (k1, k2))
                n, x, ns = self.fresh("nd"), self.fresh("ix"), self.fresh("s")
                coq = self.kind_field["umap"]
                b = b1 + b2 + ["do %s <- it_node %s;" % (n, t2),
                               "do %s <- umap_emplace (%s %s) (%s %s) %s %s;" % (x, self.sc["cap"], st[0], coq, st[0], t1, n),
                               "let %s := set_%s %s %s in" % (ns, coq, st[0], x)]
                st[0] = ns
                return b, "(Some %s)" % t1, "emplaced"
            return None
        return None

    def peek_E(self, c, st, env):
        """evaluate c without committing: the caller either calls commit() (and owns the result) or returns None,
        in which case the base table evaluates c itself from the same state and counter"""
        n0, st2 = self.n, [st[0]]
        b, t, kd = self.E(c, st2, env)
        n1 = self.n
        self.n = n0

        def commit():
            self.n = n1
            st[0] = st2[0]
        return b, t, kd, commit

    def sbind(self, v, st, env):
        """const auto [count, pos] = *it;  for an iterator of m_lfu_list, BY VALUE (the declared type is the pair, not
        a reference to it): *it (UB for end() / an erased node), then the two components are copied into locals"""
        names, init = list(v["n"]), v["a"]
        tv = v["t"].replace("const ", "").strip()
        if len(init) == 1 and len(names) == 2 and init[0]["k"] == "op" and init[0]["n"] == "operator*" \
                and tv.startswith("std::pair<unsigned long, std::_List_iterator<") and not tv.endswith("&"):
            b, t, kd, commit = self.peek_E(init[0], st, env)
            if kd == "mmref":
                commit()
                cnt, nd = self.fresh("cnt"), self.fresh("nd")
                a1, a2 = self.fresh("v_" + names[0] + "_"), self.fresh("v_" + names[1] + "_")
                env[names[0]] = (a1, "nat")
                env[names[1]] = (a2, "liter")
                mm = self.fld("mmap", st[0])
                return b + ["do %s <- mm_deref %s (Some %s);" % (cnt, mm, t), "do %s <- mm_second %s (Some %s);" % (nd, mm, t),
                            "let %s := %s in" % (a1, cnt), "let %s := (It %s) in" % (a2, nd)]
        return super().sbind(v, st, env)

    # ---- statements
    def X_ext(self, c, st, env):
        k = c["k"]
        if k == "mcall" and c["a"][0]["k"] == "field" and self.f_by_cpp.get(c["a"][0]["n"], (None, None))[1] == "mmap":
            m, args = c["n"], c["a"][1:]
            coq = self.kind_field["mmap"]
            if m == "erase" and len(args) == 1:
                b1, t1, k1 = self.E(args[0], st, env)
                if k1 != "mmit":
                    raise Unsupported("multimap erase(%s)" % k1)
                x, ns = self.fresh("mm"), self.fresh("s")
                out = b1 + ["do %s <- mm_erase (%s %s) %s;" % (x, coq, st[0], t1),
                            "let %s := set_%s %s %s in" % (ns, coq, st[0], x)]
                st[0] = ns
                return out
            if m == "emplace":
                b, _, _ = self.E(c, st, env)      # the returned iterator is discarded
                return b
            raise Unsupported("statement multimap.%s" % m)
        if k == "op" and c["n"] == "operator=" and c["a"][0]["k"] == "member" \
                and c["a"][0]["n"] in self.ef_by_cpp and self.ef_by_cpp[c["a"][0]["n"]][1] == "mmit":
            lhs, rhs = c["a"]
            bo, to, ko = self.E(lhs["a"][0], st, env)
            if ko != "eref":
                raise Unsupported("assignment to a member of %s" % ko)
            b, t, kd = self.E(rhs, st, env)
            if kd != "mmit":
                raise Unsupported("assignment of %s to element field %s" % (kd, lhs["n"]))
            return bo + b + self.set_elem_field(to, lhs["n"], t, st)
        return None
