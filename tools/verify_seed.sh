#!/bin/bash
# verify_seed.sh <name> <patch.diff> <demo.cpp> [extra compiler flags...]
# Independent confirmation of a seeded change, in a scratch export of /repo HEAD under /tmp:
#   demo passes without the change, fails with it, and the unedited test suite passes with it.
set -u
name=$1; patch=$2; demo=$3; shift 3
CXX=${SEED_CXX:-g++}
d=/tmp/sv_$name
rm -rf $d && mkdir -p $d && git -C /repo archive HEAD | tar -x -C $d || exit 9
build_demo() { $CXX -std=c++17 -O1 "$@" -I $d/inc $demo $d/src/*.cpp -o $d/demo_bin -pthread 2> $d/demo_build.log; }
build_demo "$@" || { echo "RESULT $name: demo does not compile on the unmodified tree"; tail -5 $d/demo_build.log; exit 8; }
( cd $d && timeout 300 ./demo_bin > $d/demo_orig.out 2>&1 ); rc0=$?
( cd $d && patch -p1 -s < $patch ) || { echo "RESULT $name: patch does not apply"; exit 7; }
build_demo "$@" || { echo "RESULT $name: demo does not compile with the change"; exit 6; }
( cd $d && timeout 300 ./demo_bin > $d/demo_mut.out 2>&1 ); rc1=$?
( cd $d && cmake -G Ninja -B _build -S . > /dev/null 2>&1 && cmake --build _build > $d/build.log 2>&1 && ./_build/test/libcappuccino_tests > $d/tests.out 2>&1 ); rct=$?
echo "RESULT $name: demo_without_change_rc=$rc0 demo_with_change_rc=$rc1 tests_with_change_rc=$rct $(tail -2 $d/tests.out | tr '\n' ' ')"
rm -rf $d
