"""cpp2coq_utset.py — the rule table of cpp2coq.py for cappuccino::ut_set: the rules of cpp2coq_utmap.py (ut_set.hpp is
ut_map.hpp without the value) over the same state record, instantiated as the project does for ut_set: uml K unit,
the value stored with each key being tt (keyed_element has the single field m_ttl_position).

Added to the rule table of cpp2coq_utmap.py:
    std::vector<std::pair<key, bool>>  (local result / in-out parameter)   list (K * bool)
    output.emplace_back(key, b)                                           output ++ [(key, b)]
    output.reserve(n)                                                     no effect (capacity of a local output vector)
    keyed_element e;   (no m_value)                                       (tt, singular m_ttl_position)
    keyed_element{}    (no m_value; rule of cpp2coq_utmap.py)                 (tt, singular m_ttl_position)
"""
import cpp2coq
import cpp2coq_utmap
from cpp2coq import Unsupported

INST = '''template class cappuccino::%(cls)s<KeyT, cappuccino::thread_safe::yes>;
using C = cappuccino::%(cls)s<KeyT, cappuccino::thread_safe::yes>;
void use_all(C& c) {
  std::vector<KeyT> ks; c.insert_range(std::move(ks), cappuccino::allow::insert_or_update);
  std::vector<KeyT> ks2; c.erase_range(ks2); c.find_range(ks2);
  std::vector<std::pair<KeyT, bool>> fill; c.find_range_fill(fill);
}'''

cpp2coq.SCHEMA["ut_set"] = dict(
    cpp2coq.SCHEMA["ut_map"], module="GenUtSet", state_args="K unit", inst=INST, valued=False,
    methods=["do_prune", "do_insert", "do_update", "do_erase", "do_insert_update", "do_find",
             "insert", "insert_range", "erase", "erase_range", "find", "find_range", "find_range_fill",
             "clean_expired_values", "empty", "size"],
)


class Ext(cpp2coq_utmap.Ext):
    RANGE_ELEMS = dict(cpp2coq.Tr.RANGE_ELEMS, bfillrange=["key", "bool"])
    FILL_OUT = dict(cpp2coq.Tr.FILL_OUT, bfillrange="boutvec")
    COQTY = dict(cpp2coq.Tr.COQTY, bfillrange="list (K * bool)", boutvec="list (K * bool)")

    def akind_ext(self, t, param):
        if t.startswith("std::vector<std::pair<KeyT, bool>>"):
            return "bfillrange" if param else "boutvec"
        return super().akind_ext(t, param)

    def default_init(self, kd, v):
        if kd == "boutvec":
            return "[]"
        return super().default_init(kd, v)

    def X_ext(self, c, st, env):
        if c["k"] == "mcall" and c["a"][0]["k"] == "ref" and c["a"][0]["n"] in env and env[c["a"][0]["n"]][1] == "boutvec":
            n, m, args = c["a"][0]["n"], c["n"], c["a"][1:]
            if m == "reserve":
                return []          # capacity only: no observable effect
            if m == "emplace_back" and len(args) == 2:
                b1, t1, k1 = self.E(args[0], st, env)
                b2, t2, k2 = self.E(args[1], st, env)
                if (k1, k2) != ("key", "bool"):
                    raise Unsupported("emplace_back(%s, %s)" % (k1, k2))
                x = self.fresh("v_" + n + "_")
                out = b1 + b2 + ["let %s := (%s ++ [(%s, %s)]) in" % (x, env[n][0], t1, t2)]
                env[n] = (x, "boutvec")
                return out
            raise Unsupported("%s on an output vector" % m)
        return super().X_ext(c, st, env)
