#!/usr/bin/env python3
"""check.py — ./check <Cnn> quick|thorough   |   ./check <Cnn> --replay <file>

What one run does (DESIGN §2.4):
  1. builds the Coq development (full .vo, make), audits it (no Admitted/Axiom/..., the
     Print Assumptions of every theorem in Props_<id>.v must be closed or name allowed axioms);
     for C06/C07 the lock skeletons are REGENERATED from /repo/inc first and the obligations
     recomputed by coqc;
  2. rebuilds the C++ harness(es) from /repo's working tree, generates operation sequences
     from VERIF_SEED, runs implementation and extracted model, diffs them;
  3. runs the property's monitor over the implementation's own traces;
  4. writes evidence/<id>.json; exit 0 if everything held; otherwise searches for a failing
     input and prints `VIOLATION property=<id> replay=<path>` (ending in
     no-failing-input-found when only a proof obligation / the correspondence broke).
"""
import fcntl, glob, hashlib, json, math, os, re, shutil, subprocess, sys, time

ROOT = os.path.dirname(os.path.dirname(os.path.abspath(__file__)))
REPO = os.environ.get("VERIF_REPO", "/repo")
BUILD = os.environ.get("VERIF_BUILD", os.path.join(ROOT, "build"))
OUTROOT = os.environ.get("VERIF_OUT", ROOT)   # where evidence/ and replays/ are written (scratch runs against seeded trees)
COQ = os.path.join(ROOT, "coq")
sys.path.insert(0, os.path.join(ROOT, "tools"))
import monitors  # noqa: E402
import twins  # noqa: E402
import gen_check  # noqa: E402

KINDS = ["lru", "mru", "fifo", "rr", "lfu", "lfuda", "tlru", "utlru", "ut_map", "ut_set"]
ALL = list(range(10))
PROP_KINDS = {
    "C01": ALL, "C02": ALL, "C03": ALL, "C04": [6, 7, 8, 9], "C05": [6, 7, 8, 9],
    "C06": ALL, "C07": ALL, "C08": ALL, "C09": ALL, "C10": [0, 6, 7], "C11": [4, 5], "C12": [2],
    "C13": [1], "C14": [5], "C15": [3], "C16": [6, 7], "C17": [6, 7, 8, 9], "C18": ALL, "C19": ALL,
    "C20": [7, 8],
}
PROP_FILES = {  # Coq files holding the property's theorems (C06/C07: generated per run, see conc_check.py)
    "C06": ["ConcProps"], "C07": ["ConcProps"],
}
ALLOWED_AXIOMS = set()   # none: every property theorem must be closed under the global context
FORBIDDEN = re.compile(r"\b(Admitted|admit|Axiom|Axioms|Parameter|Parameters|Conjecture|Hypothesis|Variable)\b|Unset\s+Guard|bypass_check|type-in-type|impredicative-set|Admit Obligations")

T0 = time.time()


def log(*a):
    print("[check]", *a, file=sys.stderr, flush=True)


def sh(cmd, cwd=None, timeout=1800, env=None):
    r = subprocess.run(cmd, cwd=cwd, capture_output=True, text=True, timeout=timeout, env=env)
    return r.returncode, r.stdout, r.stderr


def file_hash(paths):
    h = hashlib.sha256()
    for p in sorted(paths):
        h.update(p.encode())
        with open(p, "rb") as f:
            h.update(f.read())
    return h.hexdigest()[:16]


class Lock:
    def __enter__(self):
        os.makedirs(BUILD, exist_ok=True)
        self.f = open(os.path.join(BUILD, ".lock"), "w")
        fcntl.flock(self.f, fcntl.LOCK_EX)
        return self

    def __exit__(self, *a):
        fcntl.flock(self.f, fcntl.LOCK_UN)
        self.f.close()


# --------------------------------------------------------------------------- Coq
def coq_sources():
    """the development = the files listed in coq/_CoqProject (work in progress that is not listed yet is not part of it)"""
    names = [l.strip() for l in open(os.path.join(COQ, "_CoqProject")) if l.strip().endswith(".v")]
    return sorted(os.path.join(COQ, n) for n in names)


def coq_build():
    """full .vo build of coq/ ; returns (ok, log)"""
    if not os.path.exists(os.path.join(COQ, "Makefile")) or \
            os.path.getmtime(os.path.join(COQ, "Makefile")) < os.path.getmtime(os.path.join(COQ, "_CoqProject")):
        rc, o, e = sh(["coq_makefile", "-f", "_CoqProject", "-o", "Makefile"], cwd=COQ)
        if rc != 0:
            return False, o + e
    rc, o, e = sh(["make", "-k", "-j16"], cwd=COQ, timeout=3000)
    return rc == 0, o + e


def audit_sources():
    """no Admitted / Axiom / ... anywhere in the development (comments stripped)"""
    bad = []
    for p in coq_sources():
        s = open(p).read()
        s = re.sub(r"\(\*.*?\*\)", lambda m: " " * 0, s, flags=re.S)
        # Section variables / hypotheses are legitimate inside sections: allow `Variable(s)`/`Hypothesis`
        # only inside a Section ... End block
        depth = 0
        for ln, line in enumerate(s.split("\n"), 1):
            if re.match(r"\s*(Section|Module)\b", line):
                depth += 1
            if re.match(r"\s*End\b", line):
                depth = max(0, depth - 1)
            for m in FORBIDDEN.finditer(line):
                w = m.group(0)
                if depth > 0 and re.match(r"(Variable|Variables|Hypothesis)$", w.split()[0]):
                    continue
                bad.append("%s:%d: %s" % (os.path.basename(p), ln, line.strip()[:100]))
    return bad


def theorem_names(vfile):
    s = open(vfile).read()
    s = re.sub(r"\(\*.*?\*\)", "", s, flags=re.S)
    return re.findall(r"^\s*(?:Theorem|Corollary|Lemma|Example)\s+([A-Za-z0-9_']+)", s, flags=re.M)


def print_assumptions(module, names, extra_q=()):
    """-> dict name -> list of axioms ([] = closed), or None on failure"""
    d = os.path.join(BUILD, "audit")
    os.makedirs(d, exist_ok=True)
    f = os.path.join(d, "Assume_%s.v" % module.replace(".", "_"))
    with open(f, "w") as fh:
        fh.write("Require Import %s.\n" % module)
        for n in names:
            fh.write('Print Assumptions %s.\n' % n)
    cmd = ["coqc", "-Q", COQ, "Capp"]
    for (pth, nm) in extra_q:
        cmd += ["-Q", pth, nm]
    rc, o, e = sh(cmd + [f], timeout=600)
    if rc != 0:
        return None, o + e
    blocks = re.split(r"(?=Closed under the global context|Axioms:)", o)
    res = []
    for b in blocks:
        b = b.strip()
        if not b:
            continue
        if b.startswith("Closed under"):
            res.append([])
        elif b.startswith("Axioms:"):
            res.append(re.findall(r"^([A-Za-z0-9_.']+)\s*:", b[len("Axioms:"):], flags=re.M))
    if len(res) != len(names):
        return None, "could not parse Print Assumptions output:\n" + o
    return dict(zip(names, res)), o


# --------------------------------------------------------------------------- extraction & driver
def ensure_driver():
    srcs = coq_sources() + [os.path.join(ROOT, "ocaml", "driver.ml")]
    h = file_hash(srcs)
    d = os.path.join(BUILD, "extract")
    os.makedirs(d, exist_ok=True)
    os.makedirs(os.path.join(BUILD, "bin"), exist_ok=True)
    stamp = os.path.join(d, "stamp")
    drv = os.path.join(BUILD, "bin", "driver")
    if os.path.exists(stamp) and open(stamp).read() == h and os.path.exists(drv):
        return True, ""
    rc, o, e = sh(["coqc", "-Q", COQ, "Capp", os.path.join(COQ, "Extract.v"), "-o", os.path.join(d, "Extract.vo")], cwd=d)
    if rc != 0:
        return False, "extraction failed:\n" + o + e
    shutil.copy(os.path.join(ROOT, "ocaml", "driver.ml"), os.path.join(d, "driver.ml"))
    rc, o, e = sh(["ocamlfind", "ocamlopt", "-w", "-a", "model.mli", "model.ml", "driver.ml", "-o", drv], cwd=d)
    if rc != 0:
        return False, "driver build failed:\n" + o + e
    open(stamp, "w").write(h)
    return True, ""


# --------------------------------------------------------------------------- harness
def repo_hash():
    return file_hash(glob.glob(os.path.join(REPO, "inc", "cappuccino", "*.hpp")) + glob.glob(os.path.join(REPO, "src", "*.cpp")))


SAN = ["-g", "-D_GLIBCXX_DEBUG", "-fsanitize=address,undefined", "-fno-sanitize-recover=all"]


def ensure_harness(kinds, san=False):
    """(re)build seq_<k> from /repo's working tree; returns (ok, log)"""
    h = file_hash([os.path.join(ROOT, "harness", "seq.cpp"), os.path.join(ROOT, "harness", "common.hpp")]) + repo_hash()
    bind = os.path.join(BUILD, "bin")
    os.makedirs(bind, exist_ok=True)
    procs = []
    for k in kinds:
        exe = os.path.join(bind, "seq%s_%d" % ("_san" if san else "", k))
        stamp = exe + ".stamp"
        if os.path.exists(exe) and os.path.exists(stamp) and open(stamp).read() == h:
            continue
        cmd = ["g++", "-std=c++17", "-O1", "-I" + os.path.join(REPO, "inc"), "-DKIND=%d" % k] + \
              (SAN if san else []) + [os.path.join(ROOT, "harness", "seq.cpp")] + sorted(glob.glob(os.path.join(REPO, "src", "*.cpp"))) + \
              ["-o", exe, "-pthread"]
        procs.append((k, exe, stamp, subprocess.Popen(cmd, stdout=subprocess.PIPE, stderr=subprocess.STDOUT, text=True)))
    ok = True
    logs = ""
    for (k, exe, stamp, p) in procs:
        o, _ = p.communicate(timeout=900)
        if p.returncode != 0:
            ok = False
            logs += "harness for %s does not compile against the current headers:\n%s\n" % (KINDS[k], o[-3000:])
            if os.path.exists(stamp):
                os.remove(stamp)
        else:
            open(stamp, "w").write(h)
    return ok, logs


WB_KINDS = [0, 1, 2, 3, 4, 5, 6, 7, 8, 9]   # containers with a literal (L3) machine extracted for the white-box comparison


def ensure_wb(kinds):
    """harness/wb.cpp: dumps the real internal structures (private members opened in the harness TU only)"""
    h = file_hash([os.path.join(ROOT, "harness", "wb.cpp"), os.path.join(ROOT, "harness", "common.hpp")]) + repo_hash()
    bind = os.path.join(BUILD, "bin")
    os.makedirs(bind, exist_ok=True)
    procs = []
    for k in kinds:
        exe = os.path.join(bind, "wb_%d" % k)
        stamp = exe + ".stamp"
        if os.path.exists(exe) and os.path.exists(stamp) and open(stamp).read() == h:
            continue
        cmd = ["g++", "-std=c++17", "-O1", "-I" + os.path.join(REPO, "inc"), "-DKIND=%d" % k, os.path.join(ROOT, "harness", "wb.cpp")] + \
              sorted(glob.glob(os.path.join(REPO, "src", "*.cpp"))) + ["-o", exe, "-pthread"]
        procs.append((k, exe, stamp, subprocess.Popen(cmd, stdout=subprocess.PIPE, stderr=subprocess.STDOUT, text=True)))
    ok, logs = True, ""
    for (k, exe, stamp, p) in procs:
        o, _ = p.communicate(timeout=900)
        if p.returncode != 0:
            ok = False
            logs += "white-box harness for %s does not compile against the current headers (a private member was renamed or removed?):\n%s\n" % (KINDS[k], o[-2500:])
            if os.path.exists(stamp):
                os.remove(stamp)
        else:
            open(stamp, "w").write(h)
    return ok, logs


def run_wb(k, casefile, outdir):
    exe = os.path.join(BUILD, "bin", "wb_%d" % k)
    out = os.path.join(outdir, os.path.basename(casefile) + ".wb.out")
    with open(out, "w") as fo:
        try:
            p = subprocess.run([exe, casefile], stdout=fo, stderr=subprocess.PIPE, text=True, timeout=900)
            rc, err = p.returncode, p.stderr
        except subprocess.TimeoutExpired:
            rc, err = -9, "timeout"
    rcd, o, e = sh([os.path.join(BUILD, "bin", "driver"), casefile, out, "--wb"], timeout=900)
    diffs = [l for l in o.split("\n") if l.startswith("DIFF ")]
    m = re.search(r"SUMMARY cases=(\d+) ok=(\d+) diff=(\d+) lines=(\d+)", o)
    return dict(kind=k, crashed=(rc != 0), rc=rc, stderr=err[-3000:], diffs=diffs, ncases=int(m.group(1)) if m else 0,
                nok=int(m.group(2)) if m else 0, nlines=int(m.group(4)) if m else 0)


def run_kind(k, casefile, outdir, san=False):
    """run harness + driver on a case file; returns dict(ok, diffs[], ncases, nlines, crashed, stderr)"""
    exe = os.path.join(BUILD, "bin", "seq%s_%d" % ("_san" if san else "", k))
    out = os.path.join(outdir, os.path.basename(casefile) + (".san" if san else "") + ".out")
    env = dict(os.environ, ASAN_OPTIONS="detect_leaks=1:abort_on_error=0", UBSAN_OPTIONS="print_stacktrace=1")
    if not os.path.exists(exe):
        # the harness did not build against the current headers (reported as a broken obligation by the caller)
        open(out, "w").close()
        return dict(kind=k, casefile=casefile, outfile=out, crashed=False, rc=0, stderr="harness not built", diffs=[],
                    ncases=0, nok=0, nlines=0, driver_rc=0, driver_err="", draws=[])
    with open(out, "w") as fo:
        try:
            p = subprocess.run([exe, casefile], stdout=fo, stderr=subprocess.PIPE, text=True, timeout=900, env=env)
            rc, err = p.returncode, p.stderr
        except subprocess.TimeoutExpired:
            rc, err = -9, "timeout (harness did not terminate)"
    if rc != 0:
        # the harness died in some case: re-run case by case so that one crash does not hide the others
        texts = split_cases(casefile)
        tmpd = out + ".d"
        os.makedirs(tmpd, exist_ok=True)

        def one(ix):
            cf = os.path.join(tmpd, "c%d.cases" % ix)
            open(cf, "w").write(texts[ix])
            try:
                p1 = subprocess.run([exe, cf], capture_output=True, text=True, timeout=120, env=env)
                return p1.stdout, p1.returncode, p1.stderr
            except subprocess.TimeoutExpired:
                return "", -9, "timeout"
        from concurrent.futures import ThreadPoolExecutor as _TPE
        with _TPE(max_workers=8) as ex:
            parts = list(ex.map(one, range(len(texts))))
        with open(out, "w") as fo:
            for (so, _, _) in parts:
                fo.write(so if so.endswith("\n") or not so else so + "\n")
        bad = [(i, r1, e1) for i, (so, r1, e1) in enumerate(parts) if r1 != 0]
        if bad:
            err = "case %s: exit %d\n%s" % (case_id(texts[bad[0][0]]), bad[0][1], bad[0][2][-3000:])
        shutil.rmtree(tmpd, ignore_errors=True)
    rcd, o, e = sh([os.path.join(BUILD, "bin", "driver"), casefile, out], timeout=900)
    diffs = [l for l in o.split("\n") if l.startswith("DIFF ")]
    oks = [l for l in o.split("\n") if l.startswith("OK ")]
    draws = [l for l in o.split("\n") if l.startswith("DRAWS ")]
    m = re.search(r"SUMMARY cases=(\d+) ok=(\d+) diff=(\d+) lines=(\d+)", o)
    return dict(kind=k, casefile=casefile, outfile=out, crashed=(rc != 0), rc=rc, stderr=err[-4000:], diffs=diffs,
                ncases=int(m.group(1)) if m else 0, nok=int(m.group(2)) if m else 0, nlines=int(m.group(4)) if m else 0,
                driver_rc=rcd, driver_err=e[-2000:], draws=draws)


# --------------------------------------------------------------------------- cases
def split_cases(casefile):
    cases, cur = [], []
    for l in open(casefile):
        cur.append(l)
        if l.startswith("end"):
            cases.append("".join(cur))
            cur = []
    return cases


def case_id(text):
    return text.split("\n", 1)[0].split()[1]


def write_replay(prop, name, payload):
    d = os.path.join(OUTROOT, "replays")
    os.makedirs(d, exist_ok=True)
    h = hashlib.sha256(json.dumps(payload, sort_keys=True).encode()).hexdigest()[:10]
    p = os.path.join(d, "%s-%s-%s.json" % (prop, name, h))
    with open(p, "w") as f:
        json.dump(payload, f, indent=1)
    return p


def shrink_case(k, text, pred, budget=120):
    """delta-debugging on the op lines of one case; pred(text) -> True if still failing"""
    lines = text.strip().split("\n")
    head, body, tail = lines[0], lines[1:-1], lines[-1]
    # group: an op with its following probe(s)
    groups, cur = [], []
    for l in body:
        if l.startswith("op ") and cur and any(x.startswith("op ") for x in cur):
            groups.append(cur)
            cur = []
        cur.append(l)
    if cur:
        groups.append(cur)
    n = 2
    tries = 0
    while len(groups) >= 2 and tries < budget:
        chunk = max(1, len(groups) // n)
        reduced = False
        for i in range(0, len(groups), chunk):
            cand = groups[:i] + groups[i + chunk:]
            t = "\n".join([head] + [l for g in cand for l in g] + [tail]) + "\n"
            tries += 1
            if cand and pred(t):
                groups = cand
                n = max(n - 1, 2)
                reduced = True
                break
            if tries >= budget:
                break
        if not reduced:
            if chunk == 1:
                break
            n = min(n * 2, len(groups))
    return "\n".join([head] + [l for g in groups for l in g] + [tail]) + "\n"


# --------------------------------------------------------------------------- known findings
def load_known():
    p = os.path.join(ROOT, "known_findings.json")
    if not os.path.exists(p):
        return []
    return json.load(open(p)).get("findings", [])


def known_match(prop, cfg, msg, known):
    for f in known:
        if f.get("status") != "open" or f["property"] != prop:
            continue
        m = f.get("match", {})
        if "kinds" in m and cfg["kind"] not in m["kinds"]:
            continue
        if "ttl" in m and cfg.get("ttl") != m["ttl"]:
            continue
        if "msg_re" in m and not re.search(m["msg_re"], msg):
            continue
        return f
    return None


# --------------------------------------------------------------------------- the check proper
def gen_cases(kind, seed, n, maxops, outdir, no_ttl0=False):
    f = os.path.join(outdir, "%s-%d.cases" % (KINDS[kind], seed))
    st = f + ".stats"
    cmd = [sys.executable, os.path.join(ROOT, "gen", "generate.py"), "--seed", str(seed), "--kind", KINDS[kind],
           "--n", str(n), "--maxops", str(maxops), "--out", f, "--stats", st]
    if no_ttl0:
        cmd.append("--no-ttl0")
    rc, o, e = sh(cmd)
    if rc != 0:
        raise RuntimeError("generator failed: " + e)
    return f, json.load(open(st))


def corpus_files(kind):
    return sorted(glob.glob(os.path.join(ROOT, "corpus", "%s-*.cases" % KINDS[kind])))


def sequential_part(prop, tier, seed, res):
    """correspondence + monitors for the property's kinds.  Fills res; returns list of problems."""
    kinds = PROP_KINDS[prop]
    san = (prop == "C08")
    n = {"quick": 120, "thorough": 1500}[tier]
    maxops = {"quick": 36, "thorough": 60}[tier]
    if len(kinds) <= 2:
        n *= 3
    seeds = [seed] if tier == "quick" else [seed, seed + 1000, seed + 2000]
    rundir = os.path.join(BUILD, "run", "%s-%s-%d" % (prop, tier, os.getpid()))
    os.makedirs(rundir, exist_ok=True)
    ok, lg = ensure_driver()
    if not ok:
        res["broken"].append(dict(what="model build", detail=lg[-3000:]))
        return rundir
    ok, lg = ensure_harness(kinds, san=False)
    if san:
        ok2, lg2 = ensure_harness(kinds, san=True)
        ok, lg = ok and ok2, lg + lg2
    if not ok:
        res["broken"].append(dict(what="the correspondence harness no longer builds against the current headers", detail=lg[-3000:]))
    known = load_known()
    stats_all = {}
    from concurrent.futures import ThreadPoolExecutor
    jobs = []
    for k in kinds:
        files = list(corpus_files(k))
        for sd in seeds:
            f, st = gen_cases(k, sd, n, maxops, rundir)
            files.append(f)
            stats_all.setdefault(KINDS[k], []).append(st)
        if tier == "thorough":
            fx = os.path.join(rundir, "%s-exhaustive.cases" % KINDS[k])
            rcx, ox, ex_ = sh([sys.executable, os.path.join(ROOT, "gen", "generate.py"), "--kind", KINDS[k], "--exhaustive", "--out", fx, "--stats", fx + ".stats"])
            if rcx == 0:
                files.append(fx)
                res["extra"].setdefault("exhaustive_short_sequences", {})[KINDS[k]] = json.load(open(fx + ".stats"))["exhaustive_cases"]
        for f in files:
            jobs.append((k, f, False))
            if san:
                jobs.append((k, f, True))
    exes_ok = lambda k, s: os.path.exists(os.path.join(BUILD, "bin", "seq%s_%d" % ("_san" if s else "", k)))
    with ThreadPoolExecutor(max_workers=16) as ex:
        outs = list(ex.map(lambda j: run_kind(j[0], j[1], rundir, san=j[2]) if exes_ok(j[0], j[2]) else None, jobs))
    res["gen_stats"] = stats_all
    if prop == "C08":
        wbk = [k for k in kinds if k in WB_KINDS]
        okw, lgw = ensure_wb(wbk)
        if not okw:
            res["broken"].append(dict(what="white-box harness build", detail=lgw[-3000:]))
        wjobs = [(k, f) for (k, f, s_) in jobs if not s_ and k in wbk and os.path.exists(os.path.join(BUILD, "bin", "wb_%d" % k))]
        with ThreadPoolExecutor(max_workers=8) as ex:
            wouts = list(ex.map(lambda j: run_wb(j[0], j[1], rundir), wjobs))
        wb = dict(cases=0, agree=0, lines=0, disagreements=0)
        for (k, f), r in zip(wjobs, wouts):
            wb["cases"] += r["ncases"]; wb["agree"] += r["nok"]; wb["lines"] += r["nlines"]; wb["disagreements"] += len(r["diffs"])
            for d in r["diffs"]:
                res["diffs"].append(dict(kind=KINDS[k], casefile=f, san=False, line="[white-box L3] " + d))
            if r["crashed"]:
                res["crashes"].append(dict(kind=KINDS[k], casefile=f, san=False, rc=r["rc"], stderr=r["stderr"]))
        res["extra"]["white_box_L3"] = dict(containers=[KINDS[k] for k in wbk], **wb,
                                            what="literal Coq machines vs the real list order, partition iterator, counters, stored back-pointers and index after every operation")
    for (k, f, s), r in zip(jobs, outs):
        if r is None:
            continue
        res["cases"] += r["ncases"]
        res["lines"] += r["nlines"]
        res["agree"] += r["nok"]
        if r["crashed"]:
            res["crashes"].append(dict(kind=KINDS[k], casefile=f, san=s, rc=r["rc"], stderr=r["stderr"]))
        for d in r["diffs"]:
            res["diffs"].append(dict(kind=KINDS[k], casefile=f, san=s, line=d))
        if prop == "C15" and not s:
            for dl_ in r.get("draws", []):
                w = dl_.split()
                cap_ = int(w[2].split("=")[1])
                h_ = res["extra"].setdefault("victim_slot_histogram", {}).setdefault(str(cap_), [0] * cap_)
                hc_ = [0] * cap_       # the same, for this one cache instance (one engine, one seed)
                for x in w[3].split(","):
                    if x != "" and int(x) < cap_:
                        h_[int(x)] += 1
                        hc_[int(x)] += 1
                if cap_ >= 2 and sum(hc_) >= 40:
                    res["extra"].setdefault("victim_slot_per_instance", []).append(dict(case=w[1], cap=cap_, histogram=hc_))
        # monitors on the implementation's traces (plain build only)
        if not s:
            try:
                for (cfg, items, endl) in monitors.parse_cases(f, r["outfile"]):
                    sig = hashlib.sha256(("\n".join(it["raw"] for it in items)).encode()).hexdigest()
                    res["distinct"].add(sig)
                    feats = case_features(cfg, items)
                    for ft in feats:
                        res["features"][ft] = res["features"].get(ft, 0) + 1
                    if nontrivial(prop, feats):
                        res["nontrivial"].add(sig)
                    if len(res["samples"]) < 2 and nontrivial(prop, feats):
                        res["samples"].append(dict(config=cfg["header"], ops=[it["raw"] + "  ->  " + it["out"] for it in items[:14]]))
                    for v in monitors.run_monitors(cfg, items, endl, props={prop}):
                        kf = known_match(prop, cfg, v.msg, known)
                        if kf:
                            res["known"].setdefault(kf["id"], []).append(repr(v))
                        else:
                            res["violations"].append(dict(kind=cfg["kind"], casefile=f, case=cfg["id"], index=v.idx, msg=v.msg))
            except Exception as ex_:  # a monitor crash must never hide a result
                res["broken"].append(dict(what="monitor", detail=repr(ex_)))
            if prop in ("C18", "C19", "C20"):
                try:
                    twin_part(prop, k, f, r["outfile"], rundir, res, known, seed)
                except Exception as ex_:
                    res["broken"].append(dict(what="twin run", detail=repr(ex_)))
    return rundir



def run_harness_only(k, casefile, outdir):
    exe = os.path.join(BUILD, "bin", "seq_%d" % k)
    out = casefile + ".out"
    if not os.path.exists(exe):
        open(out, "w").close()
        return out, 0, "harness not built"
    with open(out, "w") as fo:
        try:
            p = subprocess.run([exe, casefile], stdout=fo, stderr=subprocess.PIPE, text=True, timeout=900)
            rc, err = p.returncode, p.stderr
        except subprocess.TimeoutExpired:
            rc, err = -9, "timeout"
    return out, rc, err


def twin_part(prop, k, casefile, outfile, rundir, res, known, seed):
    """C18 / C19 / C20: differential runs on the implementation itself (tools/twins.py)"""
    import random as _random
    if KINDS[k] == "rr":
        return
    parsed = monitors.parse_cases(casefile, outfile)
    rnd = _random.Random("twin/%s/%d/%s" % (prop, seed, os.path.basename(casefile)))
    texts, plans = [], {}
    for (cfg, items, endl) in parsed:
        if any(it["out"] == "<missing>" for it in items):
            continue
        if prop == "C18":
            if not any(it["kind"] == "op" and it["name"] in twins.RANGE_OPS for it in items):
                continue
            t, plan = twins.build_c18(cfg, items)
            texts.append(t)
            plans[cfg["id"] + "~18"] = [(cfg, items, plan, t)]
        elif prop == "C19":
            for variant in range(3):
                r = twins.build_c19(cfg, items, rnd, variant)
                if r is None:
                    continue
                texts.append(r[0])
                plans[r[0].split()[1]] = [(cfg, items, r[1], r[0])]
        elif prop == "C20":
            for (t, plan) in twins.build_c20(cfg, items):
                texts.append(t)
                plans[t.split()[1]] = [(cfg, items, plan, t)]
    if not texts:
        return
    tf = os.path.join(rundir, os.path.basename(casefile) + ".twin")
    open(tf, "w").write("".join(texts))
    tout, rc, err = run_harness_only(k, tf, rundir)
    if rc != 0:
        res["crashes"].append(dict(kind=KINDS[k], casefile=tf, san=False, rc=rc, stderr=err[-3000:]))
    cmpf = {"C18": twins.compare_c18, "C19": twins.compare_c19, "C20": twins.compare_c20}[prop]
    for (bcfg, bitems, bend) in monitors.parse_cases(tf, tout):
        for (cfg, items, plan, ttext) in plans.get(bcfg["id"], []):
            res["extra"]["twin_runs"] = res["extra"].get("twin_runs", 0) + 1
            for (ai, msg) in cmpf(cfg, items, bitems, plan):
                kf = known_match(prop, cfg, msg, known)
                if kf:
                    res["known"].setdefault(kf["id"], []).append("%s %s @%d: %s" % (prop, cfg["id"], ai, msg))
                else:
                    res["violations"].append(dict(kind=cfg["kind"], casefile=casefile, case=cfg["id"], index=ai, msg=msg, twin=ttext, noshrink=True))


def case_features(cfg, items):
    """cheap structural features of an implementation trace, for the coverage counts"""
    f = set()
    prev = None
    for i, it in enumerate(items):
        if it["kind"] == "probe":
            p = monitors.parse_probe(it["out"])
            if p and p["cap"] is not None and p["size"] == p["cap"]:
                f.add("full")
            if p and p["size"] > len(monitors.found(p)):
                f.add("expired_resident")
            prev = p
            continue
        n = it["name"]
        f.add("op:" + n)
        if n == "insert" and it["out"] == "b1" and prev and it["k"] not in monitors.found(prev) and prev["cap"] is not None and prev["size"] >= prev["cap"]:
            f.add("evicting_insert")
        if n == "insert" and it["out"] == "b0":
            f.add("rejected_insert")
        if n in ("find", "find_use") and it["out"] == "-":
            f.add("miss")
        if n in ("find", "find_use") and it["out"] != "-":
            f.add("hit")
        if n == "erase" and it["out"] == "b1":
            f.add("erase_hit")
        if n == "clean" and it["out"] not in ("n0", "unsupported"):
            f.add("clean_removed")
        if n == "dyn_age" and it["out"] not in ("n0", "unsupported"):
            f.add("aged")
        if n in ("insert_range", "insert_it", "erase_range", "find_range", "find_range_fill", "erase_it", "find_it", "find_fill_it"):
            f.add("range")
    if cfg["cap"] == 1:
        f.add("cap1")
    return f


NONTRIVIAL = {
    "C01": {"hit"}, "C02": {"full"}, "C03": {"evicting_insert"}, "C04": {"expired_resident"}, "C05": {"hit"},
    "C08": {"evicting_insert", "erase_hit"}, "C09": {"rejected_insert"}, "C10": {"evicting_insert"}, "C11": {"evicting_insert"},
    "C12": {"evicting_insert"}, "C13": {"evicting_insert"}, "C14": {"aged"}, "C15": {"evicting_insert"},
    "C16": {"expired_resident", "full"}, "C17": {"clean_removed"}, "C18": {"range"}, "C19": {"miss", "rejected_insert"},
    "C20": {"op:clear"}, "C06": {"hit"}, "C07": {"hit"},
}


def nontrivial(prop, feats):
    need = NONTRIVIAL.get(prop, set())
    return need <= feats if prop in ("C16",) else bool(need & feats)


def proof_part(prop, res):
    """Coq obligations of the property; fills res['obligations'] etc."""
    ok, lg = coq_build()
    mods = PROP_FILES.get(prop, ["Props_%s" % prop])
    names_all = []
    for m in mods:
        vf = os.path.join(COQ, m + ".v")
        if not os.path.exists(vf):
            if m == "ConcProps":
                continue
            res["broken"].append(dict(what="theorem file missing", detail=m))
            continue
        vo = os.path.join(COQ, m + ".vo")
        names = theorem_names(vf)
        res["obligations"] += len(names)
        if not os.path.exists(vo) or os.path.getmtime(vo) < os.path.getmtime(vf):
            res["broken"].append(dict(what="theorems of %s do not check" % m, detail=lg[-3000:]))
            continue
        asm, raw = print_assumptions("Capp." + m, names)
        if asm is None:
            res["broken"].append(dict(what="Print Assumptions failed for %s" % m, detail=raw[-2000:]))
            continue
        for nme, ax in asm.items():
            bad = [a for a in ax if a not in ALLOWED_AXIOMS]
            if bad:
                res["broken"].append(dict(what="theorem %s depends on axioms" % nme, detail=", ".join(bad)))
            else:
                res["discharged"] += 1
                res["theorems"].append(nme)
        res["assumptions"][m] = {k: (v or "Closed under the global context") for k, v in asm.items()}
    # tie (g): the current source of each container the property covers, translated and proved equal to its literal machine
    if prop not in ("C06", "C07"):
        oks, ds = gen_check.shared_headers(REPO)
        res["obligations"] += 1
        res["extra"]["allow_hpp"] = ds
        if oks:
            res["discharged"] += 1
        else:
            res["broken"].append(dict(what="allow.hpp is no longer what the translator's rule table assumes", detail=ds))
        for ki in PROP_KINDS[prop]:
            kd = KINDS[ki]
            if kd not in gen_check.BRIDGES:
                continue
            r = gen_check.bridge(kd, REPO, BUILD, COQ)
            res["obligations"] += 1
            res["extra"].setdefault("source_translation", {})[kd] = dict(
                ok=r["ok"], theorems=r["theorems"], what=r["what"], detail=r["detail"][-600:])
            if r["ok"]:
                res["discharged"] += 1
                res["theorems"] += ["%s.%s" % (gen_check.BRIDGES[kd][2], t) for t in r["theorems"]]
            else:
                res["broken"].append(dict(what=r["what"] + " no longer checks", detail=r["detail"][-2500:], container=kd))
    if res["tier"] == "thorough" and prop not in ("C06", "C07"):
        import concurrent.futures
        kds = [k for k, v in res["extra"].get("source_translation", {}).items() if v["ok"]]
        with concurrent.futures.ThreadPoolExecutor(max_workers=5) as ex:
            for kd, (ok_, summ) in zip(kds, ex.map(lambda k: gen_check.coqchk(k, BUILD, COQ), kds)):
                res["obligations"] += 1
                res["extra"].setdefault("coqchk", {})["bridge:" + kd] = summ
                if ok_:
                    res["discharged"] += 1
                else:
                    res["broken"].append(dict(what="coqchk does not accept the bridge of %s" % kd, detail=summ, container=kd))
    if not ok:
        # some file of the development does not compile: if it is one this property depends on, the .vo test above caught it
        res["coq_log_tail"] = lg[-1500:]
    bad = audit_sources()
    if bad:
        res["broken"].append(dict(what="forbidden construct in the development", detail="; ".join(bad[:10])))
    if res["tier"] == "thorough":
        # independent re-check of the compiled property file(s) and everything they depend on
        for m in mods:
            if not os.path.exists(os.path.join(COQ, m + ".vo")):
                continue
            rc, o, e = sh(["coqchk", "-o", "-silent", "-Q", COQ, "Capp", "Capp." + m], timeout=1800)
            summary = (o + e)[(o + e).find("CONTEXT SUMMARY"):][:1500]
            ok_ = rc == 0 and "* Axioms: <none>" in summary and "type-in-type: <none>" in summary and \
                "unsafe (co)fixpoints: <none>" in summary and "positivity is assumed: <none>" in summary
            res["extra"].setdefault("coqchk", {})[m] = "ok: no axioms, no type-in-type, no unsafe fixpoints, no assumed positivity" if ok_ else summary
            res["obligations"] += 1
            if ok_:
                res["discharged"] += 1
            else:
                res["broken"].append(dict(what="coqchk does not accept %s" % m, detail=(o + e)[-1500:]))


def new_res(prop, tier, seed):
    return dict(prop=prop, tier=tier, seed=seed, cases=0, lines=0, agree=0, diffs=[], crashes=[], violations=[], known={},
                broken=[], obligations=0, discharged=0, theorems=[], assumptions={}, distinct=set(), nontrivial=set(),
                features={}, samples=[], gen_stats={}, extra={})


def write_evidence(res, violations):
    prop = res["prop"]
    cov = dict(
        obligations=max(res["obligations"], 1), discharged=res["discharged"],
        checker_cmd="make -C coq -j16 (coqc 8.16.1, full .vo) ; coqc Print Assumptions on every theorem of the property's file(s)",
        trusted_base=TRUSTED,
        theorems=res["theorems"], print_assumptions=res["assumptions"],
        evaluations=res["cases"], distinct_nontrivial=len(res["nontrivial"]),
        rule="operation sequences from gen/generate.py (seeded, aimed at full/non-full, absent/live/expired, boundary instants); "
             "a case counts as non-trivial for this property when its implementation trace contains: %s; distinct = distinct op-sequence hash"
             % sorted(NONTRIVIAL.get(prop, [])),
        samples=res["samples"] or [dict(note="no sequential sample for this property in this run")],
        traces_validated_against_impl=res["agree"], correspondence_lines=res["lines"],
        correspondence_disagreements=len(res["diffs"]), sanitizer_or_crash_reports=len(res["crashes"]),
        features=res["features"], generator=res["gen_stats"], known_findings=res["known"], broken=res["broken"],
    )
    cov.update(res["extra"])
    ev = dict(property_id=prop, tier=res["tier"], seed=res["seed"], level="proof", coverage=cov,
              assumptions=ASSUMPTIONS, wall_s=round(time.time() - T0, 2), violations=violations)
    os.makedirs(os.path.join(OUTROOT, "evidence"), exist_ok=True)
    with open(os.path.join(OUTROOT, "evidence", "%s.json" % prop), "w") as f:
        json.dump(ev, f, indent=1, default=lambda o: sorted(o) if isinstance(o, set) else str(o))


TRUSTED = [
    "Coq 8.16.1 kernel (coqc); vm_compute for computed obligations and refuted-examples; no native_compute",
    "no axioms: every property theorem is closed under the global context (Print Assumptions, parsed each run)",
    "extraction: Require Extraction + ExtrOcamlBasic (Extract Inductive bool, option, unit, list, prod, sumbool, sumor; no Extract Constant); OCaml 4.13.1; ocaml/driver.ml (parsing/printing only)",
    "correspondence: harness/seq.cpp built from /repo/inc each run, link-time replacement of steady_clock::now, generator, differential comparison over finitely many sequences",
    "modelled, not verified: std::list/unordered_map/multimap/map/vector semantics, std::mutex, C++ memory model DRF-SC, steady_clock monotone, mt19937/uniform_int_distribution, value_type copy/move total and value preserving, no allocation failure, no overflow of counters/time_points",
]
ASSUMPTIONS = [
    "clock readings non-decreasing; capacity >= 1; TTLs >= 0; tick > 0; ratio dyadic",
    "the model is tied to the code by differential testing of the public API (with side-effect-free probes on replicas), not by a verified translation",
]


def spread_check(res):
    """C15, second half: over many evictions no resident position is immune and none is always chosen.
    The thresholds are so loose that a correct uniform source fails with probability < 1e-9:
    with n >= cap*(ln cap + 21) evictions at capacity cap, every slot must be chosen at least once
    (P(miss) <= cap*(1-1/cap)^n); with n >= 60*cap none less than an eighth of its share; none more than 90% of the time."""
    out = []
    # one cache instance at a time: 40 or more evictions of one engine that fall on one slot more than 90% of the time
    # (a uniform source does that with probability < 1e-20 for two slots, less for more)
    for rec in res["extra"].get("victim_slot_per_instance", []):
        n = sum(rec["histogram"])
        if max(rec["histogram"]) > 0.9 * n:
            out.append("case %s, capacity %d: one instance evicted slot %d in %d of %d evictions (histogram %s)" % (
                rec["case"], rec["cap"], rec["histogram"].index(max(rec["histogram"])), max(rec["histogram"]), n, rec["histogram"]))
    for cap, h in sorted(res["extra"].get("victim_slot_histogram", {}).items()):
        cap = int(cap)
        n = sum(h)
        # a uniform source leaves some slot unchosen with probability <= cap*(1-1/cap)^n < 1e-9 once n >= cap*(ln cap + 21)
        if cap < 2 or n < cap * (math.log(cap) + 21):
            continue
        for r, c in enumerate(h):
            if c == 0:
                out.append("capacity %d: slot %d was never the victim in %d evictions (histogram %s)" % (cap, r, n, h))
            elif n >= 60 * cap and c * 8 * cap < n:
                # expected n/cap >= 60; a count below an eighth of that has probability < exp(-(7/8)^2*60/2) ~ 1e-10 (Chernoff)
                out.append("capacity %d: slot %d was the victim in only %d of %d evictions, expected about %d (histogram %s)" % (cap, r, c, n, n // cap, h))
            if c > 0.9 * n:
                out.append("capacity %d: slot %d was the victim in %d of %d evictions (histogram %s)" % (cap, r, c, n, h))
    return out


def decide(prop, res, rundir):
    """turn res into the exit code / VIOLATION lines"""
    if prop == "C15":
        sp = spread_check(res)
        if sp:
            res.setdefault("conc_violations", []).append(dict(property=prop, kind="rr", what="the victims are not spread over the resident positions",
                                                              findings=sp, histogram=res["extra"].get("victim_slot_histogram")))
    known = res["known"]
    for kid, hits in sorted(known.items()):
        print("KNOWN-FINDING: property=%s %s (%d occurrence(s) in this run, e.g. %s)" % (prop, kid, len(hits), hits[0][:160]))
    nviol = 0
    if res.get("conc_violations"):
        cv = res["conc_violations"][0]
        rp = write_replay(prop, cv.get("kind", "conc"), cv)
        print("VIOLATION property=%s replay=%s" % (prop, os.path.relpath(rp, OUTROOT)))
        return 1
    if res["violations"]:
        v = res["violations"][0]
        # isolate the failing case and shrink it
        text = next((c for c in split_cases(v["casefile"]) if case_id(c) == v["case"]), None)
        k = KINDS.index(v["kind"])

        def still(t):
            f = os.path.join(rundir, "shrink.cases")
            open(f, "w").write(t)
            r = run_kind(k, f, rundir)
            try:
                for (cfg, items, endl) in monitors.parse_cases(f, r["outfile"]):
                    if any(True for _ in monitors.run_monitors(cfg, items, endl, props={prop})):
                        return True
            except Exception:
                return False
            return False
        small = shrink_case(k, text, still) if (text and not v.get("noshrink")) else None
        msgs = [x["msg"] for x in res["violations"][:5]]
        rp = write_replay(prop, v["kind"], dict(property=prop, kind=v["kind"], what="the implementation's own trace violates the property",
                                               messages=msgs, case=(small or text), twin_case=v.get("twin"), seed=res["seed"],
                                               how_to_replay="./check %s --replay <this file>" % prop))
        print("VIOLATION property=%s replay=%s" % (prop, os.path.relpath(rp, OUTROOT)))
        nviol += 1
    elif res["crashes"] or res["diffs"] or res["broken"]:
        # a proof obligation, the build or the correspondence broke and the property's own monitor found no
        # failing input in this run's traces: search with a bigger budget before giving up
        found = None
        if res["diffs"] or res["crashes"] or any(b.get("container") for b in res["broken"]):
            found = deeper_search(prop, res, rundir)
        if found:
            print("VIOLATION property=%s replay=%s" % (prop, os.path.relpath(found, OUTROOT)))
        else:
            what = []
            for b in res["broken"][:5]:
                what.append(dict(kind="obligation", what=b["what"], detail=b["detail"][:1500]))
            for d in res["diffs"][:5]:
                what.append(dict(kind="correspondence", container=d["kind"], san=d["san"], line=d["line"], casefile=d["casefile"]))
            for c in res["crashes"][:3]:
                what.append(dict(kind="crash-or-sanitizer", container=c["kind"], san=c["san"], rc=c["rc"], stderr=c["stderr"][-1500:], casefile=c["casefile"]))
            first_case = None
            if res["diffs"]:
                d = res["diffs"][0]
                cid = d["line"].split()[1]
                first_case = next((c for c in split_cases(d["casefile"]) if case_id(c) == cid), None)
            rp = write_replay(prop, "unproved", dict(property=prop, what="the property is no longer shown to hold: the items below no longer check; "
                                                     "no input violating the property itself was found", no_longer_checks=what, case=first_case,
                                                     seed=res["seed"]))
            print("VIOLATION property=%s replay=%s no-failing-input-found" % (prop, os.path.relpath(rp, OUTROOT)))
        nviol += 1
    return nviol


def deeper_search(prop, res, rundir):
    """the property's monitor over a 10x budget of fresh sequences on the kinds that disagreed"""
    kinds = sorted({KINDS.index(d["kind"]) for d in res["diffs"]} | {KINDS.index(c["kind"]) for c in res["crashes"]} |
                   {KINDS.index(b["container"]) for b in res["broken"] if b.get("container")})
    known = load_known()
    for k in kinds:
        for sd in range(res["seed"] + 7, res["seed"] + 12):
            f, _ = gen_cases(k, sd, 400, 40, rundir)
            r = run_kind(k, f, rundir)
            if prop in ("C18", "C19", "C20"):
                tmp = new_res(prop, res["tier"], sd)
                try:
                    twin_part(prop, k, f, r["outfile"], rundir, tmp, known, sd)
                except Exception:
                    pass
                if tmp["violations"]:
                    v = tmp["violations"][0]
                    text = next((c for c in split_cases(f) if case_id(c) == v["case"]), None)
                    return write_replay(prop, v["kind"], dict(property=prop, kind=v["kind"], what="found by the deeper search (twin run) after a correspondence/obligation break",
                                                              messages=[x["msg"] for x in tmp["violations"][:5]], case=text, twin_case=v.get("twin"), seed=sd))
            try:
                for (cfg, items, endl) in monitors.parse_cases(f, r["outfile"]):
                    vs = [v for v in monitors.run_monitors(cfg, items, endl, props={prop}) if not known_match(prop, cfg, v.msg, known)]
                    if vs:
                        text = next((c for c in split_cases(f) if case_id(c) == cfg["id"]), None)
                        return write_replay(prop, cfg["kind"], dict(property=prop, kind=cfg["kind"], what="found by the deeper search after a correspondence/obligation break",
                                                                    messages=[v.msg for v in vs[:5]], case=text, seed=sd))
            except Exception:
                pass
        # a crash / sanitizer report on a valid call sequence is itself a C08 violation
        if prop == "C08":
            for c in res["crashes"]:
                return write_replay(prop, c["kind"], dict(property=prop, kind=c["kind"], what="crash or sanitizer report on a valid call sequence",
                                                          stderr=c["stderr"], casefile=c["casefile"], san=c["san"]))
    if prop == "C08" and res["crashes"]:
        c = res["crashes"][0]
        return write_replay(prop, c["kind"], dict(property=prop, kind=c["kind"], what="crash or sanitizer report on a valid call sequence",
                                                  stderr=c["stderr"], casefile=c["casefile"], san=c["san"]))
    return None


def replay(prop, path):
    p = json.load(open(path))
    text = p.get("case")
    if not text:
        print("replay file names obligations that no longer check:")
        print(json.dumps(p.get("no_longer_checks", p), indent=1)[:4000])
        return 1
    kind = KINDS.index(KINDS[int(text.split()[2])])
    with Lock():
        ensure_driver()
        ensure_harness([kind], san=False)
    d = os.path.join(BUILD, "run", "replay-%d" % os.getpid())
    os.makedirs(d, exist_ok=True)
    f = os.path.join(d, "replay.cases")
    open(f, "w").write(text)
    r = run_kind(kind, f, d)
    print(open(r["outfile"]).read())
    bad = 0
    for (cfg, items, endl) in monitors.parse_cases(f, r["outfile"]):
        for v in monitors.run_monitors(cfg, items, endl, props={prop}):
            print("MONITOR", v)
            bad += 1
    for dline in r["diffs"]:
        print(dline)
    if bad:
        print("VIOLATION property=%s replay=%s" % (prop, path))
    return 1 if (bad or r["diffs"] or r["crashed"]) else 0


def main():
    if len(sys.argv) < 3:
        print(__doc__)
        return 2
    prop = sys.argv[1]
    if sys.argv[2] == "--replay":
        return replay(prop, sys.argv[3])
    tier = sys.argv[2]
    if os.environ.get("VERIF_TIER") in ("quick", "thorough"):
        tier = os.environ["VERIF_TIER"] if tier not in ("quick", "thorough") else tier
    seed = int(os.environ.get("VERIF_SEED", "1"))
    res = new_res(prop, tier, seed)
    with Lock():
        proof_part(prop, res)
        if prop in ("C06", "C07"):
            import conc_check
            conc_check.run(prop, tier, seed, res, sys.modules[__name__])
        rundir = sequential_part(prop, tier, seed, res)
    nviol = decide(prop, res, rundir)
    write_evidence(res, nviol)
    shutil.rmtree(rundir, ignore_errors=True)
    log("%s %s: cases=%d agree=%d diffs=%d crashes=%d monitor_violations=%d known=%d obligations=%d/%d wall=%.1fs" % (
        prop, tier, res["cases"], res["agree"], len(res["diffs"]), len(res["crashes"]), len(res["violations"]),
        sum(len(v) for v in res["known"].values()), res["discharged"], res["obligations"], time.time() - T0))
    return 1 if nviol else 0


if __name__ == "__main__":
    sys.exit(main())
