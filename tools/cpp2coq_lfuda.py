"""cpp2coq_lfuda.py — the lfuda_cache family module of the translator tools/cpp2coq.py.

State record: lfdl of coq/LfudaLit.v.  The elements live in the nodes of m_dynamic_age_list:
`element&` is the identity of its list node (kind eref, a nat), reading / writing a member of
it goes through dl_cells (bounds-checked: vget / vset).  The mapped values of m_keyed_elements
and m_lfu_list are list iterators; the record keeps node identities there, so storing goes
through it_node (end() is not storable) and reading gives back `It n`.

Rules added here (C++ construct -> primitive):
  *it                      (list iterator)              l_deref list it          : element&
  e.m_x                    (read through element&)      vget cells e, projection dc_x
  e.m_x = v                (write through element&)     vget + vset cells e (set_dc_x ...)
  it->second               (index iterator)             mit_second index it      -> It n
  it->first                (multimap iterator)          mm_deref mm it
  it->second               (multimap iterator)          mm_second mm it          -> It n
  m_lfu_list.begin()                                    mm_begin mm
  m_lfu_list.emplace(c, it)                             it_node it; mm_emplace c n mm   (result Some n)
  m_lfu_list.erase(it)                                  mm_erase mm it
  m_keyed_elements.emplace(k, it)                       it_node it; umap_emplace cap index k n
  m_dynamic_age_list.size()                             List.length list
  a + b                    (size_t)                     a + b  (nat)
  tp + d                   (time_point + duration)      (tp + d)%Z   (nanoseconds)
  tp < tp'  (also > <= >=) (time_points)                (tp <? tp')%Z
  m_dynamic_age_tick       (std::chrono::milliseconds)  ms (dl_tick s)  (the record keeps the count of ms)
  (size_t)(c * m_dynamic_age_ratio)   (size_t * float, cast back)   scale (dl_rnum s) (dl_rk s) c
        — the ratio is the dyadic dl_rnum / 2^dl_rk, the product and the truncation are exact;
          float rounding is outside the model
  std::make_pair(e.m_value, n)                          val_pair cell n
  std::optional<std::pair<V, size_t>>{}                 None
"""
import cpp2coq
from cpp2coq import Unsupported

cpp2coq.SCHEMA["lfuda_cache"] = dict(
    module="GenLfuda",
    requires=["Capp.Base", "Capp.Rr", "Capp.Lfuda", "Capp.RrLit", "Capp.LruLit", "Capp.LfudaLit"],
    state="lfdl", state_args="K V", elem="dcell", elem_args="K V", cap="dl_cap",
    fields=[("dl_cap", None, "cap"), ("dl_tick", "m_dynamic_age_tick", "durms"), ("dl_rnum", None, "rnum"), ("dl_rk", None, "rk"),
            ("dl_list", "m_dynamic_age_list", "list"), ("dl_cells", None, "vec"), ("dl_end", "m_open_list_end", "liter"),
            ("dl_index", "m_keyed_elements", "umap"), ("dl_mm", "m_lfu_list", "mmap"), ("dl_used", "m_used_size", "nat")],
    elem_fields=[("dc_keyed", "m_keyed_position", "mit"), ("dc_lfu", "m_lfu_position", "mmit"),
                 ("dc_age", "m_dynamic_age", "time"), ("dc_val", "m_value", "optval")],
    # float m_dynamic_age_ratio = dl_rnum / 2^dl_rk
    ratio=("m_dynamic_age_ratio", "dl_rnum", "dl_rk"),
    clock=True,
    ctor=True, cells="dl_cells", elem_default="{| dc_keyed := None; dc_lfu := None; dc_age := 0%Z; dc_val := None |}",
    # the only loop (do_dynamic_age) re-files one node of the list per iteration, each at most once
    # (0 <= tick); one more round for the test that ends it.  Running out is reported as UB.
    fuel="(S (List.length (dl_list %(s)s)))",
    methods=["do_access", "do_erase", "do_dynamic_age", "do_prune", "do_insert", "do_update", "do_insert_update",
             "do_find", "do_find_with_use_count",
             "insert", "insert_range", "erase", "erase_range", "find", "find_with_use_count", "find_range", "find_range_fill",
             "dynamically_age", "empty", "size", "capacity"],
    inst='''template class cappuccino::%(cls)s<KeyT, ValT, cappuccino::thread_safe::yes>;
using C = cappuccino::%(cls)s<KeyT, ValT, cappuccino::thread_safe::yes>;
void use_all(C& c) {
  std::vector<std::pair<KeyT, ValT>> kv; c.insert_range(std::move(kv), cappuccino::allow::insert_or_update);
  std::vector<KeyT> ks; c.erase_range(ks); c.find_range(ks, false);
  std::vector<std::pair<KeyT, std::optional<ValT>>> fill; c.find_range_fill(fill, false);
}''',
)

CELL = '"list node"'


class Ext(cpp2coq.Tr):
    # ---- constructor: the float ratio is the dyadic rnum / 2^rk of the literal machine (two nat parameters)
    def ctor_param(self, pn, t, env, params):
        if pn == "dynamic_age_ratio" and t == "float":
            env[pn] = ("(p_rnum, p_rk)", "ratio")
            params += ["(p_rnum : nat)", "(p_rk : nat)"]
            return True
        return False

    def ctor_init(self, F, member, c, env):
        if member == "m_dynamic_age_ratio":
            if c["k"] == "ref" and c["n"] in env and env[c["n"]][1] == "ratio":
                F["dl_rnum"], F["dl_rk"] = "p_rnum", "p_rk"
                return
            raise Unsupported("initialiser of m_dynamic_age_ratio")
        return super().ctor_init(F, member, c, env)

    COQTY = dict(cpp2coq.Tr.COQTY, mmit="option nat", optvaluse="option (V * nat)")

    # ---- types
    def akind_ext(self, t, param):
        if t.startswith("std::chrono::") and t.endswith("time_point") or t.startswith("std::chrono::time_point<"):
            return "time"
        if t == "std::chrono::milliseconds":
            return "dur"
        if t.startswith("std::__detail::_Node_iterator<") or t.endswith("::keyed_iterator") \
                or (t.startswith("std::unordered_map<") and t.endswith(">::iterator")):
            return "mit"
        if t.startswith("std::_Rb_tree_iterator<") or t.endswith("::lfu_iterator") \
                or (t.startswith("std::multimap<") and t.endswith(">::iterator")):
            return "mmit"
        if t.startswith("std::_List_iterator<") or t.endswith("::age_iterator") \
                or (t.startswith("std::list<") and t.endswith(">::iterator")):
            return "liter"
        if t.startswith("std::optional<std::pair<ValT, size_t>>"):
            return "optvaluse"
        return None

    # ---- helpers
    def order_names(self, names, env):
        return [n for n in env if n in names]          # declaration order: renaming a local keeps the shape

    def cell(self, eref, st):
        """the element stored in list node eref: (bind lines, name)"""
        x = self.fresh("e")
        return ["do %s <- vget %s %s %s;" % (x, CELL, self.fld("vec", st[0]), eref)], x

    def node_of(self, it):
        """a list iterator stored as a mapped value: the identity of its node"""
        n = self.fresh("n")
        return ["do %s <- it_node %s;" % (n, it)], n

    # ---- expressions
    def E_ext(self, c, st, env):
        k = c["k"]
        if k == "op" and c["n"] == "operator*" and len(c["a"]) == 1:
            b, t, kd = self.E(c["a"][0], st, env)
            if kd != "liter":
                raise Unsupported("operator* on %s" % kd)
            x = self.fresh("d")
            return b + ["do %s <- l_deref %s %s;" % (x, self.fld("list", st[0]), t)], x, "eref"
        if k == "op" and c["n"] == "operator->" and len(c["a"]) == 1:
            b, t, kd = self.E(c["a"][0], st, env)
            if kd in ("mit", "mmit"):
                return b, t, kd + "->"
            if kd == "liter":       # it->m_x is (*it).m_x
                x = self.fresh("d")
                return b + ["do %s <- l_deref %s %s;" % (x, self.fld("list", st[0]), t)], x, "eref"
            raise Unsupported("operator-> on %s" % kd)
        if k == "member":
            b, t, kd = self.E(c["a"][0], st, env)
            if kd == "eref":
                if c["n"] not in self.ef_by_cpp:
                    raise Unsupported("member %s of an element" % c["n"])
                coq, fk = self.ef_by_cpp[c["n"]]
                b2, x = self.cell(t, st)
                return b + b2, "(%s %s)" % (coq, x), fk
            if kd == "mit->" and c["n"] == "second":
                x = self.fresh("sec")
                return b + ["do %s <- mit_second %s %s;" % (x, self.fld("umap", st[0]), t)], "(It %s)" % x, "liter"
            if kd == "mmit->" and c["n"] == "first":
                x = self.fresh("cnt")
                return b + ["do %s <- mm_deref %s %s;" % (x, self.fld("mmap", st[0]), t)], x, "nat"
            if kd == "mmit->" and c["n"] == "second":
                x = self.fresh("sec")
                return b + ["do %s <- mm_second %s %s;" % (x, self.fld("mmap", st[0]), t)], "(It %s)" % x, "liter"
            if kd == "emplaced" and c["n"] == "first":
                return b, t, "mit"
            raise Unsupported("member %s of %s" % (c["n"], kd))
        if k == "field":
            if c["n"] == self.sc["ratio"][0]:
                raise Unsupported("use of the float %s other than (size_t)(n * %s)" % (c["n"], c["n"]))
            if c["n"] in self.f_by_cpp and self.f_by_cpp[c["n"]][1] == "durms":
                # a std::chrono::milliseconds member, converted to the clock's duration where it is used
                return [], "(ms (%s %s))" % (self.f_by_cpp[c["n"]][0], st[0]), "dur"
            return None
        if k == "mcall" and c["a"][0]["k"] != "this":
            m, args = c["n"], c["a"][1:]
            if c["a"][0]["k"] != "field":
                return None
            b0, t0, k0 = self.E(c["a"][0], st, env)
            if k0 == "list" and m == "size" and not args:
                return b0, "(List.length %s)" % t0, "nat"
            if k0 == "mmap" and m == "begin" and not args:
                return b0, "(mm_begin %s)" % t0, "mmit"
            if k0 == "mmap" and m == "emplace" and len(args) == 2:
                b1, t1, k1 = self.E(args[0], st, env)
                b2, t2, k2 = self.E(args[1], st, env)
                if (k1, k2) != ("nat", "liter"):
                    raise Unsupported("multimap emplace(%s, %s)" % (k1, k2))
                b3, n = self.node_of(t2)
                ns = self.fresh("s")
                b = b0 + b1 + b2 + b3 + ["let %s := set_%s %s (mm_emplace %s %s %s) in" % (
                    ns, self.kind_field["mmap"], st[0], t1, n, self.fld("mmap", st[0]))]
                st[0] = ns
                return b, "(Some %s)" % n, "mmit"
            if k0 == "umap" and m == "emplace" and len(args) == 2:
                b1, t1, k1 = self.E(args[0], st, env)
                b2, t2, k2 = self.E(args[1], st, env)
                if (k1, k2) != ("key", "liter"):
                    raise Unsupported("emplace(%s, %s)" % (k1, k2))
                b3, n = self.node_of(t2)
                x, ns = self.fresh("ix"), self.fresh("s")
                b = b0 + b1 + b2 + b3 + ["do %s <- umap_emplace (%s %s) %s %s %s;" % (x, self.sc["cap"], st[0], self.fld("umap", st[0]), t1, n),
                                         "let %s := set_%s %s %s in" % (ns, self.kind_field["umap"], st[0], x)]
                st[0] = ns
                return b, "(Some %s)" % t1, "emplaced"
            if k0 == "mmap":
                raise Unsupported("multimap %s as a value" % m)
            return None
        if k == "bin" and c["n"] == "+":
            b1, t1, k1 = self.E(c["a"][0], st, env)
            b2, t2, k2 = self.E(c["a"][1], st, env)
            if (k1, k2) == ("nat", "nat"):
                return b1 + b2, "(%s + %s)" % (t1, t2), "nat"
            raise Unsupported("+ on %s, %s" % (k1, k2))
        if k == "op" and c["n"] == "operator+" and len(c["a"]) == 2:
            b1, t1, k1 = self.E(c["a"][0], st, env)
            b2, t2, k2 = self.E(c["a"][1], st, env)
            if (k1, k2) == ("time", "dur"):
                return b1 + b2, "(%s + %s)%%Z" % (t1, t2), "time"
            raise Unsupported("operator+ on %s, %s" % (k1, k2))
        if k == "op" and c["n"] in ("operator<", "operator>", "operator<=", "operator>=") and len(c["a"]) == 2:
            b1, t1, k1 = self.E(c["a"][0], st, env)
            b2, t2, k2 = self.E(c["a"][1], st, env)
            if (k1, k2) == ("time", "time"):
                tm = {"operator<": "(%s <? %s)%%Z" % (t1, t2), "operator>": "(%s <? %s)%%Z" % (t2, t1),
                      "operator<=": "(%s <=? %s)%%Z" % (t1, t2), "operator>=": "(%s <=? %s)%%Z" % (t2, t1)}[c["n"]]
                return b1 + b2, tm, "bool"
            raise Unsupported("%s on %s, %s" % (c["n"], k1, k2))
        if k == "?CStyleCastExpr":
            # (size_t)(n * m_dynamic_age_ratio): n converted to float, multiplied, truncated
            x = c["a"][0] if len(c["a"]) == 1 else None
            if c["t"] in ("size_t", "unsigned long") and x and x["k"] == "bin" and x["n"] == "*" and x["t"] == "float" \
                    and x["a"][1]["k"] == "field" and x["a"][1]["n"] == self.sc["ratio"][0] and x["a"][1]["t"] == "float":
                b1, t1, k1 = self.E(x["a"][0], st, env)
                if k1 != "nat":
                    raise Unsupported("%s * float" % k1)
                _, rnum, rk = self.sc["ratio"]
                return b1, "(scale (%s %s) (%s %s) %s)" % (rnum, st[0], rk, st[0], t1), "nat"
            raise Unsupported("cast %s" % cpp2coq.show(c)[:200])
        if k == "call" and c["n"] == "make_pair" and len(c["a"]) == 2:
            b1, t1, k1 = self.E(c["a"][0], st, env)
            b2, t2, k2 = self.E(c["a"][1], st, env)
            if (k1, k2) == ("optval", "nat"):
                return b1 + b2, "(val_pair %s %s)" % (t1, t2), "valuse"
            raise Unsupported("make_pair(%s, %s)" % (k1, k2))
        if k == "conv" and "std::optional<std::pair<ValT, size_t>>" in c["t"]:
            b, t, kd = self.E(c["a"][0], st, env)
            if kd == "valuse":
                return b, t, "optvaluse"
            raise Unsupported("conversion of %s to %s" % (kd, c["t"]))
        if k == "construct" and "std::optional<std::pair<ValT, size_t>>" in c["t"] and not c["a"]:
            return [], "None", "optvaluse"
        return None

    # ---- statements
    def X_ext(self, c, st, env):
        k = c["k"]
        if ((k == "bin" and c["n"] == "=") or (k == "op" and c["n"] == "operator=")) and c["a"][0]["k"] == "member":
            lhs, rhs = c["a"]
            bo, to, ko = self.E(lhs["a"][0], st, env)
            if ko != "eref":
                raise Unsupported("assignment to a member of %s" % ko)
            if lhs["n"] not in self.ef_by_cpp:
                raise Unsupported("member %s of an element" % lhs["n"])
            coq, fk = self.ef_by_cpp[lhs["n"]]
            b, t, kd = self.E(rhs, st, env)
            if kd == "emplaced":
                kd = "mit"
            if fk == "optval" and kd == "val":
                val = "(Some %s)" % t
            elif fk == kd and fk in ("mit", "mmit", "time"):
                val = t
            else:
                raise Unsupported("assignment of %s to element field %s" % (kd, lhs["n"]))
            b2, x = self.cell(to, st)
            es, ns = self.fresh("es"), self.fresh("s")
            lines = bo + b + b2 + ["do %s <- vset %s %s %s (set_%s %s %s);" % (es, CELL, self.fld("vec", st[0]), to, coq, x, val),
                                   "let %s := set_%s %s %s in" % (ns, self.kind_field["vec"], st[0], es)]
            st[0] = ns
            return lines
        if k == "mcall" and c["a"][0]["k"] == "field" and c["n"] == "erase" and len(c["a"]) == 2 \
                and self.f_by_cpp.get(c["a"][0]["n"], (None, None))[1] == "mmap":
            b0, t0, k0 = self.E(c["a"][0], st, env)
            b1, t1, k1 = self.E(c["a"][1], st, env)
            if k1 != "mmit":
                raise Unsupported("multimap erase(%s)" % k1)
            x, ns = self.fresh("mm"), self.fresh("s")
            out = b0 + b1 + ["do %s <- mm_erase %s %s;" % (x, self.fld("mmap", st[0]), t1),
                             "let %s := set_%s %s %s in" % (ns, self.kind_field["mmap"], st[0], x)]
            st[0] = ns
            return out
        return None
