"""cpp2coq_utlru.py — the rules cpp2coq.py needs for cappuccino::utlru_cache, over the state record of
coq/TtlLit.v (ttll / telem).

Beyond the base table (lru/mru) the class has: steady_clock time points and a millisecond duration, a
second std::list<size_t> (m_ttl_list) whose nodes are created and destroyed, stored iterators into it,
a local list iterator that is assigned and decremented in a loop (do_ttl_position), a structured
binding of *keyed_position, std::iota over m_lru_list, unordered_map::clear / reserve, vector::capacity,
plain assignments to data members.

Kinds added:  time (Z, ns)   durms (Z, std::chrono::milliseconds)   tlist (the field m_ttl_list)
              titer (iter: an iterator into m_ttl_list)   tnode (nat: the iterator emplace returns, i.e. a node)
              opttnode (element field: stored iterator into m_ttl_list, option nat)
A std::list<size_t>::iterator has the same C++ type whichever list it points into; which list it
belongs to is tracked by its origin (begin()/end()/emplace of the list, or the schema kind of the data
member it is read from) and checked at every use: a mix is Unsupported.
"""
import cpp2coq
from cpp2coq import Unsupported, show

cpp2coq.SCHEMA["utlru_cache"] = dict(
    module="GenUtlru", requires=["Capp.Base", "Capp.Rr", "Capp.TtlLru", "Capp.RrLit", "Capp.LruLit", "Capp.TtlLit"],
    state="ttll", state_args="K V", elem="telem", elem_args="K V", cap="tt_cap", clock=True,
    ctor=True, elem_default="{| te_expire := 0%Z; te_keyed := None; te_lru := None; te_ttl := None; te_val := None |}",
    fields=[("tt_cap", None, "cap"), ("tt_ttl", "m_ttl", "durms"), ("tt_elems", "m_elements", "vec"),
            ("tt_index", "m_keyed_elements", "umap"), ("tt_list", "m_lru_list", "list"), ("tt_end", "m_lru_end", "liter"),
            ("tt_ord", "m_ttl_list", "tlist"), ("tt_used", "m_used_size", "nat")],
    elem_fields=[("te_expire", "m_expire_time", "time"), ("te_keyed", "m_keyed_position", "mit"),
                 ("te_lru", "m_lru_position", "optliter"), ("te_ttl", "m_ttl_position", "opttnode"),
                 ("te_val", "m_value", "optval")],
    # the list a returned std::list<size_t>::iterator points into (checked against every return statement)
    ret_kinds={"do_ttl_position": "titer"},
    # bound on the iterations of the loop of each method, as a term over the state at loop entry:
    # clean_expired_values erases one element per iteration, do_ttl_position steps over one node per iteration
    fuel={"clean_expired_values": "S (tt_used %(s)s)", "do_ttl_position": "S (List.length (tt_ord %(s)s))"},
    methods=["do_access", "do_erase", "do_prune", "do_ttl_position", "do_insert", "do_update", "do_insert_update", "do_find",
             "insert", "insert_range", "erase", "erase_range", "find", "find_range", "find_range_fill",
             "update_ttl", "clear", "clean_expired_values", "empty", "size", "capacity"],
)

ZCMP = {"operator>=": "(%(b)s <=? %(a)s)%%Z", "operator>": "(%(b)s <? %(a)s)%%Z",
        "operator<": "(%(a)s <? %(b)s)%%Z", "operator<=": "(%(a)s <=? %(b)s)%%Z"}


class Ext(cpp2coq.Tr):
    EMPTY_KINDS = cpp2coq.Tr.EMPTY_KINDS + ("tlist",)       # std::list<size_t> m_ttl_list, default constructed: empty

    COQTY = dict(cpp2coq.Tr.COQTY, titer="iter", durms="Z", tnode="nat")

    # ---- types
    def akind_ext(self, t, param):
        if "time_point" in t:
            return "time"
        if t == "std::chrono::milliseconds" or t.replace(" ", "") == "std::chrono::duration<long,std::ratio<1,1000>>":
            return "durms"
        return None

    def sig(self, m):
        pk, rk = super().sig(m)
        rk2 = self.sc.get("ret_kinds", {}).get(m)
        if rk2 is not None and rk == "liter":
            self.sigs[m] = (pk, rk2)
        return self.sigs[m]

    def loop_fuel(self, s):
        f = self.sc["fuel"].get(self.cur)
        if not f:
            raise Unsupported("a loop in %s, and the schema gives no fuel bound for it" % self.cur)
        return f % dict(s=s)

    def peek_kind(self, c, st, env):
        """the kind of an expression, without keeping the bind lines"""
        n = self.n
        try:
            return self.E(c, [st[0]], dict(env))[2]
        finally:
            self.n = n

    def tl(self, s):
        return self.fld("tlist", s)

    # ---- expressions
    def E_ext(self, c, st, env):
        k = c["k"]
        if k == "op" and c["n"] == "operator+" and len(c["a"]) == 2:
            b1, t1, k1 = self.E(c["a"][0], st, env)
            b2, t2, k2 = self.E(c["a"][1], st, env)
            if (k1, k2) == ("time", "durms"):
                # time_point<ns> + milliseconds: the duration is converted to the common type (ns)
                return b1 + b2, "(%s + ms %s)%%Z" % (t1, t2), "time"
            raise Unsupported("operator+ on %s, %s" % (k1, k2))
        if k == "op" and c["n"] in ZCMP and len(c["a"]) == 2:
            b1, t1, k1 = self.E(c["a"][0], st, env)
            b2, t2, k2 = self.E(c["a"][1], st, env)
            if (k1, k2) == ("time", "time"):
                return b1 + b2, ZCMP[c["n"]] % dict(a=t1, b=t2), "bool"
            raise Unsupported("%s on %s, %s" % (c["n"], k1, k2))
        if k == "op" and c["n"] in ("operator!=", "operator==") and self.peek_kind(c["a"][0], st, env) == "titer":
            b1, t1, k1 = self.E(c["a"][0], st, env)
            b2, t2, k2 = self.E(c["a"][1], st, env)
            if (k1, k2) != ("titer", "titer"):
                raise Unsupported("%s on %s, %s" % (c["n"], k1, k2))
            tm = "(iter_eqb %s %s)" % (t1, t2)
            return b1 + b2, tm if c["n"] == "operator==" else "(negb %s)" % tm, "bool"
        if k == "op" and c["n"] == "operator*" and len(c["a"]) == 1 and self.peek_kind(c["a"][0], st, env) == "titer":
            b, t, _ = self.E(c["a"][0], st, env)
            x = self.fresh("d")
            return b + ["do %s <- nl_deref %s %s;" % (x, self.tl(st[0]), t)], x, "nat"
        if k == "call" and c["n"] == "prev" and len(c["a"]) == 1 and self.peek_kind(c["a"][0], st, env) == "titer":
            b, t, _ = self.E(c["a"][0], st, env)
            x = self.fresh("it")
            return b + ["do %s <- nl_prev %s %s;" % (x, self.tl(st[0]), t)], x, "titer"
        if k == "member" and c["n"] in self.ef_by_cpp and self.ef_by_cpp[c["n"]][1] in ("time", "optliter", "opttnode"):
            coq, fk = self.ef_by_cpp[c["n"]]
            b, t, kd = self.E(c["a"][0], st, env)
            if kd != "eref":
                raise Unsupported("member %s of %s" % (c["n"], kd))
            x = self.fresh("e")
            b = b + ["do %s <- vget \"m_elements[]\" %s %s;" % (x, self.fld("vec", st[0]), t)]
            if fk == "time":
                return b, "(%s %s)" % (coq, x), "time"
            y = self.fresh("p")
            if fk == "optliter":
                return b + ["do %s <- get_lru %s;" % (y, x)], y, "liter"
            return b + ["do %s <- opt_node (%s %s);" % (y, coq, x)], y, "titer"
        if k == "mcall" and c["a"][0]["k"] == "field":
            kind0 = self.f_by_cpp[c["a"][0]["n"]][1]
            m, args = c["n"], c["a"][1:]
            if kind0 == "tlist":
                if m == "begin" and not args:
                    return [], "(nl_begin %s)" % self.tl(st[0]), "titer"
                if m == "end" and not args:
                    return [], "End", "titer"
                if m == "front" and not args:
                    # front() is *begin() ([sequence.reqmts]); undefined on an empty list, as the dereference of end() is
                    x = self.fresh("d")
                    return ["do %s <- nl_deref %s (nl_begin %s);" % (x, self.tl(st[0]), self.tl(st[0]))], x, "nat"
                if m == "emplace" and len(args) == 2:
                    b1, t1, k1 = self.E(args[0], st, env)
                    b2, t2, k2 = self.E(args[1], st, env)
                    if (k1, k2) != ("titer", "nat"):
                        raise Unsupported("list emplace(%s, %s)" % (k1, k2))
                    x, o, nd, ns = self.fresh("em"), self.fresh("o"), self.fresh("nd"), self.fresh("s")
                    b = b1 + b2 + ["do %s <- nl_emplace %s %s %s;" % (x, self.tl(st[0]), t1, t2),
                                   "let '(%s, %s) := %s in" % (o, nd, x),
                                   "let %s := set_%s %s %s in" % (ns, self.kind_field["tlist"], st[0], o)]
                    st[0] = ns
                    return b, nd, "tnode"
                raise Unsupported("m_ttl_list.%s as a value" % m)
            if kind0 == "vec" and m == "capacity" and not args:
                # capacity() >= size(), otherwise unspecified: the least value allowed
                return [], "(List.length %s)" % self.fld("vec", st[0]), "nat"
        return None

    # ---- statements
    def S(self, stmts, st, env, K):
        if stmts:
            c, rest = stmts[0], stmts[1:]
            if c["k"] == "decls" and len(c["a"]) == 1:
                v = c["a"][0]
                st, env = [st[0]], dict(env)
                if v["k"] == "var" and v["a"] and self.akind(v["t"]) == "liter" and self.peek_kind(v["a"][0], st, env) == "titer":
                    # a std::list<size_t>::iterator variable initialised with an iterator into m_ttl_list
                    b, t, kd = self.E(v["a"][0], st, env)
                    x = self.fresh("v_" + v["n"] + "_")
                    env[v["n"]] = (x, "titer")
                    return "\n".join(b + ["let %s := %s in" % (x, t), self.S(rest, st, env, K)])
        return super().S(stmts, st, env, K)

    def sbind(self, v, st, env):
        # auto& [a, b] = *it  for an iterator of the index
        names, init = list(v["n"]), v["a"]
        if len(init) == 1 and init[0]["k"] == "ref":
            # auto& [a, b] = x  for the item x of  for (auto& x : range): the base rule (the components of the pair)
            return super().sbind(v, st, env)
        if len(init) != 1 or len(names) != 2 or init[0]["k"] != "op" or init[0]["n"] != "operator*":
            raise Unsupported("structured binding %s" % show(v)[:200])
        b, t, kd = self.E(init[0]["a"][0], st, env)
        if kd != "mit":
            raise Unsupported("structured binding of * of %s" % kd)
        x, a1, a2 = self.fresh("pr"), self.fresh("v_" + names[0] + "_"), self.fresh("v_" + names[1] + "_")
        lines = b + ["do %s <- mit_deref %s %s;" % (x, self.fld("umap", st[0]), t), "let '(%s, %s) := %s in" % (a1, a2, x)]
        env[names[0]] = (a1, "key")
        env[names[1]] = (a2, "nat")
        return lines

    def X_ext(self, c, st, env):
        k = c["k"]
        # --it / ++it on a local iterator into m_ttl_list
        if k == "op" and c["n"] == "operator--" and len(c["a"]) == 1 and c["a"][0]["k"] == "ref" \
                and c["a"][0]["n"] in env and env[c["a"][0]["n"]][1] == "titer":
            n = c["a"][0]["n"]
            x, y = self.fresh("it"), self.fresh("v_" + n + "_")
            out = ["do %s <- nl_prev %s %s;" % (x, self.tl(st[0]), env[n][0]), "let %s := %s in" % (y, x)]
            env[n] = (y, "titer")
            return out
        if k == "mcall" and c["a"][0]["k"] == "field":
            kind0 = self.f_by_cpp[c["a"][0]["n"]][1]
            m, args = c["n"], c["a"][1:]
            if kind0 == "tlist" and m == "erase" and len(args) == 1:
                b1, t1, k1 = self.E(args[0], st, env)
                if k1 != "titer":
                    raise Unsupported("m_ttl_list.erase(%s)" % k1)
                x, ns = self.fresh("o"), self.fresh("s")
                out = b1 + ["do %s <- nl_erase %s %s;" % (x, self.tl(st[0]), t1),
                            "let %s := set_%s %s %s in" % (ns, self.kind_field["tlist"], st[0], x)]
                st[0] = ns
                return out
            if kind0 in ("tlist", "umap") and m == "clear" and not args:
                ns = self.fresh("s")
                out = ["let %s := set_%s %s [] in" % (ns, self.kind_field[kind0], st[0])]
                st[0] = ns
                return out
            if kind0 == "umap" and m == "reserve" and len(args) == 1:
                b1, t1, k1 = self.E(args[0], st, env)
                if k1 != "nat":
                    raise Unsupported("reserve(%s)" % k1)
                x, ns = self.fresh("rs"), self.fresh("s")
                out = b1 + ["do %s <- umap_reserve %s %s;" % (x, self.fld("umap", st[0]), t1),
                            "let %s := set_%s %s %s in" % (ns, self.sc["cap"], st[0], x)]
                st[0] = ns
                return out
        if k == "call" and c["n"] == "iota" and len(c["a"]) == 3:
            first, last, start = c["a"]
            ok = all(x["k"] == "mcall" and len(x["a"]) == 1 and x["a"][0]["k"] == "field" for x in (first, last)) \
                and first["n"] == "begin" and last["n"] == "end" and first["a"][0]["n"] == last["a"][0]["n"] \
                and self.f_by_cpp[first["a"][0]["n"]][1] == "list"
            if not ok:
                raise Unsupported("std::iota over %s" % show(c)[:200])
            if any(kd in ("liter", "eref") for _, kd in env.values()):
                raise Unsupported("std::iota while a local iterator / element reference is live")
            b, t, kd = self.E(start, st, env)
            if kd != "nat":
                raise Unsupported("std::iota from %s" % kd)
            # every node of the list gets a new value, hence (nodes being named by their value) a new name:
            # the list and every stored iterator into it (state fields of kind liter, element fields of kind optliter)
            lst = self.kind_field["list"]
            old, ns = self.fresh("l"), self.fresh("s")
            out = b + ["let %s := (%s %s) in" % (old, lst, st[0]),
                       "let %s := set_%s %s (l_iota %s %s) in" % (ns, lst, st[0], old, t)]
            cur = ns
            for coq, cpp, kind in self.sc["fields"]:
                if kind == "liter":
                    ns = self.fresh("s")
                    out.append("let %s := set_%s %s (l_iota_it %s %s (%s %s)) in" % (ns, coq, cur, old, t, coq, cur))
                    cur = ns
            for coq, cpp, kind in self.sc["elem_fields"]:
                if kind == "optliter":
                    ns = self.fresh("s")
                    vec = self.kind_field["vec"]
                    out.append("let %s := set_%s %s (List.map (fun e => set_%s e (option_map (l_iota_it %s %s) (%s e))) (%s %s)) in" % (
                        ns, vec, cur, coq, old, t, coq, vec, cur))
                    cur = ns
            st[0] = cur
            return out
        if (k == "bin" and c["n"] == "=") or (k == "op" and c["n"] == "operator="):
            lhs, rhs = c["a"]
            if lhs["k"] == "field":
                coq, fk = self.f_by_cpp[lhs["n"]]
                b, t, kd = self.E(rhs, st, env)
                if fk not in ("nat", "durms", "liter") or kd != fk:
                    raise Unsupported("assignment of %s to data member %s (%s)" % (kd, lhs["n"], fk))
                ns = self.fresh("s")
                out = b + ["let %s := set_%s %s %s in" % (ns, coq, st[0], t)]
                st[0] = ns
                return out
            if lhs["k"] == "member" and lhs["n"] in self.ef_by_cpp and self.ef_by_cpp[lhs["n"]][1] in ("time", "opttnode"):
                coq, fk = self.ef_by_cpp[lhs["n"]]
                b, t, kd = self.E(rhs, st, env)
                bo, to, ko = self.E(lhs["a"][0], st, env)
                if ko != "eref":
                    raise Unsupported("assignment to a member of %s" % ko)
                if fk == "time" and kd == "time":
                    val = t
                elif fk == "opttnode" and kd == "tnode":
                    val = "(Some %s)" % t
                else:
                    raise Unsupported("assignment of %s to element field %s" % (kd, lhs["n"]))
                return b + bo + self.set_elem_field(to, lhs["n"], val, st)
        return None
