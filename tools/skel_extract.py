#!/usr/bin/env python3
"""skel_extract.py — translator: current /repo headers -> Coq lock skeletons (DESIGN §2.2b).

For each of the ten container classes it asks clang for the JSON AST of the class
template (un-instantiated), and turns every PUBLIC member function into a `skel`
term: the tree of accesses to data members of `this`, lock_guard scopes, loops,
branches and clock reads, with calls to member functions of the same class inlined.
The Coq side (coq/Skel.v) computes the obligations of C06/C07 on these terms.

Access kinds (matching [res.on.data.races] / [container.requirements.dataraces]):
  AR  read of a scalar/iterator member, or a const "header" query of a container member
      (size, empty, capacity, ...)
  AE  access to the contents of a container member (operator[], begin/end/find/... and
      whatever is done through the reference/iterator they return)
  AW  anything else: assignment, ++/--, any other member call, being passed to a function.
Unknown constructs default to AW (conservative).
"""
import json, os, subprocess, sys, tempfile

CLASSES = ["lru_cache", "mru_cache", "fifo_cache", "rr_cache", "lfu_cache", "lfuda_cache",
           "tlru_cache", "utlru_cache", "ut_map", "ut_set"]

CONTAINER_MARKS = ("std::vector", "std::list", "std::unordered_map", "std::map", "std::multimap",
                   "std::set", "std::deque")
HEADER_CONST = {"size", "empty", "capacity", "max_size", "bucket_count", "load_factor"}
ELEMENT_ACCESS = {"operator[]", "at", "front", "back", "begin", "end", "cbegin", "cend", "rbegin", "rend",
                  "find", "count", "lower_bound", "upper_bound", "equal_range", "data", "contains"}
WRITE_OPS = {"=", "+=", "-=", "*=", "/=", "%=", "&=", "|=", "^=", "<<=", ">>=", "++", "--"}
LOCK_TYPES = ("lock_guard", "unique_lock", "scoped_lock")
LOOPS = {"ForStmt", "WhileStmt", "DoStmt", "CXXForRangeStmt"}


def clang_ast(inc, cls):
    with tempfile.TemporaryDirectory() as d:
        tu = os.path.join(d, "tu.cpp")
        with open(tu, "w") as f:
            f.write('#include "cappuccino/cappuccino.hpp"\n')
        cmd = ["clang++", "-std=c++17", "-fsyntax-only", "-I" + inc, "-Xclang", "-ast-dump=json",
               "-Xclang", "-ast-dump-filter=cappuccino::" + cls, tu]
        r = subprocess.run(cmd, capture_output=True, text=True)
        if r.returncode != 0:
            raise RuntimeError("clang failed for %s: %s" % (cls, r.stderr[:2000]))
        s = r.stdout
    dec = json.JSONDecoder()
    i = 0
    objs = []
    while True:
        j = s.find("{", i)
        if j < 0:
            break
        o, end = dec.raw_decode(s, j)
        objs.append(o)
        i = end
    for o in objs:
        if o.get("kind") == "ClassTemplateDecl" and o.get("name") == cls:
            for n in o.get("inner", []):
                if n.get("kind") == "CXXRecordDecl" and any(c.get("kind") == "FieldDecl" or c.get("kind") == "CXXMethodDecl"
                                                             for c in n.get("inner", [])):
                    return n
    raise RuntimeError("class template %s not found in clang output" % cls)


class ClassInfo:
    def __init__(self, rec):
        self.fields = {}      # name -> is_container
        self.methods = {}     # name -> list of (decl, access)
        access = "private" if rec.get("tagUsed") == "class" else "public"
        for n in rec.get("inner", []):
            k = n.get("kind")
            if k == "AccessSpecDecl":
                access = n.get("access", access)
            elif k == "FieldDecl":
                t = n.get("type", {}).get("qualType", "")
                self.fields[n["name"]] = any(m in t for m in CONTAINER_MARKS)
            elif k == "CXXMethodDecl":
                self.methods.setdefault(n["name"], []).append((n, access))
            elif k == "FunctionTemplateDecl":
                for m in n.get("inner", []):
                    if m.get("kind") == "CXXMethodDecl":
                        self.methods.setdefault(m["name"], []).append((m, access))


def body_of(decl):
    for c in decl.get("inner", []):
        if c.get("kind") == "CompoundStmt":
            return c
    return None


def nparams(decl):
    return sum(1 for c in decl.get("inner", []) if c.get("kind") == "ParmVarDecl")


class Translator:
    def __init__(self, info):
        self.info = info
        self.stack = []

    # ---- expressions: returns a list of skel strings -------------------------------
    def is_this(self, n):
        while n.get("kind") in ("ImplicitCastExpr", "ParenExpr") and n.get("inner"):
            n = n["inner"][0]
        return n.get("kind") == "CXXThisExpr"

    def member_name(self, n):
        if n.get("kind") == "MemberExpr":
            return n.get("name")
        if n.get("kind") in ("CXXDependentScopeMemberExpr", "UnresolvedMemberExpr"):
            return n.get("member") or n.get("name")
        return None

    def this_member(self, n):
        """name if n is this->name (explicit or implicit this), else None"""
        k = n.get("kind")
        if k in ("MemberExpr", "CXXDependentScopeMemberExpr", "UnresolvedMemberExpr"):
            inner = n.get("inner", [])
            if not inner:
                # implicit this on unresolved member: no base child
                return self.member_name(n)
            if self.is_this(inner[0]):
                return self.member_name(n)
        return None

    def acc(self, f, kind):
        if f == "m_lock":
            return []
        return ['SAcc "%s" %s' % (f, kind)]

    def expr(self, n, use="R"):
        """use: how the value of n is used by its parent: R (rvalue read), W (written),
        CALL:<member> (n is the object of a member call), ARG (passed to a function)"""
        k = n.get("kind")
        inner = n.get("inner", [])
        if k in ("FullComment",) or k is None:
            return []
        # a data member of this
        nm = self.this_member(n)
        if nm is not None and nm in self.info.fields:
            cont = self.info.fields[nm]
            if use == "R":
                return self.acc(nm, "AR") if not cont else self.acc(nm, "AW")
            if use.startswith("CALL:"):
                m = use[5:]
                if cont and m in HEADER_CONST:
                    return self.acc(nm, "AR")
                if cont and m in ELEMENT_ACCESS:
                    return self.acc(nm, "AR") + self.acc(nm, "AE")
                if (not cont) and m in ("operator*", "operator->", "operator==", "operator!=", "count", "time_since_epoch"):
                    return self.acc(nm, "AR")
                return self.acc(nm, "AW")
            return self.acc(nm, "AW")
        # a call
        if k in ("CallExpr", "CXXMemberCallExpr"):
            callee, args = inner[0], inner[1:]
            c = callee
            while c.get("kind") in ("ImplicitCastExpr", "ParenExpr") and c.get("inner"):
                c = c["inner"][0]
            out = []
            # steady_clock::now()
            ref = c.get("referencedDecl", {})
            if c.get("kind") == "DeclRefExpr" and ref.get("name") == "now":
                return ["SClock"]
            # call of a member function of this class
            mn = self.this_member(c)
            if mn is not None and mn in self.info.methods:
                for a in args:
                    out += self.expr(a, "ARG")
                out.append(self.call(mn, len(args)))
                return out
            # member call on some object: obj.m(args)
            m = self.member_name(c)
            if m is not None and c.get("inner"):
                out += self.expr(c["inner"][0], "CALL:" + m)
            else:
                out += self.expr(c, "R")
            for a in args:
                out += self.expr(a, "ARG")
            return out
        if k == "CXXOperatorCallExpr":
            callee, args = inner[0], inner[1:]
            c = callee
            while c.get("kind") in ("ImplicitCastExpr", "ParenExpr") and c.get("inner"):
                c = c["inner"][0]
            opname = c.get("referencedDecl", {}).get("name") or c.get("name") or "operator?"
            op = opname[len("operator"):] if opname.startswith("operator") else opname
            out = []
            for i, a in enumerate(args):
                if i == 0 and op in WRITE_OPS:
                    out += self.expr(a, "W")
                elif i == 0:
                    out += self.expr(a, "CALL:" + opname)
                else:
                    out += self.expr(a, "R" if op in WRITE_OPS or op in ("==", "!=", "<", ">", "<=", ">=", "+", "-", "*") else "ARG")
            return out
        if k == "ArraySubscriptExpr":
            return self.expr(inner[0], "CALL:operator[]") + self.expr(inner[1], "R")
        if k == "UnaryOperator":
            op = n.get("opcode")
            return self.expr(inner[0], "W" if op in ("++", "--") else ("ARG" if op == "&" else use))
        if k in ("BinaryOperator", "CompoundAssignOperator"):
            op = n.get("opcode")
            if op in WRITE_OPS:
                return self.expr(inner[0], "W") + self.expr(inner[1], "R")
            return self.expr(inner[0], "R") + self.expr(inner[1], "R")
        if k == "ImplicitCastExpr":
            if n.get("castKind") == "LValueToRValue":
                return self.expr(inner[0], "R")
            return self.expr(inner[0], use) if inner else []
        if k in ("ParenExpr", "ExprWithCleanups", "MaterializeTemporaryExpr", "CXXBindTemporaryExpr",
                 "CXXFunctionalCastExpr", "CXXStaticCastExpr", "CStyleCastExpr", "ConstantExpr"):
            out = []
            for c in inner:
                out += self.expr(c, use)
            return out
        if k == "CXXThisExpr":
            # `this` escaping: everything may be touched
            if n.get("implicit"):
                return []
            out = []
            for f in self.info.fields:
                out += self.acc(f, "AW")
            return out
        if k in ("MemberExpr", "CXXDependentScopeMemberExpr", "UnresolvedMemberExpr"):
            # member of something that is not `this`: x.m  — walk the base
            m = self.member_name(n) or "?"
            return self.expr(inner[0], "CALL:" + m) if inner else []
        if k == "LambdaExpr":
            out = []
            for c in inner:
                out += self.stmt(c) if c.get("kind") == "CompoundStmt" else self.expr(c, "ARG")
            return out
        # generic: children are evaluated for their value
        out = []
        for c in inner:
            ck = c.get("kind", "")
            if ck.endswith("Stmt"):
                out += self.stmt(c)
            elif ck.endswith("Decl"):
                out += self.decl(c)
            else:
                out += self.expr(c, "ARG" if k in ("InitListExpr", "CXXConstructExpr", "CXXUnresolvedConstructExpr",
                                                   "CXXTemporaryObjectExpr", "ParenListExpr") else use)
        return out

    def call(self, name, nargs):
        cands = [d for (d, _) in self.info.methods[name] if body_of(d) is not None]
        exact = [d for d in cands if nparams(d) == nargs]
        # default arguments: accept declarations with at least nargs parameters when nothing matches exactly
        chosen = exact or [d for d in cands if nparams(d) >= nargs] or cands
        outs = []
        for d in chosen:
            key = (name, d.get("id"))
            if key in self.stack:
                outs.append('SSeq [SAcc "<recursion>" AW]')
                continue
            self.stack.append(key)
            outs.append(self.block(body_of(d)))
            self.stack.pop()
        if not outs:
            return "SSeq []"
        r = outs[0]
        for o in outs[1:]:
            r = "SChoice (%s) (%s)" % (r, o)
        return r

    # ---- declarations & statements ---------------------------------------------------
    def is_lock_decl(self, n, rest=()):
        """a declaration whose scope is a critical section: std::lock_guard / scoped_lock on m_lock, or a
        std::unique_lock on m_lock constructed from the mutex alone and never mentioned again in its scope
        (unlock(), lock(), release(), being handed to something ... would end or suspend the protection: such a
        unique_lock is conservatively taken to protect nothing)"""
        if n.get("kind") != "DeclStmt":
            return False
        for v in n.get("inner", []):
            if v.get("kind") == "VarDecl":
                t = v.get("type", {}).get("qualType", "")
                js = json.dumps(v.get("inner", []))
                if any(l in t for l in LOCK_TYPES) and "m_lock" in js:
                    if "unique_lock" in t:
                        if any(x in js for x in ("defer_lock", "try_to_lock", "adopt_lock")):
                            return False
                        vid = v.get("id")
                        if vid and ('"id": "%s"' % vid) in json.dumps(list(rest)):
                            return False
                    return True
        return False

    def decl(self, n):
        out = []
        k = n.get("kind")
        if k in ("VarDecl", "DecompositionDecl", "BindingDecl"):
            t = n.get("type", {}).get("qualType", "")
            reflike = ("&" in t) or ("*" in t) or ("iterator" in t)
            init = []
            for c in n.get("inner", []):
                ck = c.get("kind", "")
                if ck.endswith("Decl"):
                    init += self.decl(c)
                elif ck != "FullComment":
                    init += self.expr(c, "ARG" if reflike else "R")
            if reflike and k != "BindingDecl":
                out.append('SRefDecl "%s"' % n.get("name", "_"))
            out += init
        else:
            for c in n.get("inner", []):
                out += self.expr(c, "ARG")
        return out

    def stmt(self, n):
        k = n.get("kind")
        inner = n.get("inner", [])
        if k == "CompoundStmt":
            return [self.block(n)]
        if k == "DeclStmt":
            out = []
            for d in inner:
                out += self.decl(d)
            return out
        if k in LOOPS:
            body = []
            for c in inner:
                if not c:
                    continue
                ck = c.get("kind", "")
                body += self.stmt(c) if (ck.endswith("Stmt") or ck in LOOPS) else (self.decl(c) if ck.endswith("Decl") else self.expr(c, "R"))
            return ["SLoop (SSeq [%s])" % "; ".join(body)]
        if k == "IfStmt":
            parts = [c for c in inner if c]
            out = []
            # init/cond then branches: the last one or two CompoundStmt/Stmt children are branches
            branches = []
            conds = []
            seen_cond = False
            for c in parts:
                ck = c.get("kind", "")
                if not seen_cond and not (ck.endswith("Stmt") and ck != "DeclStmt"):
                    conds.append(c)
                    continue
                if not seen_cond and ck == "DeclStmt":
                    conds.append(c)
                    continue
                seen_cond = True
                branches.append(c)
            for c in conds:
                out += self.stmt(c) if c.get("kind") == "DeclStmt" else self.expr(c, "R")
            bs = ["SSeq [%s]" % "; ".join(self.stmt(b)) for b in branches]
            if len(bs) == 1:
                bs.append("SSeq []")
            if bs:
                out.append("SChoice (%s) (%s)" % (bs[0], bs[1]))
            return out
        if k == "ReturnStmt":
            out = []
            for c in inner:
                out += self.expr(c, "R")
            return out
        if k in ("NullStmt", "BreakStmt", "ContinueStmt"):
            return []
        if k and k.endswith("Stmt"):
            out = []
            for c in inner:
                ck = c.get("kind", "")
                out += self.stmt(c) if ck.endswith("Stmt") else self.expr(c, "R")
            return out
        return self.expr(n, "R")

    def block(self, comp):
        """CompoundStmt -> skel; a lock_guard declaration locks the rest of the block."""
        items = [c for c in comp.get("inner", []) if c]
        out = []
        for i, c in enumerate(items):
            if self.is_lock_decl(c, items[i + 1:]):
                rest = {"kind": "CompoundStmt", "inner": items[i + 1:]}
                out.append("SLocked (%s)" % self.block(rest))
                return "SSeq [%s]" % "; ".join(out)
            out += self.stmt(c)
        return "SSeq [%s]" % "; ".join(out)


def translate_class(inc, cls):
    rec = clang_ast(inc, cls)
    info = ClassInfo(rec)
    tr = Translator(info)
    methods = []
    for name, decls in info.methods.items():
        for i, (d, access) in enumerate(decls):
            if access != "public" or body_of(d) is None:
                continue
            tr.stack = [(name, d.get("id"))]
            sk = tr.block(body_of(d))
            label = name if len(decls) == 1 else "%s/%d" % (name, nparams(d))
            methods.append((label, sk))
    return info, methods


def main():
    inc = sys.argv[1] if len(sys.argv) > 1 else "/repo/inc"
    out = sys.argv[2] if len(sys.argv) > 2 else "/dev/stdout"
    lines = ["(* GENERATED by tools/skel_extract.py from %s — do not edit *)" % inc,
             "Require Import Coq.Strings.String Coq.Lists.List. Import ListNotations.",
             "Require Import Capp.Skel.", "Local Open Scope string_scope.", ""]
    names = []
    for cls in CLASSES:
        info, methods = translate_class(inc, cls)
        lines.append("Definition fields_%s : list (string * bool) := [%s]." % (
            cls, "; ".join('("%s", %s)' % (f, "true" if c else "false") for f, c in info.fields.items())))
        lines.append("Definition sk_%s : list (string * skel) := [" % cls)
        lines.append(";\n".join('  ("%s", %s)' % (n, s) for n, s in methods))
        lines.append("].")
        lines.append("")
        names.append(cls)
    lines.append("Definition all_classes : list (string * list (string * skel)) := [%s]." % "; ".join(
        '("%s", sk_%s)' % (c, c) for c in names))
    with open(out, "w") as f:
        f.write("\n".join(lines) + "\n")


if __name__ == "__main__":
    main()
