#!/usr/bin/env python3
"""try_seed.py <patch.diff> <Cnn> [<Cnn> ...] — apply a seeded change to /repo's working tree, run
the given checks (quick tier unless TIER=thorough), and undo the change straight afterwards.
Prints per check: exit code and VIOLATION / KNOWN-FINDING lines."""
import os, subprocess, sys
patch = os.path.abspath(sys.argv[1])
props = sys.argv[2:]
tier = os.environ.get("TIER", "quick")
root = os.path.dirname(os.path.dirname(os.path.abspath(__file__)))
assert subprocess.run(["git", "-C", "/repo", "status", "--porcelain", "--untracked-files=no"], capture_output=True, text=True).stdout.strip() == "", "/repo not clean"
r = subprocess.run(["git", "-C", "/repo", "apply", patch])
if r.returncode != 0:
    sys.exit("patch does not apply")
try:
    for p in props:
        pr = subprocess.run([os.path.join(root, "check"), p, tier], capture_output=True, text=True)
        lines = [l for l in pr.stdout.split("\n") if l.startswith("VIOLATION") or l.startswith("KNOWN")]
        print("%s rc=%d %s" % (p, pr.returncode, " | ".join(lines) if lines else ""))
        print("   " + pr.stderr.strip().split("\n")[-1])
finally:
    subprocess.run(["git", "-C", "/repo", "checkout", "--", "."])
