#!/usr/bin/env python3
"""try_seed.py <patch.diff> <Cnn> [<Cnn> ...] — run the given checks (quick tier unless TIER=thorough)
against a seeded change applied to a SCRATCH export of /repo HEAD (never /repo itself, so that other
runs are not disturbed), with their own build/evidence/replay directories under /tmp.
Prints per check: exit code and VIOLATION / KNOWN-FINDING lines."""
import hashlib, os, shutil, subprocess, sys
patch = os.path.abspath(sys.argv[1])
props = sys.argv[2:]
tier = os.environ.get("TIER", "quick")
root = os.path.dirname(os.path.dirname(os.path.abspath(__file__)))
tag = hashlib.sha256(open(patch, "rb").read()).hexdigest()[:8]
r, b, o = "/tmp/tryrepo_" + tag, "/tmp/trybuild_" + tag, "/tmp/tryout_" + tag
shutil.rmtree(r, ignore_errors=True)
os.makedirs(r)
subprocess.run("git -C /repo archive HEAD | tar -x -C %s" % r, shell=True, check=True)
if subprocess.run(["patch", "-p1", "-s", "-i", patch], cwd=r).returncode != 0:
    sys.exit("patch does not apply")
env = dict(os.environ, VERIF_REPO=r, VERIF_BUILD=b, VERIF_OUT=o)
try:
    for p in props:
        pr = subprocess.run([os.path.join(root, "check"), p, tier], capture_output=True, text=True, env=env)
        lines = [l for l in pr.stdout.split("\n") if l.startswith("VIOLATION") or l.startswith("KNOWN")]
        print("%s rc=%d %s" % (p, pr.returncode, " | ".join(lines) if lines else ""))
        print("   " + pr.stderr.strip().split("\n")[-1])
    print("replays (if any) under %s/replays" % o)
finally:
    shutil.rmtree(r, ignore_errors=True)
    shutil.rmtree(b, ignore_errors=True)
