#!/usr/bin/env python3
"""conc_check.py — the C06 / C07 part of ./check (DESIGN §2.2b, §2.2c).

  1. regenerate the lock skeletons of the ten classes from /repo/inc (clang JSON AST),
  2. let coqc COMPUTE the obligations on them (class_guarded / class_atomic, vm_compute) and
     instantiate the general theorems of Conc.v per class (build/gen/ConcProps_<class>.v),
  3. cross-check against the real code: ThreadSanitizer on a free-running multi-thread driver
     over every public method (C07), exhaustive lock-granularity schedules of small thread
     programs on real threads with the hook scheduler + linearizability check against the
     extracted sequential model (C06).
"""
import glob, hashlib, itertools, json, os, re, subprocess, sys, time
from concurrent.futures import ThreadPoolExecutor

CLASSES = ["lru_cache", "mru_cache", "fifo_cache", "rr_cache", "lfu_cache", "lfuda_cache",
           "tlru_cache", "utlru_cache", "ut_map", "ut_set"]

RACE_THM = """
Theorem C07_{c}_guarded : class_guarded sk_{c} = true.
Proof. vm_compute. reflexivity. Qed.

(* every interleaving of any number of threads each running any sequence of public methods of
   {c}: conflicting accesses of different threads are ordered by unlock -> lock *)
Theorem C07_{c}_race_free : forall ex i j t1 t2 f1 k1 f2 k2,
    lock_ok ex -> (forall t, thread_ok sk_{c} (proj t ex)) ->
    i < j -> nth_error ex i = Some (t1, LAcc f1 k1) -> nth_error ex j = Some (t2, LAcc f2 k2) ->
    t1 <> t2 -> conflict f1 k1 f2 k2 ->
    exists r q, i < r /\\ r < q /\\ q < j /\\
                nth_error ex r = Some (t1, LRel) /\\ nth_error ex q = Some (t2, LAcq).
Proof.
  intros ex i j t1 t2 f1 k1 f2 k2 Hl Ht Hij Hi Hj Hne Hc.
  apply (guarded_class_is_race_free sk_{c} ex i j t1 t2 f1 k1 f2 k2 C07_{c}_guarded Hl Ht Hij Hi Hj Hne Hc).
  - eapply trace_accesses_in_class; [apply (Ht t1)|].
    unfold proj. apply in_map_iff. exists (t1, LAcc f1 k1). split; [reflexivity|].
    apply filter_In. split; [eapply nth_error_In; eauto|]. cbn. apply PeanoNat.Nat.eqb_refl.
  - eapply trace_accesses_in_class; [apply (Ht t2)|].
    unfold proj. apply in_map_iff. exists (t2, LAcc f2 k2). split; [reflexivity|].
    apply filter_In. split; [eapply nth_error_In; eauto|]. cbn. apply PeanoNat.Nat.eqb_refl.
Qed.
"""
ATOMIC_THM = """
Theorem C06_{c}_atomic : class_atomic sk_{c} = true.
Proof. vm_compute. reflexivity. Qed.

(* every public method of {c} touches mutable state inside ONE critical section: its
   trace is  pre ++ LAcq :: body ++ LRel :: post  with pre/post free of lock events and of
   accesses that need the lock (or the method needs no lock at all) — the shape of a call of
   the linearizable lock-level machine of Conc.v (Section Lin) *)
Theorem C06_{c}_single_critical_section : forall m tr,
    In m sk_{c} -> sk_trace (snd m) tr ->
    quiet sk_{c} tr \\/
    exists pre body post, tr = pre ++ LAcq :: body ++ LRel :: post /\\
                          quiet sk_{c} pre /\\ quiet sk_{c} post /\\
                          (forall e, In e body -> e <> LAcq /\\ e <> LRel).
Proof.
  intros m tr Hin Htr. eapply atomic_method_shape; eauto.
  exact (proj1 (forallb_forall _ _) C06_{c}_atomic m Hin).
Qed.
"""


def regen(check, res, inc):
    gen = os.path.join(check.BUILD, "gen")
    os.makedirs(gen, exist_ok=True)
    t0 = time.time()
    rc, o, e = check.sh([sys.executable, os.path.join(check.ROOT, "tools", "skel_extract.py"), inc,
                         os.path.join(gen, "Skeletons.v")], timeout=600)
    if rc != 0:
        res["broken"].append(dict(what="skeleton translator failed on the current headers", detail=(o + e)[-3000:]))
        return None
    q = ["-Q", check.COQ, "Capp", "-Q", gen, "CappGen"]
    rc, o, e = check.sh(["coqc"] + q + [os.path.join(gen, "Skeletons.v")], cwd=gen, timeout=600)
    if rc != 0:
        res["broken"].append(dict(what="generated Skeletons.v does not compile", detail=(o + e)[-3000:]))
        return None
    # diagnostics: which method / member / kind is unguarded, how many regions, nested, escaping refs
    rep = os.path.join(gen, "Report.v")
    with open(rep, "w") as f:
        f.write("Require Import Coq.Strings.String Coq.Lists.List. Import ListNotations.\n"
                "Require Import Capp.Skel CappGen.Skeletons.\nLocal Open Scope string_scope.\n")
        for c in CLASSES:
            f.write('Eval vm_compute in ("CLASS", "%s", class_guarded sk_%s, class_atomic sk_%s,\n'
                    '  filter (fun r => match r with (_, [], n, false, false) => Nat.ltb 1 n | _ => true end) (class_report sk_%s),\n'
                    '  length sk_%s, length (all_accesses sk_%s)).\n' % (c, c, c, c, c, c))
    rc, o, e = check.sh(["coqc"] + q + [rep], cwd=gen, timeout=600)
    report = {}
    if rc == 0:
        for blk in re.split(r"(?==\s*\(\"CLASS\")", o):
            m = re.search(r'\("CLASS",\s*"(\w+)",\s*(true|false),\s*(true|false),\s*(.*?),\s*(\d+),\s*(\d+)\)\s*:', blk, flags=re.S)
            if m:
                report[m.group(1)] = dict(guarded=m.group(2) == "true", atomic=m.group(3) == "true",
                                          offending=re.sub(r"\s+", " ", m.group(4))[:1500],
                                          methods=int(m.group(5)), accesses=int(m.group(6)))
    res["extra"]["skeleton_report"] = report
    res["extra"]["skeleton_regen_s"] = round(time.time() - t0, 2)
    return gen, q


def conc_props(check, res, prop, gen, q):
    """compile the per-class instantiations; count obligations"""
    def one(c):
        f = os.path.join(gen, "ConcProps_%s.v" % c)
        with open(f, "w") as fh:
            fh.write("(* GENERATED each run by tools/conc_check.py — obligations on the regenerated skeleton of %s *)\n" % c)
            fh.write("Require Import Coq.Strings.String Coq.Lists.List Coq.Arith.PeanoNat. Import ListNotations.\n"
                     "Require Import Capp.Skel Capp.Conc CappGen.Skeletons.\n")
            fh.write((RACE_THM if prop == "C07" else ATOMIC_THM).format(c=c))
        rc, o, e = check.sh(["coqc"] + q + [f], cwd=gen, timeout=900)
        return c, rc, (o + e)
    with ThreadPoolExecutor(max_workers=10) as ex:
        outs = list(ex.map(one, CLASSES))
    failed = []
    for c, rc, lg in outs:
        names = check.theorem_names(os.path.join(gen, "ConcProps_%s.v" % c))
        res["obligations"] += len(names)
        if rc != 0:
            failed.append(c)
            rep = res["extra"].get("skeleton_report", {}).get(c, {})
            res["broken"].append(dict(what="obligation %s of %s computes to false on the regenerated skeleton" % (
                "class_guarded" if prop == "C07" else "class_atomic", c), detail="offending methods (method, unguarded accesses, lock regions, nested, escaping reference): %s\n%s" % (
                rep.get("offending", "?"), lg[-800:]), cls=c))
            continue
        asm, raw = check.print_assumptions("CappGen.ConcProps_%s" % c, names, extra_q=[(gen, "CappGen")])
        if asm is None:
            res["broken"].append(dict(what="Print Assumptions failed for ConcProps_%s" % c, detail=raw[-1500:]))
            continue
        for n, ax in asm.items():
            if ax:
                res["broken"].append(dict(what="theorem %s depends on axioms" % n, detail=", ".join(ax)))
            else:
                res["discharged"] += 1
                res["theorems"].append(n)
    # the general theorems of Conc.v
    gen_names = ["guarded_class_is_race_free", "guarded_method_holds_lock", "guarded_method_balanced", "trace_accesses_in_class"] if prop == "C07" else \
                ["atomic_method_shape", "lin_is_sequential", "returned_result_is_linearized", "body_between_invoke_and_return", "bodies_do_not_overlap"]
    res["obligations"] += len(gen_names)
    asm, raw = check.print_assumptions("Capp.Conc", gen_names)
    if asm is None:
        res["broken"].append(dict(what="general theorems of Conc.v do not check", detail=raw[-1500:]))
    else:
        for n, ax in asm.items():
            if ax:
                res["broken"].append(dict(what="theorem %s depends on axioms" % n, detail=", ".join(ax)))
            else:
                res["discharged"] += 1
                res["theorems"].append("Conc." + n)
        res["assumptions"]["Conc"] = {k: (v or "Closed under the global context") for k, v in asm.items()}
    return failed


# ------------------------------------------------------------------ TSan
def ensure_tsan(check, inc):
    h = check.file_hash([os.path.join(check.ROOT, "harness", "tsan_mix.cpp")]) + check.repo_hash()
    bind = os.path.join(check.BUILD, "bin")
    os.makedirs(bind, exist_ok=True)
    procs = []
    for k in range(10):
        exe = os.path.join(bind, "tsan_%d" % k)
        st = exe + ".stamp"
        if os.path.exists(exe) and os.path.exists(st) and open(st).read() == h:
            continue
        cmd = ["clang++", "-std=c++17", "-O1", "-g", "-fsanitize=thread", "-I" + inc, "-DKIND=%d" % k,
               os.path.join(check.ROOT, "harness", "tsan_mix.cpp")] + sorted(glob.glob(os.path.join(check.REPO, "src", "*.cpp"))) + \
              ["-o", exe, "-pthread"]
        procs.append((k, exe, st, subprocess.Popen(cmd, stdout=subprocess.PIPE, stderr=subprocess.STDOUT, text=True)))
    ok, lg = True, ""
    for k, exe, st, p in procs:
        o, _ = p.communicate(timeout=900)
        if p.returncode != 0:
            ok = False
            lg += "tsan driver for %s does not compile:\n%s\n" % (check.KINDS[k], o[-2000:])
            if os.path.exists(st):
                os.remove(st)
        else:
            open(st, "w").write(h)
    return ok, lg


def run_tsan(check, res, tier):
    threads, iters, reps = (4, 20000, 2) if tier == "quick" else (8, 150000, 6)
    env = dict(os.environ, TSAN_OPTIONS="halt_on_error=1:report_signal_unsafe=0:history_size=4")
    # halt_on_error=1: the first report is the replay; going on with a raced (possibly corrupted) structure can hang
    tmo = 150 if tier == "quick" else 900

    def one(k):
        exe = os.path.join(check.BUILD, "bin", "tsan_%d" % k)
        if not os.path.exists(exe):
            return k, None, ""
        reports = []
        for r in range(reps):
            try:
                p = subprocess.run([exe, str(threads), str(iters)], capture_output=True, text=True, timeout=tmo, env=env)
            except subprocess.TimeoutExpired:
                return k, ["timeout: the multi-thread driver did not terminate (deadlock?)"], "timeout"
            if "ThreadSanitizer" in p.stderr or p.returncode != 0:
                reports.append(p.stderr[:6000] if p.stderr else "exit code %d" % p.returncode)
                break
        return k, reports, ""
    with ThreadPoolExecutor(max_workers=5) as ex:
        outs = list(ex.map(one, range(10)))
    nrun = 0
    racy = {}
    for k, reports, _ in outs:
        if reports is None:
            continue
        nrun += 1
        if reports:
            racy[check.KINDS[k]] = reports[0]
    res["extra"]["tsan"] = dict(containers=nrun, threads=threads, iterations_per_thread=iters, repetitions=reps,
                                containers_with_reports=sorted(racy))
    res["cases"] += nrun * reps
    return racy


def setup(check):
    ok, lg = ensure_tsan(check, os.path.join(check.REPO, "inc"))
    try:
        import sched_check
        ok2, lg2 = sched_check.ensure(check)
        return ok and ok2, lg + lg2
    except ImportError:
        return ok, lg


def lock_wrapper(inc):
    """cappuccino::mutex<thread_safe::yes> (lock.hpp), translated: lock() must be exactly m_lock.lock() and unlock()
    exactly m_lock.unlock() on the one non-static lock member, under `if constexpr (thread_safe_type == yes)`
    -> (ok, detail)"""
    import cpp2coq as c
    try:
        ms = c.class_methods(c.clang_objs(inc, "mutex", "template class cappuccino::mutex<cappuccino::thread_safe::yes>;"))
    except Exception as e:      # noqa
        return False, "clang: %s" % e
    for m in ("lock", "unlock"):
        if m not in ms or len(ms[m]) != 1:
            return False, "mutex::%s not found" % m
        ps, rt, body = ms[m][0]
        got = " ".join(c.show(x) for x in body["a"])
        cond = "(bin == (?SubstNonTypeTemplateParmExpr (?NonTypeTemplateParmDecl thread_safe_type) (?CStyleCastExpr (int 1))) (ref yes))"
        want = "(if %s (block (mcall %s (field m_lock))))" % (cond, m)
        if ps or got != want:
            return False, "mutex<thread_safe::yes>::%s() is %s, expected %s" % (m, got[:400], want)
    if list(ms.get("__fieldinit__", {})) != ["m_lock"]:
        return False, "members of the wrapper: %s" % list(ms.get("__fieldinit__", {}))
    return True, "lock() = m_lock.lock(), unlock() = m_lock.unlock()"


def run_excl(check, probes, prop, res):
    """[(kind index, method)] -> list of result lines; an OVERLAP is a concrete violation"""
    import sched_check
    import glob as _glob
    out = []
    built = {}
    os.makedirs(os.path.join(check.BUILD, "bin"), exist_ok=True)
    for kd, mname in probes:
        exe = os.path.join(check.BUILD, "bin", "excl_%d" % kd)
        if kd not in built:
            cmd = ["g++", "-std=c++17", "-O1", "-I" + os.path.join(check.REPO, "inc"), "-DKIND=%d" % kd,
                   os.path.join(check.ROOT, "harness", "excl.cpp")] + sorted(_glob.glob(os.path.join(check.REPO, "src", "*.cpp"))) + ["-o", exe, "-pthread"]
            r = subprocess.run(cmd, capture_output=True, text=True)
            built[kd] = r.returncode == 0
            if not built[kd]:
                out.append("%s: probe does not build: %s" % (check.KINDS[kd], r.stderr[-300:]))
        if not built[kd]:
            continue
        bop = sched_check.METHOD_OPS[mname].format(v=1 if kd == 9 else 55, w=1 if kd == 9 else 56)
        for a in ("insert", "find"):
            try:
                r = subprocess.run([exe, a] + bop.split(), capture_output=True, text=True, timeout=60)
                line = r.stdout.strip() or ("exit %d %s" % (r.returncode, r.stderr[-200:]))
            except subprocess.TimeoutExpired:
                line = "timeout"
            out.append("%s %s: %s" % (check.KINDS[kd], mname, line))
            if line.startswith("OVERLAP"):
                res["conc_violations"].append(dict(
                    property=prop, kind=check.KINDS[kd],
                    what="%s::%s completed while another thread was parked inside the critical section of %s (holding the container lock): "
                         "the call is not mutually excluded from it, and the lock skeleton of the current source says it touches shared members "
                         "outside the lock" % (CLASSES[kd], mname, a),
                    probe="build/bin/excl_%d %s %s" % (kd, a, bop), output=line,
                    how_to_replay="g++ -std=c++17 -O1 -I/repo/inc -DKIND=%d harness/excl.cpp /repo/src/*.cpp -pthread && ./a.out %s %s" % (kd, a, bop)))
    return out


def run(prop, tier, seed, res, check):
    inc = os.path.join(check.REPO, "inc")
    res.setdefault("conc_violations", [])
    okw, dw = lock_wrapper(inc)
    res["obligations"] += 1
    res["extra"]["lock_wrapper"] = dw
    if okw:
        res["discharged"] += 1
    else:
        res["broken"].append(dict(what="lock.hpp: the mutex wrapper is no longer a plain lock()/unlock() of its std::mutex", detail=dw))
    g = regen(check, res, inc)
    failed = []
    if g is not None:
        gen, q = g
        failed = conc_props(check, res, prop, gen, q)
        rep = res["extra"].get("skeleton_report", {})
        res["samples"].append(dict(skeleton_obligations={c: dict(guarded=v["guarded"], atomic=v["atomic"], public_methods=v["methods"],
                                                                 member_accesses=v["accesses"]) for c, v in rep.items()}))
        for c, v in rep.items():
            sig = "%s:%d:%d" % (c, v["methods"], v["accesses"])
            res["distinct"].add(sig)
            res["nontrivial"].add(sig)
    # search for a failing input after a broken skeleton obligation: is the offending method mutually excluded from
    # a thread parked inside insert's / find's critical section?  (harness/excl.cpp)
    if failed and g is not None:
        try:
            import sched_check
            rep = res["extra"].get("skeleton_report", {})
            probes = []
            for c in failed:
                kd = CLASSES.index(c)
                for mname in sorted(set(re.findall(r'\("([A-Za-z_0-9]+)(?:/\d+)?",', rep.get(c, {}).get("offending", "")))):
                    if mname in sched_check.METHOD_OPS:
                        probes.append((kd, mname))
            res["extra"]["exclusion_probes"] = run_excl(check, probes, prop, res)
        except Exception as e:      # noqa
            res["extra"]["exclusion_probes"] = "not run: %s" % e
    ok, lg = ensure_tsan(check, inc)
    if not ok:
        res["broken"].append(dict(what="tsan driver build", detail=lg[-2000:]))
    if prop == "C07":
        racy = run_tsan(check, res, tier)
        for kd, rep in racy.items():
            res["conc_violations"].append(dict(property=prop, kind=kd, what="ThreadSanitizer reports a data race between public methods of one %s (thread_safe::yes)" % kd,
                                               tsan_report=rep, how_to_replay="build/bin/tsan_<kind> <threads> <iterations> (harness/tsan_mix.cpp)"))
        # cross-check of the translator: skeletons guarded but TSan reports => translator defect, reported as such
        if racy and not failed and g is not None:
            res["extra"]["translator_crosscheck"] = "TSan reports on %s while all skeletons are guarded: the translator missed an access" % sorted(racy)
    if prop == "C06":
        try:
            import sched_check
            targets = []
            rep = res["extra"].get("skeleton_report", {})
            for c in failed:
                for mname in re.findall(r'\("([A-Za-z_0-9]+)(?:/\d+)?",', rep.get(c, {}).get("offending", "")):
                    if mname in sched_check.METHOD_OPS:
                        targets.append((CLASSES.index(c), mname))
            sched_check.run(prop, tier, seed, res, check, targets=targets)
        except ImportError:
            res["extra"]["schedules"] = "scheduler harness not built"
