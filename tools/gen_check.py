#!/usr/bin/env python3
"""gen_check.py — tie (g): the CURRENT C++ source, translated to Gallina (cpp2coq.py), is proved equal to the
literal machine on every run (coq/bridge/<X>Bridge.v compiled against the freshly generated Gen<X>.v).

  bridge(kind, repo, build, coqdir) -> dict(kind, cls, ok, theorems, detail, cached)

Nothing generated is kept in /verif/coq: Gen<X>.v, the copy of the bridge file and all compiled files live
under <build>/gen.  A stamp (hash of the headers, the translator, the bridge file and the compiled
development) avoids recompiling when nothing changed.
"""
import hashlib, os, re, shutil, subprocess, sys

ROOT = os.path.dirname(os.path.dirname(os.path.abspath(__file__)))
sys.path.insert(0, os.path.join(ROOT, "tools"))

BRIDGES = {   # kind -> (class, generated module, bridge module)
    "lru": ("lru_cache", "GenLru", "LruBridge"),
    "mru": ("mru_cache", "GenMru", "MruBridge"),
    "fifo": ("fifo_cache", "GenFifo", "FifoBridge"),
    "rr": ("rr_cache", "GenRr", "RrBridge"),
    "lfu": ("lfu_cache", "GenLfu", "LfuBridge"),
    "lfuda": ("lfuda_cache", "GenLfuda", "LfudaBridge"),
    "tlru": ("tlru_cache", "GenTlru", "TlruBridge"),
    "utlru": ("utlru_cache", "GenUtlru", "UtlruBridge"),
    "ut_map": ("ut_map", "GenUtMap", "UtMapBridge"),
    "ut_set": ("ut_set", "GenUtSet", "UtSetBridge"),
}
FORBIDDEN = re.compile(r"\b(Admitted|admit|Axiom|Axioms|Parameter|Parameters|Conjecture)\b|Unset\s+Guard|bypass_check|Admit Obligations")


def _hash(paths):
    h = hashlib.sha256()
    for p in paths:
        h.update(p.encode())
        h.update(open(p, "rb").read())
    return h.hexdigest()


def bridge(kind, repo, build, coqdir):
    cls, gmod, bmod = BRIDGES[kind]
    gen = os.path.join(build, "gen")
    os.makedirs(gen, exist_ok=True)
    inc = os.path.join(repo, "inc")
    bsrc = os.path.join(coqdir, "bridge", bmod + ".v")
    res = dict(kind=kind, cls=cls, ok=False, theorems=[], detail="", cached=False,
               what="the translation of the current %s.hpp equals the literal machine (%s)" % (cls, bmod))
    hdrs = sorted(os.path.join(dp, f) for dp, _, fs in os.walk(inc) for f in fs)
    vos = sorted(os.path.join(coqdir, f) for f in os.listdir(coqdir) if f.endswith(".vo"))
    trs = sorted(os.path.join(ROOT, "tools", f) for f in os.listdir(os.path.join(ROOT, "tools")) if f.startswith("cpp2coq"))
    stamp_val = _hash(hdrs + trs + [bsrc] + vos)
    stamp = os.path.join(gen, bmod + ".stamp")
    if os.path.exists(stamp):
        s = open(stamp).read().split("\n")
        if s and s[0] == stamp_val:
            res.update(ok=True, cached=True, theorems=[t for t in s[1:] if t])
            return res
    if os.path.exists(stamp):
        os.remove(stamp)
    text = open(bsrc).read()
    nocomment = re.sub(r"\(\*.*?\*\)", "", text, flags=re.S)
    m = FORBIDDEN.search(nocomment)
    if m:
        res["detail"] = "forbidden construct in %s: %s" % (bmod, m.group(0))
        return res
    r = subprocess.run([sys.executable, os.path.join(ROOT, "tools", "cpp2coq.py"), inc, cls, os.path.join(gen, gmod + ".v")],
                       capture_output=True, text=True)
    if r.returncode != 0:
        res["detail"] = "translator: " + (r.stderr or r.stdout)[-1500:]
        return res
    if FORBIDDEN.search(open(os.path.join(gen, gmod + ".v")).read()):
        res["detail"] = "forbidden construct in generated %s" % gmod
        return res
    shutil.copy(bsrc, os.path.join(gen, bmod + ".v"))
    q = ["-Q", coqdir, "Capp", "-Q", gen, "CappGen"]
    for f in (gmod, bmod):
        try:
            r = subprocess.run(["coqc"] + q + [f + ".v"], cwd=gen, capture_output=True, text=True, timeout=900)
        except subprocess.TimeoutExpired:
            res["detail"] = "coqc %s.v timed out" % f
            return res
        if r.returncode != 0:
            res["detail"] = "coqc %s.v: %s" % (f, (r.stdout + r.stderr)[-2500:])
            return res
    want = re.findall(r"^Print Assumptions\s+([A-Za-z0-9_']+)\.", nocomment, flags=re.M)
    closed = r.stdout.count("Closed under the global context")
    if not want or closed != len(want) or "Axioms:" in r.stdout:
        res["detail"] = "Print Assumptions of %s: %d of %d closed\n%s" % (bmod, closed, len(want), r.stdout[-1500:])
        return res
    res.update(ok=True, theorems=want)
    open(stamp, "w").write("\n".join([stamp_val] + want))
    return res


def shared_headers(repo):
    """allow.hpp, which the translator trusts by name (insert_allowed -> a_ins, update_allowed -> a_upd): the enum
    values and the two helpers, as clang reports them, are what the rule table assumes -> (ok, detail)"""
    import cpp2coq as c
    inc = os.path.join(repo, "inc")
    want = {"insert_allowed": "(return (bin & (ref a) (ref insert)))", "update_allowed": "(return (bin & (ref a) (ref update)))"}
    try:
        for f, w in want.items():
            fn = [o for o in c.clang_objs(inc, f, "") if o.get("kind") == "FunctionDecl" and o.get("name") == f]
            if len(fn) != 1:
                return False, "%d definitions of cappuccino::%s" % (len(fn), f)
            ps = [(x.get("name"), c.ty(x)) for x in fn[0]["inner"] if x.get("kind") == "ParmVarDecl"]
            body = [x for x in fn[0]["inner"] if x.get("kind") == "CompoundStmt"]
            stmts = c.core(body[0])["a"] if body else []
            # a local type alias declares no object; the result is bool, so `x != 0` / `0 != x` of the integer x is the
            # implicit integer-to-bool conversion written out ([conv.bool]) -- both are the same function
            stmts = [x for x in stmts if not (x["k"] == "decls" and all(d["k"] in ("?TypeAliasDecl", "?TypedefDecl") for d in x["a"]))]
            if len(stmts) == 1 and stmts[0]["k"] == "return" and stmts[0]["a"] and stmts[0]["a"][0]["k"] == "bin" and stmts[0]["a"][0]["n"] == "!=":
                l, r = stmts[0]["a"][0]["a"]
                zero = lambda z: z["k"] == "int" and str(z["n"]) == "0"     # noqa: E731
                if zero(r) or zero(l):
                    stmts = [dict(stmts[0], a=[l if zero(r) else r])]
            got = " ".join(c.show(x) for x in stmts) if body else "<no body>"
            if ps != [("a", "cappuccino::allow")] or got != w:
                return False, "cappuccino::%s%s is %s, expected %s" % (f, ps, got, w)
        en = [o for o in c.clang_objs(inc, "allow", "") if o.get("kind") == "EnumDecl" and o.get("name") == "allow"]
        if len(en) != 1:
            return False, "enum cappuccino::allow not found"
        vals = {e["name"]: c.show(c.core(e["inner"][0])) if e.get("inner") else None
                for e in en[0]["inner"] if e.get("kind") == "EnumConstantDecl"}
        exp = {"insert": "(int 1)", "update": "(int 2)", "insert_or_update": "(bin | (ref insert) (ref update))"}
        if vals != exp:
            return False, "enum allow is %s, expected %s" % (vals, exp)
        pk = [o for o in c.clang_objs(inc, "peek", "") if o.get("kind") == "EnumDecl" and o.get("name") == "peek"]
        names = [e["name"] for e in pk[0]["inner"] if e.get("kind") == "EnumConstantDecl"] if len(pk) == 1 else None
        if names is None or sorted(names) != ["no", "yes"]:
            return False, "enum peek has the values %s, expected exactly no and yes" % names
    except Exception as e:      # noqa
        return False, "clang: %s" % e
    return True, "allow: insert = 1, update = 2, insert_or_update = insert | update; insert_allowed(a) = a & insert; update_allowed(a) = a & update"


def coqchk(kind, build, coqdir):
    """independent re-check (coqchk) of the compiled bridge of `kind` and everything it depends on -> (ok, summary)"""
    cls, gmod, bmod = BRIDGES[kind]
    gen = os.path.join(build, "gen")
    try:
        r = subprocess.run(["coqchk", "-o", "-silent", "-Q", coqdir, "Capp", "-Q", gen, "CappGen", "CappGen." + bmod],
                           capture_output=True, text=True, timeout=2400)
    except subprocess.TimeoutExpired:
        return False, "coqchk timed out"
    out = r.stdout + r.stderr
    summary = out[out.find("CONTEXT SUMMARY"):][:1500]
    ok = r.returncode == 0 and "* Axioms: <none>" in summary and "type-in-type: <none>" in summary and \
        "unsafe (co)fixpoints: <none>" in summary and "positivity is assumed: <none>" in summary
    return ok, ("ok: no axioms, no type-in-type, no unsafe fixpoints, no assumed positivity" if ok else out[-1500:])


if __name__ == "__main__":
    repo = os.environ.get("VERIF_REPO", "/repo")
    build = os.environ.get("VERIF_BUILD", os.path.join(ROOT, "build"))
    bad = 0
    for k in (sys.argv[1:] or list(BRIDGES)):
        r = bridge(k, repo, build, os.path.join(ROOT, "coq"))
        print("%-8s %s %s %s" % (k, "ok" if r["ok"] else "BROKEN", "(cached)" if r["cached"] else "", r["theorems"] if r["ok"] else r["detail"][-800:]))
        bad += not r["ok"]
    sys.exit(1 if bad else 0)
