#!/bin/bash
# eval_seed.sh <worktree name> <Cnn...> — confirm a freshly delivered seed (tools/verify_seed.sh, extra compiler
# flags taken from the "FLAGS:" line of its README) and run the given quick checks against it on a scratch copy.
n=$1; shift
d=/tmp/wt_$n/_seed
flags=$(grep -m1 -i '^FLAGS:' $d/README.md 2>/dev/null | tr ' `' '\n\n' | grep -E '^-(fsanitize|D|g$)' | sort -u | tr '\n' ' ')
cd /verif
tools/verify_seed.sh $n $d/patch.diff $d/demo.cpp $flags 2>&1 | tail -1
python3 tools/try_seed.py $d/patch.diff "$@" 2>&1 | grep -v "^replays"
