#!/usr/bin/env python3
"""monitors.py — per-property oracles run on the IMPLEMENTATION's own probed traces
(DESIGN §2.3).  They mention API-level observations only and encode the property text, not
the model: used to turn a broken proof / correspondence into a concrete failing history,
and run on every trace of every run (a monitor that fires is a violation).

A case is (cfg, items) where items = list of dict(kind='op'|'probe', raw, now, name, args..., out).
"""
import re

KINDS = ["lru", "mru", "fifo", "rr", "lfu", "lfuda", "tlru", "utlru", "ut_map", "ut_set"]
TTLK = {"tlru", "utlru", "ut_map", "ut_set"}
BOUNDED = {"lru", "mru", "fifo", "rr", "lfu", "lfuda", "tlru", "utlru"}
MS = 1000000


def parse_cases(casefile, outfile):
    """-> list of (cfg, items, endline)"""
    outs = {}
    cur = None
    with open(outfile) as f:
        for l in f:
            l = l.rstrip("\n")
            if l.startswith("case "):
                cur = l.split()[1]
                outs[cur] = []
            elif cur is not None:
                outs[cur].append(l)
    cases = []
    cfg = None
    items = []
    with open(casefile) as f:
        for l in f:
            l = l.rstrip("\n")
            if not l or l[0] == "#":
                continue
            w = l.split()
            if w[0] == "case":
                nu = int(w[11])
                cfg = dict(id=w[1], kind=KINDS[int(w[2])], ts=int(w[3]), vt=int(w[4]), lf=w[5], cap=int(w[6]),
                           ttl=int(w[7]), tick=int(w[8]), rnum=int(w[9]), rk=int(w[10]),
                           universe=[int(x) for x in w[12:12 + nu]], header=l)
                items = []
            elif w[0] == "probe":
                items.append(dict(kind="probe", raw=l, now=int(w[1])))
            elif w[0] == "op":
                it = dict(kind="op", raw=l, now=int(w[1]), name=w[2])
                n = w[2]
                a = w[3:]
                if n == "insert":
                    it.update(ttl=int(a[0]), k=int(a[1]), v=int(a[2]), a=int(a[3]))
                elif n in ("insert_range", "insert_it"):
                    it["a"] = int(a[0])
                    c = int(a[1])
                    it["kvs"] = [(int(a[2 + 3 * i]), int(a[3 + 3 * i]), int(a[4 + 3 * i])) for i in range(c)]
                elif n == "erase":
                    it["k"] = int(a[0])
                elif n in ("erase_range", "erase_it"):
                    it["keys"] = [int(x) for x in a[1:]]
                elif n in ("find", "find_use"):
                    it.update(k=int(a[0]), peek=int(a[1]))
                elif n in ("find_range", "find_range_fill", "find_it", "find_fill_it"):
                    it["peek"] = int(a[0])
                    it["keys"] = [int(x) for x in a[2:]]
                elif n == "update_ttl":
                    it["ttl"] = int(a[0])
                items.append(it)
            elif w[0] == "end":
                o = outs.get(cfg["id"], [])
                for i, it in enumerate(items):
                    it["out"] = o[i] if i < len(o) else "<missing>"
                endl = o[len(items)] if len(o) > len(items) else "<missing>"
                cases.append((cfg, items, endl))
    return cases


def pval(s):
    """'-' -> None ; 'v5' -> 5 ; 'v5:c2' -> (5,2)"""
    if s == "-" or s.startswith("<") or s == "unsupported":
        return None
    m = re.match(r"v(-?\d+)(?::c(\d+))?$", s)
    if not m:
        return None
    return (int(m.group(1)), int(m.group(2))) if m.group(2) is not None else int(m.group(1))


def vonly(x):
    return x[0] if isinstance(x, tuple) else x


def parse_probe(out):
    """'P s2 e0 c3 1=v5 2=-' -> dict(size, empty, cap, view{k: val})"""
    w = out.split()
    if not w or w[0] != "P":
        return None
    cap = None if w[3] == "c-" else int(w[3][1:])
    view = {}
    for x in w[4:]:
        k, v = x.split("=")
        view[int(k)] = pval(v)
    return dict(size=int(w[1][1:]), empty=w[2] == "e1", cap=cap, view=view)


def parse_list(out):
    w = out.split()
    res = []
    for x in w[1:]:
        k, v = x.split("=")
        res.append((int(k), pval(v)))
    return res


class V:
    def __init__(self, prop, cfg, idx, msg):
        self.prop, self.cfg, self.idx, self.msg = prop, cfg, idx, msg

    def __repr__(self):
        return "%s %s @%d: %s" % (self.prop, self.cfg["id"], self.idx, self.msg)


def found(pr):
    return {k for k, v in pr["view"].items() if v is not None}


def run_monitors(cfg, items, endl, props=None):
    """returns list of V.  Sequences are expected to carry a probe after every op; for the
    timed kinds also a probe BEFORE an op whenever the clock moved (gen emits them)."""
    kind = cfg["kind"]
    out = []
    want = lambda p: props is None or p in props

    def viol(p, i, msg):
        if want(p):
            out.append(V(p, cfg, i, msg))

    lw = {}          # key -> set of acceptable values (C01); missing/empty = must be absent
    dl = {}          # key -> deadline of latest successful write, None = unknown (C04/C05)
    cur_ttl = cfg["ttl"]
    last_probe = None      # most recent probe (dict) and its time
    last_probe_now = None
    uses = {}        # key -> last use index (C10/C13)
    created = {}     # key -> creation index (C12)
    cnt = {}         # key -> (count, idle_since) ideal map (C11/C14)
    track_policy = True
    op_since_probe = False
    step = 0
    fq = [] if kind == "fifo" else None      # fifo: the queue of resident keys, oldest first (None = lost track)
    if endl != "end live0" and want("C08"):
        viol("C08", len(items), "value instances alive after the container was destroyed: %s" % endl)

    def ttl_of(it_ttl):
        if kind == "tlru":
            return it_ttl
        return cur_ttl

    def check_hit(i, k, v, now, where):
        vv = vonly(v)
        if vv is None:
            d0 = dl.get(k)
            if kind in ("ut_map", "ut_set") and d0 is not None and now < d0 and lw.get(k):
                msg = "%s misses key %d at now=%d although its latest successful write expires at %d and it was not erased" % (where, k, now, d0)
                viol("C05", i, msg)
                viol("C09", i, msg)
            # observed missing: no resurrection until the next write
            if k in lw:
                lw[k] = set()
            return
        acc = lw.get(k, set())
        if vv not in acc:
            viol("C01", i, "%s reports %s=%s but the latest not-undone writes of that key are %s" % (where, k, vv, sorted(acc)))
        d = dl.get(k)
        if kind in TTLK and d is not None and now >= d:
            viol("C04", i, "%s reports %s=%s at now=%d, at/after its expiry instant %d" % (where, k, vv, now, d))

    for i, it in enumerate(items):
        now = it["now"]
        o = it["out"]
        if it["kind"] == "probe":
            pr = parse_probe(o)
            if pr is None:
                continue
            # C02
            if kind in BOUNDED:
                if pr["cap"] != cfg["cap"]:
                    viol("C02", i, "capacity() = %s, constructed with %d" % (pr["cap"], cfg["cap"]))
                if not (0 <= pr["size"] <= cfg["cap"]):
                    viol("C02", i, "size() = %d outside [0, %d]" % (pr["size"], cfg["cap"]))
            if pr["empty"] != (pr["size"] == 0):
                viol("C02", i, "empty() = %s but size() = %d" % (pr["empty"], pr["size"]))
            nf = len(found(pr))
            if kind not in TTLK and pr["size"] != nf:
                viol("C02", i, "size() = %d but %d keys are found" % (pr["size"], nf))
            if kind in ("tlru", "utlru") and pr["size"] < nf:
                viol("C02", i, "size() = %d is less than the %d live keys" % (pr["size"], nf))
            for k, v in pr["view"].items():
                check_hit(i, k, v, now, "lookup")
            # C05: a key known written, deadline not reached, present at the previous probe and
            # not touched since must still be there (ut_*: always; tl: checked through C03)
            # C05: nothing expires early — with no call in between, a key that was found and whose latest
            # write's deadline has not been reached must still be found
            if kind in TTLK and last_probe is not None and not op_since_probe:
                for k in found(last_probe) - found(pr):
                    d0 = dl.get(k)
                    if d0 is not None and now < d0:
                        viol("C05", i, "key %d disappeared between two observations at now=%d although its latest successful write expires at %d" % (k, now, d0))
                        if kind in ("ut_map", "ut_set"):
                            viol("C17", i, "the purge at the start of a lookup at now=%d removed key %d, which is live until %d" % (now, k, d0))
            op_since_probe = False
            last_probe, last_probe_now = pr, now
            # counts (C11/C14)
            if kind in ("lfu", "lfuda") and track_policy:
                for k, v in pr["view"].items():
                    if v is not None and k in cnt and isinstance(v, tuple):
                        if v[1] != cnt[k][0]:
                            viol("C11" if kind == "lfu" else "C14", i,
                                 "use count of %d is %d, the history gives %d" % (k, v[1], cnt[k][0]))
            continue
        # ---- an operation ----
        pre_fresh = not op_since_probe      # the last probe describes the state this call starts from
        op_since_probe = True
        step += 1
        n = it["name"]
        pre = last_probe if last_probe_now == now or kind not in TTLK and kind != "lfuda" else None
        # the probe right after this op (same now)
        post = None
        if i + 1 < len(items) and items[i + 1]["kind"] == "probe" and items[i + 1]["now"] == now:
            post = parse_probe(items[i + 1]["out"])
        pre_found = found(pre) if pre else None
        post_found = found(post) if post else None
        addressed = set()
        if fq is not None:
            # C12 on the whole alphabet, range calls included: the calls of a range are single calls in order
            def fq_ins(k_, a_):
                if k_ in fq:
                    return bool(a_ & 2)
                if a_ & 1:
                    if len(fq) >= cfg["cap"]:
                        fq.pop(0)
                    fq.append(k_)
                    return True
                return False
            if n == "insert":
                fq_ins(it["k"], it["a"])
            elif n in ("insert_range", "insert_it"):
                for (_, k_, _) in it["kvs"]:
                    fq_ins(k_, it["a"])
            elif n == "erase":
                if it["k"] in fq:
                    fq.remove(it["k"])
            elif n in ("erase_range", "erase_it"):
                for k_ in it["keys"]:
                    if k_ in fq:
                        fq.remove(k_)
            elif n == "clear":
                del fq[:]
            if post is not None:
                if set(fq) != post_found:
                    if n in ("insert", "insert_range", "insert_it"):
                        viol("C12", i, "after %s the residents are %s; first-in first-out order (a range being its elements in order) leaves %s" % (
                            n, sorted(post_found), sorted(fq)))
                    fq = None
            else:
                fq = None
        if n == "insert":
            k, v, a = it["k"], it["v"], it["a"]
            b = o == "b1"
            addressed.add(k)
            was_live = (k in pre_found) if pre_found is not None else None
            # C09
            if was_live is True and b != bool(a & 2):
                viol("C09", i, "key %d live, allow=%d, insert returned %s" % (k, a, o))
            if was_live is False:
                if a & 1 and not b:
                    viol("C09", i, "key %d has no live entry, insert allowed (allow=%d) but returned %s" % (k, a, o))
                if a == 0 and b:
                    viol("C09", i, "allow=0 insert returned true")
                if kind not in TTLK and a == 2 and b:
                    viol("C09", i, "update-only insert of absent key %d returned true" % k)
            if b and post is not None and vonly(post["view"].get(k)) != v and not (kind in ("ut_map", "ut_set") and ttl_of(it["ttl"]) == 0) \
                    and not (kind in ("tlru", "utlru") and ttl_of(it["ttl"]) == 0):
                viol("C09", i, "insert of %d=%d returned true but a lookup reports %s" % (k, v, post["view"].get(k)))
            if (not b) and was_live and post is not None and pre is not None and post["view"].get(k) != pre["view"].get(k) \
                    and kind not in ("lfu", "lfuda"):
                viol("C09", i, "rejected insert changed key %d: %s -> %s" % (k, pre["view"].get(k), post["view"].get(k)))
            if b:
                lw[k] = {v}
                dl[k] = now + ttl_of(it["ttl"]) * MS
                # policy bookkeeping
                if was_live is False or was_live is None and k not in uses:
                    created[k] = step
                    cnt[k] = (1, now)
                elif k in cnt:
                    cnt[k] = (cnt[k][0] + 1, now)
                uses[k] = step
        elif n in ("insert_range", "insert_it"):
            ks = [k for (_, k, _) in it["kvs"]]
            addressed.update(ks)
            nres = int(o[1:]) if o.startswith("n") else -1
            # C09 for a range call: when no eviction can happen during the call (room for every new key, or an
            # unbounded container) the element-wise outcome is determined by which keys are live before it
            if pre is not None and post is not None and nres >= 0:
                newk = [k for k in dict.fromkeys(ks) if k not in pre_found]
                # (tlru/utlru with an expired entry still resident: allow::update over it may go either way — skip)
                if (kind in ("ut_map", "ut_set") or pre["size"] + len(newk) <= cfg["cap"]) and \
                        not (kind in ("tlru", "utlru") and pre["size"] != len(pre_found)) and \
                        not (kind in TTLK and any(ttl_of(t_) == 0 for (t_, _, _) in it["kvs"])):      # a TTL-0 write leaves an
                    # expired resident entry behind, over which a later allow::update of the same call may go either way
                    present, exp_n = set(pre_found), 0
                    a_ins, a_upd = bool(it["a"] & 1), bool(it["a"] & 2)
                    for (t_, k, _) in it["kvs"]:
                        dead_at_once = kind in TTLK and ttl_of(t_) == 0      # a TTL-0 write is expired at the same instant
                        if k in present:
                            exp_n += 1 if a_upd else 0
                            if a_upd and dead_at_once:
                                present.discard(k)
                        elif a_ins:
                            exp_n += 1
                            if not dead_at_once:
                                present.add(k)
                    if nres != exp_n:
                        viol("C09", i, "%s with allow=%d returned %d; element by element %d of its writes are allowed (live before: %s)" % (
                            n, it["a"], nres, exp_n, sorted(pre_found & set(ks))))
                    if not a_upd:
                        for k in pre_found & set(ks):
                            if vonly(pre["view"][k]) != vonly(post["view"].get(k)):
                                viol("C09", i, "%s with allow=%d (no update) changed live key %d: %s -> %s" % (n, it["a"], k, pre["view"][k], post["view"].get(k)))
                    if not a_ins:
                        for k in newk:
                            if post["view"].get(k) is not None:
                                viol("C09", i, "%s with allow=%d (no insert) created key %d" % (n, it["a"], k))
            for (t, k, v) in it["kvs"]:
                lw.setdefault(k, set()).add(v)
                dl[k] = None
            if it["a"] == 3 and nres == len(ks):
                for (t, k, v) in it["kvs"]:
                    dl[k] = now + ttl_of(t) * MS      # every element was written: the last one for a key decides
                # every element succeeds: each one is a use, in iteration order
                pure_update = pre_found is not None and all(k in pre_found for k in ks)
                for (t, k, v) in it["kvs"]:
                    step += 1
                    uses[k] = step
                    if pure_update and k in cnt:
                        cnt[k] = (cnt[k][0] + 1, now)
                    else:
                        cnt.pop(k, None)
                    if not pure_update:
                        created.pop(k, None)
                if kind == "lfuda" and not pure_update:
                    cnt.clear()
            else:
                for k in ks:
                    uses.pop(k, None); created.pop(k, None); cnt.pop(k, None)
                if kind == "lfuda":
                    cnt.clear()
        elif n == "erase":
            k = it["k"]
            addressed.add(k)
            b = o == "b1"
            if pre_found is not None:
                if k in pre_found and not b:
                    viol("C09", i, "erase of live key %d returned false" % k) if False else None
            if b:
                lw[k] = set()
                dl.pop(k, None)
                uses.pop(k, None); created.pop(k, None); cnt.pop(k, None)
            if post is not None and post["view"].get(k) is not None:
                viol("C01", i, "key %d still found after erase returned %s" % (k, o))
        elif n in ("erase_range", "erase_it"):
            addressed.update(it["keys"])
            for k in it["keys"]:
                uses.pop(k, None); created.pop(k, None); cnt.pop(k, None)
                dl[k] = None        # possibly erased: no claim about its expiry any more
        elif n in ("find", "find_use"):
            k = it["k"]
            v = pval(o)
            check_hit(i, k, v, now, n)
            if pre is not None:
                if vonly(pre["view"].get(k)) != vonly(v):
                    viol("C01", i, "%s(%d) = %s but a side-effect-free lookup at the same instant gives %s" % (n, k, o, pre["view"].get(k)))
            if v is not None and not it["peek"]:
                uses[k] = step
                if k in cnt:
                    cnt[k] = (cnt[k][0] + 1, now)
            if n == "find_use" and v is not None and isinstance(v, tuple) and k in cnt and track_policy:
                if v[1] != cnt[k][0]:
                    viol("C11" if kind == "lfu" else "C14", i, "find_with_use_count(%d) reports count %d, history gives %d" % (k, v[1], cnt[k][0]))
        elif n in ("find_range", "find_range_fill", "find_it", "find_fill_it"):
            res = parse_list(o)
            if [k for k, _ in res] != it["keys"]:
                viol("C18", i, "%s returned keys %s for input %s" % (n, [k for k, _ in res], it["keys"]))
            if pre is not None and pre_fresh:
                # C18: a range lookup is its single lookups in order; a lookup never changes whether or with which value a
                # key is found at the same instant, so every position must agree with the side-effect-free view taken
                # just before the call (duplicates included)
                for k, v in res:
                    if k in pre["view"] and vonly(pre["view"].get(k)) != vonly(v):
                        viol("C18", i, "%s reports %d=%s but the single lookup of that key at the same instant gives %s" % (
                            n, k, v, pre["view"].get(k)))
            for k, v in res:
                check_hit(i, k, v, now, n)
                if v is not None and not it["peek"]:
                    step += 1
                    uses[k] = step
                    if k in cnt:
                        cnt[k] = (cnt[k][0] + 1, now)
        elif n == "update_ttl":
            cur_ttl = it["ttl"]
        elif n == "clear":
            for k in list(lw):
                lw[k] = set()
            dl.clear(); uses.clear(); created.clear(); cnt.clear()
            if post is not None and (post["size"] != 0 or found(post)):
                viol("C20", i, "after clear(): size() = %d, found %s" % (post["size"], sorted(found(post))))
        elif n == "clean":
            if pre is not None and post is not None and o.startswith("n"):
                nrem = int(o[1:])
                if nrem != pre["size"] - post["size"]:
                    viol("C17", i, "clean_expired_values() returned %d but size() went %d -> %d" % (nrem, pre["size"], post["size"]))
                if post["size"] != len(post_found) and not (kind in ("ut_map", "ut_set") and False):
                    viol("C17", i, "after clean_expired_values() size() = %d but %d keys are live" % (post["size"], len(post_found)))
        elif n == "dyn_age":
            complete = pre is not None and all(k in cnt for k in pre_found)
            if kind == "lfuda" and o.startswith("n") and not complete:
                cnt.clear()
            if kind == "lfuda" and o.startswith("n") and track_policy and complete:
                aged = 0
                for k in list(cnt):
                    c, idle = cnt[k]
                    if idle + cfg["tick"] * MS < now:
                        cnt[k] = ((c * cfg["rnum"]) >> cfg["rk"], now)
                        aged += 1
                if int(o[1:]) != aged:
                    viol("C14", i, "dynamically_age() returned %s, %d entries were idle longer than the tick" % (o, aged))
        elif n == "size":
            if last_probe is not None and pre is not None and o != "n%d" % pre["size"]:
                viol("C02", i, "size() op returned %s, probe says %d" % (o, pre["size"]))
        # ---- frame conditions between the probe before and the probe after (C03, C16, policy) ----
        if pre is not None and post is not None:
            lost = pre_found - post_found - (addressed if n in ("erase", "erase_range", "erase_it") else set())
            if n == "clear":
                lost = set()
            if n == "insert":
                k = it["k"]
                lost.discard(k) if False else None
            if n in ("insert", "insert_range", "insert_it"):
                ks = [it["k"]] if n == "insert" else [k for (_, k, _) in it["kvs"]]
                newkeys = [k for k in dict.fromkeys(ks) if k not in pre_found]
                if kind in ("ut_map", "ut_set"):
                    allowed = 0
                elif n == "insert":
                    allowed = 1 if (o == "b1" and it["k"] not in pre_found and pre["size"] >= cfg["cap"]) else 0
                    if kind in ("tlru", "utlru") and pre["size"] > len(pre_found):
                        # an expired entry is resident: the victim must be an expired one (C16)
                        if lost - {it["k"]}:
                            viol("C16", i, "insert evicted live %s while %d expired entr(ies) were resident" % (sorted(lost), pre["size"] - len(pre_found)))
                        allowed = 0
                else:
                    allowed = len(ks)
                reallost = lost - set(ks) if n != "insert" else lost - {it["k"]}
                # a key addressed by the insert and lost: an update cannot remove its own key
                if len(reallost) > allowed and kind in TTLK:
                    viol("C05", i, "%s removed entries %s that had not reached their expiry (not allowed as eviction victims)" % (n, sorted(reallost)))
                if n == "insert" and len(reallost) > allowed and kind == "fifo":
                    res_ = [k for k in pre_found]
                    if all(k in created for k in res_):
                        exp_ = min(res_, key=lambda k: created[k])
                        if reallost != {exp_}:
                            viol("C12", i, "insert removed %s; the earliest inserted entry is %d (size %d of %d)" % (sorted(reallost), exp_, pre["size"], cfg["cap"]))
                if n == "insert" and kind == "rr" and o == "b1" and it["k"] not in pre_found and len(reallost) != allowed:
                    viol("C15", i, "insert of a new key removed %s (size before %d, capacity %d): exactly %d prior resident(s) must go" % (
                        sorted(reallost), pre["size"], cfg["cap"], allowed))
                if len(reallost) > allowed:
                    viol("C03", i, "%s removed live entries %s (at most %d allowed; size before %d, capacity %d)" % (n, sorted(reallost), allowed, pre["size"], cfg["cap"]))
                if n == "insert" and allowed == 1 and kind in BOUNDED and o == "b1":
                    if post["size"] != cfg["cap"]:
                        viol("C03", i, "insert into the full cache left size() = %d, capacity %d" % (post["size"], cfg["cap"]))
                    # exactly one previously resident entry is gone (live or expired)
                    if kind not in TTLK and len(reallost) != 1:
                        viol("C03", i, "insert into the full cache removed %d entries" % len(reallost))
                    if kind == "lfuda":
                        for k_ in list(cnt):
                            c_, idle_ = cnt[k_]
                            if k_ != it["k"] and idle_ + cfg["tick"] * MS < now:
                                cnt[k_] = ((c_ * cfg["rnum"]) >> cfg["rk"], now)
                    # ---- the victim (C10-C13, C15) ----
                    if len(reallost) == 1 and track_policy:
                        victim = next(iter(reallost))
                        res = [k for k in pre_found]
                        if kind in ("lru", "tlru", "utlru") and all(k in uses for k in res):
                            if kind == "lru" or pre["size"] == len(pre_found):
                                exp = min(res, key=lambda k: uses[k])
                                if victim != exp:
                                    viol("C10", i, "evicted %d, least recently used is %d" % (victim, exp))
                        if kind == "mru" and all(k in uses for k in res):
                            exp = max(res, key=lambda k: uses[k])
                            if victim != exp:
                                viol("C13", i, "evicted %d, most recently used is %d" % (victim, exp))
                        if kind == "fifo" and all(k in created for k in res):
                            exp = min(res, key=lambda k: created[k])
                            if victim != exp:
                                viol("C12", i, "evicted %d, earliest inserted is %d" % (victim, exp))
                        if kind in ("lfu", "lfuda") and all(k in cnt for k in res):
                            mn = min(cnt[k][0] for k in res)
                            if cnt[victim][0] != mn:
                                viol("C11" if kind == "lfu" else "C14", i, "evicted %d with count %d, minimum is %d" % (victim, cnt[victim][0], mn))
                        if kind == "rr" and victim == it["k"]:
                            viol("C15", i, "evicted the key being inserted")
                        for d in (uses, created, cnt):
                            d.pop(victim, None)
                    elif kind in ("lfuda",):
                        track_policy = False
                if n != "insert" and reallost:
                    for k in reallost:
                        for d in (uses, created, cnt):
                            d.pop(k, None)
            else:
                if lost:
                    viol("C03", i, "%s removed live entries %s" % (n, sorted(lost)))
                    if kind in TTLK:
                        viol("C05", i, "%s removed entries %s that had not reached their expiry" % (n, sorted(lost)))
                        if n == "clean":
                            viol("C17", i, "clean_expired_values() removed live entries %s" % sorted(lost))
                        elif kind in ("ut_map", "ut_set"):
                            viol("C17", i, "the purge at the start of %s removed live entries %s" % (n, sorted(lost)))
            for d_ in (uses, created, cnt):
                for k in [k for k in d_ if k not in post_found]:
                    d_.pop(k, None)
            # values of untouched live entries never change (C03 / C19)
            for k in pre_found & post_found:
                if k in addressed:
                    continue
                if vonly(pre["view"][k]) != vonly(post["view"][k]):
                    viol("C03", i, "%s changed the value of untouched key %d: %s -> %s" % (n, k, pre["view"][k], post["view"][k]))
                    if kind == "rr":
                        viol("C15", i, "%s overwrote the entry of resident key %d (%s -> %s): the slot of a live entry was handed out" % (n, k, pre["view"][k], post["view"][k]))
            # ut_map / ut_set: right after a purging call size() = number of live keys
            if kind in ("ut_map", "ut_set") and n in ("insert", "insert_range", "erase", "erase_range", "find", "find_range",
                                                       "find_range_fill", "clean"):
                if post["size"] != len(post_found):
                    viol("C02", i, "after %s size() = %d but %d keys are live" % (n, post["size"], len(post_found)))
            # C19: calls without effect
            noeff = (n in ("find", "find_use") and (it.get("peek") or pval(o) is None)) or \
                    (n == "insert" and o == "b0") or (n == "erase" and o == "b0")
            if noeff and kind not in TTLK:
                if pre["view"] != post["view"] or pre["size"] != post["size"]:
                    viol("C19", i, "%s had no effect but the observable state changed: %s -> %s" % (n, pre, post))
            if noeff and kind in TTLK:
                if {k: vonly(v) for k, v in pre["view"].items()} != {k: vonly(v) for k, v in post["view"].items()}:
                    viol("C19", i, "%s had no effect but live entries changed" % n)
    return out
