#!/usr/bin/env python3
"""matrix_md.py <dir with matrix_<seed>.log> > seeded/MATRIX.md — the seed x check table"""
import glob, os, re, sys
d = sys.argv[1] if len(sys.argv) > 1 else "/tmp"
props = ["C%02d" % i for i in range(1, 21)]
rows = {}
for f in sorted(glob.glob(os.path.join(d, "matrix_*.log"))):
    for l in open(f):
        m = re.match(r"seed=(\S+) check=(\S+) (.*)$", l.strip())
        if not m:
            continue
        s, c, rest = m.groups()
        if "VIOLATION" in rest:
            v = "nf" if "no-failing-input-found" in rest else "V"
        else:
            v = "."
        rows.setdefault(s, {})[c] = v
print("# Seeded changes x checks (quick tier, VERIF_SEED=1)\n")
print("`V` = VIOLATION with a concrete replay of that property; `nf` = VIOLATION ... no-failing-input-found (a proof obligation or")
print("the model-code correspondence of that property's containers broke, its own monitor found no failing input); `.` = check passes.")
print("Open known findings (F7) are printed as KNOWN-FINDING lines by C02/C18 in every run and are not shown.\n")
br = {}
bf = os.path.join(d, "bridge.log")
if os.path.exists(bf):
    for l in open(bf):
        m = re.match(r"seed=(\S+)(.*)$", l.strip())
        if m:
            br[m.group(1)] = ",".join(w.split("=")[0] for w in m.group(2).split() if w.endswith("=BROKEN")) or "-"
print("Last column `g`: the source-translation bridges (tie g) the change breaks (`-` = none: the change does not touch a translated")
print("member function or constructor, e.g. it only moves a lock_guard).\n")
print("| seed | " + " | ".join(p[1:] for p in props) + " | g |")
print("|---|" + "|".join("---" for _ in props) + "|---|")
for s in sorted(rows):
    print("| %s | " % s + " | ".join(rows[s].get(p, "?") for p in props) + " | %s |" % br.get(s, "?"))
