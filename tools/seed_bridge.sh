#!/bin/bash
# seed_bridge.sh [seed ids...] — which source-translation bridges (tie g) a seeded change breaks.
# Works on a scratch export of /repo HEAD; never touches /repo or /verif/build.
cd "$(dirname "$0")/.."
ids=${@:-$(ls seeded | grep -v MATRIX)}
for id in $ids; do
  r=/tmp/sbrepo_$id; b=/tmp/sbbuild_$id
  rm -rf $r $b; mkdir -p $r $b
  git -C /repo archive HEAD | tar -x -C $r && (cd $r && patch -p1 -s < /verif/seeded/$id/patch.diff) || { echo "seed=$id patch-failed"; continue; }
  out=$(VERIF_REPO=$r VERIF_BUILD=$b python3 tools/gen_check.py 2>&1 | awk '$2=="ok"||$2=="BROKEN"{print $1"="$2}' | tr '\n' ' ')
  echo "seed=$id $out"
  rm -rf $r $b
done
