#!/usr/bin/env python3
"""sched_check.py — C06: exhaustive lock-granularity schedules of small thread programs on
REAL threads (harness/sched.cpp, built with -DCAPPUCCINO_VERIF_HOOKS from /repo/inc), each
observed history checked for linearizability against the extracted sequential Coq model:
some total order of the calls that respects program order and real-time order (ret < inv)
must reproduce every result and the final observation."""
import glob, itertools, os, random, re, subprocess, sys
from concurrent.futures import ThreadPoolExecutor

MS = 1000000
KINDS = ["lru", "mru", "fifo", "rr", "lfu", "lfuda", "tlru", "utlru", "ut_map", "ut_set"]
TTLK = {6, 7, 8, 9}


def ensure(check):
    srcs = [os.path.join(check.ROOT, "harness", "sched.cpp"), os.path.join(check.ROOT, "harness", "common.hpp")]
    h = check.file_hash(srcs) + check.repo_hash()
    bind = os.path.join(check.BUILD, "bin")
    os.makedirs(bind, exist_ok=True)
    procs = []
    for k in range(10):
        exe = os.path.join(bind, "sched_%d" % k)
        st = exe + ".stamp"
        if os.path.exists(exe) and os.path.exists(st) and open(st).read() == h:
            continue
        cmd = ["g++", "-std=c++17", "-O1", "-g", "-I" + os.path.join(check.REPO, "inc"), "-DCAPPUCCINO_VERIF_HOOKS", "-DKIND=%d" % k,
               srcs[0]] + sorted(glob.glob(os.path.join(check.REPO, "src", "*.cpp"))) + ["-o", exe, "-pthread"]
        procs.append((k, exe, st, subprocess.Popen(cmd, stdout=subprocess.PIPE, stderr=subprocess.STDOUT, text=True)))
    ok, lg = True, ""
    for k, exe, st, p in procs:
        o, _ = p.communicate(timeout=900)
        if p.returncode != 0:
            ok = False
            lg += "scheduler harness for %s does not compile (hooks on):\n%s\n" % (KINDS[k], o[-2000:])
            if os.path.exists(st):
                os.remove(st)
        else:
            open(st, "w").write(h)
    return ok, lg


def gen_scenarios(kind, rnd, n):
    """-> list of scenario dicts"""
    out = []
    for i in range(n):
        cap = rnd.choice([1, 2, 2, 3]) if kind != 3 else 6
        ttl = rnd.choice([1, 5, 50])
        now = 1000 * MS
        keys = [1, 2, 3, 4]
        vc = [10 * (i + 1)]

        def val():
            vc[0] += 1
            return 1 if kind == 9 else vc[0]

        def op(allow_now=None):
            names = ["insert"] * 4 + ["erase", "find", "find", "size", "empty", "insert_range", "erase_range", "find_range"]
            if kind in (4, 5):
                names += ["find_use"]
            if kind == 5:
                names += ["dyn_age"]
            if kind in TTLK:
                names += ["clean", "clean"]
            if kind == 7:
                names += ["update_ttl", "update_ttl", "clear"]
            if kind == 8:
                names += ["clear"]
            if kind == 2:
                names += ["insert_it", "erase_it", "find_it"]
            nm = rnd.choice(names)
            k = rnd.choice(keys[:cap + 1])
            t = rnd.choice([0, 1, 5]) if kind == 6 else 0
            a = rnd.choice([3, 3, 1, 2])
            pk = rnd.choice([0, 1]) if kind in (0, 1, 4, 5, 6, 7) else 0
            if nm == "insert":
                return "insert %d %d %d %d" % (t, k, val(), a)
            if nm in ("insert_range", "insert_it"):
                k2 = rnd.choice(keys[:cap + 2])
                return "%s %d 2 %d %d %d %d %d %d" % (nm, a, t, k, val(), t, k2, val())
            if nm == "erase":
                return "erase %d" % k
            if nm in ("erase_range", "erase_it"):
                return "%s 2 %d %d" % (nm, k, rnd.choice(keys))
            if nm in ("find", "find_use"):
                return "%s %d %d" % (nm, k, pk)
            if nm in ("find_range", "find_it"):
                return "%s %d 2 %d %d" % (nm, pk, k, rnd.choice(keys))
            if nm == "update_ttl":
                return "update_ttl %d" % rnd.choice([0, 1, 100])
            return nm
        pre = []
        for _ in range(rnd.choice([0, 1, 2, cap])):
            # written a little earlier, so that some entries may be expired at `now`
            pre.append("op %d %s" % (now - rnd.choice([0, 1, 2, 6]) * MS, "insert %d %d %d 3" % (rnd.choice([0, 1, 5]) if kind == 6 else 0, rnd.choice(keys[:cap + 1]), val())))
        shape = rnd.choice([(2, 2), (2, 2), (1, 2), (1, 1, 1), (2, 1)])
        progs = [[op() for _ in range(m)] for m in shape]
        post = ["op %d find %d 1" % (now + rnd.choice([0, 2, 60]) * MS, k) for k in keys[:3]]
        out.append(dict(id="%s-s%d" % (KINDS[kind], i), kind=kind, cap=cap, ttl=ttl, tick=1, rnum=1, rk=1, now=now,
                        universe=keys, pre=pre, progs=progs, post=post, unlock_yield=(i % 4 == 3 and sum(shape) <= 3)))
    return out


METHOD_OPS = {
    "insert": "insert 0 1 {v} 3", "insert_range": "insert_range 3 2 0 1 {v} 0 2 {w}", "erase": "erase 1",
    "erase_range": "erase_range 2 1 2", "find": "find 1 0", "find_range": "find_range 0 2 1 2",
    "find_range_fill": "find_range_fill 0 2 1 2", "find_with_use_count": "find_use 1 0",
    "clean_expired_values": "clean", "dynamically_age": "dyn_age", "clear": "clear", "update_ttl": "update_ttl 1",
    "size": "size", "empty": "empty", "capacity": "capacity",
}


def targeted_scenarios(kind, method, idx):
    """a method whose skeleton failed the atomicity obligation, run against every kind of conflicting call"""
    base = METHOD_OPS.get(method)
    if base is None:
        return []
    if kind == 2 and method in ("insert", "erase", "find"):
        pass
    others = ["insert_range 3 2 0 1 {v} 0 2 {w}", "erase_range 2 1 2", "find_range 0 2 1 2", "insert 0 1 {v} 3", "erase 2",
              "insert 0 3 {v} 3", "size"]
    if kind in TTLK:
        others += ["clean"]
    if kind == 7:
        others += ["update_ttl 1", "update_ttl 100", "clear"]
    if kind == 8:
        others += ["clear"]
    out = []
    now = 1000 * MS
    n = 0
    for cap in (2, 1, 3):
        for oth in others:
            for two in (None, "find_range 0 2 1 2", "insert 0 1 {v} 3"):
                n += 1
                v = 100 + 10 * n
                def fmt(t, a, b):
                    t = t.format(v=1 if kind == 9 else a, w=1 if kind == 9 else b)
                    return t
                progs = [[fmt(base, v, v + 1)], [fmt(oth, v + 2, v + 3)] + ([fmt(two, v + 4, 0)] if two else [])]
                pre = ["op %d insert %d 1 %d 3" % (now, 5 if kind == 6 else 0, 10 if kind != 9 else 1),
                       "op %d insert %d 2 %d 3" % (now, 5 if kind == 6 else 0, 20 if kind != 9 else 1)][:cap]
                post = ["op %d find %d 1" % (now + d * MS, k) for d in (2, 50) for k in (1, 2)] if kind in TTLK else []
                out.append(dict(id="%s-t%d-%s-%d" % (KINDS[kind], idx, method, n), kind=kind, cap=cap if kind != 3 else 6, ttl=5, tick=1, rnum=1, rk=1,
                                now=now, universe=[1, 2, 3, 4], pre=pre, progs=progs, post=post, unlock_yield=(two is None)))
    if kind in TTLK and method in ("clean_expired_values", "clear"):
        # bulk: many expired entries, so that a call which works in batches (and lets the lock go in between) shows
        nkeys, t0 = 100, now - 10 * MS
        pre = ["op %d insert %d %d %d 3" % (t0, 5 if kind == 6 else 0, k, 1 if kind == 9 else 1000 + k) for k in range(1, nkeys + 1)]
        for oth in ("size", "find 1 0", "insert 0 1 7 3"):
            n += 1
            out.append(dict(id="%s-t%d-%s-bulk%d" % (KINDS[kind], idx, method, n), kind=kind, cap=128, ttl=5, tick=1, rnum=1, rk=1,
                            now=now, universe=list(range(1, nkeys + 1)), pre=pre, progs=[[base], [oth.replace(" 7 ", " 1 " if kind == 9 else " 7 ")]],
                            post=[], unlock_yield=True))
    return out


def write_scenarios(scs, path):
    with open(path, "w") as f:
        for s in scs:
            f.write("scenario %s %d %d %d %d %d %d %d %d %s\n" % (s["id"], s["kind"], s["cap"], s["ttl"], s["tick"], s["rnum"], s["rk"],
                                                               s["now"], len(s["universe"]), " ".join(map(str, s["universe"]))))
            if s.get("unlock_yield"):
                f.write("unlockyield 1\n")
            for p in s["pre"]:
                f.write("pre %s\n" % p)
            for t, prog in enumerate(s["progs"]):
                for o in prog:
                    f.write("thread %d op 0 %s\n" % (t, o))
            for p in s.get("post", []):
                f.write("post %s\n" % p)
            f.write("end\n")


def parse_runs(text):
    """-> {scenario id: [ (choices, [(tid, j, inv, ret, res)], final) ]}, {id: (runs, exhaustive)}"""
    res, meta, cur = {}, {}, None
    for l in text.split("\n"):
        if l.startswith("scenario "):
            cur = l.split()[1]
            res[cur] = []
        elif l.startswith("endscenario "):
            w = l.split()
            meta[w[1]] = (int(w[2].split("=")[1]), w[3] == "exhaustive")
        elif l.startswith("run") and cur is not None:
            parts = l.split("|")
            choices = parts[0].split()[1:]
            if len(parts) < 3:
                res[cur].append((choices, None, l, []))
                continue
            ops = []
            posts = []
            for seg in parts[1].split(";"):
                seg = seg.strip()
                if not seg:
                    continue
                m = re.match(r"(\d+)\.(\d+) inv=(\d+) ret=(\d+) (.*)$", seg)
                if m:
                    ops.append((int(m.group(1)), int(m.group(2)), int(m.group(3)), int(m.group(4)), m.group(5)))
                    continue
                m = re.match(r"post\.(\d+) inv=0 ret=0 (.*)$", seg)
                posts.append(m.group(2))
            res[cur].append((choices, ops, parts[2].strip(), posts))
    return res, meta


def linearizations(ops):
    """all total orders of ops respecting program order and real-time order"""
    n = len(ops)
    out = []

    def rec(done, order):
        if len(order) == n:
            out.append(list(order))
            return
        for i in range(n):
            if i in done:
                continue
            t, j, inv, ret, _ = ops[i]
            ok = True
            for q in range(n):
                if q in done or q == i:
                    continue
                t2, j2, inv2, ret2, _ = ops[q]
                if (t2 == t and j2 < j) or ret2 < inv:   # q must come before i
                    ok = False
                    break
            if ok:
                done.add(i)
                order.append(i)
                rec(done, order)
                order.pop()
                done.discard(i)
    rec(set(), [])
    return out


def final_to_probe(final, cap, kind):
    w = final.split()
    size = int(w[1][1:])
    return "P s%d e%d c%s %s" % (size, 1 if size == 0 else 0, "-" if kind in (8, 9) else str(cap), " ".join(w[2:]))


def run(prop, tier, seed, res, check, targets=None):
    ok, lg = ensure(check)
    if not ok:
        res["broken"].append(dict(what="scheduler harness build", detail=lg[-2500:]))
        return
    okd, lgd = check.ensure_driver()
    rnd = random.Random("sched/%d" % seed)
    nsc = 14 if tier == "quick" else 120
    d = os.path.join(check.BUILD, "run", "sched-%d" % os.getpid())
    os.makedirs(d, exist_ok=True)
    allsc = {}
    jobs = []
    for k in range(10):
        scs = gen_scenarios(k, rnd, nsc)
        for ti, (tk, meth) in enumerate(targets or []):
            if tk == k:
                scs += targeted_scenarios(k, meth, ti)
        for s in scs:
            allsc[s["id"]] = s
        f = os.path.join(d, "sched_%d.scn" % k)
        write_scenarios(scs, f)
        jobs.append((k, f))

    def one(j):
        k, f = j
        try:
            p = subprocess.run([os.path.join(check.BUILD, "bin", "sched_%d" % k), f, "400"], capture_output=True, text=True, timeout=900)
            return k, p.returncode, p.stdout, p.stderr
        except subprocess.TimeoutExpired:
            return k, -9, "", "timeout"
    with ThreadPoolExecutor(max_workers=10) as ex:
        outs = list(ex.map(one, jobs))
    total_runs = 0
    distinct = 0
    cases = []        # (case id, text, expected lines)
    hist_of_case = {}
    histories = {}
    for k, rc, so, se in outs:
        runs, meta = parse_runs(so)
        if rc != 0:
            # deadlock / hang / crash under some schedule
            last = [l for l in so.split("\n") if l.startswith("run")][-1:] or [""]
            sid = [l for l in so.split("\n") if l.startswith("scenario ")][-1:] or ["?"]
            res["conc_violations"].append(dict(property=prop, kind=KINDS[k], what="a schedule of real threads deadlocks, hangs or crashes (exit %s)" % rc,
                                               scenario=allsc.get(sid[0].split()[-1], sid), schedule=last[0], stderr=se[-2000:]))
        for sid, rl in runs.items():
            seen = set()
            for (choices, ops, final, posts) in rl:
                total_runs += 1
                if ops is None:
                    continue
                key = (tuple((t, j, inv, ret, r) for (t, j, inv, ret, r) in ops), final, tuple(posts))
                if key in seen:
                    continue
                seen.add(key)
                distinct += 1
                hid = "%s#%d" % (sid, len(seen))
                histories[hid] = (sid, choices, ops, final + (" | post: " + " ; ".join(posts) if posts else ""))
                s = allsc[sid]
                for pi, order in enumerate(linearizations(ops)):
                    cid = "%s/p%d" % (hid, pi)
                    lines = ["case %s %d 1 0 1 %d %d %d %d %d %d %s" % (cid, s["kind"], s["cap"], s["ttl"], s["tick"], s["rnum"], s["rk"],
                                                                       len(s["universe"]), " ".join(map(str, s["universe"])))]
                    exp = []
                    lines += s["pre"]
                    exp += None if False else ["*"] * len(s["pre"])
                    for oi in order:
                        t, j, inv, ret, r = ops[oi]
                        lines.append("op %d %s" % (s["now"], s["progs"][t][j]))
                        exp.append(r)
                    last_now = s["now"]
                    for pj, pl in enumerate(s.get("post", [])):
                        lines.append(pl)
                        exp.append(posts[pj] if pj < len(posts) else "?")
                        last_now = int(pl.split()[1])
                    lines.append("probe %d" % last_now)
                    exp.append(final_to_probe(final, s["cap"], s["kind"]))
                    lines.append("end")
                    cases.append((cid, "\n".join(lines) + "\n", exp))
                    hist_of_case[cid] = hid
    # run the extracted model on every candidate linearization: expected outputs = what the threads observed
    # ("*" = do not care: prefix results) — the driver compares line by line, so first compute the prefix outputs with the model itself
    casefile = os.path.join(d, "lin.cases")
    outfile = os.path.join(d, "lin.out")
    ok_hist = set()
    with open(casefile, "w") as f, open(outfile, "w") as g:
        for cid, text, exp in cases:
            f.write(text)
            g.write("case %s\n" % cid)
            for x in exp:
                g.write(x + "\n")          # "*" = the driver accepts whatever the model says (prefix calls)
            g.write("end live0\n")
    rc, o, e = check.sh([os.path.join(check.BUILD, "bin", "driver"), casefile, outfile], timeout=1800)
    for l in o.split("\n"):
        if l.startswith("OK "):
            ok_hist.add(hist_of_case[l.split()[1]])
    bad = [h for h in histories if h not in ok_hist]
    res["cases"] += total_runs
    res["extra"]["schedules"] = dict(scenarios=len(allsc), interleavings_executed=total_runs, distinct_histories=distinct,
                                     candidate_linearizations_checked=len(cases), non_linearizable=len(bad),
                                     granularity="start of each call + just before every cappuccino::mutex::lock()")
    for h in histories:
        res["distinct"].add(h)
        if len({t for (t, _, _, _, _) in histories[h][2]}) > 1:
            res["nontrivial"].add(h)
    if histories and len(res["samples"]) < 4:
        h = sorted(histories)[0]
        sid, choices, ops, final = histories[h]
        res["samples"].append(dict(scenario=allsc[sid], schedule=choices, observed=[dict(thread=t, call=allsc[sid]["progs"][t][j], inv=i, ret=r, result=x) for (t, j, i, r, x) in ops], final=final))
    for h in bad[:3]:
        sid, choices, ops, final = histories[h]
        res["conc_violations"].append(dict(property=prop, kind=KINDS[allsc[sid]["kind"]],
                                           what="a history of real threads has no linearization: no order of the calls consistent with program and real-time order reproduces the observed results under the sequential model",
                                           scenario=allsc[sid], schedule=" ".join(choices),
                                           observed=[dict(thread=t, call=allsc[sid]["progs"][t][j], inv=i, ret=r, result=x) for (t, j, i, r, x) in ops],
                                           final=final, how_to_replay="build/bin/sched_<kind> <scenario file> (harness/sched.cpp), schedule = thread id per step"))
