#!/usr/bin/env python3
"""cpp2coq.py — translator: the CURRENT C++ text of a container's member functions -> Gallina.

  cpp2coq.py <inc dir> <class> <out.v>        (class in SCHEMA)

clang++ -ast-dump=json of an explicit instantiation of the class template (key = KeyT,
value = ValT, thread_safe::yes) gives fully resolved member-function bodies.  They are
normalised to a small core form (implicit casts, temporaries, copy constructions dropped) and
every statement is mapped, one by one, to a step in the undefined-behaviour monad of
coq/RrLit.v over the formal STL of the literal machines (std::list with node identities,
index with erase(iterator)/emplace-with-reserve, vector with bounds), threading the state
record.  The output defines  g_<method>  for every translated method; coq/bridge/<Class>Bridge.v
proves each of them equal to the corresponding function of the hand-written literal machine,
so the C08 theorems (and through the refinement to L2 all sequential theorems) are about what
the source says NOW.  Anything the table below does not know is an error (no silent default):
the tie for that class is then reported as broken.

The rule table (C++ construct -> primitive) is the trusted part of this translator; see
DESIGN.md §3g.
"""
import json, os, subprocess, sys, tempfile, re
sys.path.insert(0, os.path.dirname(os.path.abspath(__file__)))

PRELUDE = r'''
#include "cappuccino/cappuccino.hpp"
#include <vector>
#include <utility>
struct KeyT { unsigned long v; bool operator==(const KeyT& o) const { return v == o.v; } bool operator<(const KeyT& o) const { return v < o.v; } };
namespace std { template<> struct hash<KeyT> { size_t operator()(const KeyT& k) const noexcept { return k.v; } }; }
struct ValT { int v; };
'''


INST = '''template class cappuccino::%(cls)s<KeyT, ValT, cappuccino::thread_safe::yes>;
using C = cappuccino::%(cls)s<KeyT, ValT, cappuccino::thread_safe::yes>;
void use_all(C& c) {
  std::vector<std::pair<KeyT, ValT>> kv; c.insert_range(std::move(kv), cappuccino::allow::insert_or_update);
  std::vector<KeyT> ks; c.erase_range(ks); c.find_range(ks, cappuccino::peek::no);
  std::vector<std::pair<KeyT, std::optional<ValT>>> fill; c.find_range_fill(fill, cappuccino::peek::no);
}'''


# ------------------------------------------------------------------ clang -> core form
def clang_objs(inc, cls, inst):
    with tempfile.TemporaryDirectory() as d:
        tu = os.path.join(d, "tu.cpp")
        open(tu, "w").write(PRELUDE + inst + "\n")
        r = subprocess.run(["clang++", "-std=c++17", "-fsyntax-only", "-I" + inc, "-Xclang", "-ast-dump=json",
                            "-Xclang", "-ast-dump-filter=cappuccino::" + cls, tu], capture_output=True, text=True)
        if r.returncode != 0:
            raise RuntimeError("clang failed for %s: %s" % (cls, r.stderr[:2000]))
        s = r.stdout
    dec = json.JSONDecoder()
    i, objs = 0, []
    while True:
        j = s.find("{", i)
        if j < 0:
            break
        o, i = dec.raw_decode(s, j)
        objs.append(o)
    return objs


SKIP = {"ImplicitCastExpr", "MaterializeTemporaryExpr", "ExprWithCleanups", "CXXBindTemporaryExpr", "ParenExpr",
        "ConstantExpr", "CXXFunctionalCastExpr", "CXXStaticCastExpr"}


def ty(n):
    return n.get("type", {}).get("qualType", "")


def core(n):
    """normalised node: dict k (kind), t (type), a (children), n (name / operator)"""
    k = n.get("kind")
    inner = [c for c in n.get("inner", []) if c.get("kind") != "CXXDefaultArgExpr"]
    def _under(x):      # the operand below implicit conversions
        while x.get("kind") in SKIP and len(x.get("inner", [])) == 1:
            x = x["inner"][0]
        return x
    if k in ("CXXStaticCastExpr", "CXXFunctionalCastExpr") and len(inner) == 1 and ty(_under(inner[0])) in ("float", "double") \
            and ty(n) not in ("float", "double"):
        # an explicit float -> integer conversion is a computation (truncation), whatever its spelling
        return dict(k="?CStyleCastExpr", t=ty(n), n=None, a=[core(inner[0])])
    if k in SKIP and len(inner) == 1:
        return core(inner[0])
    if k == "CXXConstructExpr" and len(inner) == 1:
        c = core(inner[0])
        # a converting construction (iterator -> const_iterator, T -> optional<T>) keeps the operand
        return dict(k="conv", t=ty(n), a=[c]) if ty(n).replace("const ", "").startswith("std::optional") else c
    t = ty(n)
    mk = lambda kind, name=None, kids=None: dict(k=kind, t=t, n=name, a=[core(c) for c in (inner if kids is None else kids)])
    if k == "CXXConstructExpr":
        return mk("construct")
    if k == "CompoundStmt":
        return mk("block")
    if k == "DeclStmt":
        return mk("decls")
    if k == "VarDecl":
        return mk("var", n["name"])
    if k == "DecompositionDecl":
        # structured binding  auto& [a, b, ...] = init;  n = the names, a = [init]
        return dict(k="sbind", t=t, n=[b["name"] for b in inner if b.get("kind") == "BindingDecl"],
                    a=[core(b) for b in inner if b.get("kind") != "BindingDecl"])
    if k == "IfStmt":
        return mk("if")
    if k == "CXXForRangeStmt":
        # children: init, range decl, begin decl, end decl, cond, inc, loop variable decl, body
        rng = core(inner[1])["a"][0]["a"][0]
        lv = inner[6]["inner"][0]
        if lv.get("kind") == "DecompositionDecl":
            names = [b["name"] for b in lv["inner"] if b.get("kind") == "BindingDecl"]
        else:
            names = [lv["name"]]
        return dict(k="forrange", t=ty(lv), n=names, a=[rng, core(inner[7])])
    if k == "WhileStmt":
        return mk("while")
    if k == "ForStmt":
        return dict(k="for", t="", n=None, a=[core(c) if c else dict(k="?None", t="", n=None, a=[]) for c in n.get("inner", [])])
    if k == "BreakStmt":
        return mk("break")
    if k == "ReturnStmt":
        return mk("return")
    if k == "MemberExpr":
        if inner and inner[0].get("kind") == "CXXThisExpr":
            return dict(k="field", t=t, n=n["name"], a=[])
        return mk("member", n["name"])
    if k == "DeclRefExpr":
        return dict(k="ref", t=t, n=n["referencedDecl"].get("name"), a=[])
    if k == "CXXOperatorCallExpr":
        f = core(inner[0])
        return mk("op", f["n"], inner[1:])
    if k == "CXXMemberCallExpr":
        f = core(inner[0])
        if f["k"] == "field":      # implicit this->method(...)
            return dict(k="mcall", t=t, n=f["n"], a=[dict(k="this", t="", n=None, a=[])] + [core(c) for c in inner[1:]])
        return dict(k="mcall", t=t, n=f["n"], a=f["a"] + [core(c) for c in inner[1:]])
    if k == "CallExpr":
        f = core(inner[0])
        return mk("call", f.get("n"), inner[1:])
    if k in ("BinaryOperator", "CompoundAssignOperator"):
        return mk("bin", n["opcode"])
    if k == "UnaryOperator":
        return mk("un", ("post" if n.get("isPostfix") else "pre") + n["opcode"])
    if k == "IntegerLiteral":
        return dict(k="int", t=t, n=n["value"], a=[])
    if k == "CXXBoolLiteralExpr":
        return dict(k="bool", t=t, n=n["value"], a=[])
    if k == "CXXThisExpr":
        return dict(k="this", t=t, n=None, a=[])
    if k == "InitListExpr":
        if len(inner) == 1 and ty(inner[0]).replace("const ", "") == t.replace("const ", ""):
            return core(inner[0])      # T{x} with x a T: that value
        # anything else (a structure initialised member by member, even when it has a single member) stays a list
        return mk("init")
    if k == "LambdaExpr":
        # a lambda expression is kept as a closed description (no children: what it says is not executed where it stands)
        return dict(k="lambda", t=t, n=None, a=[], lam=lambda_info(n))
    return mk("?" + str(k), n.get("name"))


LOCAL_DECLS = ("VarDecl", "ParmVarDecl", "BindingDecl")


def lambda_info(n):
    """the closure a LambdaExpr creates: caps = [(name | 'this', by reference?)] in capture order, ops = the bodies of
    operator() (one; for a generic lambda one per instantiation): params [(name, type)], rt, body (core), free = names of
    variables the body mentions that are neither its own nor captured by a simple capture (globals -- or an init-capture,
    which has no rule: the translation refuses a lambda whose free names are locals of the enclosing function).
    bad = why the closure has no meaning here, or None."""
    inner = n.get("inner", [])
    info = dict(caps=[], ops=[], bad=None)
    if len(inner) < 2 or inner[0].get("kind") != "CXXRecordDecl" or inner[-1].get("kind") != "CompoundStmt":
        info["bad"] = "shape of the lambda expression"
        return info
    rec, inits = inner[0], inner[1:-1]
    fields = [c for c in rec.get("inner", []) if c.get("kind") == "FieldDecl"]
    if len(fields) != len(inits):
        info["bad"] = "%d captures with %d initialisers" % (len(fields), len(inits))
        return info
    capids = set()
    for f, i in zip(fields, inits):
        while (i.get("kind") in SKIP or i.get("kind") == "CXXConstructExpr") and len(i.get("inner", [])) == 1:
            i = i["inner"][0]      # the copy a by-value capture makes
        ft = ty(f).strip()
        if i.get("kind") == "CXXThisExpr" and ft.endswith("*"):
            info["caps"].append(("this", True))
        elif i.get("kind") == "DeclRefExpr" and i.get("referencedDecl", {}).get("kind") in ("VarDecl", "ParmVarDecl"):
            info["caps"].append((i["referencedDecl"].get("name"), ft.endswith("&")))
            capids.add(i["referencedDecl"].get("id"))
        else:
            info["bad"] = "a capture that is neither this nor a variable (an init-capture, *this, ...)"
            return info
    ops = []
    for c in rec.get("inner", []):
        if c.get("kind") == "CXXMethodDecl" and c.get("name") == "operator()":
            ops.append(c)
        elif c.get("kind") == "FunctionTemplateDecl" and c.get("name") == "operator()":
            # generic lambda: the instantiations (the pattern itself is dependent code)
            ops += [m for m in c.get("inner", []) if m.get("kind") == "CXXMethodDecl"
                    and any(x.get("kind") == "TemplateArgument" for x in m.get("inner", []))]
    for m in ops:
        body = [c for c in m.get("inner", []) if c.get("kind") == "CompoundStmt"]
        if len(body) != 1:
            info["bad"] = "operator() without a body"
            return info
        mt = ty(m)
        if not re.search(r"\)\s*const\b", mt):
            info["bad"] = "a mutable lambda"
            return info
        rt = mt[mt.rfind("->") + 2:].strip() if "->" in mt else mt.split("(")[0].strip()
        own, refs = set(), []

        def scan(o):
            if o.get("kind") in LOCAL_DECLS:
                own.add(o.get("id"))
            if o.get("kind") == "DeclRefExpr" and o.get("referencedDecl", {}).get("kind") in LOCAL_DECLS:
                refs.append((o["referencedDecl"].get("name"), o["referencedDecl"].get("id")))
            for x in o.get("inner", []):
                scan(x)
        scan(m)
        info["ops"].append(dict(params=[(c.get("name"), ty(c)) for c in m["inner"] if c.get("kind") == "ParmVarDecl"], rt=rt,
                                body=core(body[0]), free=sorted({nm for nm, i in refs if i not in own and i not in capids})))
    return info


def show(c):
    s = c["k"] + ((" " + str(c["n"])) if c.get("n") is not None else "")
    if c["a"]:
        s += " " + " ".join(show(x) for x in c["a"])
    return "(" + s + ")"


def class_methods(objs):
    """name -> (params [(name,type)], return type, core body) of the instantiated class"""
    out = {}

    def walk(o):
        for m in o.get("inner", []):
            if m.get("kind") == "CXXMethodDecl" and any(c.get("kind") == "CompoundStmt" for c in m.get("inner", [])):
                ps = [(c["name"], ty(c)) for c in m["inner"] if c.get("kind") == "ParmVarDecl"]
                body = [c for c in m["inner"] if c.get("kind") == "CompoundStmt"][0]
                rt = ty(m)
                rt = rt[rt.rfind("->") + 2:].strip() if "->" in rt else rt.split("(")[0].strip()
                out.setdefault(m["name"], []).append((ps, rt, core(body)))
            elif m.get("kind") == "CXXConstructorDecl" and any(c.get("kind") == "CompoundStmt" for c in m.get("inner", [])) \
                    and not m.get("isImplicit"):
                ps = [(c["name"], ty(c)) for c in m["inner"] if c.get("kind") == "ParmVarDecl"]
                inits = [(c.get("anyInit", {}).get("name"), core(c["inner"][0]) if c.get("inner") else None)
                         for c in m["inner"] if c.get("kind") == "CXXCtorInitializer"]
                body = [c for c in m["inner"] if c.get("kind") == "CompoundStmt"][0]
                out.setdefault("__ctor__", []).append((ps, inits, core(body)))
            elif m.get("kind") == "FieldDecl":
                # in-class default member initialiser (size_t m_used_size{0};)
                ini = [c for c in m.get("inner", []) if "Expr" in c.get("kind", "") or "Literal" in c.get("kind", "")]
                out.setdefault("__fieldinit__", {})[m["name"]] = core(ini[0]) if ini else None
            elif m.get("kind") == "FunctionTemplateDecl":
                walk(m)
    for o in objs:
        if o.get("kind") == "ClassTemplateSpecializationDecl":
            walk(o)
    return out


# ------------------------------------------------------------------ schemas
class Unsupported(Exception):
    pass


SCHEMA = {
    "lru_cache": dict(
        module="GenLru", requires=["Capp.Base", "Capp.Rr", "Capp.ListCache", "Capp.RrLit", "Capp.LruLit"],
        state="lrul", state_args="K V", elem="lelem", elem_args="K V", cap="ll_cap",
        fields=[("ll_cap", None, "cap"), ("ll_elems", "m_elements", "vec"), ("ll_index", "m_keyed_elements", "umap"),
                ("ll_list", "m_lru_list", "list"), ("ll_end", "m_lru_end", "liter"), ("ll_used", "m_used_size", "nat")],
        elem_fields=[("le_keyed", "m_keyed_position", "mit"), ("le_pos", "m_lru_position", "optliter"), ("le_val", "m_value", "optval")],
        ctor=True, elem_default="{| le_keyed := None; le_pos := None; le_val := None |}",
        methods=["do_access", "do_erase", "do_prune", "do_insert", "do_update", "do_insert_update", "do_find",
                 "insert", "insert_range", "erase", "erase_range", "find", "find_range", "find_range_fill",
                 "empty", "size", "capacity"],
    ),
}
SCHEMA["mru_cache"] = dict(SCHEMA["lru_cache"], module="GenMru",
                           fields=[("ll_cap", None, "cap"), ("ll_elems", "m_elements", "vec"), ("ll_index", "m_keyed_elements", "umap"),
                                   ("ll_list", "m_mru_list", "list"), ("ll_end", "m_mru_end", "liter"), ("ll_used", "m_used_size", "nat")],
                           elem_fields=[("le_keyed", "m_keyed_position", "mit"), ("le_pos", "m_mru_position", "optliter"), ("le_val", "m_value", "optval")])


# ------------------------------------------------------------------ core form -> Gallina
class Tr:
    def __init__(self, cls, methods):
        self.cls = cls
        self.sc = SCHEMA[cls]
        self.methods = {}
        self.ctors = methods.get("__ctor__", [])
        self.fieldinit = methods.get("__fieldinit__", {})
        for name, bodies in methods.items():
            if name.startswith("__"):
                continue
            if len(bodies) == 1:
                self.methods[name] = bodies
            else:
                for b in bodies:
                    self.methods["%s/%d" % (name, len(b[0]))] = [b]
        self.f_by_cpp = {cpp: (coq, kind) for coq, cpp, kind in self.sc["fields"] if cpp}
        self.ef_by_cpp = {cpp: (coq, kind) for coq, cpp, kind in self.sc["elem_fields"]}
        self.kind_field = {}
        for coq, cpp, kind in self.sc["fields"]:
            self.kind_field.setdefault(kind, coq)
        self.n = 0
        self.inlining = []
        self.sigs = {}      # method -> (param kinds, ret kind)
        self.calls = {}
        self.lams = {}      # the named lambdas of the method being translated: name -> closure (None: name used twice)

    # ---- helpers
    def fresh(self, base="t"):
        self.n += 1
        return "%s%d" % (base, self.n)

    def fld(self, kind, s):
        return "(%s %s)" % (self.kind_field[kind], s)

    # ---- extension points for the per-family modules (cpp2coq_<family>.py): return None when not handled
    def akind_ext(self, t, param):
        return None

    def E_ext(self, c, st, env):
        return None

    def X_ext(self, c, st, env):
        return None

    def default_init(self, kd, v):
        """the term a default-initialised local of kind kd starts with (None: not supported)"""
        return None

    def sbind(self, v, st, env):
        """structured binding declaration: bind lines; enters the names into env.
        Base rule:  auto& [k, i] = *it  for an iterator of the index: the node's key and mapped slot."""
        names, init = list(v["n"]), v["a"]
        if len(init) == 1 and len(names) == 2 and init[0]["k"] == "op" and init[0]["n"] == "operator*" and "umap" in self.kind_field:
            b, t, kd = self.E(init[0]["a"][0], st, env)
            if kd == "mit":
                x, a1, a2 = self.fresh("pr"), self.fresh("v_" + names[0] + "_"), self.fresh("v_" + names[1] + "_")
                env[names[0]] = (a1, "key")
                env[names[1]] = (a2, "nat")
                return b + ["do %s <- mit_deref %s %s;" % (x, self.fld("umap", st[0]), t), "let '(%s, %s) := %s in" % (a1, a2, x)]
        if len(init) == 1 and init[0]["k"] == "ref" and init[0]["n"] in env and env[init[0]["n"]][1] in self.ITEM_PARTS \
                and len(self.ITEM_PARTS[env[init[0]["n"]][1]]) == len(names):
            # auto& [a, b] = x  for the item x of  for (auto& x : range): the two components of the pair.  For a range that is
            # filled the names must alias the item (auto&, x itself bound by auto&): what is assigned to them is the result
            x, kd = env[init[0]["n"]]
            if kd == "fillitem":
                if not v["t"].strip().endswith("&"):
                    raise Unsupported("structured binding by value of an item of the range to fill")
                env["__fillalias"] = (tuple(names), "names")
            xs = [self.fresh("v_" + n + "_") for n in names]
            for n, a, p in zip(names, xs, self.ITEM_PARTS[kd]):
                env[n] = (a, p)
            return ["let '(%s) := %s in" % (", ".join(xs), x)]
        raise Unsupported("structured binding %s" % show(v)[:200])

    def akind(self, t, param=False):
        """abstract kind of a C++ type"""
        t = t.replace("const ", "").strip()
        while t.endswith(" const"):
            t = t[:-6].strip()
        r = self.akind_ext(t, param)
        if r is not None:
            return r
        if "lock_guard" in t:
            return "guard"
        if re.match(r"^std::scoped_lock<[^,]*>$", t):
            return "guard"         # std::scoped_lock on exactly ONE mutex is std::lock_guard ([thread.lock.scoped]); several: no rule
        if t.endswith("::element &") or t.endswith("::element"):
            return "eref"
        if (t.startswith("std::pair<std::__detail::_Node_iterator<") or t.startswith("std::pair<iterator,")) and t.endswith(", bool>"):
            return "emplaced"      # what unordered_map::emplace returns; only .first is given a meaning
        if t.endswith("::element *"):
            return "eptr"          # pointer to an element: None = nullptr, Some i = &m_elements[i] / the node i
        if t.endswith("::value_type &") and "::element>" in t and "__alloc_traits<" in t:
            return "eref"          # auto& e = m_elements[i]: the vector's reference type, spelled through its allocator traits
        if t in ("size_t", "unsigned long", "std::size_t") or "size_type" in t:
            return "nat"
        if t == "bool":
            return "bool"
        if t.startswith("KeyT"):
            return "key"
        if t.startswith("ValT"):
            return "val"
        if t.startswith("std::vector<std::pair<KeyT, ValT>>"):
            return "kvrange"
        if t.startswith("std::vector<KeyT>"):
            return "krange"
        if t.startswith("std::vector<std::pair<KeyT, std::optional<ValT>>>"):
            return "fillrange" if param else "outvec"
        if t.startswith("std::optional<ValT>"):
            return "optval"
        if "allow" in t:
            return "allow"
        if "peek" in t:
            return "peek"
        if "_List_iterator" in t or "_List_const_iterator" in t or t.lower().endswith("ru_iterator") \
                or ("std::list<" in t and "iterator" in t):
            return "liter"
        if "_Node_iterator" in t or "_Node_const_iterator" in t or "keyed_iterator" in t or ("unordered_map<" in t and "iterator" in t):
            return "mit"
        if t == "void":
            return "unit"
        raise Unsupported("type %r" % t)

    # element kinds of the input ranges a range-for may run over, and the in-out ranges whose final
    # contents are the observable result of a void method (kind of the parameter -> kind of the result)
    RANGE_ELEMS = {"kvrange": ["key", "val"], "krange": ["key"], "fillrange": ["key", "optval"]}
    FILL_OUT = {"fillrange": "outvec"}
    # for (auto& x : range) naming the whole item (a pair): the kind of x, and of its components
    RANGE_ITEM = {"kvrange": "kvitem", "fillrange": "fillitem"}
    ITEM_PARTS = {"kvitem": ["key", "val"], "fillitem": ["key", "optval"]}

    COQTY = {"nat": "nat", "bool": "bool", "key": "K", "val": "V", "optval": "option V", "allow": "allow", "peek": "bool",
             "liter": "iter", "mit": "option K", "eref": "nat", "unit": "unit", "kvrange": "list (K * V)", "krange": "list K",
             "fillrange": "list (K * option V)", "outvec": "list (K * option V)", "time": "Z", "dur": "Z", "durms": "Z", "eptr": "option nat", "emplaced": "option K"}

    # ---- expressions: returns (list of bind lines, term, kind); may update the state name
    def E(self, c, st, env):
        k = c["k"]
        if k == "member" and c["a"] and c["a"][0]["k"] == "ref" and c["a"][0]["n"] in env and env[c["a"][0]["n"]][1] == "eptr":
            # p->m_x : dereferencing a null pointer is undefined
            x = self.fresh("pe")
            env2 = dict(env)
            env2["__deref"] = (x, "eref")
            bb, t, kd = self.E(dict(c, a=[dict(k="ref", t="", n="__deref", a=[])]), st, env2)
            return ["do %s <- ptr_deref %s;" % (x, env[c["a"][0]["n"]][0])] + bb, t, kd
        r = self.E_ext(c, st, env)
        if r is not None:
            return r
        if k in ("bin",) and c["n"] in ("&&", "||"):
            # short-circuit: the right operand is evaluated (and may be undefined) only when needed
            b1, t1, k1 = self.E(c["a"][0], st, env)
            st2 = [st[0]]
            b2, t2, k2 = self.E(c["a"][1], st2, env)
            if (k1, k2) != ("bool", "bool") or st2[0] != st[0]:
                raise Unsupported("operands of %s" % c["n"])
            x = self.fresh("c")
            inner = "\n".join(b2 + ["Ok %s" % t2])
            if c["n"] == "&&":
                return b1 + ["do %s <- (if %s then (" % (x, t1), inner, ") else Ok false);"], x, "bool"
            return b1 + ["do %s <- (if %s then Ok true else (" % (x, t1), inner, "));"], x, "bool"
        if k == "?CXXNullPtrLiteralExpr":
            return [], "None", "eptr"
        if k == "un" and c["n"] == "pre&" and len(c["a"]) == 1:
            b, t, kd = self.E(c["a"][0], st, env)
            if kd == "eref":
                return b, "(Some %s)" % t, "eptr"
            raise Unsupported("address of %s" % kd)
        if k == "bin" and c["n"] in ("==", "!=") and len(c["a"]) == 2:
            ks = [self.E(x, [st[0]], env) for x in c["a"]]
            if [x[2] for x in ks] == ["eptr", "eptr"] and "None" in (ks[0][1], ks[1][1]):
                other = ks[0] if ks[1][1] == "None" else ks[1]
                tm = "(opt_has_value %s)" % other[1]
                return other[0], tm if c["n"] == "!=" else "(negb %s)" % tm, "bool"
        if k == "?ConditionalOperator" and len(c["a"]) == 3:
            b0, t0, k0 = self.E(c["a"][0], st, env)
            st1, st2 = [st[0]], [st[0]]
            b1, t1, k1 = self.E(c["a"][1], st1, env)
            b2, t2, k2 = self.E(c["a"][2], st2, env)
            if k0 != "bool" or k1 != k2 or st1[0] != st[0] or st2[0] != st[0]:
                raise Unsupported("conditional expression %s" % show(c)[:160])
            if b1 or b2:
                # an arm that may be undefined (a checked read) is evaluated only when it is the selected one
                x = self.fresh("q")
                return b0 + ["do %s <- (if %s then (" % (x, t0), "\n".join(b1 + ["Ok %s" % t1]), ") else (",
                             "\n".join(b2 + ["Ok %s" % t2]), "));"], x, k1
            return b0, "(if %s then %s else %s)" % (t0, t1, t2), k1
        if k == "un" and c["n"] == "pre!":
            b, t, kd = self.E(c["a"][0], st, env)
            if kd != "bool":
                raise Unsupported("! on %s" % kd)
            return b, "(negb %s)" % t, "bool"
        if k == "int":
            return [], str(c["n"]), "nat"
        if k == "bool":
            return [], "true" if c["n"] else "false", "bool"
        if k == "ref":
            if c["n"] == "no" and "peek" in c["t"]:
                return [], "false", "peek"
            if c["n"] == "yes" and "peek" in c["t"]:
                return [], "true", "peek"
            if c["n"] in env:
                if env[c["n"]][1] == "lambda":
                    raise Unsupported("the lambda %s used other than by calling it / handing it to std::for_each" % c["n"])
                return [], env[c["n"]][0], env[c["n"]][1]
            raise Unsupported("reference to %s" % c["n"])
        if k == "field":
            coq, kind = self.f_by_cpp[c["n"]]
            if kind in ("nat", "liter"):
                return [], "(%s %s)" % (coq, st[0]), kind
            return [], "(%s %s)" % (coq, st[0]), kind          # container object
        if k == "call":
            f = c["n"]
            if f == "move" or f == "forward":
                return self.E(c["a"][0], st, env)
            if f == "now" and not c["a"] and self.sc.get("clock"):
                return [], "clk", "time"
            if f == "update_allowed":
                b, t, _ = self.E(c["a"][0], st, env)
                return b, "(a_upd %s)" % t, "bool"
            if f == "insert_allowed":
                b, t, _ = self.E(c["a"][0], st, env)
                return b, "(a_ins %s)" % t, "bool"
            if f in ("begin", "end") and len(c["a"]) == 1:
                b, t, kd = self.E(c["a"][0], st, env)
                if kd == "list":        # std::begin(l) is l.begin()
                    return b, ("(l_begin %s)" % t) if f == "begin" else "End", "liter"
                raise Unsupported("std::%s of %s" % (f, kd))
            if f in ("prev", "next"):
                b, t, kd = self.E(c["a"][0], st, env)
                if kd != "liter" or len(c["a"]) != 1:
                    raise Unsupported("std::%s on %s" % (f, kd))
                x = self.fresh("it")
                return b + ["do %s <- l_%s %s %s;" % (x, f, self.fld("list", st[0]), t)], x, "liter"
            raise Unsupported("call of %s" % f)
        if k == "conv":
            a0 = c["a"][0]
            if a0["k"] == "ref" and a0["n"] == "nullopt" and "nullopt_t" in a0["t"] \
                    and c["t"].replace("const ", "").startswith("std::optional<ValT>"):
                return [], "None", "optval"       # std::nullopt as a std::optional<value_type>: disengaged
            b, t, kd = self.E(c["a"][0], st, env)
            if kd == "optval":
                return b, t, "optval"
            if kd == "val":
                return b, "(Some %s)" % t, "optval"
            raise Unsupported("conversion of %s to %s" % (kd, c["t"]))
        if k == "construct":
            if "optional" in c["t"] and not c["a"]:
                return [], "None", "optval"
            raise Unsupported("construction of %s" % c["t"])
        if k == "bin":
            op = c["n"]
            if op in (">=", ">", "<", "<=", "==", "!="):
                b1, t1, k1 = self.E(c["a"][0], st, env)
                b2, t2, k2 = self.E(c["a"][1], st, env)
                if k1 == "nat" and k2 == "nat":
                    tm = {">=": "(%s <=? %s)" % (t2, t1), ">": "(%s <? %s)" % (t2, t1), "<": "(%s <? %s)" % (t1, t2),
                          "<=": "(%s <=? %s)" % (t1, t2), "==": "(%s =? %s)" % (t1, t2), "!=": "(negb (%s =? %s))" % (t1, t2)}[op]
                    return b1 + b2, tm, "bool"
                if k1 == "peek" and k2 == "peek" and op in ("==", "!="):
                    # the enum has exactly two values (checked by gen_check.shared_headers): `!= yes` is `== no`;
                    # a literal goes to the right (== and != are symmetric)
                    if t1 in ("true", "false") and t2 not in ("true", "false"):
                        t1, t2 = t2, t1
                    if op == "!=" and t2 in ("true", "false"):
                        op, t2 = "==", ("false" if t2 == "true" else "true")
                    tm = "(Bool.eqb %s %s)" % (t1, t2)
                    return b1 + b2, tm if op == "==" else "(negb %s)" % tm, "bool"
                raise Unsupported("comparison %s on %s, %s" % (op, k1, k2))
            raise Unsupported("binary operator %s as a value" % op)
        if k == "op":
            op = c["n"]
            if op in ("operator!=", "operator=="):
                b1, t1, k1 = self.E(c["a"][0], st, env)
                b2, t2, k2 = self.E(c["a"][1], st, env)
                # == and != are symmetric: end() goes to the right
                if (k1, k2) == ("liter", "liter") and t1 == "End" and t2 != "End":
                    t1, t2, b1, b2 = t2, t1, b2, b1
                if (k1, k2) == ("mit", "mit") and t1 == "None" and t2 != "None":
                    t1, t2, b1, b2 = t2, t1, b2, b1
                if k1 == "liter" and k2 == "liter":
                    tm = "(iter_eqb %s %s)" % (t1, t2)
                elif k1 == "mit" and k2 == "mit":
                    tm = "(mit_eqb %s %s)" % (t1, t2)
                else:
                    raise Unsupported("%s on %s, %s" % (op, k1, k2))
                return b1 + b2, tm if op == "operator==" else "(negb %s)" % tm, "bool"
            if op == "operator*":
                b, t, kd = self.E(c["a"][0], st, env)
                if kd == "liter":
                    x = self.fresh("d")
                    return b + ["do %s <- l_deref %s %s;" % (x, self.fld("list", st[0]), t)], x, "nat"
                raise Unsupported("operator* on %s" % kd)
            if op == "operator[]":
                b0, t0, k0 = self.E(c["a"][0], st, env)
                b1, t1, k1 = self.E(c["a"][1], st, env)
                if k0 == "vec" and k1 == "nat":
                    x = self.fresh("r")
                    # binding a reference to m_elements[i]: i must be in range
                    return b0 + b1 + ["do %s <- vref %s %s;" % (x, t0, t1)], x, "eref"
                raise Unsupported("operator[] on %s" % k0)
            if op == "operator->":
                b, t, kd = self.E(c["a"][0], st, env)
                if kd == "mit":
                    return b, t, "mit->"
                raise Unsupported("operator-> on %s" % kd)
            if op == "operator()" and c["a"] and self.lambda_of(c["a"][0], env) is not None:
                # f(args), f a local lambda: its body, here, with the parameters bound to the arguments
                return self.call_lambda(c, st, env, writes=False)
            raise Unsupported("operator %s as a value" % op)
        if k == "member":
            b, t, kd = self.E(c["a"][0], st, env)
            if kd == "mit->" and c["n"] == "second":
                x = self.fresh("sec")
                return b + ["do %s <- mit_second %s %s;" % (x, self.fld("umap", st[0]), t)], x, "nat"
            if kd == "eref":
                coq, fk = self.ef_by_cpp[c["n"]]
                x = self.fresh("e")
                b = b + ["do %s <- vget \"%s\" %s %s;" % (x, self.sc.get("elem_label", "m_elements[]"), self.fld("vec", st[0]), t)]
                if fk == "optliter":
                    y = self.fresh("p")
                    return b + ["do %s <- %s %s;" % (y, self.sc.get("getpos", "get_pos"), x)], y, "liter"
                if fk == "mit":
                    return b, "(%s %s)" % (coq, x), "mit"
                if fk == "optval":
                    return b, "(%s %s)" % (coq, x), "optval"
                if fk == "nat":
                    return b, "(%s %s)" % (coq, x), "nat"
            if kd == "emplaced" and c["n"] == "first":
                return b, t, "mit"
            raise Unsupported("member %s of %s" % (c["n"], kd))
        if k == "mcall":
            obj = c["a"][0]
            m = c["n"]
            if obj["k"] == "this":
                return self.call_method(m, c["a"][1:], st, env)
            b0, t0, k0 = self.E(obj, st, env)
            args = c["a"][1:]
            if k0 == "vec" and m == "size" and not args:
                return b0, "(List.length %s)" % t0, "nat"
            if k0 == "list" and m == "begin":
                return b0, "(l_begin %s)" % t0, "liter"
            if k0 == "list" and m == "end":
                return b0, "End", "liter"
            if k0 == "list" and m == "back":
                x = self.fresh("bk")
                return b0 + ["do %s <- l_back %s;" % (x, t0)], x, "nat"
            if k0 == "list" and m == "front" and not args:
                # l.front() is *l.begin()  ([sequence.reqmts]); undefined on an empty list, as that dereference is
                return self.E(dict(k="op", t=c["t"], n="operator*", a=[dict(c, n="begin")]), st, env)
            if k0 == "umap" and m == "find":
                b1, t1, k1 = self.E(args[0], st, env)
                return b0 + b1, "(mit_find %s %s)" % (t0, t1), "mit"
            if k0 == "umap" and m == "end":
                return b0, "None", "mit"
            if k0 == "umap" and m == "emplace":
                b1, t1, k1 = self.E(args[0], st, env)
                b2, t2, k2 = self.E(args[1], st, env)
                if (k1, k2) != ("key", "nat"):
                    raise Unsupported("emplace(%s, %s)" % (k1, k2))
                x = self.fresh("ix")
                ns = self.fresh("s")
                b = b0 + b1 + b2 + ["do %s <- umap_emplace (%s %s) %s %s %s;" % (x, self.sc["cap"], st[0], t0, t1, t2),
                                    "let %s := set_%s %s %s in" % (ns, self.kind_field["umap"], st[0], x)]
                st[0] = ns
                return b, "(Some %s)" % t1, "emplaced"
            raise Unsupported("%s.%s as a value" % (k0, m))
        raise Unsupported("expression %s" % show(c)[:200])

    def call_method(self, m, args, st, env):
        m = self.pick(m, len(args))
        if m in self.sc["methods"]:
            self.calls.setdefault(self.cur, set()).add(m)
        pk, rk = self.sig(m)
        b, ts = [], []
        for a, kd in zip(args, pk):
            bb, t, k = self.E(a, st, env)
            if k != kd and not (k == "val" and kd == "val"):
                raise Unsupported("argument kind %s for parameter kind %s of %s" % (k, kd, m))
            b += bb
            ts.append(t)
        ns = self.fresh("s")
        if rk == "unit":
            b.append("do %s <- %s %s %s;" % (ns, self.callee(m), st[0], " ".join(ts)))
            st[0] = ns
            return b, "tt", "unit"
        r = self.fresh("r")
        x = self.fresh("x")
        b.append("do %s <- %s %s %s;" % (x, self.callee(m), st[0], " ".join(ts)))
        b.append("let '(%s, %s) := %s in" % (ns, r, x))
        st[0] = ns
        return b, r, rk

    def pick(self, m, nargs=None):
        """the method key for a call of m with nargs arguments: m, or m/arity when overloaded"""
        if m in self.methods and len(self.methods[m]) == 1:
            return m
        key = "%s/%d" % (m, nargs)
        if key in self.methods:
            return key
        raise Unsupported("call of %s with %s arguments: no such translated method" % (m, nargs))

    def gname(self, m):
        return "g_" + m.replace("/", "_")

    def params(self, m):
        """[(C++ parameter names, kind)]: one entry per Gallina parameter (a family module may map
        several C++ parameters, e.g. an iterator pair, to one)"""
        ps, _, _ = self.methods[m][0]
        return [((pn,), self.akind(t, True)) for pn, t in ps]

    def bind_param(self, env, names, x, kd):
        env[names[0]] = (x, kd)

    def sig(self, m):
        if m not in self.sigs:
            rt = self.methods[m][0][1]
            pk = [kd for _, kd in self.params(m)]
            rk = self.akind(rt)
            for fk, ok in self.FILL_OUT.items():
                if fk in pk and rk == "unit":
                    rk = ok            # the filled range is the observable result
            self.sigs[m] = (pk, rk)
        return self.sigs[m]

    # ---- writes
    def set_elem_field(self, eref, cppf, val, st):
        coq, fk = self.ef_by_cpp[cppf]
        x, es, ns = self.fresh("e"), self.fresh("es"), self.fresh("s")
        vec = self.fld("vec", st[0])
        lab = self.sc.get("elem_label", "m_elements[]")
        lines = ["do %s <- vget \"%s\" %s %s;" % (x, lab, vec, eref),
                 "do %s <- vset \"%s\" %s %s (set_%s %s %s);" % (es, lab, vec, eref, coq, x, val),
                 "let %s := set_%s %s %s in" % (ns, self.kind_field["vec"], st[0], es)]
        st[0] = ns
        return lines

    # ---- statements (CPS: `rest` is the list of statements that follow).  K = (done, ret):
    #      done(st, env) -> text when control falls off the end; ret(st, env, term, kind) -> text of a return
    def assigned(self, c, acc=None):
        """names of local variables a subtree writes (++/--, =, emplace_back)"""
        acc = set() if acc is None else acc
        tgt = None
        if c["k"] == "un" and c["n"][-2:] in ("++", "--"):
            tgt = c["a"][0]
        elif (c["k"] == "bin" and c["n"] in ("=", "+=", "-=")) or (c["k"] == "op" and c["n"] in ("operator=", "operator++", "operator--")):
            tgt = c["a"][0]
        elif c["k"] == "mcall" and c["n"] in ("emplace_back", "push_back"):
            tgt = c["a"][0]
        if tgt is not None and tgt["k"] == "ref":
            acc.add(tgt["n"])
        # what calling a local lambda writes (f(args), std::for_each(first, last, f)) is written where it is called; what
        # its body writes also counts where it is created (a superset: a name that is not written is carried unchanged)
        fn = c if c["k"] == "lambda" else c["a"][0] if (c["k"] == "op" and c["n"] == "operator()" and c["a"]) else \
            c["a"][-1] if (c["k"] == "call" and c["n"] == "for_each" and c["a"]) else None
        if fn is not None and fn["k"] == "ref":
            fn = dict(k="lambda", lam=self.lams[fn["n"]]) if self.lams.get(fn["n"]) else None
        if fn is not None and fn["k"] == "lambda" and id(fn["lam"]) not in self.lam_seen:
            self.lam_seen.append(id(fn["lam"]))
            for o in fn["lam"]["ops"]:
                self.assigned(o["body"], acc)
            self.lam_seen.pop()
        for x in c["a"]:
            self.assigned(x, acc)
        return acc

    # ---- local lambdas:  auto f = [captures](params) { body };  is remembered, not evaluated (creating the closure has no
    #      effect: a by-value capture copies, a by-reference capture and `this` alias).  What f(args) / std::for_each(.., f)
    #      mean is the body, translated where it is applied, in an environment of the captured names and the parameters only.
    #      That is the meaning of the closure provided that, from its creation to the end of its scope,
    #        - no captured name is declared again (the name still means the captured variable where the body is placed),
    #        - no variable captured BY VALUE is written (the copy still equals the variable),
    #      and the body writes neither a by-value capture (the closure is not mutable) nor a reference parameter.
    lam_seen = []

    def lambda_of(self, c, env):
        """the closure an expression denotes: a lambda expression, or the name of a remembered one (else None)"""
        if c["k"] == "lambda":
            return self.remember_lambda(c, [], env)
        if c["k"] == "ref" and c["n"] in env and env[c["n"]][1] == "lambda":
            return env[c["n"]][0]
        return None

    def declared(self, c, acc):
        """every name a subtree declares"""
        if c["k"] in ("var", "sbind", "forrange"):
            acc.update(c["n"] if isinstance(c["n"], list) else [c["n"]])
        if c["k"] == "lambda":
            for o in c["lam"]["ops"]:
                acc.update(pn for pn, _ in o["params"])
                self.declared(o["body"], acc)
        for x in c["a"]:
            self.declared(x, acc)
        return acc

    def remember_lambda(self, c, rest, env):
        """c: the lambda expression; rest: the statements that follow its creation (its scope ends at the first endscope)"""
        lam = c["lam"]
        if lam["bad"]:
            raise Unsupported("lambda: %s" % lam["bad"])
        if len(lam["ops"]) != 1:
            raise Unsupported("a lambda with %d bodies (a generic lambda applied at several types, or never applied)" % len(lam["ops"]))
        op = lam["ops"][0]
        scope = []
        for x in rest:
            if x["k"] == "endscope":
                break
            scope.append(x)
        again, written = set(), set()
        for x in scope:
            self.declared(x, again)
            self.assigned(x, written)
        names = [n for n, _ in lam["caps"] if n != "this"]
        for n, byref in lam["caps"]:
            if n == "this":
                continue
            if n not in env or env[n][1] == "lambda":
                raise Unsupported("lambda capturing %s, which is not a translated local" % n)
            if not isinstance(env[n][0], str):
                raise Unsupported("lambda capturing the local %s, which is not a value" % n)
            if n in again:
                raise Unsupported("the name %s, captured by a lambda, is declared again in the scope of the lambda" % n)
            if not byref and n in written:
                raise Unsupported("the local %s is captured by value and assigned after the lambda is created" % n)
        for n in op["free"]:
            if n in env or n in again:
                raise Unsupported("lambda mentioning the local %s without a simple capture of it" % n)
        wr = self.assigned(op["body"])
        for (pn, pt) in op["params"]:
            if pn in wr and pt.strip().endswith("&"):
                raise Unsupported("lambda writing its reference parameter %s" % pn)
        return dict(op=op, caps=names, byref={n for n, r in lam["caps"] if r}, t=c["t"])

    def lambda_env(self, lam, env):
        return {n: v for n, v in env.items() if n in lam["caps"] or n.startswith("__")}

    def call_lambda(self, c, st, env, writes):
        """f(args) -> (bind lines, term, kind).  The body is translated in place; it yields the state (if it changes it),
        the captured locals it writes (only when the call is a statement: writes=True) and the value it returns."""
        lam, args = self.lambda_of(c["a"][0], env), c["a"][1:]
        op = lam["op"]
        if len(args) != len(op["params"]):
            raise Unsupported("%d arguments for the %d parameters of a lambda" % (len(args), len(op["params"])))
        b, lenv = [], self.lambda_env(lam, env)
        for (pn, pt), a in zip(op["params"], args):
            bb, t, kd = self.E(a, st, env)
            try:
                pk = self.akind(pt, True)
            except Unsupported:
                pk = kd          # a type the table does not name (a pair of a range): the parameter IS the argument
            if pk != kd:
                raise Unsupported("argument kind %s for parameter kind %s of a lambda" % (kd, pk))
            b += bb
            lenv[pn] = (t, kd)
        rk = self.akind(op["rt"])
        wr = sorted(n for n in self.assigned(op["body"]) if n in lam["caps"] and n in lenv and n not in [pn for pn, _ in op["params"]])
        if [n for n in wr if n not in lam["byref"]]:
            raise Unsupported("lambda writing a local it captured by value")
        if wr and not writes:
            raise Unsupported("a call of a lambda that writes the captured %s, used as a value" % wr)
        s0, n0 = st[0], self.n

        def run(stateful):
            exits = []

            def out(st_, env_, t):
                exits.append(st_[0])
                parts = ([st_[0]] if stateful else []) + [env_[n][0] for n in wr] + ([t] if rk != "unit" else [])
                return "Ok %s" % (("(" + ", ".join(parts) + ")") if len(parts) > 1 else parts[0] if parts else "tt")

            def done(st_, env_):
                if rk != "unit":
                    raise Unsupported("control reaches the end of a non-void lambda")
                return out(st_, env_, None)

            def ret(st_, env_, t, kd):
                if kd == "val" and rk == "optval":
                    t, kd = "(Some %s)" % t, "optval"
                if kd != rk:
                    raise Unsupported("return of kind %s in a lambda returning %s" % (kd, rk))
                return out(st_, env_, t)
            text = self.S([op["body"]], [s0], dict(lenv), (done, ret, None))
            return text, any(e != s0 for e in exits)
        text, changes = run(False)
        if changes:
            self.n = n0
            text, _ = run(True)
        x = self.fresh("x")
        lines = b + ["do %s <- (" % x, text, ");"]
        pat = []
        if changes:
            st[0] = self.fresh("s")
            pat.append(st[0])
        for n in wr:
            env[n] = (self.fresh("v_" + n + "_"), env[n][1])
            pat.append(env[n][0])
        r = "tt"
        if rk != "unit":
            r = self.fresh("r")
            pat.append(r)
        if len(pat) == 1 and pat[0] == r:
            r = x
        elif pat:
            lines.append("let %s := %s in" % (("'(" + ", ".join(pat) + ")") if len(pat) > 1 else pat[0], x))
        return lines, r, rk

    def visible(self, n, c):
        """in the body of a loop made from std::for_each(.., f): only what f captured (and the translator's own entries)"""
        return "visible" not in c or n in c["visible"] or n.startswith("__")

    def for_each_loop(self, c, env):
        """std::for_each(first, last, f) as a statement -> the loop it is ([alg.foreach]: f applied to the result of
        dereferencing every iterator of [first, last), in order; the returned copy of f is dropped).
        Base rule: first, last = begin / end of ONE range r  ->  for (auto&& x : r) { body of f }  with x the parameter."""
        first, last, fn = c["a"]
        lam = self.lambda_of(fn, env)
        if lam is None:
            raise Unsupported("std::for_each with something else than a local lambda")
        op = lam["op"]
        if len(op["params"]) != 1:
            raise Unsupported("std::for_each with a lambda of %d parameters" % len(op["params"]))
        if self.akind(op["rt"]) != "unit":
            raise Unsupported("std::for_each with a lambda that returns a value")
        return self.for_each_over(first, last, op["params"][0], op["body"], set(lam["caps"]), env)

    def for_each_over(self, first, last, param, body, visible, env):
        if first["k"] in ("call", "mcall") and last["k"] == first["k"] and (first["n"], last["n"]) == ("begin", "end") \
                and len(first["a"]) == 1 and len(last["a"]) == 1 and first["a"][0]["k"] == "ref" and show(first["a"][0]) == show(last["a"][0]) \
                and first["a"][0]["n"] in env and env[first["a"][0]["n"]][1] in self.RANGE_ELEMS:
            return dict(k="forrange", t=param[1], n=[param[0]], a=[first["a"][0], body], visible=visible)
        raise Unsupported("std::for_each other than from the begin to the end of one range")

    def tuple_of(self, st, env, names):
        return "(" + ", ".join([st[0]] + [env[n][0] for n in names]) + ")" if names else st[0]

    def S(self, stmts, st, env, K):
        if not stmts:
            return K[0](st, env)
        c, rest = stmts[0], stmts[1:]
        k = c["k"]
        st = [st[0]]
        env = dict(env)
        if k == "endscope":
            for name, old in c["saved"].items():
                if old is None:
                    env.pop(name, None)
                else:
                    env[name] = old
            return self.S(rest, st, env, K)
        if k == "block":
            declared = [n for d in c["a"] if d["k"] == "decls" for v in d["a"] if v["k"] in ("var", "sbind")
                        for n in (v["n"] if v["k"] == "sbind" else [v["n"]])]
            saved = {n: env.get(n) for n in declared}
            return self.S(c["a"] + [dict(k="endscope", saved=saved, a=[], n=None, t="")] + rest, st, env, K)
        if k == "decls":
            lines = []
            for v in c["a"]:
                if v["k"] == "sbind":
                    lines += self.sbind(v, st, env)
                    continue
                if v["k"] == "var" and len(v["a"]) == 1 and v["a"][0]["k"] == "lambda":
                    # (closure types cannot be assigned: the name means this closure until its scope ends)
                    if self.lams.get(v["n"]) is not v["a"][0]["lam"]:
                        raise Unsupported("two lambdas named %s in one function" % v["n"])
                    env[v["n"]] = (self.remember_lambda(v["a"][0], c["a"][c["a"].index(v) + 1:] + rest, env), "lambda")
                    continue
                kd = self.akind(v["t"])
                if kd == "guard":
                    continue
                if not v["a"] or (v["a"][0]["k"] == "construct" and not v["a"][0]["a"]):
                    if kd == "outvec":
                        env[v["n"]] = ("[]", kd)
                        continue
                    d = self.default_init(kd, v)
                    if d is not None:
                        env[v["n"]] = (d, kd)
                        continue
                    raise Unsupported("default initialisation of %s %s" % (kd, v["n"]))
                b, t, k2 = self.E(v["a"][0], st, env)
                if k2 == "emplaced" and kd != "emplaced":
                    k2 = "mit"
                if k2 != kd:
                    raise Unsupported("initialiser of kind %s for %s %s" % (k2, kd, v["n"]))
                if not isinstance(t, str):
                    # a local structure tracked member by member at translation time (as after  T x;)
                    lines += b
                    env[v["n"]] = (t, kd)
                    continue
                x = self.fresh("v_" + v["n"] + "_")
                lines += b + ["let %s := %s in" % (x, t)]
                env[v["n"]] = (x, kd)
            return "\n".join(lines + [self.S(rest, st, env, K)])
        if k == "return":
            if not c["a"]:
                return K[1](st, env, "tt", "unit")
            b, t, kd = self.E(c["a"][0], st, env)
            return "\n".join(b + [K[1](st, env, t, kd)])
        if k == "if" and len(c["a"]) >= 3 and c["a"][0]["k"] == "decls":
            # if (init; cond) A else B  is  { init; if (cond) A else B }   ([stmt.if])
            blk = dict(k="block", t="", n=None, a=[c["a"][0], dict(c, a=c["a"][1:])])
            return self.S([blk] + rest, st, env, K)
        if k == "if":
            b, t, kd = self.E(c["a"][0], st, env)
            if kd != "bool":
                raise Unsupported("condition of kind %s" % kd)
            if not has_exit(c["a"][1]) and not (len(c["a"]) > 2 and has_exit(c["a"][2])):
                # no early exit: the two branches join; the state and the locals they write flow on
                names = sorted(n for n in set().union(*[self.assigned(x) for x in c["a"][1:]]) if n in env)
                KJ = (lambda st_, env_: "Ok %s" % self.tuple_of(st_, env_, names), self.no_return, None)
                th = self.S([c["a"][1]], st, env, KJ)
                el = self.S([c["a"][2]] if len(c["a"]) > 2 else [], st, env, KJ)
                ns = self.fresh("s")
                if names:
                    j = self.fresh("j")
                    lines = b + ["do %s <- (if %s then (" % (j, t), th, ") else (", el, "));"]
                    for n in names:
                        env[n] = (self.fresh("v_" + n + "_"), env[n][1])
                    lines.append("let '%s := %s in" % (self.tuple_of([ns], env, names), j))
                else:
                    lines = b + ["do %s <- (if %s then (" % (ns, t), th, ") else (", el, "));"]
                return "\n".join(lines + [self.S(rest, [ns], env, K)])
            th = self.S([c["a"][1]] + rest, st, env, K)
            el = self.S(([c["a"][2]] if len(c["a"]) > 2 else []) + rest, st, env, K)
            return "\n".join(b + ["if %s then (" % t, th, ") else (", el, ")"])
        if k == "break":
            if len(K) < 3 or K[2] is None:
                raise Unsupported("break outside a translated loop")
            return K[2](st, env)
        if k in ("while", "for"):
            if k == "for":
                init, cond, inc, body = c["a"][0], c["a"][2], c["a"][3], c["a"][4]
                pre = self.X(init, st, env) if init["k"] != "?None" else []
                body = dict(k="block", t="", n=None, a=[body, inc])
            else:
                pre, cond, body = [], c["a"][0], c["a"][1]
            if has_return(body):
                raise Unsupported("return inside a loop")
            names = self.order_names([n for n in (self.assigned(body) | self.assigned(cond)) if n in env], env)
            benv, bst = dict(env), [self.fresh("s")]
            for n in names:
                benv[n] = (self.fresh("v_" + n + "_"), env[n][1])
            acc_pat = self.tuple_of(bst, benv, names)
            cst = [bst[0]]
            bc, tc, kc = self.E(cond, cst, benv)
            if kc != "bool" or cst[0] != bst[0]:
                raise Unsupported("loop condition of kind %s" % kc)
            bt = self.S([body], bst, benv, (lambda st_, env_: "Ok (true, %s)" % self.tuple_of(st_, env_, names), self.no_return,
                                             lambda st_, env_: "Ok (false, %s)" % self.tuple_of(st_, env_, names)))
            j, ns = self.fresh("j"), self.fresh("s")
            pat = "let '%s := acc in" % acc_pat if names else "let %s := acc in" % acc_pat
            lines = pre + ["do %s <- whileB (%s) (fun acc => %s" % (j, self.loop_fuel(st[0]), pat)] + bc + ["Ok %s" % tc,
                           ") (fun acc => %s" % pat, bt, ") %s;" % self.tuple_of(st, env, names)]
            for n in names:
                env[n] = (self.fresh("v_" + n + "_"), env[n][1])
            lines.append("let '%s := %s in" % (self.tuple_of([ns], env, names), j) if names else "let %s := %s in" % (ns, j))
            return "\n".join(lines + [self.S(rest, [ns], env, K)])
        if k == "forrange":
            rng, body = c["a"]
            if has_return(body):
                raise Unsupported("return inside a range-for loop")
            br, tr, kr = self.E(rng, st, env)
            names = sorted(n for n in self.assigned(body) if n in env and self.visible(n, c))
            fill = kr in self.FILL_OUT
            if fill:
                env["__fill"] = ("[]", self.FILL_OUT[kr])
                names = names + ["__fill"]
            benv = {n: v for n, v in env.items() if self.visible(n, c)}
            bst = [self.fresh("s")]
            for n in names:
                benv[n] = (self.fresh("v_" + n.strip("_") + "_"), env[n][1])
            acc_pat = self.tuple_of(bst, benv, names)
            ekinds = self.RANGE_ELEMS.get(kr)
            whole = ekinds is not None and len(c["n"]) == 1 and kr in self.RANGE_ITEM      # for (auto& x : range), x the pair
            if whole:
                if fill and not c["t"].strip().endswith("&"):
                    raise Unsupported("range-for by value over the range to fill")
                ekinds = [self.RANGE_ITEM[kr]]
                benv.pop("__fillalias", None)
            if ekinds is None or len(ekinds) != len(c["n"]):
                raise Unsupported("range-for over %s binding %s" % (kr, c["n"]))
            xs = []
            for n, kd in zip(c["n"], ekinds):
                x = self.fresh("v_" + n + "_")
                benv[n] = (x, kd)
                xs.append(x)
            x_pat = "(" + ", ".join(xs) + ")" if len(xs) > 1 else xs[0]

            def done(st_, env_):
                if fill:
                    if whole and ("__fillalias" not in env_ or any(n not in env_ for n in env_["__fillalias"][0])):
                        raise Unsupported("loop over a range to fill that does not bind its item by auto& [key, value] in the loop body's block")
                    kn, vn = env_["__fillalias"][0] if whole else c["n"]
                    env_ = dict(env_)
                    env_["__fill"] = ("(%s ++ [(%s, %s)])" % (env_["__fill"][0], env_[kn][0], env_[vn][0]), env_["__fill"][1])
                return "Ok %s" % self.tuple_of(st_, env_, names)
            stmts = [body]
            if whole and body["k"] == "block":
                # the statements of the body, not as a block: the names bound from the item must still be in scope in `done`
                # (their scope, one iteration, ends with benv); they must not hide a name of an enclosing scope
                declared = [n for d in body["a"] if d["k"] == "decls" for v in d["a"] if v["k"] in ("var", "sbind")
                            for n in (v["n"] if v["k"] == "sbind" else [v["n"]])]
                if any(n in benv for n in declared):
                    raise Unsupported("a declaration in the body of the range-for that hides %s" % [n for n in declared if n in benv])
                stmts = body["a"]
            bt = self.S(stmts, bst, benv, (done, self.no_return, None))
            j, ns = self.fresh("j"), self.fresh("s")
            lines = br + ["do %s <- foldM (fun acc x => let '%s := acc in let '%s := x in" % (j, acc_pat, x_pat) if (names or len(xs) > 1) else
                          "do %s <- foldM (fun %s %s =>" % (j, acc_pat, x_pat),
                          bt, ") %s %s;" % (tr, self.tuple_of(st, env, names))]
            for n in names:
                env[n] = (self.fresh("v_" + n.strip("_") + "_"), env[n][1])
            lines.append("let '%s := %s in" % (self.tuple_of([ns], env, names), j) if names else "let %s := %s in" % (ns, j))
            return "\n".join(lines + [self.S(rest, [ns], env, K)])
        if k == "call" and c["n"] == "for_each" and len(c["a"]) == 3:
            return self.S([self.for_each_loop(c, env)] + rest, st, env, K)
        # expression statements
        lines = self.X(c, st, env)
        return "\n".join(lines + [self.S(rest, st, env, K)])

    def no_return(self, st, env, t, kd):
        raise Unsupported("return in a joined branch")

    def X(self, c, st, env):
        """expression statement: list of bind lines; updates st"""
        r = self.X_ext(c, st, env)
        if r is not None:
            return r
        k = c["k"]
        if k == "op" and c["n"] == "operator()" and c["a"] and self.lambda_of(c["a"][0], env) is not None:
            return self.call_lambda(c, st, env, writes=True)[0]      # f(args); the value, if any, is dropped
        if k == "un" and c["n"] in ("pre++", "post++") and c["a"][0]["k"] == "ref":
            n = c["a"][0]["n"]
            if n in env and env[n][1] == "nat":
                return self._bump(n, env)
            raise Unsupported("++ on %s" % n)
        if k == "mcall" and c["a"][0]["k"] == "ref" and c["a"][0]["n"] in env and env[c["a"][0]["n"]][1] == "outvec":
            n, m, args = c["a"][0]["n"], c["n"], c["a"][1:]
            if m == "reserve":
                return []          # capacity only: no observable effect
            if m == "emplace_back" and len(args) == 2:
                b1, t1, k1 = self.E(args[0], st, env)
                b2, t2, k2 = self.E(args[1], st, env)
                if (k1, k2) != ("key", "optval"):
                    raise Unsupported("emplace_back(%s, %s)" % (k1, k2))
                x = self.fresh("v_" + n + "_")
                out = b1 + b2 + ["let %s := (%s ++ [(%s, %s)]) in" % (x, env[n][0], t1, t2)]
                env[n] = (x, "outvec")
                return out
            raise Unsupported("%s on an output vector" % m)
        if ((k == "op" and c["n"] == "operator=") or (k == "bin" and c["n"] == "=")) and c["a"][0]["k"] == "ref" and c["a"][0]["n"] in env:
            n = c["a"][0]["n"]
            b, t, kd = self.E(c["a"][1], st, env)
            if env[n][1] == "optval" and kd in ("optval", "val"):
                x = self.fresh("v_" + n + "_")
                env[n] = (x, "optval")
                return b + ["let %s := %s in" % (x, t if kd == "optval" else "(Some %s)" % t)]
            if env[n][1] == kd:
                x = self.fresh("v_" + n + "_")
                env[n] = (x, kd)
                return b + ["let %s := %s in" % (x, t)]
            raise Unsupported("assignment of %s to local %s" % (kd, n))
        if k == "mcall":
            obj, m, args = c["a"][0], c["n"], c["a"][1:]
            if obj["k"] == "this":
                b, _, _ = self.call_method(m, args, st, env)
                return b
            b0, t0, k0 = self.E(obj, st, env)
            if k0 == "list" and m == "splice" and len(args) == 3:
                b1, t1, k1 = self.E(args[0], st, env)
                b2, t2, k2 = self.E(args[1], st, env)
                b3, t3, k3 = self.E(args[2], st, env)
                if (k1, k2, k3) != ("liter", "list", "liter") or t2 != t0:
                    raise Unsupported("splice(%s, %s, %s)" % (k1, k2, k3))
                x, ns = self.fresh("l"), self.fresh("s")
                out = b0 + b1 + b3 + ["do %s <- l_splice %s %s %s;" % (x, t0, t1, t3),
                                      "let %s := set_%s %s %s in" % (ns, self.kind_field["list"], st[0], x)]
                st[0] = ns
                return out
            if k0 == "umap" and m == "erase" and len(args) == 1:
                b1, t1, k1 = self.E(args[0], st, env)
                if k1 != "mit":
                    raise Unsupported("erase(%s)" % k1)
                x, ns = self.fresh("ix"), self.fresh("s")
                out = b0 + b1 + ["do %s <- index_erase %s %s;" % (x, t0, t1),
                                 "let %s := set_%s %s %s in" % (ns, self.kind_field["umap"], st[0], x)]
                st[0] = ns
                return out
            raise Unsupported("statement %s.%s" % (k0, m))
        if k == "un" and c["n"] in ("pre++", "post++", "pre--", "post--"):
            tgt = c["a"][0]
            if tgt["k"] == "field" and self.f_by_cpp[tgt["n"]][1] == "nat":
                coq = self.f_by_cpp[tgt["n"]][0]
                ns = self.fresh("s")
                if "++" in c["n"]:
                    out = ["let %s := set_%s %s (S (%s %s)) in" % (ns, coq, st[0], coq, st[0])]
                else:
                    out = ["do %s <- (if (%s %s) =? 0 then UB \"--%s underflows\" else Ok (set_%s %s ((%s %s) - 1)));" % (
                        ns, coq, st[0], tgt["n"], coq, st[0], coq, st[0])]
                st[0] = ns
                return out
            raise Unsupported("++/-- on %s" % show(tgt))
        if k == "bin" and c["n"] in ("+=", "-=") and len(c["a"]) == 2 and c["a"][1]["k"] == "int" and str(c["a"][1]["n"]) == "1":
            # x += 1 / x -= 1 on an unsigned counter are ++x / --x
            return self.X(dict(k="un", t=c["t"], n="pre++" if c["n"] == "+=" else "pre--", a=[c["a"][0]]), st, env)
        if k == "bin" and c["n"] in ("+=", "-=") and len(c["a"]) == 2:
            tgt = c["a"][0]
            b, t, kd = self.E(c["a"][1], st, env)
            if kd == "nat" and tgt["k"] == "field" and self.f_by_cpp.get(tgt["n"], (None, None))[1] == "nat":
                coq = self.f_by_cpp[tgt["n"]][0]
                ns = self.fresh("s")
                if c["n"] == "+=":
                    out = b + ["let %s := set_%s %s ((%s %s) + %s) in" % (ns, coq, st[0], coq, st[0], t)]
                else:
                    out = b + ["do %s <- (if (%s %s) <? %s then UB \"%s -= underflows\" else Ok (set_%s %s ((%s %s) - %s)));" % (
                        ns, coq, st[0], t, tgt["n"], coq, st[0], coq, st[0], t)]
                st[0] = ns
                return out
            if kd == "nat" and tgt["k"] == "ref" and tgt["n"] in env and env[tgt["n"]][1] == "nat" and c["n"] == "+=":
                x = self.fresh("v_" + tgt["n"] + "_")
                out = b + ["let %s := (%s + %s) in" % (x, env[tgt["n"]][0], t)]
                env[tgt["n"]] = (x, "nat")
                return out
            raise Unsupported("%s on %s" % (c["n"], show(tgt)))
        if k == "op" and c["n"] in ("operator++", "operator--") and len(c["a"]) == 1 and c["a"][0]["k"] == "ref" \
                and c["a"][0]["n"] in env and env[c["a"][0]["n"]][1] == "liter" and "list" in self.kind_field:
            n = c["a"][0]["n"]
            x, y = self.fresh("it"), self.fresh("v_" + n + "_")
            f = "l_next" if c["n"] == "operator++" else "l_prev"
            out = ["do %s <- %s %s %s;" % (x, f, self.fld("list", st[0]), env[n][0]), "let %s := %s in" % (y, x)]
            env[n] = (y, "liter")
            return out
        if k == "op" and c["n"] in ("operator++", "operator--") and len(c["a"]) == 1:
            tgt = c["a"][0]
            if tgt["k"] == "field" and self.f_by_cpp[tgt["n"]][1] == "liter":
                coq = self.f_by_cpp[tgt["n"]][0]
                x, ns = self.fresh("it"), self.fresh("s")
                f = "l_next" if c["n"] == "operator++" else "l_prev"
                out = ["do %s <- %s %s (%s %s);" % (x, f, self.fld("list", st[0]), coq, st[0]),
                       "let %s := set_%s %s %s in" % (ns, coq, st[0], x)]
                st[0] = ns
                return out
            raise Unsupported("iterator ++/-- on %s" % show(tgt))
        if (k == "bin" and c["n"] == "=") or (k == "op" and c["n"] == "operator="):
            lhs, rhs = c["a"]
            if lhs["k"] == "member":
                bo, to, ko = self.E(lhs["a"][0], st, env)
                if ko != "eref":
                    raise Unsupported("assignment to a member of %s" % ko)
                b, t, kd = self.E(rhs, st, env)
                coq, fk = self.ef_by_cpp[lhs["n"]]
                if fk == "optval" and kd == "val":
                    val = "(Some %s)" % t
                elif fk == "optliter" and kd == "liter":
                    val = "(Some %s)" % t
                elif fk == "mit" and kd == "mit":
                    val = t
                elif fk == "nat" and kd == "nat":
                    val = t
                else:
                    raise Unsupported("assignment of %s to element field %s" % (kd, lhs["n"]))
                return bo + b + self.set_elem_field(to, lhs["n"], val, st)
            raise Unsupported("assignment to %s" % show(lhs))
        raise Unsupported("statement %s" % show(c)[:200])

    def order_names(self, names, env):
        """the order of the loop-carried locals in the accumulator of a while/for loop (a family module may
        prefer declaration order, which does not change when a local is renamed)"""
        return sorted(names)

    # ---- the constructor: member initialisers in order, then the body; produces the initial state record.
    #      F maps each record field to a Gallina term (None = not set yet).  Rules of the base table (lru family):
    #        vector member (n)                 -> repeat <default element> n
    #        std::list<size_t> member (n)      -> n nodes; the formal list identifies a node with the value it
    #                                             holds, which is only right once std::iota(begin, end, 0) has run
    #        index member, default constructed -> []
    #        iterator member default constructed -> not set (singular); must be assigned in the body
    #        size_t member with default member initialiser {k} -> k
    #        std::iota(l.begin(), l.end(), 0)  -> the nodes of l are numbered 0..n-1  (seq 0 n)
    #        it = l.begin()                    -> l_begin l
    #        index.max_load_factor(f)          -> no effect on the model, but must come BEFORE reserve
    #        index.reserve(n)                  -> the index may hold n entries without rehashing: cap := n
    #        it(l.begin()) / it = l.begin() before l is numbered -> the first node of l: l_begin of what l holds when
    #                                             the constructor is done (assigning through nodes moves none; a later
    #                                             push_back is refused: begin() of an empty list is end())
    #        size_t x{k}; / size_t x = k;      -> let x := k
    #        x++ / ++x (as a value too)        -> let x' := S x  (value: x / x')
    #        for (auto& n : l) { .. n = e; .. } over the value-initialised nodes of l
    #                                          -> fold_left over the nodes in order; the values written, in order, are
    #                                             what l holds afterwards (every node must be written exactly once)
    #        for (size_t i = a; i < b; ++i) B  -> fold_left (fun acc i => B) (seq a (b - a)): B runs for i = a .. b-1 in
    #                                             order (i and b not written in B, no break/return)
    #        l.push_back(e)                    -> l ++ [e]
    EMPTY_KINDS = ("umap", "mmap", "tmap", "kmap")      # containers whose default construction is the empty content

    def ctor_init(self, F, member, c, env):
        if member in ("m_lock",) + tuple(self.sc.get("ctor_ignore", ())):
            return
        coq, kind = self.f_by_cpp.get(member, (None, None))
        if coq is None:
            raise Unsupported("constructor initialises unknown member %s" % member)
        isn = c["k"] == "ref" and c["n"] in env and env[c["n"]][1] == "nat"
        if kind == "vec" and isn:
            F[coq] = "(repeat %s %s)" % (self.sc["elem_default"], env[c["n"]][0])
        elif kind == "list" and isn and self.sc.get("cells"):
            # std::list<element>(n): n nodes, each holding a default element (the element lives in the node)
            F[coq] = "(seq 0 %s)" % env[c["n"]][0]
            F[self.sc["cells"]] = "(repeat %s %s)" % (self.sc["elem_default"], env[c["n"]][0])
        elif kind in ("list", "natvec") and isn:
            # n value-initialised size_t: the formal structure identifies a node / slot with the value it
            # holds, which is only right once std::iota(begin, end, 0) has run
            F[coq] = "(seq 0 %s)" % env[c["n"]][0]
            self.unnumbered.add(coq)
        elif (kind in self.EMPTY_KINDS or kind == "list") and c["k"] == "construct" and not c["a"]:
            F[coq] = "[]"
        elif kind == "liter" and c["k"] == "construct" and not c["a"]:
            F[coq] = None
        elif kind == "liter" and self.ctor_begin_of(F, c) is not None:
            F[coq] = ("begin", self.ctor_begin_of(F, c))
        elif kind == "nat" and c["k"] == "?CXXDefaultInitExpr":
            d = self.fieldinit.get(member)
            if d is None or d["k"] != "int":
                raise Unsupported("default member initialiser of %s" % member)
            F[coq] = str(d["n"])
        elif kind == "durms" and c["k"] == "ref" and c["n"] in env and env[c["n"]][1] in ("dur", "durms"):
            F[coq] = env[c["n"]][0]
        else:
            raise Unsupported("member initialiser %s(%s)" % (member, show(c)[:120]))
        for f, t in self.sc.get("ctor_also", {}).get(coq, {}).items():
            F[f] = t

    def ctor_stmt(self, F, c, env):
        k = c["k"]
        if k == "call" and c["n"] == "iota" and len(c["a"]) == 3:
            b, e, z = c["a"]
            # std::begin(l) / std::end(l) are l.begin() / l.end()
            b, e = [dict(x, k="mcall") if (x["k"] == "call" and x["n"] in ("begin", "end") and len(x["a"]) == 1) else x for x in (b, e)]
            if b["k"] == "mcall" and b["n"] == "begin" and e["k"] == "mcall" and e["n"] == "end" and \
                    b["a"][0]["k"] == "field" and e["a"][0] == b["a"][0] and z["k"] == "int" and str(z["n"]) == "0":
                coq, kind = self.f_by_cpp[b["a"][0]["n"]]
                if kind in ("list", "natvec") and coq in self.unnumbered:
                    self.unnumbered.discard(coq)
                    return
            raise Unsupported("std::iota other than over a whole list member from 0")
        if k == "op" and c["n"] == "operator=" and c["a"][0]["k"] == "field":
            coq, kind = self.f_by_cpp[c["a"][0]["n"]]
            r = c["a"][1]
            if r["k"] == "call" and r["n"] == "begin" and len(r["a"]) == 1:
                r = dict(r, k="mcall")
            if kind == "liter" and r["k"] == "mcall" and r["n"] == "begin" and r["a"][0]["k"] == "field":
                lc, lk = self.f_by_cpp[r["a"][0]["n"]]
                if lk == "list" and F.get(lc) is not None:
                    F[coq] = ("begin", lc)
                    return
            raise Unsupported("constructor assignment %s" % show(c)[:160])
        if k == "mcall" and c["a"] and c["a"][0]["k"] == "field":
            coq, kind = self.f_by_cpp[c["a"][0]["n"]]
            if kind == "umap" and c["n"] == "max_load_factor" and len(c["a"]) == 2:
                if self.reserved:
                    raise Unsupported("max_load_factor after reserve: the reserved size no longer bounds rehashing")
                return
            if kind == "umap" and c["n"] == "reserve" and len(c["a"]) == 2:
                b, t, kd = self.E(c["a"][1], ["s"], env)
                if b or kd != "nat":
                    raise Unsupported("reserve(%s)" % show(c["a"][1]))
                F[self.sc["cap"]] = t
                self.reserved = True
                return
        if k == "decls" and all(v["k"] == "var" and len(v["a"]) == 1 and self.akind(v["t"]) == "nat" for v in c["a"]):
            for v in c["a"]:
                t = self.ctor_E(v["a"][0], env, self.ctor_lets)
                x = self.fresh("v_" + v["n"] + "_")
                self.ctor_lets.append("let %s := %s in" % (x, t))
                env[v["n"]] = (x, "nat")
            return
        if k in ("forrange", "for"):
            return self.ctor_loop(F, c, env)
        if k == "un" and c["n"] in ("pre++", "post++"):
            self.ctor_E(c, env, self.ctor_lets)
            return
        raise Unsupported("constructor statement %s" % show(c)[:160])

    def ctor_begin_of(self, F, c):
        """c = l.begin() / std::begin(l) for a list member l that has been initialised: the record field of l"""
        if c["k"] in ("mcall", "call") and c["n"] == "begin" and len(c["a"]) == 1 and c["a"][0]["k"] == "field":
            lc, lk = self.f_by_cpp.get(c["a"][0]["n"], (None, None))
            if lk == "list" and F.get(lc) is not None:
                return lc
        return None

    def ctor_E(self, c, env, lines):
        """a size_t expression over the parameters and locals of the constructor -> term (x++ / ++x bound in lines)"""
        if c["k"] == "un" and c["n"] in ("pre++", "post++") and c["a"][0]["k"] == "ref" and env.get(c["a"][0]["n"], (None, None))[1] == "nat":
            n = c["a"][0]["n"]
            old, new = env[n][0], self.fresh("v_" + n + "_")
            lines.append("let %s := S %s in" % (new, old))
            env[n] = (new, "nat")
            return old if c["n"] == "post++" else new
        if c["k"] == "int" or (c["k"] == "ref" and env.get(c["n"], (None, None))[1] == "nat"):
            return self.E(c, ["s"], env)[1]
        raise Unsupported("constructor expression %s" % show(c)[:160])

    def ctor_loop(self, F, c, env):
        """a loop of the constructor body as a fold_left; what it carries from one iteration to the next: the list
        members it writes and the locals it assigns"""
        def flat(b):
            return [y for x in b["a"] for y in flat(x)] if b["k"] == "block" else [b]
        if c["k"] == "forrange":
            rng, body = c["a"]
            lc, lk = self.f_by_cpp.get(rng["n"], (None, None)) if rng["k"] == "field" else (None, None)
            if lk != "list" or lc not in self.unnumbered or len(c["n"]) != 1 or not c["t"].strip().endswith("&") or "const" in c["t"]:
                raise Unsupported("constructor loop %s" % show(c)[:160])
            slot, dom, item, pushed = c["n"][0], F[lc], "_", []
        else:
            init, cond, inc, body = c["a"][0], c["a"][2], c["a"][3], c["a"][4]
            ok = init["k"] == "decls" and len(init["a"]) == 1 and init["a"][0]["k"] == "var" and len(init["a"][0]["a"]) == 1 \
                and self.akind(init["a"][0]["t"]) == "nat" and cond["k"] == "bin" and cond["n"] == "<" and cond["a"][0]["k"] == "ref"
            i = init["a"][0]["n"] if ok else None
            ok = ok and cond["a"][0]["n"] == i and cond["a"][1]["k"] in ("ref", "int") and \
                ((inc["k"] == "un" and inc["n"] in ("pre++", "post++")) or
                 (inc["k"] == "bin" and inc["n"] == "+=" and inc["a"][1]["k"] == "int" and str(inc["a"][1]["n"]) == "1")) and inc["a"][0] == cond["a"][0]
            wr = self.assigned(body)
            if not ok or i in wr or (cond["a"][1]["k"] == "ref" and cond["a"][1]["n"] in wr) or has_exit(body) or i in env:
                raise Unsupported("constructor loop %s: not  for (size_t i = a; i < b; ++i)  with i and b left alone by the body" % show(c)[:160])
            a, b = self.ctor_E(init["a"][0]["a"][0], env, self.ctor_lets), self.ctor_E(cond["a"][1], env, self.ctor_lets)
            slot, lc, item = None, None, self.fresh("v_" + i + "_")
            dom = "(seq 0 %s)" % b if a == "0" else "(seq %s (%s - %s))" % (a, b, a)
            pushed = sorted({self.f_by_cpp[s["a"][0]["n"]][0] for s in flat(body) if s["k"] == "mcall" and s["n"] == "push_back"
                             and s["a"][0]["k"] == "field" and self.f_by_cpp.get(s["a"][0]["n"], (None, None))[1] == "list"})
        stmts = flat(body)
        names = sorted(n for n in self.assigned(body) if n in env and n != slot)
        if any(env[n][1] != "nat" for n in names):
            raise Unsupported("constructor loop writing %s" % names)
        for f in pushed:
            if F.get(f) is None or f in self.unnumbered or any(v == ("begin", f) for v in F.values()):
                raise Unsupported("push_back on a list member that is not initialised, holds unnumbered nodes, or whose begin() was taken")
        carried = ([lc] if slot else []) + pushed
        Fb, envb = dict(F), dict(env)
        if slot:
            Fb[lc] = "[]"
        start = [Fb[f] for f in carried] + [env[n][0] for n in names]
        for f in carried:
            Fb[f] = self.fresh("l")
        for n in names:
            envb[n] = (self.fresh("v_" + n + "_"), "nat")
        if not slot:
            envb[i] = (item, "nat")
        tup = lambda xs: xs[0] if len(xs) == 1 else "(" + ", ".join(xs) + ")"
        if not start:
            raise Unsupported("constructor loop without effect %s" % show(c)[:160])
        pat = tup([Fb[f] for f in carried] + [envb[n][0] for n in names])
        lines, written = [], 0
        for s in stmts:
            if slot and s["k"] == "bin" and s["n"] == "=" and s["a"][0]["k"] == "ref" and s["a"][0]["n"] == slot:
                v = self.ctor_E(s["a"][1], envb, lines)
                x = self.fresh("l")
                lines.append("let %s := (%s ++ [%s]) in" % (x, Fb[lc], v))
                Fb[lc] = x
                written += 1
            elif s["k"] == "mcall" and s["n"] == "push_back" and len(s["a"]) == 2 and s["a"][0]["k"] == "field" \
                    and self.f_by_cpp.get(s["a"][0]["n"], (None, None))[0] in pushed:
                f = self.f_by_cpp[s["a"][0]["n"]][0]
                v = self.ctor_E(s["a"][1], envb, lines)
                x = self.fresh("l")
                lines.append("let %s := (%s ++ [%s]) in" % (x, Fb[f], v))
                Fb[f] = x
            elif s["k"] == "un" and s["n"] in ("pre++", "post++"):
                self.ctor_E(s, envb, lines)
            else:
                raise Unsupported("statement of a constructor loop %s" % show(s)[:160])
        if slot and written != 1:
            raise Unsupported("a loop over the nodes of %s that does not write every node exactly once" % rng["n"])
        res = tup([Fb[f] for f in carried] + [envb[n][0] for n in names])
        for f in carried:
            F[f] = self.fresh("l")
        for n in names:
            env[n] = (self.fresh("v_" + n + "_"), "nat")
        out = tup([F[f] for f in carried] + [env[n][0] for n in names])
        head = "fold_left (fun %s %s =>" % (pat, item) if len(start) == 1 else "fold_left (fun acc %s => let '%s := acc in" % (item, pat)
        self.ctor_lets += ["let %s%s := %s" % ("'" if len(start) > 1 else "", out, head)] + ["  " + l for l in lines] + \
                          ["  %s) %s %s in" % (res, dom, tup(start))]
        if slot:
            self.unnumbered.discard(lc)      # every node now holds the value the loop wrote to it

    def ctor_param(self, pn, t, env, params):
        """family hook: a constructor parameter with a special representation (True = handled)"""
        return False

    def translate_ctor(self):
        if len(self.ctors) != 1:
            raise Unsupported("%d user-provided constructors" % len(self.ctors))
        ps, inits, body = self.ctors[0]
        env, params = {}, []
        for pn, t in ps:
            r = self.ctor_param(pn, t, env, params)
            if r:
                continue
            if t == "float":
                env[pn] = ("p_" + pn, "float")      # only ever handed to max_load_factor
                continue
            kd = self.akind(t, True)
            env[pn] = ("p_" + pn, kd)
            params.append("(p_%s : %s)" % (pn, self.COQTY[kd]))
        F = {f: None for f, _, _ in self.sc["fields"]}
        F.update(self.sc.get("ctor_const", {}))      # record fields without a C++ counterpart
        self.unnumbered, self.reserved, self.ctor_lets = set(), False, []
        for member, c in inits:
            self.ctor_init(F, member, c, env)
        for c in body["a"]:
            self.ctor_stmt(F, c, env)
        if self.unnumbered:
            raise Unsupported("list member(s) %s never numbered by std::iota" % sorted(self.unnumbered))
        missing = [f for f, v in F.items() if v is None]
        if missing:
            raise Unsupported("constructor leaves %s unset" % missing)
        for f, v in F.items():
            if isinstance(v, tuple) and v[0] == "begin":
                F[f] = "(l_begin %s)" % F[v[1]]
        text = self.ctor_record(F, params)
        if self.ctor_lets:      # the locals and loops of the body, in front of the record
            head, _, rec = text.partition(" := ")
            text = head + " :=\n" + "\n".join("  " + l for l in self.ctor_lets) + "\n  " + rec
        return text

    def ctor_record(self, F, params):
        rec = "; ".join("%s := %s" % (f, F[f]) for f, _, _ in self.sc["fields"])
        return "Definition g_init %s : %s %s := {| %s |}." % (" ".join(params), self.sc["state"], self.sc["state_args"], rec)

    def loop_fuel(self, s):
        """an upper bound on the iterations of any loop of the class, as a Gallina term over the state"""
        f = self.sc.get("fuel")
        if not f:
            raise Unsupported("a while/for loop, and the schema gives no fuel bound")
        return f % dict(s=s)

    def _bump(self, n, env):
        old = env[n][0]
        x = self.fresh("v_" + n + "_")
        env[n] = (x, "nat")
        return ["let %s := S %s in" % (x, old)]

    # ---- whole class
    def method(self, m, as_lambda=False):
        ps, rt, body = self.methods[m][0]
        if not as_lambda:
            self.cur = m
        outer_lams, self.lams = self.lams, {}
        try:
            named_lambdas(body, self.lams)
            return self.method_text(m, as_lambda)
        finally:
            self.lams = outer_lams

    def method_text(self, m, as_lambda):
        ps, rt, body = self.methods[m][0]
        pk, rk = self.sig(m)
        env, params = {}, []
        for names, kd in self.params(m):
            x = "p_" + names[0]
            self.bind_param(env, names, x, kd)
            params.append("(%s : %s)" % (x, self.COQTY[kd]))
        def done(st_, env_):
            if rk == "unit":
                return "Ok %s" % st_[0]
            if any(fk in pk for fk in self.FILL_OUT) and "__fill" in env_:
                return "Ok (%s, %s)" % (st_[0], env_["__fill"][0])
            raise Unsupported("control reaches the end of a non-void function")

        def ret(st_, env_, t, kd):
            if rk == "unit" and kd == "unit":
                return "Ok %s" % st_[0]
            if kd == "val" and rk == "optval":
                t, kd = "(Some %s)" % t, "optval"
            if kd != rk:
                raise Unsupported("return of kind %s in a function returning %s" % (kd, rk))
            return "Ok (%s, %s)" % (st_[0], t)
        text = self.S(body["a"], ["s"], env, (done, ret, None))
        rty = "res (%s %s)" % (self.sc["state"], self.sc["state_args"]) if rk == "unit" else \
              "res (%s %s * %s)" % (self.sc["state"], self.sc["state_args"], self.COQTY[rk])
        if as_lambda:
            return "(fun (s : %s %s) %s =>\n%s)" % (self.sc["state"], self.sc["state_args"], " ".join(params), text)
        return "Definition %s (s : %s %s) %s : %s :=\n%s." % (self.gname(m), self.sc["state"], self.sc["state_args"], " ".join(params), rty, indent(text))

    def callee(self, m):
        """what a call of the member function m applies: g_m for a method of the schema; for a private helper the
        schema does not list (a helper a refactoring extracted), its translated body, in place"""
        if m in self.sc["methods"] or m not in self.methods:
            return self.gname(m)
        if m in self.inlining:
            raise Unsupported("recursive helper %s" % m)
        self.inlining.append(m)
        cur = self.cur
        try:
            return self.method(m, as_lambda=True)
        finally:
            self.cur = cur
            self.inlining.pop()

    def state_prelude(self):
        """the field setters of the state record (a family module whose state is not a plain record overrides this)"""
        sc = self.sc
        fs = [f for f, _, _ in sc["fields"]]
        return ["Definition set_%s (s : %s %s) x : %s %s := {| %s |}." % (
                f, sc["state"], sc["state_args"], sc["state"], sc["state_args"],
                "; ".join("%s := %s" % (g, "x" if g == f else "%s s" % g) for g in fs)) for f in fs]

    def translate(self):
        sc = self.sc
        out = ["(* GENERATED by tools/cpp2coq.py from the current source of cappuccino::%s — do not edit *)" % self.cls,
               "Require Import %s Capp.GenPrims." % " ".join(sc["requires"]),
               "From Coq Require Import Strings.String.", "",
               "Section Gen.", "  Context {K V : Type} `{EqDec K}.",
               "  Local Open Scope string_scope.", "  Local Open Scope list_scope.", "  Local Open Scope nat_scope.", ""]
        if sc.get("clock"):
            # the reading std::chrono::steady_clock::now() returns during the call being translated (one per public call)
            out += ["  Variable clk : Z.", ""]
        out += self.state_prelude()
        efs = [f for f, _, _ in sc["elem_fields"]]
        for f in efs:
            out.append("Definition set_%s (e : %s %s) x : %s %s := {| %s |}." % (
                f, sc["elem"], sc["elem_args"], sc["elem"], sc["elem_args"],
                "; ".join("%s := %s" % (g, "x" if g == f else "%s e" % g) for g in efs)))
        out.append("")
        defs, order, done = {}, [], set()
        for m in sc["methods"]:
            if m not in self.methods:
                raise Unsupported("method %s not found in the class" % m)
            if len(self.methods[m]) != 1:
                raise Unsupported("method %s has %d bodies" % (m, len(self.methods[m])))
            defs[m] = self.method(m)

        def visit(m):
            if m in done:
                return
            done.add(m)
            for d in sorted(self.calls.get(m, ())):
                if d not in defs:
                    raise Unsupported("%s calls %s, which is not translated" % (m, d))
                visit(d)
            order.append(m)
        for m in sc["methods"]:
            visit(m)
        for m in order:
            out += [defs[m], ""]
        if sc.get("ctor"):
            out += [self.translate_ctor(), ""]
        out.append("End Gen.")
        return "\n".join(out) + "\n"


def has_return(c):
    return c["k"] == "return" or any(has_return(x) for x in c["a"])


def named_lambdas(c, acc):
    """name -> closure for every  auto f = [..](..) {..};  below c (a name declared twice gets None: not followed)"""
    if c["k"] == "var" and len(c["a"]) == 1 and c["a"][0]["k"] == "lambda":
        acc[c["n"]] = None if c["n"] in acc else c["a"][0]["lam"]
    if c["k"] == "lambda":
        for o in c["lam"]["ops"]:
            named_lambdas(o["body"], acc)
    for x in c["a"]:
        named_lambdas(x, acc)


def has_exit(c):
    """return, or a break that leaves a loop enclosing c"""
    if c["k"] in ("return", "break"):
        return True
    if c["k"] in ("while", "for", "forrange"):
        return has_return(c)
    return any(has_exit(x) for x in c["a"])


def indent(t):
    d, out = 1, []
    for l in t.split("\n"):
        if l.startswith(")"):
            d -= 1
        out.append("  " * d + l)
        if l.endswith("(") or l.endswith("then ("):
            d += 1
    return "\n".join(out)


FAMILY = {"lru_cache": None, "mru_cache": None, "fifo_cache": "cpp2coq_fifo", "rr_cache": "cpp2coq_rr",
          "lfu_cache": "cpp2coq_lfu", "lfuda_cache": "cpp2coq_lfuda", "tlru_cache": "cpp2coq_tlru", "utlru_cache": "cpp2coq_utlru",
          "ut_map": "cpp2coq_utmap", "ut_set": "cpp2coq_utset"}


def generate(inc, cls):
    trc = Tr
    if FAMILY.get(cls):
        import importlib
        mod = importlib.import_module(FAMILY[cls])      # registers its SCHEMA entries, defines Ext(Tr)
        trc = mod.Ext
    inst = SCHEMA[cls].get("inst", INST) % dict(cls=cls)
    ms = class_methods(clang_objs(inc, cls, inst))
    return trc(cls, ms).translate()


def main(argv):
    inc, cls, out = argv[1:4]
    try:
        text = generate(inc, cls)
    except Unsupported as e:
        sys.stderr.write("cpp2coq: %s: unsupported construct: %s\n" % (cls, e))
        return 3
    open(out, "w").write(text)
    return 0


if __name__ == "__main__":
    import cpp2coq          # one module object, so that the family modules register into the same SCHEMA
    sys.exit(cpp2coq.main(sys.argv))
