#!/usr/bin/env python3
"""cpp2coq_tlru.py — the rules tlru_cache.hpp needs beyond the base table of cpp2coq.py.

State: the record ttll of coq/TtlLit.v (the literal machine of tlru_cache / utlru_cache).  New kinds:

  time      std::chrono::steady_clock::time_point                 Z (nanoseconds)
  dur       std::chrono::milliseconds                             Z (milliseconds; `ms` converts to a time point offset)
  tmap      std::multimap<time_point, size_t>  (m_ttl_list)       list (Z * nat), iteration order
  tit       its iterator                                          option nat (the node whose mapped value is n; None = end()/singular)
  tkvrange  a range of tuple<milliseconds, key, value>            list (Z * K * V)

Rules (C++ construct -> primitive):

  steady_clock::now()                      clk                         (base, `clock` schema flag)
  time_point + milliseconds                (t + ms d)%Z
  a >= b, a > b, a < b, a <= b on times    (b <=? a)%Z, (b <? a)%Z, (a <? b)%Z, (a <=? b)%Z
  m_ttl_list.size()                        List.length
  m_ttl_list.begin()                       mm_begin
  it->first, it->second (tit)              mm_it_first, mm_it_second   (UB: end() / erased node)
  m_ttl_list.emplace(t, n)                 mm_emplace_z t n (TtlLit.v: at the upper bound of t); the iterator is Some n
  m_ttl_list.erase(it)                     ord_erase (TtlLit.v; UB: singular / erased node)
  auto& [a, b] = *it;                      the dereference is checked where the reference is bound
                                           (mit_second / mm_it_deref); every later use of a or b reads the
                                           component through the iterator again, with the same check
  e.m_expire_time, e.m_ttl_position        te_expire / te_ttl of the bounds-checked cell (read and write)
  e.m_lru_position                         get_lru (schema `getpos`; UB: singular iterator)
  size_t a - b                             usub (GenPrims.v; wrap-around is reported)
  for (auto& [ttl, key, value] : range)    foldM over the list of triples
  while (...)                              whileB with the fuel of the schema: S m_used_size
"""
import cpp2coq
from cpp2coq import Unsupported, show

INST = '''#include <tuple>
#include <chrono>
template class cappuccino::%(cls)s<KeyT, ValT, cappuccino::thread_safe::yes>;
using C = cappuccino::%(cls)s<KeyT, ValT, cappuccino::thread_safe::yes>;
void use_all(C& c) {
  std::vector<std::tuple<std::chrono::milliseconds, KeyT, ValT>> kv; c.insert_range(std::move(kv), cappuccino::allow::insert_or_update);
  std::vector<KeyT> ks; c.erase_range(ks); c.find_range(ks, cappuccino::peek::no);
  std::vector<std::pair<KeyT, std::optional<ValT>>> fill; c.find_range_fill(fill, cappuccino::peek::no);
}'''

cpp2coq.SCHEMA["tlru_cache"] = dict(
    module="GenTlru", requires=["Capp.Base", "Capp.Rr", "Capp.TtlLru", "Capp.RrLit", "Capp.LruLit", "Capp.TtlLit"],
    state="ttll", state_args="K V", elem="telem", elem_args="K V", cap="tt_cap",
    fields=[("tt_cap", None, "cap"), ("tt_ttl", None, "unused"), ("tt_elems", "m_elements", "vec"),
            ("tt_index", "m_keyed_elements", "umap"), ("tt_list", "m_lru_list", "list"), ("tt_end", "m_lru_end", "liter"),
            ("tt_ord", "m_ttl_list", "tmap"), ("tt_used", "m_used_size", "nat")],
    elem_fields=[("te_expire", "m_expire_time", "time"), ("te_keyed", "m_keyed_position", "mit"),
                 ("te_lru", "m_lru_position", "optliter"), ("te_ttl", "m_ttl_position", "opttit"), ("te_val", "m_value", "optval")],
    methods=["do_access", "do_erase", "do_prune", "do_insert", "do_update", "do_insert_update", "do_find",
             "insert", "insert_range", "erase", "erase_range", "find", "find_range", "find_range_fill",
             "clean_expired_values", "empty", "size", "capacity"],
    inst=INST, clock=True, getpos="get_lru",
    ctor=True, ctor_const={"tt_ttl": "0%Z"},      # tt_ttl: the uniform TTL of utlru_cache, no member of tlru_cache
    elem_default="{| te_expire := 0%Z; te_keyed := None; te_lru := None; te_ttl := None; te_val := None |}",
    # every iteration of the only loop (clean_expired_values) runs do_erase, which decrements m_used_size, and the
    # loop stops when m_used_size is 0
    fuel="(S (tt_used %(s)s))",
)


class Ext(cpp2coq.Tr):
    COQTY = dict(cpp2coq.Tr.COQTY, tit="option nat", tkvrange="list (Z * K * V)")
    RANGE_ELEMS = dict(cpp2coq.Tr.RANGE_ELEMS, tkvrange=["dur", "key", "val"])

    # ---- types
    def akind_ext(self, t, param):
        if t.endswith("&&"):
            t = t[:-2].strip()
        if t.endswith("&"):
            t = t[:-1].strip()
        if "_Rb_tree_iterator" in t or "_Rb_tree_const_iterator" in t or t.endswith("ttl_iterator") or \
                (t.startswith("std::multimap<") and t.endswith("iterator")):
            return "tit"
        if t.startswith("std::vector<std::tuple<std::chrono::duration<long, std::ratio<1, 1000>>, KeyT, ValT>>"):
            return "tkvrange"
        if t in ("std::chrono::milliseconds", "std::chrono::duration<long, std::ratio<1, 1000>>"):
            return "dur"
        if t in ("std::chrono::steady_clock::time_point", "std::chrono::time_point<std::chrono::steady_clock>",
                 "std::chrono::time_point<std::chrono::steady_clock, std::chrono::duration<long, std::ratio<1, 1000000000>>>",
                 # steady_clock::time_point + milliseconds: the common type of nanoseconds and milliseconds is nanoseconds
                 "time_point<std::chrono::steady_clock, typename common_type<duration<long, ratio<1, 1000000000>>, duration<long, ratio<1, 1000>>>::type>"):
            return "time"
        return None

    def tkind(self, c):
        """kind of the C++ type of a node, None when the type table does not know it"""
        try:
            return self.akind(c["t"])
        except Unsupported:
            return None

    def is_tmap(self, c):
        return c["k"] == "field" and self.f_by_cpp.get(c["n"], (None, None))[1] == "tmap"

    # ---- expressions
    def E_ext(self, c, st, env):
        k = c["k"]
        if k == "ref" and c["n"] in env and env[c["n"]][1].startswith("ref:"):
            # a name of a structured binding: a reference to a component of the node the iterator designates
            it, kd = env[c["n"]]
            _, cont, comp = kd.split(":")
            x = self.fresh("rb")
            if cont == "tit" and comp == "0":
                return ["do %s <- mm_it_first %s %s;" % (x, self.fld("tmap", st[0]), it)], x, "time"
            if cont == "tit" and comp == "1":
                return ["do %s <- mm_it_second %s %s;" % (x, self.fld("tmap", st[0]), it)], x, "nat"
            if cont == "mit" and comp == "1":
                return ["do %s <- mit_second %s %s;" % (x, self.fld("umap", st[0]), it)], x, "nat"
            raise Unsupported("use of component %s of a structured binding of *%s" % (comp, cont))
        if k == "op" and c["n"] in ("operator>=", "operator>", "operator<", "operator<=") and len(c["a"]) == 2 \
                and "time" in (self.tkind(c["a"][0]), self.tkind(c["a"][1])):
            b1, t1, k1 = self.E(c["a"][0], st, env)
            b2, t2, k2 = self.E(c["a"][1], st, env)
            if (k1, k2) != ("time", "time"):
                raise Unsupported("%s on %s, %s" % (c["n"], k1, k2))
            tm = {"operator>=": "(%s <=? %s)%%Z" % (t2, t1), "operator>": "(%s <? %s)%%Z" % (t2, t1),
                  "operator<": "(%s <? %s)%%Z" % (t1, t2), "operator<=": "(%s <=? %s)%%Z" % (t1, t2)}[c["n"]]
            return b1 + b2, tm, "bool"
        if k == "op" and c["n"] == "operator+" and len(c["a"]) == 2 and self.tkind(c) == "time":
            b1, t1, k1 = self.E(c["a"][0], st, env)
            b2, t2, k2 = self.E(c["a"][1], st, env)
            if (k1, k2) == ("time", "dur"):
                return b1 + b2, "(%s + ms %s)%%Z" % (t1, t2), "time"
            if (k1, k2) == ("dur", "time"):
                return b1 + b2, "(ms %s + %s)%%Z" % (t1, t2), "time"
            raise Unsupported("operator+ on %s, %s" % (k1, k2))
        if k == "bin" and c["n"] == "-":
            b1, t1, k1 = self.E(c["a"][0], st, env)
            b2, t2, k2 = self.E(c["a"][1], st, env)
            if (k1, k2) != ("nat", "nat"):
                raise Unsupported("binary - on %s, %s" % (k1, k2))
            x = self.fresh("d")
            return b1 + b2 + ["do %s <- usub %s %s;" % (x, t1, t2)], x, "nat"
        if k == "op" and c["n"] == "operator->" and self.tkind(c["a"][0]) == "tit":
            b, t, kd = self.E(c["a"][0], st, env)
            if kd != "tit":
                raise Unsupported("operator-> on %s" % kd)
            return b, t, "tit->"
        if k == "member" and c["n"] in ("first", "second") and c["a"][0]["k"] == "op" and c["a"][0]["n"] == "operator->" \
                and self.tkind(c["a"][0]["a"][0]) == "tit":
            b, t, kd = self.E(c["a"][0], st, env)
            if kd != "tit->":
                raise Unsupported("member %s of %s" % (c["n"], kd))
            x = self.fresh("mm")
            if c["n"] == "first":
                return b + ["do %s <- mm_it_first %s %s;" % (x, self.fld("tmap", st[0]), t)], x, "time"
            return b + ["do %s <- mm_it_second %s %s;" % (x, self.fld("tmap", st[0]), t)], x, "nat"
        if k == "member" and c["n"] in self.ef_by_cpp and self.ef_by_cpp[c["n"]][1] in ("time", "opttit"):
            b, t, kd = self.E(c["a"][0], st, env)
            if kd != "eref":
                raise Unsupported("member %s of %s" % (c["n"], kd))
            coq, fk = self.ef_by_cpp[c["n"]]
            x = self.fresh("e")
            b = b + ["do %s <- vget \"m_elements[]\" %s %s;" % (x, self.fld("vec", st[0]), t)]
            return b, "(%s %s)" % (coq, x), {"time": "time", "opttit": "tit"}[fk]
        if k == "mcall" and self.is_tmap(c["a"][0]):
            m, args = c["n"], c["a"][1:]
            b0, t0, _ = self.E(c["a"][0], st, env)
            if m == "size" and not args:
                return b0, "(List.length %s)" % t0, "nat"
            if m == "begin" and not args:
                return b0, "(mm_begin %s)" % t0, "tit"
            if m == "emplace" and len(args) == 2:
                b1, t1, k1 = self.E(args[0], st, env)
                b2, t2, k2 = self.E(args[1], st, env)
                if (k1, k2) != ("time", "nat"):
                    raise Unsupported("multimap emplace(%s, %s)" % (k1, k2))
                o, ns = self.fresh("o"), self.fresh("s")
                coq = self.kind_field["tmap"]
                b = b0 + b1 + b2 + ["let %s := mm_emplace_z %s %s (%s %s) in" % (o, t1, t2, coq, st[0]),
                                    "let %s := set_%s %s %s in" % (ns, coq, st[0], o)]
                st[0] = ns
                return b, "(Some %s)" % t2, "tit"
            raise Unsupported("m_ttl_list.%s as a value" % m)
        return None

    # ---- statements
    def X_ext(self, c, st, env):
        k = c["k"]
        if k == "mcall" and self.is_tmap(c["a"][0]):
            m, args = c["n"], c["a"][1:]
            if m == "erase" and len(args) == 1:
                b0, t0, _ = self.E(c["a"][0], st, env)
                b1, t1, k1 = self.E(args[0], st, env)
                if k1 != "tit":
                    raise Unsupported("multimap erase(%s)" % k1)
                o, ns = self.fresh("o"), self.fresh("s")
                coq = self.kind_field["tmap"]
                out = b0 + b1 + ["do %s <- ord_erase %s %s;" % (o, t0, t1), "let %s := set_%s %s %s in" % (ns, coq, st[0], o)]
                st[0] = ns
                return out
            if m == "emplace":
                b, _, _ = self.E(c, st, env)      # the returned iterator is discarded
                return b
            raise Unsupported("statement m_ttl_list.%s" % m)
        if ((k == "bin" and c["n"] == "=") or (k == "op" and c["n"] == "operator=")) and c["a"][0]["k"] == "member" \
                and c["a"][0]["n"] in self.ef_by_cpp and self.ef_by_cpp[c["a"][0]["n"]][1] in ("time", "opttit"):
            lhs, rhs = c["a"]
            bo, to, ko = self.E(lhs["a"][0], st, env)
            if ko != "eref":
                raise Unsupported("assignment to a member of %s" % ko)
            b, t, kd = self.E(rhs, st, env)
            fk = self.ef_by_cpp[lhs["n"]][1]
            if (fk, kd) not in (("time", "time"), ("opttit", "tit")):
                raise Unsupported("assignment of %s to element field %s" % (kd, lhs["n"]))
            return bo + b + self.set_elem_field(to, lhs["n"], t, st)
        return None

    def sbind(self, v, st, env):
        # auto& [a, b] = *it;   (by reference only)
        init = v["a"][0] if len(v["a"]) == 1 else None
        if init is None or not v["t"].strip().endswith("&") or init["k"] != "op" or init["n"] != "operator*" or len(v["n"]) != 2:
            raise Unsupported("structured binding %s" % show(v)[:200])
        b, t, kd = self.E(init["a"][0], st, env)
        it = self.fresh("v_sb_")
        lines = b + ["let %s := %s in" % (it, t)]
        if kd == "tit":
            lines.append("do _ <- mm_it_deref %s %s;" % (self.fld("tmap", st[0]), it))
        elif kd == "mit":
            lines.append("do _ <- mit_second %s %s;" % (self.fld("umap", st[0]), it))
        else:
            raise Unsupported("structured binding of * on %s" % kd)
        for i, n in enumerate(v["n"]):
            env[n] = (it, "ref:%s:%d" % (kd, i))
        return lines
