#!/bin/bash
# seed_matrix.sh <seed id> [props...] — run checks against a seeded change in a scratch copy of /repo
# (never touches /repo, /verif/build, /verif/evidence, /verif/replays); prints one line per check.
id=$1; shift
props=${@:-C01 C02 C03 C04 C05 C06 C07 C08 C09 C10 C11 C12 C13 C14 C15 C16 C17 C18 C19 C20}
r=/tmp/seedrepo_$id; b=/tmp/seedbuild_$id; o=/tmp/seedout_$id
rm -rf $r $b $o $o; mkdir -p $r $o && git -C /repo archive HEAD | tar -x -C $r && (cd $r && patch -p1 -s < /verif/seeded/$id/patch.diff) || exit 9
for p in $props; do
  out=$(VERIF_REPO=$r VERIF_BUILD=$b VERIF_OUT=$o /verif/check $p ${TIER:-quick} 2>/dev/null | grep -E "^VIOLATION|^KNOWN" | tr '\n' ';')
  echo "seed=$id check=$p ${out:-pass}"
done
rm -rf $r $b $o
