#!/usr/bin/env python3
"""setup.py — MANIFEST.setup_cmd: build the framework offline from files on disk:
Coq development (full .vo), extraction + OCaml driver, C++ harnesses for the current /repo."""
import os, sys
sys.path.insert(0, os.path.dirname(os.path.abspath(__file__)))
import check

def main():
    with check.Lock():
        ok, lg = check.coq_build()
        print("coq build:", "ok" if ok else "FAILED")
        if not ok:
            print(lg[-4000:])
        ok2, lg2 = check.ensure_driver()
        print("extraction + driver:", "ok" if ok2 else "FAILED")
        if not ok2:
            print(lg2[-4000:])
        ok3, lg3 = check.ensure_harness(check.ALL, san=False)
        print("harness:", "ok" if ok3 else "FAILED")
        if not ok3:
            print(lg3[-4000:])
        ok4, lg4 = check.ensure_harness(check.ALL, san=True)
        print("sanitizer harness:", "ok" if ok4 else "FAILED")
        try:
            import conc_check
            ok5, lg5 = conc_check.setup(check)
            print("concurrency harnesses:", "ok" if ok5 else "FAILED")
            if not ok5:
                print(lg5[-4000:])
        except ImportError:
            ok5 = True
        # tie (g): translate the current source and compile the bridge proofs (cached by content hash);
        # a failure here is not a setup failure, the checks report it as a broken obligation
        import gen_check
        for kd in gen_check.BRIDGES:
            r = gen_check.bridge(kd, check.REPO, check.BUILD, check.COQ)
            print("source translation %s:" % kd, "ok" if r["ok"] else "BROKEN")
    return 0 if (ok and ok2 and ok3 and ok4 and ok5) else 1

if __name__ == "__main__":
    sys.exit(main())
