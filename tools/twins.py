#!/usr/bin/env python3
"""twins.py — differential ("twin") runs on the implementation itself (DESIGN §4 C18/C19/C20):
the code is tested directly against the property, independent of the model.

  C18  instance A driven with range calls, twin B with the expanded single calls at the same
       clock readings: aggregated results and every later result/probe must agree.
  C19  history H versus H with calls WITHOUT effect spliced in (peek lookups, lookups of absent
       keys, rejected inserts, erases of absent keys): results of the shared calls must agree
       (TTL containers: except size()/empty()/clean counts, and comparison stops at an
       update-only insert or an erase addressed to a key that is not live).
  C20  the instance after clear() versus a newly constructed one with the current TTL, same
       continuation.
rr_cache is left to the model (two instances draw different victims).
"""
import random
import monitors

PEEK = {"lru", "mru", "tlru", "utlru", "lfu", "lfuda"}
TTLK = monitors.TTLK
RANGE_OPS = {"insert_range": "insert", "insert_it": "insert", "erase_range": "erase", "erase_it": "erase",
             "find_range": "find", "find_range_fill": "find", "find_it": "find", "find_fill_it": "find"}


def op_line(it, name=None):
    return it["raw"] if name is None else None


def expand_item(it):
    """range op -> list of single-op raw lines"""
    n, now = it["name"], it["now"]
    if n in ("insert_range", "insert_it"):
        return ["op %d insert %d %d %d %d" % (now, t, k, v, it["a"]) for (t, k, v) in it["kvs"]]
    if n in ("erase_range", "erase_it"):
        return ["op %d erase %d" % (now, k) for k in it["keys"]]
    return ["op %d find %d %d" % (now, k, it["peek"]) for k in it["keys"]]


def build_c18(cfg, items):
    """-> (text of twin case, plan) ; plan = list of (A index, [B indices]) for op lines and (A idx, B idx) for probes"""
    lines = [cfg["header"].replace(cfg["id"], cfg["id"] + "~18", 1)]
    plan = []
    bi = 0
    for ai, it in enumerate(items):
        if it["kind"] == "probe":
            lines.append(it["raw"])
            plan.append((ai, [bi]))
            bi += 1
        elif it["name"] in RANGE_OPS:
            ex = expand_item(it)
            lines += ex
            plan.append((ai, list(range(bi, bi + len(ex)))))
            bi += len(ex)
        else:
            lines.append(it["raw"])
            plan.append((ai, [bi]))
            bi += 1
    lines.append("end")
    return "\n".join(lines) + "\n", plan


def compare_c18(cfg, items, bitems, plan):
    """-> list of (A index, message).  TTL containers: a range call over an empty range (or over
    keys that are all absent) still reaps expired entries while zero single calls do not; that
    shows only in size()/empty()/clean counts, which are therefore not compared there."""
    out = []
    ttl = cfg["kind"] in TTLK
    for ai, bis in plan:
        a = items[ai]
        if any(b >= len(bitems) for b in bis):
            out.append((ai, "twin output missing"))
            break
        bouts = [bitems[b]["out"] for b in bis]
        if a["kind"] == "probe" or a["name"] not in RANGE_OPS:
            if ttl and a["kind"] == "op" and a["name"] in ("size", "empty", "clean"):
                continue
            x, y = (strip_size(a["out"]), strip_size(bouts[0])) if (ttl and a["kind"] == "probe") else (a["out"], bouts[0])
            if x != y:
                out.append((ai, "%s: range-driven instance reports %s, singles-driven twin reports %s" % (a["raw"], a["out"], bouts[0])))
                break
            continue
        n = a["name"]
        if RANGE_OPS[n] in ("insert", "erase"):
            exp = "n%d" % sum(1 for x in bouts if x == "b1")
            if a["out"] != exp:
                out.append((ai, "%s returned %s but %d of its single calls succeed (%s)" % (a["raw"], a["out"], int(exp[1:]), " ".join(bouts))))
                break
        else:
            exp = "L" + "".join(" %d=%s" % (k, o) for k, o in zip(a["keys"], bouts))
            if a["out"] != exp:
                out.append((ai, "%s returned [%s] but the single lookups return [%s]" % (a["raw"], a["out"], exp)))
                break
    return out


def build_c19(cfg, items, rnd, variant=0):
    """splice calls without effect into the history, chosen from what A's own probes show.
    -> (text, plan: list of (A idx, B idx)), or None if nothing could be spliced"""
    kind = cfg["kind"]
    lines = [cfg["header"].replace(cfg["id"], cfg["id"] + "~19_%d" % variant, 1)]
    plan = []
    bi = 0
    written = set()
    density = [0.45, 0.8, 0.25][variant % 3]
    spliced = 0
    last_probe = None
    for ai, it in enumerate(items):
        lines.append(it["raw"])
        plan.append((ai, bi))
        bi += 1
        if it["kind"] == "op":
            if it["name"] == "insert":
                written.add(it["k"])
            if it["name"] in ("insert_range", "insert_it"):
                written.update(k for (_, k, _) in it["kvs"])
            continue
        pr = monitors.parse_probe(it["out"])
        if pr is None or rnd.random() > density:
            continue
        now = it["now"]
        live = [k for k, v in pr["view"].items() if v is not None]
        never = [k for k in cfg["universe"] if k not in written]
        absent = [k for k, v in pr["view"].items() if v is None]
        cands = []
        if kind in PEEK and live:
            cands.append("op %d find %d 1" % (now, rnd.choice(live)))
            if kind in ("lfu", "lfuda"):
                cands.append("op %d find_use %d 1" % (now, rnd.choice(live)))
            cands.append("op %d find_range 1 2 %d %d" % (now, rnd.choice(live), rnd.choice(live)))
        if absent:
            cands.append("op %d find %d 0" % (now, rnd.choice(absent)))        # a miss (TTL: may reap an expired entry)
        if never:
            cands.append("op %d erase %d" % (now, rnd.choice(never)))           # erase of an absent key
            cands.append("op %d insert 1 %d 999 2" % (now, rnd.choice(never)))  # update-only insert of an absent key: rejected
        elif absent and kind not in TTLK:
            cands.append("op %d erase %d" % (now, rnd.choice(absent)))
            cands.append("op %d insert 1 %d 999 2" % (now, rnd.choice(absent)))
        if live:
            cands.append("op %d insert 1 %d 998 1" % (now, rnd.choice(live)))   # insert-only on a live key: rejected
        if not cands:
            continue
        for c in rnd.sample(cands, k=min(len(cands), rnd.choice([1, 1, 2]))):
            lines.append(c)
            bi += 1
            spliced += 1
    lines.append("end")
    if not spliced:
        return None
    return "\n".join(lines) + "\n", plan


def strip_size(probe_out):
    w = probe_out.split()
    return " ".join(w[3:]) if w and w[0] == "P" else probe_out


def compare_c19(cfg, items, bitems, plan):
    kind = cfg["kind"]
    ttl = kind in TTLK
    out = []
    last_view = None
    for ai, bi in plan:
        a = items[ai]
        if bi >= len(bitems):
            out.append((ai, "twin output missing"))
            break
        b = bitems[bi]
        if a["kind"] == "probe":
            x, y = (strip_size(a["out"]), strip_size(b["out"])) if ttl else (a["out"], b["out"])
            if x != y:
                out.append((ai, "after calls without effect were spliced in, %s observes [%s] instead of [%s]" % (a["raw"], b["out"], a["out"])))
                break
            last_view = monitors.parse_probe(a["out"])
            continue
        n = a["name"]
        if ttl:
            if n in ("size", "empty", "clean"):
                continue
            if n == "erase" or (n == "insert" and a["a"] == 2) or n in ("erase_range", "erase_it") or \
                    (n in ("insert_range", "insert_it") and a["a"] == 2):
                keys = [a["k"]] if n in ("erase", "insert") else (a["keys"] if "keys" in a else [k for (_, k, _) in a["kvs"]])
                if last_view is None or any(last_view["view"].get(k) is None for k in keys):
                    break   # addressed to a key that is not live: the property allows the histories to part here
        if a["out"] != b["out"]:
            out.append((ai, "after calls without effect were spliced in, %s returns %s instead of %s" % (a["raw"], b["out"], a["out"])))
            break
    return out


def build_c20(cfg, items):
    """one twin per clear(): fresh container with the TTL configured at that point, same continuation.
    -> list of (text, plan)"""
    res = []
    cur_ttl = cfg["ttl"]
    for i, it in enumerate(items):
        if it["kind"] != "op":
            continue
        if it["name"] == "update_ttl":
            cur_ttl = it["ttl"]
        if it["name"] == "clear" and it["out"] == "u":
            w = cfg["header"].split()
            w[1] = "%s~20_%d" % (cfg["id"], i)
            w[7] = str(cur_ttl)
            lines = [" ".join(w)]
            plan = []
            bi = 0
            for aj in range(i + 1, len(items)):
                lines.append(items[aj]["raw"])
                plan.append((aj, bi))
                bi += 1
            lines.append("end")
            if plan:
                res.append(("\n".join(lines) + "\n", plan))
    return res


def compare_c20(cfg, items, bitems, plan):
    out = []
    for ai, bi in plan:
        if bi >= len(bitems):
            out.append((ai, "twin output missing"))
            break
        if items[ai]["out"] != bitems[bi]["out"]:
            out.append((ai, "after clear(), %s returns %s; on a newly constructed container it returns %s" % (
                items[ai]["raw"], items[ai]["out"], bitems[bi]["out"])))
            break
    return out
