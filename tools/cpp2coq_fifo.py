"""cpp2coq_fifo.py — family module of tools/cpp2coq.py for fifo_cache.hpp.

State record: fifol of coq/FifoLit.v.  What differs from the lru family, and the rules added here:

  std::list<element> m_fifo_list      the element lives IN the list node: the list is the sequence of node
                                      identities (fl_list), node n's element is fl_cells[n]
    *it            (list iterator)  -> l_deref list it          : element& = the node identity (kind eref)
    e.m_x          (element&)        -> vget "list node" fl_cells e, then the field (base rule, label from the schema)
    list.size()                      -> List.length
    list.back()                      -> l_back list              : element& = the identity of the last node (kind eref)
    it->m_x        (list iterator)  -> (*it).m_x
  unordered_map<key, fifo_iterator>   the record keeps the node n of the mapped iterator It n
    it->second                       -> mit_second index it, read as the list iterator (It n)
    map.emplace(key, list iterator)  -> iter_node (End is not representable: UB, conservative), then umap_emplace
  std::optional<keyed_iterator> m_keyed_position   kept as option K (None = nullopt, Some k = engaged, node of k)
    o.has_value()                    -> opt_has_value o
    o.value()                        -> opt_value o  (bad_optional_access reported as UB), the iterator is (Some k)
    o = std::nullopt                 -> field := None
    bool(o)  (contextual / explicit operator bool)  -> opt_has_value o   ([optional.observe]: same as has_value())
    *o                               -> opt_value o  (undefined on a disengaged optional: UB), the iterator is (Some k)
    o.reset()                        -> field := None   ([optional.mod]: same effects as o = std::nullopt)
  std::optional<value_type> as a value
    std::optional<value_type>{x}     -> the converting construction from x (Some x; a copy for an optional x)
    std::optional<value_type>{}      -> None
    std::nullopt converted to std::optional<value_type>  -> None
  if (init; cond) A else B           -> { init; if (cond) A else B }   ([stmt.if]; a condition that is a declaration
                                        `T x = e` is the init-statement `T x = e;` with the condition `x`)
    o = <index iterator>             -> mit_engage it (end() not representable: UB, conservative), field := that
  iterator-pair overloads  f(iterator begin, iterator end, ...)
    the pair (begin, end) of input iterators is ONE list parameter (named after begin); the overload is named f/iter
    std::begin(r), std::end(r) as adjacent arguments of a call  -> the list r
    std::size(r)                     -> List.length r
    while (begin != end) { body; ++begin; }   -> foldM over the list; inside the body *begin is the current item,
        begin cannot be used otherwise, end not at all; after the loop neither can be used.  Required shape:
        condition exactly begin != end, last statement exactly ++begin, no other write to begin / end, no
        return / break, not nested in another loop.  Anything else: Unsupported.
    auto& [a, b] = *begin            -> let '(a, b) := item; for a range that is filled (find_range_fill) the
        names alias the item, and the (possibly assigned) pair is what the iteration leaves in the range
    std::for_each(begin, end, f), f a local lambda  -> that loop, with the body of f as body and its parameter bound to *begin
    f(std::begin(r), std::end(r));  as a statement, r the range parameter to fill, f a void member filling its range
        -> the call; r then holds what the translation of f returns (same as `return f(...);` in a void function)
"""
import re
import cpp2coq
from cpp2coq import Unsupported, show, has_return

INST = '''template class cappuccino::%(cls)s<KeyT, ValT, cappuccino::thread_safe::yes>;
using C = cappuccino::%(cls)s<KeyT, ValT, cappuccino::thread_safe::yes>;
void use_all(C& c) {
  std::vector<std::pair<KeyT, ValT>> kv; c.insert_range(std::move(kv), cappuccino::allow::insert_or_update);
  std::vector<KeyT> ks; c.erase_range(ks); c.find_range(ks);
  std::vector<std::pair<KeyT, std::optional<ValT>>> fill; c.find_range_fill(fill);
}'''

cpp2coq.SCHEMA["fifo_cache"] = dict(
    module="GenFifo", requires=["Capp.Base", "Capp.Rr", "Capp.ListCache", "Capp.RrLit", "Capp.LruLit", "Capp.FifoLit"],
    inst=INST,
    state="fifol", state_args="K V", elem="fcell", elem_args="K V", cap="fl_cap", elem_label="list node",
    ctor=True, cells="fl_cells", elem_default="{| fc_keyed := None; fc_val := None |}",
    fields=[("fl_cap", None, "cap"), ("fl_list", "m_fifo_list", "list"), ("fl_cells", None, "vec"),
            ("fl_index", "m_keyed_elements", "umap"), ("fl_used", "m_used_size", "nat")],
    elem_fields=[("fc_keyed", "m_keyed_position", "optmit"), ("fc_val", "m_value", "optval")],
    methods=["do_insert", "do_update", "do_erase", "do_insert_update", "do_find",
             "insert/3", "insert/iter", "insert_range", "erase/1", "erase/iter", "erase_range",
             "find/1", "find/iter", "find_range", "find_range_fill/iter", "find_range_fill/1",
             "empty", "size", "capacity"],
)

RANGES = ("kvrange", "krange", "fillrange")
ITEM = {"kvrange": "kvitem", "krange": "key", "fillrange": "fillitem"}
ITEM_PARTS = {"kvitem": ["key", "val"], "fillitem": ["key", "optval"]}
ITER_RE = re.compile(r"^__gnu_cxx::__normal_iterator<.*\*, (std::vector<.*>)>$")


def range_of(kd, what):
    """kd = '<range kind>:<what>' -> the range kind, else None"""
    if isinstance(kd, str) and kd.endswith(":" + what) and kd[:-len(what) - 1] in RANGES:
        return kd[:-len(what) - 1]
    return None


class Ext(cpp2coq.Tr):
    COQTY = dict(cpp2coq.Tr.COQTY)

    def __init__(self, cls, methods):
        super().__init__(cls, methods)
        # overloads: the iterator-pair overload of f is f/iter, the others f/<number of parameters>
        self.methods = {}
        for name, bodies in methods.items():
            if name.startswith("__"):
                continue
            if len(bodies) == 1:
                self.methods[name] = bodies
                continue
            for b in bodies:
                key = "%s/iter" % name if self.pairs(b[0]) else "%s/%d" % (name, len(b[0]))
                if key in self.methods:
                    raise Unsupported("overloads of %s that the naming scheme does not tell apart" % name)
                self.methods[key] = [b]
        self.fill_alias = None

    # ---- types
    def akind_ext(self, t, param):
        m = ITER_RE.match(t)
        if m:
            return self.akind(m.group(1), True) + ":iter"
        if t.endswith("fifo_iterator"):
            return "liter"
        if t.startswith("std::_List_iterator<") or t.startswith("std::_List_const_iterator<"):
            return "liter"
        if t.startswith("std::__detail::_Node_iterator<") or t.startswith("std::__detail::_Node_const_iterator<") \
                or t.endswith("keyed_iterator") or (t.startswith("std::unordered_map<") and t.endswith(">::iterator")):
            return "mit"          # (its value type mentions the list iterator it maps to)
        return None

    # ---- parameters: an adjacent pair of input iterators of the same range type is one list
    def pairs(self, ps):
        out, i = [], 0
        while i < len(ps):
            t = ps[i][1].replace("const ", "").strip()
            if ITER_RE.match(t):
                if i + 1 < len(ps) and ps[i + 1][1] == ps[i][1]:
                    out.append(i)
                    i += 2
                    continue
                raise Unsupported("an input iterator parameter that is not one of a (begin, end) pair")
            i += 1
        return out

    def params(self, m):
        ps, _, _ = self.methods[m][0]
        firsts = self.pairs(ps)
        out, i = [], 0
        while i < len(ps):
            if i in firsts:
                kd = self.akind(ps[i][1], True)
                out.append(((ps[i][0], ps[i + 1][0]), range_of(kd, "iter")))
                i += 2
            else:
                out.append(((ps[i][0],), self.akind(ps[i][1], True)))
                i += 1
        return out

    def bind_param(self, env, names, x, kd):
        if len(names) == 2:
            env[names[0]] = (x, kd + ":begin")
            env[names[1]] = (x, kd + ":end")
        else:
            env[names[0]] = (x, kd)

    # ---- calls: adjacent (begin of r, end of r) arguments are the one list r
    def call_method(self, m, args, st, env):
        ev = []
        for a in args:
            ev.append(self.E(a, st, env))
        b, ts, ks, merged, i = [], [], [], False, 0
        while i < len(ev):
            bb, t, k = ev[i]
            kr = range_of(k, "begin")
            if kr is not None:
                if i + 1 < len(ev) and ev[i + 1][2] == kr + ":end" and ev[i + 1][1] == t:
                    b += bb + ev[i + 1][0]
                    ts.append(t)
                    ks.append(kr)
                    merged = True
                    i += 2
                    continue
                raise Unsupported("a begin iterator passed without the end of the same range")
            if range_of(k, "end") is not None:
                raise Unsupported("an end iterator passed without the begin of the same range")
            b += bb
            ts.append(t)
            ks.append(k)
            i += 1
        if merged:
            m = "%s/iter" % m
            if m not in self.methods:
                raise Unsupported("call of %s: no such translated method" % m)
        else:
            m = self.pick(m, len(args))
        if m in self.sc["methods"]:
            self.calls.setdefault(self.cur, set()).add(m)
        pk, rk = self.sig(m)
        if len(pk) != len(ks):
            raise Unsupported("%d arguments for the %d parameters of %s" % (len(ks), len(pk), m))
        for k, kd in zip(ks, pk):
            if k != kd:
                raise Unsupported("argument kind %s for parameter kind %s of %s" % (k, kd, m))
        ns = self.fresh("s")
        if rk == "unit":
            b.append("do %s <- %s %s %s;" % (ns, self.callee(m), st[0], " ".join(ts)))
            st[0] = ns
            return b, "tt", "unit"
        r, x = self.fresh("r"), self.fresh("x")
        b.append("do %s <- %s %s %s;" % (x, self.callee(m), st[0], " ".join(ts)))
        b.append("let '(%s, %s) := %s in" % (ns, r, x))
        st[0] = ns
        return b, r, rk

    # ---- expressions
    def E_ext(self, c, st, env):
        k = c["k"]
        if k == "ref" and c["n"] == "nullopt" and "nullopt_t" in c["t"]:
            return [], "None", "nullopt"
        if k == "op" and c["n"] in ("operator==", "operator!=") and len(c["a"]) == 2:
            # o == std::nullopt is !o.has_value(), o != std::nullopt is o.has_value() (either order)
            ks = [self.E(x, [st[0]], env) for x in c["a"]]
            kinds = [x[2] for x in ks]
            if sorted(kinds) == ["nullopt", "optmit"]:
                b, t, _ = ks[kinds.index("optmit")]
                tm = "(opt_has_value %s)" % t
                return b, tm if c["n"] == "operator!=" else "(negb %s)" % tm, "bool"
        if k == "call" and c["n"] in ("begin", "end", "size") and len(c["a"]) == 1:
            b, t, kd = self.E(c["a"][0], st, env)
            if kd not in RANGES:
                raise Unsupported("std::%s of %s" % (c["n"], kd))
            if c["n"] == "size":
                return b, "(List.length %s)" % t, "nat"
            return b, t, kd + ":" + c["n"]
        if k == "conv" and c["a"][0]["k"] == "ref" and c["a"][0]["n"] == "nullopt" and "nullopt_t" in c["a"][0]["t"] \
                and c["t"].replace("const ", "").startswith("std::optional<ValT>"):
            return [], "None", "optval"           # std::nullopt as a std::optional<value_type>
        if k == "?CXXTemporaryObjectExpr" and c["t"].replace("const ", "").startswith("std::optional<ValT>") and len(c["a"]) <= 1:
            # std::optional<value_type>{x}: the converting construction from x;  std::optional<value_type>{}: disengaged
            if not c["a"]:
                return [], "None", "optval"
            return self.E(dict(k="conv", t=c["t"], n=None, a=c["a"]), st, env)
        if k == "op" and c["n"] == "operator->" and len(c["a"]) == 1:
            st1 = [st[0]]
            b, t, kd = self.E(c["a"][0], st1, env)
            if kd == "liter":
                # it->m on std::list<element> is (*it).m
                st[0] = st1[0]
                x = self.fresh("d")
                return b + ["do %s <- l_deref %s %s;" % (x, self.fld("list", st[0]), t)], x, "eref"
            return None
        if k == "mcall" and c["n"] == "back" and len(c["a"]) == 1 and c["a"][0]["k"] == "field" \
                and self.f_by_cpp[c["a"][0]["n"]][1] == "list":
            # list.back() on std::list<element>: the element of the last node
            b, t, kd = self.E(c["a"][0], st, env)
            x = self.fresh("bk")
            return b + ["do %s <- l_back %s;" % (x, t)], x, "eref"
        if k == "op" and c["n"] == "operator*" and len(c["a"]) == 1:
            b, t, kd = self.E(c["a"][0], st, env)
            if kd == "optmit":
                # *o on std::optional<keyed_iterator>: undefined when disengaged
                x = self.fresh("k")
                return b + ["do %s <- opt_value %s;" % (x, t)], "(Some %s)" % x, "mit"
            if kd == "liter":
                # *it on std::list<element>: the element of that node
                x = self.fresh("d")
                return b + ["do %s <- l_deref %s %s;" % (x, self.fld("list", st[0]), t)], x, "eref"
            kr = range_of(kd, "cursor")
            if kr is not None:
                # *begin inside  while (begin != end) { ...; ++begin; } : the current item
                return b, t, ITEM[kr]
            raise Unsupported("operator* on %s" % kd)
        if k == "member" and c["n"] == "second":
            b, t, kd = self.E(c["a"][0], st, env)
            if kd == "mit->":
                # the mapped value is a list iterator; the record keeps its node
                x = self.fresh("sec")
                return b + ["do %s <- mit_second %s %s;" % (x, self.fld("umap", st[0]), t)], "(It %s)" % x, "liter"
            raise Unsupported("member second of %s" % kd)
        if k == "member" and c["n"] in self.ef_by_cpp and self.ef_by_cpp[c["n"]][1] == "optmit":
            b, t, kd = self.E(c["a"][0], st, env)
            if kd != "eref":
                raise Unsupported("member %s of %s" % (c["n"], kd))
            x = self.fresh("e")
            return (b + ["do %s <- vget \"%s\" %s %s;" % (x, self.sc["elem_label"], self.fld("vec", st[0]), t)],
                    "(%s %s)" % (self.ef_by_cpp[c["n"]][0], x), "optmit")
        if k == "mcall" and c["a"] and c["a"][0]["k"] != "this":
            m, args = c["n"], c["a"][1:]
            if m in ("has_value", "value", "operator bool") and not args:
                b, t, kd = self.E(c["a"][0], st, env)
                if kd != "optmit":
                    raise Unsupported("%s() on %s" % (m, kd))
                if m in ("has_value", "operator bool"):
                    return b, "(opt_has_value %s)" % t, "bool"
                x = self.fresh("k")
                return b + ["do %s <- opt_value %s;" % (x, t)], "(Some %s)" % x, "mit"
            if m == "size" and not args and c["a"][0]["k"] == "field" and self.f_by_cpp[c["a"][0]["n"]][1] == "list":
                b, t, kd = self.E(c["a"][0], st, env)
                return b, "(List.length %s)" % t, "nat"
            if m == "emplace" and len(args) == 2 and c["a"][0]["k"] == "field" and self.f_by_cpp[c["a"][0]["n"]][1] == "umap":
                b0, t0, k0 = self.E(c["a"][0], st, env)
                b1, t1, k1 = self.E(args[0], st, env)
                b2, t2, k2 = self.E(args[1], st, env)
                if (k1, k2) != ("key", "liter"):
                    raise Unsupported("emplace(%s, %s)" % (k1, k2))
                n, x, ns = self.fresh("n"), self.fresh("ix"), self.fresh("s")
                b = b0 + b1 + b2 + ["do %s <- iter_node %s;" % (n, t2),
                                    "do %s <- umap_emplace (%s %s) %s %s %s;" % (x, self.sc["cap"], st[0], t0, t1, n),
                                    "let %s := set_%s %s %s in" % (ns, self.kind_field["umap"], st[0], x)]
                st[0] = ns
                return b, "(Some %s)" % t1, "emplaced"
        return None

    # ---- expression statements
    def X_ext(self, c, st, env):
        if c["k"] == "op" and c["n"] == "operator=" and c["a"][0]["k"] == "member" \
                and c["a"][0]["n"] in self.ef_by_cpp and self.ef_by_cpp[c["a"][0]["n"]][1] == "optmit":
            lhs, rhs = c["a"]
            bo, to, ko = self.E(lhs["a"][0], st, env)
            if ko != "eref":
                raise Unsupported("assignment to a member of %s" % ko)
            b, t, kd = self.E(rhs, st, env)
            if kd == "nullopt":
                return bo + b + self.set_elem_field(to, lhs["n"], "None", st)
            if kd in ("mit", "emplaced"):
                x = self.fresh("o")
                return bo + b + ["do %s <- mit_engage %s;" % (x, t)] + self.set_elem_field(to, lhs["n"], x, st)
            raise Unsupported("assignment of %s to %s" % (kd, lhs["n"]))
        if c["k"] == "mcall" and c["n"] == "reset" and len(c["a"]) == 1 and c["a"][0]["k"] == "member" \
                and c["a"][0]["n"] in self.ef_by_cpp and self.ef_by_cpp[c["a"][0]["n"]][1] == "optmit":
            # o.reset() is o = std::nullopt
            lhs = c["a"][0]
            bo, to, ko = self.E(lhs["a"][0], st, env)
            if ko != "eref":
                raise Unsupported("reset() of a member of %s" % ko)
            return bo + self.set_elem_field(to, lhs["n"], "None", st)
        if c["k"] == "mcall" and c["a"] and c["a"][0]["k"] == "this":
            # f(std::begin(r), std::end(r));  /  f(r);  as a STATEMENT, r a range parameter of this method that is to be
            # filled and f a void member function that fills the range it is handed (its translation returns the filled
            # range): r now holds what f left in it, which is the observable result of this method (as after a loop over r);
            # r cannot be used again afterwards.  (`return f(...);` in a void function is this statement, then return.)
            args = c["a"][1:]
            rs = [x["n"] for a in args for x in ([a] if a["k"] == "ref" else a["a"] if (a["k"] == "call" and a["n"] in ("begin", "end") and len(a["a"]) == 1) else [])
                  if x["k"] == "ref" and x["n"] in env and env[x["n"]][1] == "fillrange"]
            if rs:
                if len(set(rs)) != 1 or "__fill" in env:
                    raise Unsupported("a call statement that is handed more than one range to fill, or one that was already filled")
                b, t, kd = self.call_method(c["n"], args, st, env)
                if kd != "outvec":
                    raise Unsupported("a range to fill handed to %s, whose translation does not return the filled range" % c["n"])
                env["__fill"] = (t, "outvec")
                env.pop(rs[0])
                return b
        return None

    # ---- statements: the input-iterator loop and structured bindings of its item
    def pair_cond(self, cond, env):
        if cond["k"] == "op" and cond["n"] == "operator!=" and len(cond["a"]) == 2 and all(x["k"] == "ref" for x in cond["a"]):
            bn, en = cond["a"][0]["n"], cond["a"][1]["n"]
            if bn in env and en in env:
                kr = range_of(env[bn][1], "begin")
                if kr is not None and env[en] == (env[bn][0], kr + ":end"):
                    return bn, en, kr
        return None

    def S(self, stmts, st, env, K):
        if stmts and stmts[0]["k"] == "if" and len(stmts[0]["a"]) >= 3 and stmts[0]["a"][0]["k"] == "decls":
            # if (init; cond) A else B  is  { init; if (cond) A else B }
            f = stmts[0]
            blk = dict(k="block", t="", n=None, a=[f["a"][0], dict(f, a=f["a"][1:])])
            return self.S([blk] + stmts[1:], st, env, K)
        if stmts and stmts[0]["k"] == "for" and len(stmts[0]["a"]) == 5 and stmts[0]["a"][0]["k"] == "?None":
            # for (; begin != end; ++begin) { body }  is  while (begin != end) { body; ++begin; }  (no continue in the body:
            # the translator has no rule for `continue` at all)
            f = stmts[0]
            body = f["a"][4] if f["a"][4]["k"] == "block" else dict(k="block", t="", n=None, a=[f["a"][4]])
            w = dict(k="while", t="", n=None, a=[f["a"][2], dict(body, a=body["a"] + [f["a"][3]])])
            if self.pair_cond(w["a"][0], env) is not None:
                return self.S([w] + stmts[1:], st, env, K)
        if stmts and stmts[0]["k"] == "while":
            pc = self.pair_cond(stmts[0]["a"][0], env)
            if pc is not None:
                return self.pair_loop(stmts[0], pc, stmts[1:], [st[0]], dict(env), K)
        if stmts and stmts[0]["k"] == "decls" and any(v["k"] == "sbind" for v in stmts[0]["a"]):
            return self.decomposition(stmts[0], stmts[1:], [st[0]], dict(env), K)
        return super().S(stmts, st, env, K)

    def for_each_over(self, first, last, param, body, visible, env):
        """std::for_each(begin, end, f), (begin, end) the iterator pair of this overload: the loop
        while (begin != end) { <body of f, its parameter bound to *begin>; ++begin; }  (for_each works on copies of the two
        iterators; that begin and end cannot be used after the loop is the stricter reading)"""
        cond = dict(k="op", t="bool", n="operator!=", a=[first, last])
        pc = self.pair_cond(cond, env)
        if pc is not None:
            if pc[2] == "fillrange" and not param[1].strip().endswith("&"):
                raise Unsupported("std::for_each over the range to fill with a lambda that takes its item by value")
            inc = dict(k="op", t="", n="operator++", a=[first])
            return dict(k="while", t="", n=None, a=[cond, dict(k="block", t="", n=None, a=list(body["a"]) + [inc])], item=param[0], visible=visible)
        return super().for_each_over(first, last, param, body, visible, env)

    def decomposition(self, c, rest, st, env, K):
        if len(c["a"]) != 1:
            raise Unsupported("a structured binding among other declarations")
        d = c["a"][0]
        names = list(d["n"])
        if len(d["a"]) != 1 or not names:
            raise Unsupported("structured binding %s" % show(d)[:200])
        b, t, kd = self.E(d["a"][0], st, env)
        parts = ITEM_PARTS.get(kd)
        if parts is None or len(parts) != len(names):
            raise Unsupported("structured binding of %s to %s" % (kd, names))
        if kd == "fillitem":
            # the names must alias the item of the range (auto&), whose assigned value is the result
            if not d["t"].strip().endswith("&"):
                raise Unsupported("structured binding by value of an item of the range to fill")
            self.fill_alias = tuple(names)
        xs = []
        for n, p in zip(names, parts):
            x = self.fresh("v_" + n + "_")
            env[n] = (x, p)
            xs.append(x)
        return "\n".join(b + ["let '(%s) := %s in" % (", ".join(xs), t), self.S(rest, st, env, K)])

    def pair_loop(self, c, pc, rest, st, env, K):
        bn, en, kr = pc
        body = c["a"][1]
        if body["k"] != "block" or not body["a"]:
            raise Unsupported("input-iterator loop without a block body")
        last = body["a"][-1]
        if not (last["k"] == "op" and last["n"] == "operator++" and len(last["a"]) == 1
                and last["a"][0]["k"] == "ref" and last["a"][0]["n"] == bn):
            raise Unsupported("input-iterator loop whose last statement is not ++%s" % bn)
        inner = dict(k="block", t="", n=None, a=body["a"][:-1])
        if has_return(body):
            raise Unsupported("return inside an input-iterator loop")
        wr = self.assigned(inner)
        if bn in wr or en in wr:
            raise Unsupported("input-iterator loop that writes %s / %s other than by the final ++%s" % (bn, en, bn))
        tr = env[bn][0]
        names = sorted(n for n in wr if n in env and self.visible(n, c))
        fill = kr == "fillrange"
        if fill:
            env["__fill"] = ("[]", "outvec")
            names = names + ["__fill"]
        benv, bst = {n: v for n, v in env.items() if self.visible(n, c)}, [self.fresh("s")]
        for n in names:
            benv[n] = (self.fresh("v_" + n.strip("_") + "_"), env[n][1])
        acc_pat = self.tuple_of(bst, benv, names)
        x = self.fresh("item")
        benv[bn] = (x, kr + ":cursor")      # only *begin is meaningful inside the body
        benv.pop(en, None)
        if c.get("item"):
            benv[c["item"]] = (x, ITEM[kr])      # the loop of std::for_each(begin, end, f): the parameter of f is *begin
        self.fill_alias = None

        def done(st_, env_):
            if fill:
                if self.fill_alias is None:
                    raise Unsupported("loop over a range to fill that does not bind its item by auto& [key, value]")
                kn, vn = self.fill_alias
                env_ = dict(env_)
                env_["__fill"] = ("(%s ++ [(%s, %s)])" % (env_["__fill"][0], env_[kn][0], env_[vn][0]), "outvec")
            return "Ok %s" % self.tuple_of(st_, env_, names)
        # the statements of the body, not as a block: the names bound in the body must still be in scope in `done`
        bt = self.S(inner["a"], bst, benv, (done, self.no_return, None))
        self.fill_alias = None
        j, ns = self.fresh("j"), self.fresh("s")
        lines = ["do %s <- foldM (fun acc %s => let '%s := acc in" % (j, x, acc_pat) if names else
                 "do %s <- foldM (fun %s %s =>" % (j, acc_pat, x),
                 bt, ") %s %s;" % (tr, self.tuple_of(st, env, names))]
        for n in names:
            env[n] = (self.fresh("v_" + n.strip("_") + "_"), env[n][1])
        lines.append("let '%s := %s in" % (self.tuple_of([ns], env, names), j) if names else "let %s := %s in" % (ns, j))
        env.pop(bn)     # begin == end now: neither may be used again
        env.pop(en)
        return "\n".join(lines + [self.S(rest, [ns], env, K)])

    # ---- whole method: an input-iterator loop must not sit inside another loop (it would run once per
    #      iteration of the outer loop on an already consumed range)
    def method(self, m, as_lambda=False):
        ps, _, body = self.methods[m][0]
        pnames = set()
        for i in self.pairs(ps):
            pnames.update((ps[i][0], ps[i + 1][0]))

        def walk(c, inloop):
            loop = c["k"] in ("while", "for", "forrange")
            if loop and inloop and c["k"] == "while":
                cond = c["a"][0]
                if any(x["k"] == "ref" and x["n"] in pnames for x in cond["a"]):
                    raise Unsupported("input-iterator loop nested in another loop")
            for x in c["a"]:
                walk(x, inloop or loop)
        walk(body, False)
        return super().method(m, as_lambda=as_lambda)
