"""cpp2coq_utmap.py — the rule table of cpp2coq.py for cappuccino::ut_map (and, through cpp2coq_utset.py, ut_set).

State record: uml K V of coq/UmLit.v
    m_uniform_ttl     -> ul_ttl   : Z (milliseconds; `ms` converts to the nanosecond time points)
    m_keyed_elements  -> ul_map   : list (K * (V * option nat))     std::map<key, keyed_element{m_value, m_ttl_position}>
    m_ttl_list        -> ul_list  : list nat                         the nodes of std::list<ttl_element> in list order
                         ul_nodes : list (nat * tnode)               the ttl_element{m_expire_time, m_keyed_elements_position} of each live node
                         ul_next  : nat                              the next fresh node identity

Kinds added to those of cpp2coq.py:
    time   (Z, ns)     std::chrono::steady_clock::time_point
    durms  (Z, ms)     std::chrono::milliseconds
    kmap               the std::map object          list           the std::list object (order; with ul_nodes / ul_next)
    mit    (option K)  map iterator                 liter (iter)   list iterator
    keref  (K)         keyed_element& : a reference to the mapped object of the map node of that key (bound-checked by map_ref)
    kelem              a LOCAL keyed_element: tracked field by field at translation time (value term or "not yet assigned",
                       m_ttl_position term); reading a field that was never assigned is refused (Unsupported)

Rule table (C++ construct -> primitive):
    now + m_uniform_ttl                              (now + ms ttl)%Z
    a >= b, a > b, a <= b, a < b  on time points     Z.leb / Z.ltb
    m_keyed_elements.find(k) / end() / size() / empty()        mit_find / None / List.length / (length =? 0)
    m_keyed_elements.emplace(k, elem)                map_emplace            (.first = Some k)
    m_keyed_elements.erase(it)                       map_erase_it           (UB: end(), erased node)
    m_keyed_elements.clear()                         []
    it->second  (lvalue)                             map_ref                (UB: end(), erased node)
    r.m_value / r.m_ttl_position  (read)             map_get, then fst / it_load (snd)   (UB: dangling reference, singular iterator)
    r.m_value = v / r.m_ttl_position = it            map_get, setk (with it_store for the iterator)
    m_ttl_list.begin() / end() / splice / std::prev  l_begin / End / l_splice / l_prev   (base translator, LruLit.v)
    ++it  (local list iterator)                      l_next                 (UB: end(), invalid)
    it->m_expire_time / it->m_keyed_elements_position (read)   l_deref, node_get, tn_expire / Some (tn_keyed)
    it->m_expire_time = t                            l_deref, node_get, setk n (set_tn_expire ..)
    m_ttl_list.emplace_back(t, mit)                  mit_key; list ++ [next]; nodes ++ [(next, {t, k})]; next := S next
    m_ttl_list.emplace(m_ttl_list.end(), t, mit)     the same steps (insertion before end() is insertion at the back); its value is
                                                     the iterator to the new node, It next  (any other position is refused)
    m_ttl_list.erase(it)                             l_erase_node; remk n nodes  (UB: end(), invalid)
    m_ttl_list.erase(first, last)                    l_erase_nodes; drop_nodes (UB: not a range of the list)
    m_ttl_list.clear()                               list := []; nodes := []
    T x;  (list iterator / keyed_element)            uninitialised local: a read before an assignment is refused
    keyed_element{[v][, ttl_iterator{}]}  (temporary or initialiser of a local)   the same structure, member by member:
                                                     m_value = v (value-initialised when omitted: no term, reading / storing
                                                     it is refused), m_ttl_position value-initialised = singular (None)
    for (init; cond; inc) body                       whileB (base translator) with fuel  S (length m_ttl_list)
"""
import cpp2coq
from cpp2coq import Unsupported, show

INST = '''template class cappuccino::%(cls)s<KeyT, ValT, cappuccino::thread_safe::yes>;
using C = cappuccino::%(cls)s<KeyT, ValT, cappuccino::thread_safe::yes>;
void use_all(C& c) {
  std::vector<std::pair<KeyT, ValT>> kv; c.insert_range(std::move(kv), cappuccino::allow::insert_or_update);
  std::vector<KeyT> ks; c.erase_range(ks); c.find_range(ks);
  std::vector<std::pair<KeyT, std::optional<ValT>>> fill; c.find_range_fill(fill);
}'''

cpp2coq.SCHEMA["ut_map"] = dict(
    module="GenUtMap", requires=["Capp.Base", "Capp.Rr", "Capp.UtMap", "Capp.RrLit", "Capp.LruLit", "Capp.UmLit"],
    state="uml", state_args="K V", elem="@tnode", elem_args="K", cap=None, clock=True, inst=INST,
    # the store of the list's elements and the counter of node identities belong to the (empty) list
    ctor=True, ctor_also={"ul_list": {"ul_nodes": "[]", "ul_next": "0"}},
    # every loop of the class walks m_ttl_list forward without inserting into it: at most one iteration per node,
    # plus the final evaluation of the condition
    fuel="S (List.length (ul_list %(s)s))",
    valued=True,
    fields=[("ul_ttl", "m_uniform_ttl", "durms"), ("ul_map", "m_keyed_elements", "kmap"), ("ul_list", "m_ttl_list", "list"),
            ("ul_nodes", None, "nodes"), ("ul_next", None, "nextid")],
    elem_fields=[("tn_expire", "m_expire_time", "time"), ("tn_keyed", "m_keyed_elements_position", "key")],
    methods=["do_prune", "do_insert", "do_update", "do_erase", "do_insert_update", "do_find",
             "insert", "insert_range", "erase", "erase_range", "find", "find_range", "find_range_fill",
             "clean_expired_values", "empty", "size", "clear"],
)


class Uninit:
    """a default-initialised local that has not been assigned yet"""
    def __repr__(self):
        return "<uninitialised>"


UNINIT = Uninit()


class Ext(cpp2coq.Tr):
    # ---------------------------------------------------------------- kinds
    def akind_ext(self, t, param):
        if "time_point" in t:
            return "time"
        if t == "std::chrono::milliseconds":
            return "durms"
        if t.endswith("::ttl_iterator"):
            return "liter"
        if (t.startswith("std::map<") and (t.endswith("::iterator") or t.endswith("::const_iterator"))) or \
                ((t.startswith("std::_Rb_tree_iterator<") or t.startswith("std::_Rb_tree_const_iterator<")) and t.endswith(">")):
            return "mit"
        if t.endswith("::keyed_element &"):
            return "keref"
        if t.endswith("::keyed_element"):
            return "kelem"
        return None

    def default_init(self, kd, v):
        if kd == "liter":
            return UNINIT                      # ttl_iterator it;  — singular until assigned
        if kd == "kelem":
            # keyed_element e; — m_value default-initialised (no term: reading it is refused), m_ttl_position singular
            return (UNINIT if self.sc["valued"] else "tt", "None")
        return None

    def tuple_of(self, st, env, names):
        for n in names:
            if not isinstance(env[n][0], str):
                raise Unsupported("the local %s (uninitialised or a structure) flows through a join / loop" % n)
        return super().tuple_of(st, env, names)

    def assigned(self, c, acc=None):
        acc = super().assigned(c, acc)
        # a field of a local structure written inside a branch / loop: the structure would have to flow through the join
        if ((c["k"] == "bin" and c["n"] == "=") or (c["k"] == "op" and c["n"] == "operator=")) and c["a"][0]["k"] == "member" \
                and c["a"][0]["a"][0]["k"] == "ref":
            acc.add(c["a"][0]["a"][0]["n"])
        return acc

    # ---------------------------------------------------------------- helpers
    def m(self, st):
        return "(ul_map %s)" % st[0]

    def l(self, st):
        return "(ul_list %s)" % st[0]

    def nodes(self, st):
        return "(ul_nodes %s)" % st[0]

    def setf(self, f, val, st):
        ns = self.fresh("s")
        line = "let %s := set_%s %s %s in" % (ns, f, st[0], val)
        st[0] = ns
        return [line]

    def keref(self, c, st, env):
        """c as an lvalue of type keyed_element inside the map: (binds, key term), or None"""
        if c["k"] == "ref" and c["n"] in env and env[c["n"]][1] == "keref":
            return [], env[c["n"]][0]
        if c["k"] == "member" and c["n"] == "second" and c["a"][0]["k"] == "op" and c["a"][0]["n"] == "operator->":
            b, t, kd = self.E(c["a"][0]["a"][0], st, env)
            if kd != "mit":
                raise Unsupported("->second on %s" % kd)
            x = self.fresh("kr")
            return b + ["do %s <- map_ref %s %s;" % (x, self.m(st), t)], x
        return None

    def nref(self, c, st, env):
        """c = (it-> ...) on a list iterator: (binds, node identity, element term), or None"""
        if c["k"] == "op" and c["n"] == "operator->" and len(c["a"]) == 1:
            b, t, kd = self.E(c["a"][0], st, env)
            if kd != "liter":
                return None
            n, e = self.fresh("n"), self.fresh("te")
            return b + ["do %s <- l_deref %s %s;" % (n, self.l(st), t),
                        "do %s <- node_get %s %s;" % (e, self.nodes(st), n)], n, e
        return None

    def list_append(self, args, st, env, what):
        """a ttl_element constructed from (t, mit) in a new node at the back of m_ttl_list: (binds, identity of the node)"""
        b1, t1, k1 = self.E(args[0], st, env)
        b2, t2, k2 = self.E(args[1], st, env)
        if (k1, k2) != ("time", "mit"):
            raise Unsupported("list %s(%s, %s)" % (what, k1, k2))
        kk, nid = self.fresh("k"), self.fresh("id")
        out = b1 + b2 + ["do %s <- mit_key %s;" % (kk, t2), "let %s := (ul_next %s) in" % (nid, st[0])]
        out += self.setf("ul_list", "(%s ++ [%s])" % (self.l(st), nid), st)
        out += self.setf("ul_nodes", "(%s ++ [(%s, {| tn_expire := %s; tn_keyed := %s |})])" % (self.nodes(st), nid, t1, kk), st)
        out += self.setf("ul_next", "(S %s)" % nid, st)
        return out, nid

    def list_emplace(self, args, st, env):
        """m_ttl_list.emplace(pos, t, mit) with pos = m_ttl_list.end(): (binds, iterator to the new node)"""
        if len(args) != 3:
            raise Unsupported("list emplace with %d arguments" % len(args))
        b0, t0, k0 = self.E(args[0], st, env)
        if k0 != "liter" or t0 != "End" or b0:
            raise Unsupported("list emplace at a position other than end()")
        out, nid = self.list_append(args[1:], st, env, "emplace(end(), ..)")
        return out, "(It %s)" % nid

    def value_initialised(self, c):
        """c is the value-initialisation of its type (T{} / an omitted member, down to the scalars)"""
        if c["k"] == "?ImplicitValueInitExpr":
            return not c["a"]
        return c["k"] == "init" and all(self.value_initialised(x) for x in c["a"])

    def is_assign(self, c):
        return (c["k"] == "bin" and c["n"] == "=") or (c["k"] == "op" and c["n"] == "operator=" and len(c["a"]) == 2)

    # ---------------------------------------------------------------- expressions
    def E_ext(self, c, st, env):
        k = c["k"]
        if k == "ref" and c["n"] in env and env[c["n"]][0] is UNINIT:
            raise Unsupported("read of the default-initialised local %s before any assignment" % c["n"])
        if k == "init" and c["t"].replace("const ", "").endswith("::keyed_element"):
            # keyed_element{...}: the members in declaration order ([m_value,] m_ttl_position), the omitted ones value-initialised
            want = 2 if self.sc["valued"] else 1
            if len(c["a"]) != want:
                raise Unsupported("keyed_element initialised from %d members" % len(c["a"]))
            b, tv = [], "tt"
            if self.sc["valued"]:
                if self.value_initialised(c["a"][0]):
                    tv = UNINIT        # a value-initialised m_value has no term here: reading or storing it is refused
                else:
                    b, tv, kv = self.E(c["a"][0], st, env)
                    if kv != "val":
                        raise Unsupported("keyed_element with m_value initialised from %s" % kv)
            p = c["a"][-1]
            if not (p["k"] in ("construct", "?CXXTemporaryObjectExpr") and not p["a"]
                    and p["t"].replace("const ", "").endswith("::ttl_iterator")):
                raise Unsupported("keyed_element with m_ttl_position initialised from %s" % show(p)[:160])
            return b, (tv, "None"), "kelem"    # a value-initialised list iterator is singular
        if k == "op" and c["n"] == "operator*" and len(c["a"]) == 1:
            raise Unsupported("operator* (the elements of this class's list are structures: use ->)")
        if k == "op" and c["n"] == "operator+" and len(c["a"]) == 2:
            b1, t1, k1 = self.E(c["a"][0], st, env)
            b2, t2, k2 = self.E(c["a"][1], st, env)
            if (k1, k2) == ("time", "durms"):
                return b1 + b2, "(%s + ms %s)%%Z" % (t1, t2), "time"
            raise Unsupported("operator+ on %s, %s" % (k1, k2))
        if k == "op" and c["n"] in ("operator>=", "operator>", "operator<=", "operator<") and len(c["a"]) == 2:
            b1, t1, k1 = self.E(c["a"][0], st, env)
            b2, t2, k2 = self.E(c["a"][1], st, env)
            if (k1, k2) == ("time", "time"):
                tm = {"operator>=": "(%s <=? %s)%%Z" % (t2, t1), "operator>": "(%s <? %s)%%Z" % (t2, t1),
                      "operator<=": "(%s <=? %s)%%Z" % (t1, t2), "operator<": "(%s <? %s)%%Z" % (t1, t2)}[c["n"]]
                return b1 + b2, tm, "bool"
            raise Unsupported("%s on %s, %s" % (c["n"], k1, k2))
        if k == "member":
            obj = c["a"][0]
            # a field of a local keyed_element
            if obj["k"] == "ref" and obj["n"] in env and env[obj["n"]][1] == "kelem":
                tv, tp = env[obj["n"]][0]
                if c["n"] == "m_value" and self.sc["valued"]:
                    if tv is UNINIT:
                        raise Unsupported("read of the default-initialised m_value of the local %s" % obj["n"])
                    return [], tv, "val"
                raise Unsupported("read of the field %s of the local structure %s" % (c["n"], obj["n"]))
            # a field of a keyed_element of the map
            if c["n"] in ("m_value", "m_ttl_position"):
                kr = self.keref(obj, st, env)
                if kr is not None:
                    b, key = kr
                    e = self.fresh("ke")
                    b = b + ["do %s <- map_get %s %s;" % (e, self.m(st), key)]
                    if c["n"] == "m_value":
                        if not self.sc["valued"]:
                            raise Unsupported("m_value in a class without values")
                        return b, "(fst %s)" % e, "val"
                    p = self.fresh("p")
                    return b + ["do %s <- it_load (snd %s);" % (p, e)], p, "liter"
            if c["n"] == "second":
                kr = self.keref(c, st, env)
                if kr is not None:
                    return kr[0], kr[1], "keref"
            # a field of the ttl_element a list iterator points at
            if c["n"] in ("m_expire_time", "m_keyed_elements_position"):
                nr = self.nref(obj, st, env)
                if nr is not None:
                    b, n, e = nr
                    if c["n"] == "m_expire_time":
                        return b, "(tn_expire %s)" % e, "time"
                    return b, "(Some (tn_keyed %s))" % e, "mit"
            return None
        if k == "mcall" and c["a"][0]["k"] != "this":
            obj, m, args = c["a"][0], c["n"], c["a"][1:]
            if obj["k"] == "field" and self.f_by_cpp.get(obj["n"], (None, None))[1] == "kmap":
                t0 = self.m(st)
                if m == "find" and len(args) == 1:
                    b1, t1, k1 = self.E(args[0], st, env)
                    if k1 != "key":
                        raise Unsupported("map find(%s)" % k1)
                    return b1, "(mit_find %s %s)" % (t0, t1), "mit"
                if m == "end" and not args:
                    return [], "None", "mit"
                if m == "size" and not args:
                    return [], "(List.length %s)" % t0, "nat"
                if m == "empty" and not args:
                    return [], "(List.length %s =? 0)" % t0, "bool"
                if m == "emplace" and len(args) == 2:
                    b1, t1, k1 = self.E(args[0], st, env)
                    b2, t2, k2 = self.E(args[1], st, env)
                    if (k1, k2) != ("key", "kelem"):
                        raise Unsupported("map emplace(%s, %s)" % (k1, k2))
                    tv, tp = t2
                    if tv is UNINIT:
                        raise Unsupported("a keyed_element whose m_value was never assigned is stored in the map")
                    b = b1 + b2 + self.setf("ul_map", "(map_emplace %s %s (%s, %s))" % (t0, t1, tv, tp), st)
                    return b, "(Some %s)" % t1, "emplaced"
                raise Unsupported("map.%s as a value" % m)
            if obj["k"] == "field" and self.f_by_cpp.get(obj["n"], (None, None))[1] == "list" and m in ("back", "front", "size", "empty"):
                raise Unsupported("list.%s" % m)
            if obj["k"] == "field" and self.f_by_cpp.get(obj["n"], (None, None))[1] == "list" and m == "emplace":
                b, t = self.list_emplace(args, st, env)
                return b, t, "liter"
        return None

    # ---------------------------------------------------------------- statements
    def X_ext(self, c, st, env):
        k = c["k"]
        if self.is_assign(c) and c["a"][0]["k"] == "member":
            lhs, rhs = c["a"]
            obj = lhs["a"][0]
            # field of a local keyed_element
            if obj["k"] == "ref" and obj["n"] in env and env[obj["n"]][1] == "kelem":
                b, t, kd = self.E(rhs, st, env)
                tv, tp = env[obj["n"]][0]
                if lhs["n"] == "m_value" and kd == "val" and self.sc["valued"]:
                    env[obj["n"]] = ((t, tp), "kelem")
                    return b
                raise Unsupported("assignment of %s to the field %s of the local structure %s" % (kd, lhs["n"], obj["n"]))
            # field of a keyed_element of the map (the right operand is evaluated first, C++17)
            if lhs["n"] in ("m_value", "m_ttl_position"):
                b, t, kd = self.E(rhs, st, env)
                kr = self.keref(obj, st, env)
                if kr is None:
                    raise Unsupported("assignment to %s" % show(lhs)[:200])
                bk, key = kr
                e = self.fresh("ke")
                if lhs["n"] == "m_value":
                    if kd != "val" or not self.sc["valued"]:
                        raise Unsupported("assignment of %s to m_value" % kd)
                    return b + bk + ["do %s <- map_get %s %s;" % (e, self.m(st), key)] + \
                        self.setf("ul_map", "(setk %s (%s, snd %s) %s)" % (key, t, e, self.m(st)), st)
                if kd != "liter":
                    raise Unsupported("assignment of %s to m_ttl_position" % kd)
                tp = self.fresh("tp")
                return b + bk + ["do %s <- it_store %s;" % (tp, t), "do %s <- map_get %s %s;" % (e, self.m(st), key)] + \
                    self.setf("ul_map", "(setk %s (fst %s, %s) %s)" % (key, e, tp, self.m(st)), st)
            # field of the ttl_element a list iterator points at
            if lhs["n"] == "m_expire_time":
                b, t, kd = self.E(rhs, st, env)
                nr = self.nref(obj, st, env)
                if nr is None or kd != "time":
                    raise Unsupported("assignment to %s" % show(lhs)[:200])
                bn, n, e = nr
                return b + bn + self.setf("ul_nodes", "(setk %s (set_tn_expire %s %s) %s)" % (n, e, t, self.nodes(st)), st)
            raise Unsupported("assignment to %s" % show(lhs)[:200])
        if k == "op" and c["n"] in ("operator++", "operator--") and len(c["a"]) == 1 and c["a"][0]["k"] == "ref":
            n = c["a"][0]["n"]
            if n in env and env[n][1] == "liter":
                b, t, _ = self.E(c["a"][0], st, env)
                x = self.fresh("it")
                y = self.fresh("v_" + n + "_")
                env[n] = (y, "liter")
                return b + ["do %s <- %s %s %s;" % (x, "l_next" if c["n"] == "operator++" else "l_prev", self.l(st), t),
                            "let %s := %s in" % (y, x)]
            raise Unsupported("%s on %s" % (c["n"], n))
        if k == "mcall" and c["a"][0]["k"] == "field":
            obj, m, args = c["a"][0], c["n"], c["a"][1:]
            fk = self.f_by_cpp.get(obj["n"], (None, None))[1]
            if fk == "kmap":
                if m == "erase" and len(args) == 1:
                    b1, t1, k1 = self.E(args[0], st, env)
                    if k1 != "mit":
                        raise Unsupported("map erase(%s)" % k1)
                    x = self.fresh("m")
                    return b1 + ["do %s <- map_erase_it %s %s;" % (x, self.m(st), t1)] + self.setf("ul_map", x, st)
                if m == "clear" and not args:
                    return self.setf("ul_map", "[]", st)
                if m == "emplace":
                    b, _, _ = self.E(c, st, env)       # the returned pair is dropped
                    return b
                raise Unsupported("statement map.%s" % m)
            if fk == "list":
                if m == "emplace_back" and len(args) == 2:
                    return self.list_append(args, st, env, "emplace_back")[0]
                if m == "emplace":
                    return self.list_emplace(args, st, env)[0]       # the returned iterator is dropped
                if m == "erase" and len(args) == 1:
                    b1, t1, k1 = self.E(args[0], st, env)
                    if k1 != "liter":
                        raise Unsupported("list erase(%s)" % k1)
                    x, n, l2 = self.fresh("er"), self.fresh("n"), self.fresh("l")
                    out = b1 + ["do %s <- l_erase_node %s %s;" % (x, self.l(st), t1), "let '(%s, %s) := %s in" % (n, l2, x)]
                    out += self.setf("ul_list", l2, st)
                    out += self.setf("ul_nodes", "(remk %s %s)" % (n, self.nodes(st)), st)
                    return out
                if m == "erase" and len(args) == 2:
                    b1, t1, k1 = self.E(args[0], st, env)
                    b2, t2, k2 = self.E(args[1], st, env)
                    if (k1, k2) != ("liter", "liter"):
                        raise Unsupported("list erase(%s, %s)" % (k1, k2))
                    x, l2, ids = self.fresh("er"), self.fresh("l"), self.fresh("ids")
                    out = b1 + b2 + ["do %s <- l_erase_nodes %s %s %s;" % (x, self.l(st), t1, t2), "let '(%s, %s) := %s in" % (l2, ids, x)]
                    out += self.setf("ul_list", l2, st)
                    out += self.setf("ul_nodes", "(drop_nodes %s %s)" % (ids, self.nodes(st)), st)
                    return out
                if m == "clear" and not args:
                    return self.setf("ul_list", "[]", st) + self.setf("ul_nodes", "[]", st)
                if m == "splice":
                    return None                    # base translator (l_splice on the order of the nodes)
                raise Unsupported("statement list.%s" % m)
        return None
