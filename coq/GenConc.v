(* GenConc.v — the lock-level machine of Conc.v (Section Lin) run on a step function in the
   undefined-behaviour monad: a program whose sequential runs never reach UB and return the
   model's results (what the bridge files prove for the translated source of every container)
   has, in every execution of the lock-level machine, exactly the results of the model run
   over the linearization (the calls in the order of their critical sections). *)
Require Import Capp.Base Capp.RrLit Capp.GenPrims Capp.Conc.
From Coq Require Import List Lia.
Import ListNotations.

Section GenConc.
  Context {S E R : Type}.
  Variable step : S -> E -> res (S * R).     (* one public call of the translated program *)
  Variable dflt : R.

  (* the body of a call as the lock-level machine runs it; the UB case is excluded below *)
  Definition tstep (s : S) (e : E) : S * R :=
    match step s e with Ok x => x | UB _ => (s, dflt) end.

  Lemma seq_results_run_res : forall (l : list (tid * E)) s s' rs,
      run_res step s (map snd l) = Ok (s', rs) ->
      seq_results S E R tstep s l = rs /\
      fold_left (fun st c => fst (tstep st (snd c))) l s = s'.
  Proof.
    induction l as [|[t e] l IH]; intros s s' rs H; simpl in *.
    - inversion H; subst. auto.
    - destruct (step s e) as [[s1 y]|] eqn:E1; simpl in H; [|discriminate].
      destruct (run_res step s1 (map snd l)) as [[s2 ys]|] eqn:E2; simpl in H; [|discriminate].
      inversion H; subst. destruct (IH s1 s' ys E2) as [A B].
      assert (T : tstep s e = (s1, y)) by (unfold tstep; rewrite E1; reflexivity).
      rewrite T. simpl. rewrite A. split; auto.
  Qed.

  (* Whenever the sequential run of the program over the linearized calls is defined, every call of the
     concurrent execution returned exactly what that sequential run returns, and the shared state is
     the one it ends in. *)
  Theorem executions_have_the_results_of_the_sequential_run : forall s0 ex st s' rs,
      mexec S E R tstep (minit S E R s0) ex st ->
      let l := lin S E R tstep s0 (fun _ => None) ex in
      run_res step s0 (map (fun c => snd (fst c)) l) = Ok (s', rs) ->
      map snd l = rs /\ sigma S E R st = s'.
  Proof.
    intros s0 ex st s' rs H l Hr.
    destruct (lin_is_sequential S E R tstep s0 ex st H) as [A B]. fold l in A, B.
    assert (Hm : map (fun c : tid * E * R => snd (fst c)) l = map snd (map fst l)) by (rewrite map_map; reflexivity).
    rewrite Hm in Hr.
    destruct (seq_results_run_res (map fst l) s0 s' rs Hr) as [C D].
    split.
    - rewrite B. exact C.
    - rewrite A. rewrite <- D. clear. generalize s0. induction l as [|c r IH]; intros s; simpl; auto.
  Qed.

  (* with a whole-history theorem of the program (what each bridge proves): the results are the model's *)
  Theorem executions_have_the_results_of_the_model (P : list E -> Prop) (f : list E -> list R) s0 :
      (forall h, P h -> exists s', run_res step s0 h = Ok (s', f h)) ->
      forall ex st, mexec S E R tstep (minit S E R s0) ex st ->
      let l := lin S E R tstep s0 (fun _ => None) ex in
      P (map (fun c => snd (fst c)) l) ->
      map snd l = f (map (fun c => snd (fst c)) l).
  Proof.
    intros Hw ex st H l HP. destruct (Hw _ HP) as [s' Hr].
    exact (proj1 (executions_have_the_results_of_the_sequential_run s0 ex st s' _ H Hr)).
  Qed.
End GenConc.
