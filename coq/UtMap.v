(* UtMap.v — mid-level model (L2) of ut_map and ut_set (ut_set: values are unit-like).

   um_list : m_ttl_list in list order (oldest write first) as key |-> (value, deadline ns);
             the std::map index m_keyed_elements is [assoc] on it.
   Every public mutator/lookup first runs do_prune(now): erase the longest prefix
   of the list whose deadlines are <= now.  size()/empty() do not prune. *)
Require Import Capp.Base.

Section UtMap.
  Context {K V : Type} `{EqDec K}.

  Record um := { um_ttl : Z; um_list : list (K * (V * Z)) }.

  Definition um_init (ttl : Z) : um := {| um_ttl := ttl; um_list := [] |}.
  Definition um_with (s : um) (l : list (K * (V * Z))) : um := {| um_ttl := um_ttl s; um_list := l |}.

  (* do_prune(now) *)
  Fixpoint um_prune_list (now : Z) (l : list (K * (V * Z))) (n : nat) : list (K * (V * Z)) * nat :=
    match l with
    | [] => ([], n)
    | (k, (v, e)) :: r => if (e <=? now)%Z then um_prune_list now r (S n) else (l, n)
    end.
  Definition um_prune (s : um) (now : Z) : um * nat :=
    let '(l, n) := um_prune_list now (um_list s) 0 in (um_with s l, n).

  (* do_insert_update(key, value, expire_time, allow) — no purge inside *)
  Definition um_ins (s : um) (k : K) (v : V) (a : allow) (e : Z) : um * bool :=
    match assoc k (um_list s) with
    | Some _ => if a_upd a then (um_with s (remk k (um_list s) ++ [(k, (v, e))]), true) else (s, false)
    | None => if a_ins a then (um_with s (um_list s ++ [(k, (v, e))]), true) else (s, false)
    end.

  Definition um_erase (s : um) (k : K) : um * bool :=
    match assoc k (um_list s) with
    | Some _ => (um_with s (remk k (um_list s)), true)
    | None => (s, false)
    end.

  Definition um_find (s : um) (k : K) : option V :=
    match assoc k (um_list s) with Some (v, _) => Some v | None => None end.

  Fixpoint um_ins_range (s : um) (l : list (Z * K * V)) (a : allow) (e : Z) (n : nat) : um * nat :=
    match l with
    | [] => (s, n)
    | (_, k, v) :: r => let '(s1, b) := um_ins s k v a e in um_ins_range s1 r a e (if b then S n else n)
    end.
  Fixpoint um_erase_range (s : um) (l : list K) (n : nat) : um * nat :=
    match l with
    | [] => (s, n)
    | k :: r => let '(s1, b) := um_erase s k in um_erase_range s1 r (if b then S n else n)
    end.

  Definition um_size (s : um) : nat := length (um_list s).

  Definition um_step (s : um) (o : op K V) (now : Z) (rnd : list nat) : um * ret K V :=
    let e := (now + ms (um_ttl s))%Z in
    match o with
    | Insert _ k v a => let s0 := fst (um_prune s now) in
                        let '(s1, b) := um_ins s0 k v a e in (s1, RB b)
    | InsertRange l a => let s0 := fst (um_prune s now) in
                         let '(s1, n) := um_ins_range s0 l a e 0 in (s1, RN n)
    | Erase k => let s0 := fst (um_prune s now) in
                 let '(s1, b) := um_erase s0 k in (s1, RB b)
    | EraseRange l => let s0 := fst (um_prune s now) in
                      let '(s1, n) := um_erase_range s0 l 0 in (s1, RN n)
    | Find k _ => let s0 := fst (um_prune s now) in (s0, RO (um_find s0 k))
    | FindRange l _ => let s0 := fst (um_prune s now) in (s0, RL (map (fun k => (k, um_find s0 k)) l))
    | FindRangeFill l _ => let s0 := fst (um_prune s now) in (s0, RL (map (fun k => (k, um_find s0 k)) l))
    | Clean => let '(s0, n) := um_prune s now in (s0, RN n)
    | Clear => (um_with s [], RUnit)
    | Size => (s, RN (um_size s))
    | Empty => (s, RB (Nat.eqb (um_size s) 0))
    | _ => (s, RUnsupported)
    end.

  (* what a lookup at [now] reports: the purge runs first *)
  Definition um_view (s : um) (now : Z) (k : K) : option V :=
    um_find (fst (um_prune s now)) k.
  Definition um_get (s : um) (k : K) : option (V * dl) :=
    match assoc k (um_list s) with Some (v, e) => Some (v, Some e) | None => None end.
End UtMap.
Arguments um : clear implicits.
