(* C12 FIFO order: the victim is the earliest-inserted entry. *)
Require Import Capp.Base Capp.Spec Capp.ListCache Capp.ListCacheFacts.

(* [created_at] is the position of the insert that created the current entry (a successful
   insert while the key was not resident): updates and lookups never change it, a key that
   was erased or evicted and inserted again counts from its re-insertion. *)
Theorem C12_fifo_victim_is_earliest_inserted :
  forall (K V : Type) (E : EqDec K) cap tr (s : lc K V) k s',
    evicting fifo_policy cap tr s k s' ->
    exists kv, kv <> k /\ lc_get s kv <> None /\ lc_get s' kv = None /\
      (forall k', k' <> k -> k' <> kv -> lc_get s' k' = lc_get s k') /\
      (forall k', lc_get s k' <> None -> k' <> kv ->
                  created_at (lc_model fifo_policy) kv tr < created_at (lc_model fifo_policy) k' tr).
Proof. exact @fifo_victim_earliest_inserted. Qed.
Print Assumptions C12_fifo_victim_is_earliest_inserted.
