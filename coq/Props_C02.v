(* C02 Capacity bound and truthful size()/empty()/capacity(). *)
Require Import Capp.Base Capp.Spec Capp.Generic Capp.Container Capp.AllKinds Capp.Lift.
Require Import Capp.UtMap Capp.UtMapFacts.

(* After every prefix of every history: capacity() is the constructor argument, size() <=
   capacity() (the eight caches), empty() <-> size() = 0, size() counts each resident key
   once, and size() = (#keys a lookup finds) + (#expired entries not yet removed).  For the
   non-TTL caches nothing is ever expired, so size() is the number of keys a lookup finds. *)
Theorem C02_observers_truthful :
  forall (K V : Type) (E : EqDec K) (kd : kind) (cfg : config), valid_config kd cfg ->
  forall tr t s now rnd,
    wruns (kind_model (K:=K) (V:=V) kd) 0 (kind_init kd cfg) tr t s ->
    let M := kind_model (K:=K) (V:=V) kd in
    m_cap M s = m_cap M (kind_init kd cfg) /\
    (m_bounded M = true -> m_size M s <= m_cap M (kind_init kd cfg)) /\
    m_step M s Size now rnd = (s, RN (m_size M s)) /\
    m_step M s Empty now rnd = (s, RB (Nat.eqb (m_size M s) 0)) /\
    (m_bounded M = true -> m_step M s Capacity now rnd = (s, RN (m_cap M (kind_init kd cfg)))) /\
    m_size M s = length (m_keys M s) /\ NoDup (m_keys M s) /\
    (forall k, In k (m_keys M s) <-> m_get M s k <> None) /\
    length (filter (liveb M s now) (m_keys M s)) + length (filter (deadb M s now) (m_keys M s))
    = m_size M s.
Proof. intros K V E kd cfg Hv. exact (L_observers kd cfg Hv). Qed.
Print Assumptions C02_observers_truthful.

(* the live keys are exactly the keys a lookup finds *)
Theorem C02_live_keys_are_found :
  forall (K V : Type) (E : EqDec K) (kd : kind) (cfg : config), valid_config kd cfg ->
  forall tr t s now k,
    wruns (kind_model (K:=K) (V:=V) kd) 0 (kind_init kd cfg) tr t s -> (t <= now)%Z ->
    (liveb (kind_model kd) s now k = true <-> m_view (kind_model kd) s now k <> None).
Proof. intros K V E kd cfg Hv. exact (L_live_found kd cfg Hv). Qed.
Print Assumptions C02_live_keys_are_found.

(* non-TTL containers have no deadlines, so no resident entry is ever "expired" *)
Theorem C02_non_ttl_nothing_expires :
  forall (K V : Type) (E : EqDec K) (kd : kind) ttl now (s : St (kind_model (K:=K) (V:=V) kd)),
    match kd with KTlru | KUtlru | KUtMap | KUtSet => True
             | _ => m_dl (kind_model kd) s ttl now = None end.
Proof. intros K V E kd ttl now s. destruct kd; exact I || reflexivity. Qed.
Print Assumptions C02_non_ttl_nothing_expires.

(* ut_map / ut_set with TTL > 0: immediately after any insert, erase, lookup or clean call
   every resident entry is live, so size() is the number of live keys *)
Theorem C02_utmap_size_is_live_count :
  forall (K V : Type) (E : EqDec K) t (s : um K V) o now rnd s' r,
    um_inv t s -> (t <= now)%Z -> (0 < um_ttl s)%Z -> purging o = true ->
    um_step s o now rnd = (s', r) ->
    forall x, In x (um_list s') -> (now < um_dl x)%Z.
Proof. exact @um_all_live_after. Qed.
Print Assumptions C02_utmap_size_is_live_count.

(* KNOWN FINDING F7: with TTL 0 the statement fails: the entry is dead at once, size() = 1 *)
Theorem C02_utmap_ttl0_refuted :
  let s0 := um_init (K := Z) (V := Z) 0 in
  let s1 := fst (um_step s0 (Insert 0 1 7 {| a_ins := true; a_upd := true |})%Z 5%Z []) in
  um_size s1 = 1 /\ um_view s1 5%Z 1%Z = None.
Proof. exact um_ttl0_size_counts_dead_refuted. Qed.
Print Assumptions C02_utmap_ttl0_refuted.
