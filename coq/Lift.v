(* Lift.v — the generic theorems of Generic.v instantiated for each of the ten container
   kinds, from the freshly constructed container of a valid configuration. *)
Require Import Capp.Base Capp.Spec Capp.Generic Capp.Container Capp.AllKinds.

Section Lift.
  Context {K V : Type} `{EqDec K}.
  Variables (kd : kind) (cfg : config).
  Hypothesis Hv : valid_config kd cfg.

  Notation M := (@kind_model K V _ kd).
  Notation s0 := (@kind_init K V _ kd cfg).
  Notation G := (m_get M).

  Lemma Hi : m_inv M 0 s0.
  Proof. exact (kind_init_inv kd cfg Hv). Qed.
  Lemma He : forall k, G s0 k = None.
  Proof. exact (kind_init_empty kd cfg). Qed.

  Lemma L_inv : forall tr t s, wruns M 0 s0 tr t s -> m_inv M t s /\ m_cap M s = m_cap M s0.
  Proof. intros; eapply inv_run; try apply kind_ok; eauto using Hi, He. Qed.

  Lemma L_hit : forall tr t s k pk now rnd s' v,
      wruns M 0 s0 tr t s -> (t <= now)%Z -> m_rnd_ok M s rnd ->
      m_step M s (Find k pk) now rnd = (s', RO (Some v)) ->
      exists d, lastw M k tr = Some (v, d) /\ alive now d = true.
  Proof. intros; eapply hit_reports_latest_write; try apply kind_ok; eauto using Hi, He. Qed.

  Lemma L_hit_use : forall tr t s k pk now rnd s' v c,
      wruns M 0 s0 tr t s -> (t <= now)%Z -> m_rnd_ok M s rnd ->
      m_step M s (FindUse k pk) now rnd = (s', RU (Some (v, c))) ->
      exists d, lastw M k tr = Some (v, d) /\ alive now d = true.
  Proof. intros; eapply hit_use_reports_latest_write; try apply kind_ok; eauto using Hi, He. Qed.

  Lemma L_no_write_no_hit : forall tr t s k pk now rnd s' r,
      wruns M 0 s0 tr t s -> (t <= now)%Z -> m_rnd_ok M s rnd ->
      lastw M k tr = None -> m_step M s (Find k pk) now rnd = (s', r) -> r = RO None.
  Proof. intros; eapply no_write_no_hit; try apply kind_ok; eauto using Hi, He. Qed.

  Lemma L_expired : forall tr t s k pk now rnd s' r w d,
      wruns M 0 s0 tr t s -> (t <= now)%Z -> m_rnd_ok M s rnd ->
      lastw M k tr = Some (w, Some d) -> (d <= now)%Z ->
      m_step M s (Find k pk) now rnd = (s', r) -> r = RO None.
  Proof. intros; eapply expired_never_served; try apply kind_ok; eauto using Hi, He. Qed.

  Lemma L_served : forall tr t s k v d pk now rnd s' r,
      wruns M 0 s0 tr t s -> (t <= now)%Z -> m_rnd_ok M s rnd ->
      G s k = Some (v, d) -> alive now d = true ->
      m_step M s (Find k pk) now rnd = (s', r) ->
      r = RO (Some v) /\ lastw M k tr = Some (v, d) /\ G s' k = Some (v, d).
  Proof. intros; eapply stored_entry_served_until_deadline; try apply kind_ok; eauto using Hi, He. Qed.

  Lemma L_retention : forall tr t s o now rnd s' r k,
      wruns M 0 s0 tr t s ->
      single o = true -> (t <= now)%Z -> m_rnd_ok M s rnd -> m_step M s o now rnd = (s', r) ->
      touches o k = false -> livek (G s) now k ->
      G s' k = G s k \/
      (G s' k = None /\ m_bounded M = true /\
       (exists ttl k0 v a, o = Insert ttl k0 v a /\ r = RB true /\ G s k0 = None /\ k0 <> k) /\
       m_size M s = m_cap M s /\ m_size M s' = m_cap M s /\
       (forall k'', ~ deadk (G s) now k'') /\
       (forall k'', touches o k'' = false -> lost_live (G s) (G s') now k'' -> k'' = k)).
  Proof. intros; eapply retention; try apply kind_ok; eauto using Hi, He. Qed.

  Lemma L_exactly_one : forall tr t s ttl k v a now rnd s',
      m_bounded M = true -> wruns M 0 s0 tr t s ->
      (t <= now)%Z -> m_rnd_ok M s rnd ->
      m_step M s (Insert ttl k v a) now rnd = (s', RB true) ->
      G s k = None -> m_size M s = m_cap M s ->
      m_size M s' = m_cap M s /\
      exists kv, kv <> k /\ G s kv <> None /\ G s' kv = None /\
        (forall k', k' <> k -> k' <> kv -> G s' k' = G s k').
  Proof. intros; eapply full_insert_removes_exactly_one; try apply kind_ok; eauto using Hi, He. Qed.

  Lemma L_unbounded : forall tr t s o now rnd s' r k,
      m_bounded M = false -> wruns M 0 s0 tr t s ->
      single o = true -> (t <= now)%Z -> m_rnd_ok M s rnd -> m_step M s o now rnd = (s', r) ->
      touches o k = false -> livek (G s) now k -> G s' k = G s k.
  Proof. intros; eapply unbounded_never_evicts; try apply kind_ok; eauto using Hi, He. Qed.

  Lemma L_not_full : forall tr t s o now rnd s' r k,
      wruns M 0 s0 tr t s ->
      single o = true -> (t <= now)%Z -> m_rnd_ok M s rnd -> m_step M s o now rnd = (s', r) ->
      touches o k = false -> livek (G s) now k -> m_size M s <> m_cap M s -> G s' k = G s k.
  Proof. intros; eapply no_loss_when_not_full; try apply kind_ok; eauto using Hi, He. Qed.

  Lemma L_only_new : forall tr t s o now rnd s' r k,
      wruns M 0 s0 tr t s ->
      single o = true -> (t <= now)%Z -> m_rnd_ok M s rnd -> m_step M s o now rnd = (s', r) ->
      touches o k = false -> livek (G s) now k ->
      (forall ttl k0 v a, o = Insert ttl k0 v a -> r = RB true -> G s k0 <> None) ->
      G s' k = G s k.
  Proof. intros; eapply only_new_key_inserts_evict; try apply kind_ok; eauto using Hi, He. Qed.

  Lemma L_expired_first : forall tr t s o now rnd s' r k kd',
      wruns M 0 s0 tr t s ->
      single o = true -> (t <= now)%Z -> m_rnd_ok M s rnd -> m_step M s o now rnd = (s', r) ->
      touches o k = false -> livek (G s) now k -> deadk (G s) now kd' -> G s' k = G s k.
  Proof. intros; eapply expired_first; try apply kind_ok; eauto using Hi, He. Qed.

  Lemma L_observers : forall tr t s now rnd,
      wruns M 0 s0 tr t s ->
      m_cap M s = m_cap M s0 /\
      (m_bounded M = true -> m_size M s <= m_cap M s0) /\
      m_step M s Size now rnd = (s, RN (m_size M s)) /\
      m_step M s Empty now rnd = (s, RB (Nat.eqb (m_size M s) 0)) /\
      (m_bounded M = true -> m_step M s Capacity now rnd = (s, RN (m_cap M s0))) /\
      m_size M s = length (m_keys M s) /\ NoDup (m_keys M s) /\
      (forall k, In k (m_keys M s) <-> G s k <> None) /\
      length (filter (liveb M s now) (m_keys M s)) + length (filter (deadb M s now) (m_keys M s))
      = m_size M s.
  Proof. intros; eapply observers_truthful; try apply kind_ok; eauto using Hi, He. Qed.

  Lemma L_live_found : forall tr t s now k,
      wruns M 0 s0 tr t s -> (t <= now)%Z ->
      (liveb M s now k = true <-> m_view M s now k <> None).
  Proof. intros; eapply live_keys_are_found; try apply kind_ok; eauto using Hi, He. Qed.

  Lemma L_allow : forall tr t s ttl k v a now rnd s' r,
      wruns M 0 s0 tr t s ->
      (t <= now)%Z -> m_rnd_ok M s rnd -> m_step M s (Insert ttl k v a) now rnd = (s', r) ->
      exists b, r = RB b /\
        (livek (G s) now k -> b = a_upd a) /\
        (G s k = None -> b = a_ins a) /\
        (deadk (G s) now k -> (a_ins a = true -> b = true) /\
                              (b = true -> a_ins a = true \/ a_upd a = true)) /\
        (b = true -> G s' k = Some (v, m_dl M s ttl now)) /\
        (b = false -> keeps (G s) (G s') now k).
  Proof. intros; eapply allow_modes; try apply kind_ok; eauto using Hi, He. Qed.

  Lemma L_ins_or_upd : forall tr t s ttl k v now rnd s' r,
      wruns M 0 s0 tr t s ->
      (t <= now)%Z -> m_rnd_ok M s rnd ->
      m_step M s (Insert ttl k v {| a_ins := true; a_upd := true |}) now rnd = (s', r) ->
      r = RB true.
  Proof. intros; eapply insert_or_update_always_succeeds; try apply kind_ok; eauto using Hi, He. Qed.

  Lemma L_clean : forall tr t s now rnd s' r,
      m_has_clean M = true -> wruns M 0 s0 tr t s ->
      (t <= now)%Z -> m_rnd_ok M s rnd -> m_step M s Clean now rnd = (s', r) ->
      exists n, r = RN n /\ n + m_size M s' = m_size M s /\
        (forall k, deadk (G s) now k -> G s' k = None) /\
        (forall k, ~ deadk (G s) now k -> G s' k = G s k) /\
        (forall k, ~ deadk (G s') now k).
  Proof. intros; eapply clean_removes_exactly_expired; try apply kind_ok; eauto using Hi, He. Qed.

  (* update_ttl and dynamically_age change no stored entry (value or deadline) *)
  Lemma L_updttl_keeps_entries : forall tr t s d now rnd s' r,
      wruns M 0 s0 tr t s -> (t <= now)%Z ->
      m_step M s (UpdateTtl d) now rnd = (s', r) -> forall k, G s' k = G s k.
  Proof. intros tr t s d now rnd s' r Hr Ht Hs. destruct (L_inv _ _ _ Hr) as [Hi' _]. eapply ok_updttl; eauto. Qed.
  Lemma L_dynage_keeps_entries : forall tr t s now rnd s' r,
      wruns M 0 s0 tr t s -> (t <= now)%Z ->
      m_step M s DynAge now rnd = (s', r) -> forall k, G s' k = G s k.
  Proof. intros tr t s now rnd s' r Hr Ht Hs. destruct (L_inv _ _ _ Hr) as [Hi' _]. eapply ok_dynage; eauto. Qed.
End Lift.
