(* ListCache.v — mid-level model (L2) of lru_cache, mru_cache and fifo_cache.
   The used entries as one list, OLDEST FIRST (for lru/mru: least recently used
   first; for fifo: earliest inserted first).

   lru_cache.hpp : used part of m_lru_list is most-recent-first; this list is its reverse.
                   do_access = splice to begin()  -> move to the back here
                   do_prune  = erase back()        -> drop the head here
   mru_cache.hpp : used part [begin, m_mru_end) is least-recent-first = this list.
                   do_access = splice before m_mru_end -> move to the back
                   do_insert claims the node at m_mru_end -> append at the back
                   do_prune  = erase back() (full => m_mru_end = end()) -> drop the last
   fifo_cache.hpp: free nodes are a prefix of m_fifo_list, used nodes follow in
                   insertion order = this list.  do_insert recycles the head node to
                   the tail (evicting its key iff it has one, i.e. iff no free node),
                   do_update writes the value in place, do_erase un-links the node.  *)
Require Import Capp.Base.

Record lc_policy := { lc_touch : bool; lc_victim_back : bool }.
Definition lru_policy  := {| lc_touch := true;  lc_victim_back := false |}.
Definition mru_policy  := {| lc_touch := true;  lc_victim_back := true  |}.
Definition fifo_policy := {| lc_touch := false; lc_victim_back := false |}.

Section ListCache.
  Context {K V : Type} `{EqDec K}.
  Variable p : lc_policy.

  Record lc := { lc_cap : nat; lc_items : list (K * V) }.

  Definition lc_init (cap : nat) : lc := {| lc_cap := cap; lc_items := [] |}.

  Definition lc_with (s : lc) (l : list (K * V)) : lc := {| lc_cap := lc_cap s; lc_items := l |}.

  (* do_find *)
  Definition lc_find (s : lc) (k : K) (peek : bool) : lc * option V :=
    match assoc k (lc_items s) with
    | Some v =>
        ((if lc_touch p && negb peek then lc_with s (remk k (lc_items s) ++ [(k, v)]) else s), Some v)
    | None => (s, None)
    end.

  (* do_prune + the full test of do_insert *)
  Definition lc_evict (s : lc) : list (K * V) :=
    if lc_cap s <=? length (lc_items s)
    then (if lc_victim_back p then removelast (lc_items s) else tl (lc_items s))
    else lc_items s.

  (* do_insert_update *)
  Definition lc_ins (s : lc) (k : K) (v : V) (a : allow) : lc * bool :=
    match assoc k (lc_items s) with
    | Some _ =>
        if a_upd a
        then ((if lc_touch p then lc_with s (remk k (lc_items s) ++ [(k, v)])
               else lc_with s (setk k v (lc_items s))), true)
        else (s, false)
    | None =>
        if a_ins a then (lc_with s (lc_evict s ++ [(k, v)]), true) else (s, false)
    end.

  (* erase(key) *)
  Definition lc_erase (s : lc) (k : K) : lc * bool :=
    match assoc k (lc_items s) with
    | Some _ => (lc_with s (remk k (lc_items s)), true)
    | None => (s, false)
    end.

  (* range bodies: the same helper per element, in iteration order *)
  Fixpoint lc_ins_range (s : lc) (l : list (Z * K * V)) (a : allow) (n : nat) : lc * nat :=
    match l with
    | [] => (s, n)
    | (_, k, v) :: r => let '(s1, b) := lc_ins s k v a in
                        lc_ins_range s1 r a (if b then S n else n)
    end.
  Fixpoint lc_erase_range (s : lc) (l : list K) (n : nat) : lc * nat :=
    match l with
    | [] => (s, n)
    | k :: r => let '(s1, b) := lc_erase s k in lc_erase_range s1 r (if b then S n else n)
    end.
  Fixpoint lc_find_range (s : lc) (l : list K) (peek : bool) : lc * list (K * option V) :=
    match l with
    | [] => (s, [])
    | k :: r => let '(s1, o) := lc_find s k peek in
                let '(s2, os) := lc_find_range s1 r peek in (s2, (k, o) :: os)
    end.

  Definition lc_size (s : lc) : nat := length (lc_items s).

  (* fifo has no peek parameter: its lookups are [peek = true] and never touch *)
  Definition lc_step (s : lc) (o : op K V) (now : Z) (rnd : list nat) : lc * ret K V :=
    match o with
    | Insert _ k v a => let '(s1, b) := lc_ins s k v a in (s1, RB b)
    | InsertRange l a => let '(s1, n) := lc_ins_range s l a 0 in (s1, RN n)
    | Erase k => let '(s1, b) := lc_erase s k in (s1, RB b)
    | EraseRange l => let '(s1, n) := lc_erase_range s l 0 in (s1, RN n)
    | Find k pk => let '(s1, r) := lc_find s k pk in (s1, RO r)
    | FindRange l pk => let '(s1, r) := lc_find_range s l pk in (s1, RL r)
    | FindRangeFill l pk => let '(s1, r) := lc_find_range s l pk in (s1, RL r)
    | Size => (s, RN (lc_size s))
    | Empty => (s, RB (Nat.eqb (lc_size s) 0))
    | Capacity => (s, RN (lc_cap s))
    | _ => (s, RUnsupported)
    end.

  (* side-effect-free observation (what a peek lookup would report) *)
  Definition lc_view (s : lc) (now : Z) (k : K) : option V := assoc k (lc_items s).
  Definition lc_get (s : lc) (k : K) : option (V * dl) :=
    match assoc k (lc_items s) with Some v => Some (v, None) | None => None end.
End ListCache.

Arguments lc : clear implicits.
