(* LruLitFacts.v — C08 for lru_cache and mru_cache: the literal machine (LruLit.v) never
   reaches UB and computes exactly what the mid-level model (ListCache.v) computes. *)
Require Import Capp.Base Capp.Spec Capp.Rr Capp.ListCache Capp.ListCacheFacts Capp.RrLit Capp.LruLit.
From Coq Require Import Strings.String.
From Coq Require Import Permutation.

(* ------------------------------------------------------------------------------------ *)
(* the std::list model on a list  used ++ free  whose partition iterator is begin(free)  *)
(* ------------------------------------------------------------------------------------ *)
Section StlFacts.
  Local Open Scope list_scope.
  Local Open Scope nat_scope.

  Lemma iter_eqb_true a b : iter_eqb a b = true -> a = b.
  Proof.
    destruct a as [x|], b as [y|]; simpl; intros E; try discriminate; auto.
    apply Nat.eqb_eq in E. subst; auto.
  Qed.
  Lemma iter_eqb_refl a : iter_eqb a a = true.
  Proof. destruct a; simpl; auto. apply Nat.eqb_refl. Qed.
  Lemma iter_eqb_neq a b : a <> b -> iter_eqb a b = false.
  Proof.
    intros N. destruct (iter_eqb a b) eqn:E; auto. apply iter_eqb_true in E. contradiction.
  Qed.

  Lemma mem_nat_true n l : mem_nat n l = true <-> In n l.
  Proof.
    induction l as [|x r IH]; simpl.
    - split; [discriminate|tauto].
    - rewrite orb_true_iff, IH, Nat.eqb_eq. split; intros [E|I]; auto.
  Qed.
  Lemma mem_nat_in n l : In n l -> mem_nat n l = true.
  Proof. apply mem_nat_true. Qed.

  (* no node of [a] is the first node of [free] *)
  Definition sep (a free : list nat) : Prop := forall x, In x a -> l_begin free <> It x.

  Lemma nodup_sep a free : NoDup (a ++ free) -> sep a free.
  Proof.
    intros N x I E. destruct free as [|m f]; simpl in E; [discriminate|].
    inversion E; subst m. apply NoDup_remove_2 in N. apply N. apply in_or_app; left; auto.
  Qed.

  Lemma sep_tail x a free : sep (x :: a) free -> sep a free.
  Proof. intros S y I. apply S. right; auto. Qed.

  Lemma used_part_app used free : sep used free -> used_part (used ++ free) (l_begin free) = used.
  Proof.
    induction used as [|x u IH]; intros S; simpl.
    - destruct free as [|m f]; simpl; auto. rewrite Nat.eqb_refl. auto.
    - rewrite iter_eqb_neq by (apply S; left; auto). f_equal. apply IH. eapply sep_tail; eauto.
  Qed.

  Lemma valid_begin_app used free : valid_it (used ++ free) (l_begin free) = true.
  Proof.
    destruct free as [|m f]; simpl; auto. apply mem_nat_in. apply in_or_app. right; left; auto.
  Qed.

  Lemma valid_decomp l e : valid_it l e = true ->
    exists free, l = used_part l e ++ free /\ e = l_begin free.
  Proof.
    induction l as [|x r IH]; intros Hv; simpl.
    - destruct e as [n|]; simpl in Hv; [discriminate|]. exists []. auto.
    - destruct (iter_eqb e (It x)) eqn:E.
      + apply iter_eqb_true in E. subst e. exists (x :: r). auto.
      + destruct IH as (free & E1 & E2).
        { destruct e as [n|]; simpl in *; auto. rewrite E in Hv. simpl in Hv. exact Hv. }
        exists free. split; auto. simpl. f_equal. exact E1.
  Qed.

  Lemma before_app u n free : sep (u ++ [n]) free ->
    before (l_begin free) (u ++ n :: free) = Some n.
  Proof.
    induction u as [|x u IH]; intros S.
    - simpl. destruct free as [|m f]; simpl; auto. rewrite Nat.eqb_refl; auto.
    - assert (S' : sep (u ++ [n]) free) by (eapply sep_tail; exact S).
      specialize (IH S').
      change ((x :: u) ++ n :: free) with (x :: (u ++ n :: free)).
      destruct u as [|y u'].
      + simpl app in *. simpl before at 1.
        rewrite iter_eqb_neq by (apply S; simpl; auto). exact IH.
      + simpl app in *. simpl before at 1.
        rewrite iter_eqb_neq by (apply S; simpl; auto). exact IH.
  Qed.

  Lemma l_begin_in a b : a <> [] -> exists h, l_begin (a ++ b) = It h /\ In h a.
  Proof. destruct a as [|h a]; [congruence|]. intros _. exists h. simpl; auto. Qed.

  Lemma l_prev_app u n free : NoDup (u ++ n :: free) ->
    l_prev (u ++ n :: free) (l_begin free) = Ok (It n).
  Proof.
    intros N.
    assert (E : u ++ n :: free = (u ++ [n]) ++ free) by (rewrite <- app_assoc; reflexivity).
    assert (S : sep (u ++ [n]) free) by (apply nodup_sep; rewrite <- E; exact N).
    unfold l_prev. rewrite E at 1. rewrite valid_begin_app.
    destruct (l_begin_in (u ++ [n]) free) as (h & Eh & Ih). { destruct u; discriminate. }
    rewrite E at 1. rewrite Eh. rewrite iter_eqb_neq by (apply S; exact Ih).
    rewrite before_app by exact S. reflexivity.
  Qed.

  Lemma l_back_app u n : l_back (u ++ [n]) = Ok n.
  Proof.
    unfold l_back. destruct (u ++ [n]) as [|y r] eqn:E; [destruct u; discriminate|].
    rewrite <- E, last_last. reflexivity.
  Qed.

  Lemma after_app u n free : ~ In n u -> after n (u ++ n :: free) = l_begin free.
  Proof.
    induction u as [|x u IH]; intros NI; simpl.
    - rewrite Nat.eqb_refl. reflexivity.
    - destruct (Nat.eqb_spec n x) as [E|Nx]; [exfalso; apply NI; left; auto|].
      apply IH. intros I. apply NI. right; auto.
  Qed.

  (* remove_nat *)
  Lemma remove_nat_app_in n a b : In n a -> remove_nat n (a ++ b) = remove_nat n a ++ b.
  Proof.
    induction a as [|x a IH]; simpl; intros I; [tauto|].
    destruct (Nat.eqb_spec n x) as [E|Nx]; auto.
    destruct I as [E|I]; [congruence|]. simpl. f_equal. auto.
  Qed.
  Lemma remove_nat_app_notin n a b : ~ In n a -> remove_nat n (a ++ b) = a ++ remove_nat n b.
  Proof.
    induction a as [|x a IH]; simpl; intros NI; auto.
    destruct (Nat.eqb_spec n x) as [E|Nx]; [exfalso; apply NI; auto|].
    f_equal. apply IH. intros I; apply NI; auto.
  Qed.
  Lemma remove_nat_notin n a : ~ In n a -> remove_nat n a = a.
  Proof.
    intros NI. rewrite <- (app_nil_r a) at 1. rewrite remove_nat_app_notin by auto.
    simpl. apply app_nil_r.
  Qed.
  Lemma remove_nat_last n u : ~ In n u -> remove_nat n (u ++ [n]) = u.
  Proof.
    intros NI. rewrite remove_nat_app_notin by auto. simpl. rewrite Nat.eqb_refl. apply app_nil_r.
  Qed.
  Lemma perm_remove_nat n l : In n l -> Permutation (n :: remove_nat n l) l.
  Proof.
    induction l as [|x r IH]; simpl; intros I; [tauto|].
    destruct (Nat.eqb_spec n x) as [E|Nx]; [subst; reflexivity|].
    destruct I as [E|I]; [congruence|].
    eapply perm_trans; [apply perm_swap|]. apply perm_skip. auto.
  Qed.
  Lemma in_remove_nat n l x : NoDup l -> (In x (remove_nat n l) <-> In x l /\ x <> n).
  Proof.
    induction l as [|y r IH]; simpl; intros N; [tauto|].
    inversion N as [|y' r' Hni Hnd]; subst.
    destruct (Nat.eqb_spec n y) as [E|Ny].
    - subst y. split.
      + intros I. split; auto. intros E; subst; auto.
      + intros [[E|I] Nx]; [congruence|auto].
    - simpl. rewrite IH by auto. split.
      + intros [E|[I Nx]]; [subst; split; auto|auto].
      + intros [[E|I] Nx]; auto.
  Qed.
  Lemma in_remove_nat_weak n l x : In x (remove_nat n l) -> In x l.
  Proof.
    induction l as [|y r IH]; simpl; auto.
    destruct (Nat.eqb_spec n y) as [E|Ny]; simpl; auto. intros [E|I]; auto.
  Qed.
  Lemma remove_nat_rev n l : NoDup l -> remove_nat n (rev l) = rev (remove_nat n l).
  Proof.
    induction l as [|x r IH]; simpl; intros N; auto.
    inversion N as [|x' r' Hni Hnd]; subst.
    destruct (Nat.eqb_spec n x) as [E|Nx].
    - subst x. apply remove_nat_last. rewrite <- in_rev. auto.
    - simpl. rewrite <- IH by auto.
      destruct (in_dec Nat.eq_dec n (rev r)) as [I|NI].
      + apply remove_nat_app_in; auto.
      + rewrite remove_nat_app_notin by auto. simpl.
        destruct (Nat.eqb_spec n x) as [E|_]; [congruence|].
        rewrite remove_nat_notin by auto. reflexivity.
  Qed.

  Lemma insert_before_app a n free : sep a free ->
    insert_before (l_begin free) n (a ++ free) = a ++ n :: free.
  Proof.
    induction a as [|x a IH]; intros S; simpl.
    - destruct free as [|m f]; simpl; auto. rewrite Nat.eqb_refl; auto.
    - rewrite iter_eqb_neq by (apply S; left; auto). f_equal. apply IH. eapply sep_tail; eauto.
  Qed.

  (* splice(partition point, list, n) for a used node n *)
  Lemma l_splice_end used free n : NoDup (used ++ free) -> In n used ->
    l_splice (used ++ free) (l_begin free) (It n) = Ok (remove_nat n used ++ n :: free).
  Proof.
    intros N I. pose proof (nodup_sep _ _ N) as S.
    unfold l_splice. rewrite mem_nat_in by (apply in_or_app; auto).
    rewrite valid_begin_app. rewrite iter_eqb_neq by (apply S; auto).
    rewrite remove_nat_app_in by auto. rewrite insert_before_app; auto.
    intros x Ix. apply S. eapply in_remove_nat_weak; eauto.
  Qed.

  (* splice(begin(), list, n) *)
  Lemma l_splice_begin l n : In n l -> l_splice l (l_begin l) (It n) = Ok (n :: remove_nat n l).
  Proof.
    intros I. unfold l_splice. rewrite mem_nat_in by auto.
    destruct l as [|x r]; [destruct I|]. simpl l_begin.
    assert (Hv : valid_it (x :: r) (It x) = true) by (simpl; rewrite Nat.eqb_refl; auto).
    rewrite Hv. simpl iter_eqb. simpl remove_nat.
    destruct (Nat.eqb_spec x n) as [E|Nx].
    - subst x. rewrite Nat.eqb_refl. reflexivity.
    - destruct (Nat.eqb_spec n x) as [E|_]; [congruence|].
      simpl. rewrite Nat.eqb_refl. reflexivity.
  Qed.
End StlFacts.

(* ------------------------------------------------------------------------------------ *)
(* association lists, vectors, reading a node sequence through the cells                 *)
(* ------------------------------------------------------------------------------------ *)
Section ReadFacts.
  Context {K : Type} `{EqDec K} {A : Type}.
  Local Open Scope list_scope.
  Local Open Scope nat_scope.

  Lemma remk_notin_id k (l : list (K * A)) : ~ In k (keys l) -> remk k l = l.
  Proof.
    induction l as [|[k' a] l IH]; simpl; intros NI; auto.
    destruct (Base.eqb_spec k k') as [E|N]; [exfalso; apply NI; auto|].
    f_equal. apply IH. intros I; apply NI; auto.
  Qed.

  Lemma length_remk_S k (l : list (K * A)) i : NoDup (keys l) -> assoc k l = Some i ->
    S (List.length (remk k l)) = List.length l.
  Proof.
    induction l as [|[k' a] l IH]; simpl; intros N E; [discriminate|].
    inversion N as [|x r Hni Hnd]; subst.
    destruct (Base.eqb_spec k k') as [Ek|Nk].
    - subst k'. rewrite remk_notin_id; auto.
    - simpl. f_equal. apply IH; auto.
  Qed.

  Lemma in_pair_keys k a (l : list (K * A)) : In (k, a) l -> In k (keys l).
  Proof. intros I. unfold keys. apply in_map_iff. exists (k, a). auto. Qed.

  Lemma in_assoc_nodup k a (l : list (K * A)) : NoDup (keys l) -> In (k, a) l -> assoc k l = Some a.
  Proof.
    induction l as [|[k' a'] l IH]; simpl; intros N I; [destruct I|].
    inversion N as [|x r Hni Hnd]; subst.
    destruct (Base.eqb_spec k k') as [Ek|Nk].
    - subst k'. destruct I as [E|I]; [inversion E; auto|].
      exfalso. apply Hni. eapply in_pair_keys; eauto.
    - destruct I as [E|I]; [inversion E; congruence|auto].
  Qed.

  Lemma assoc_in_pair k a (l : list (K * A)) : assoc k l = Some a -> In (k, a) l.
  Proof.
    induction l as [|[k' a'] l IH]; simpl; intros E; [discriminate|].
    destruct (Base.eqb_spec k k') as [Ek|Nk]; [inversion E; subst; auto|auto].
  Qed.

  Lemma remk_head k a (l : list (K * A)) : NoDup (keys ((k, a) :: l)) -> remk k ((k, a) :: l) = l.
  Proof.
    intros N. simpl. rewrite keqb_refl. inversion N; subst. apply remk_notin_id; auto.
  Qed.

  Lemma remk_last k a (l : list (K * A)) : NoDup (keys (l ++ [(k, a)])) -> remk k (l ++ [(k, a)]) = l.
  Proof.
    induction l as [|[k' a'] l IH]; simpl; intros N.
    - rewrite keqb_refl. reflexivity.
    - inversion N as [|x r Hni Hnd]; subst.
      destruct (Base.eqb_spec k k') as [Ek|Nk].
      + subst k'. exfalso. apply Hni. rewrite keys_app. apply in_or_app. right. simpl; auto.
      + f_equal. apply IH; auto.
  Qed.

  (* a node sequence [ns] read through [f] gives the entry list [items] *)
  Variable f : nat -> option (K * A).

  Lemma reads_in ns (items : list (K * A)) n k a :
    map f ns = map (@Some (K * A)) items -> In n ns -> f n = Some (k, a) -> In (k, a) items.
  Proof.
    intros E I Fn. assert (I' : In (f n) (map f ns)) by (apply in_map; auto).
    rewrite E, Fn in I'. apply in_map_iff in I'. destruct I' as (x & Ex & Ix).
    inversion Ex; subst. auto.
  Qed.

  Lemma reads_in_inv ns (items : list (K * A)) k a :
    map f ns = map (@Some (K * A)) items -> In (k, a) items -> exists n, In n ns /\ f n = Some (k, a).
  Proof.
    intros E I. assert (I' : In (Some (k, a)) (map (@Some (K * A)) items)) by (apply in_map; auto).
    rewrite <- E in I'. apply in_map_iff in I'. destruct I' as (n & En & In'). eauto.
  Qed.

  Lemma reads_remove ns : forall (items : list (K * A)) n k a,
    map f ns = map (@Some (K * A)) items -> NoDup (keys items) -> In n ns -> f n = Some (k, a) ->
    map f (remove_nat n ns) = map (@Some (K * A)) (remk k items).
  Proof.
    induction ns as [|x r IH]; intros items n k a E Nk I Fn; [destruct I|].
    destruct items as [|[k' a'] it]; simpl in E; [discriminate|].
    injection E as E1 E2. simpl in Nk. inversion Nk as [|y q Hni Hnd]; subst.
    simpl. destruct (Nat.eqb_spec n x) as [Enx|Nnx].
    - subst x. rewrite Fn in E1. inversion E1; subst k' a'. rewrite keqb_refl.
      rewrite remk_notin_id by auto. exact E2.
    - destruct I as [I|I]; [congruence|].
      assert (Nkk : k <> k').
      { intros Ek; subst k'. apply Hni. eapply in_pair_keys. eapply reads_in; eauto. }
      rewrite keqb_neq by auto. simpl. f_equal; [exact E1|]. eapply IH; eauto.
  Qed.
End ReadFacts.

Section VecFacts.
  Local Open Scope list_scope.
  Local Open Scope nat_scope.

  Lemma nth_error_upd_eq A (l : list A) : forall i x, i < List.length l ->
    nth_error (upd_nth i x l) i = Some x.
  Proof.
    induction l as [|y r IH]; intros [|j] x Hi; simpl in *; try lia; auto. apply IH; lia.
  Qed.
  Lemma nth_error_upd_neq A (l : list A) : forall i j x, j <> i ->
    nth_error (upd_nth i x l) j = nth_error l j.
  Proof.
    induction l as [|y r IH]; intros [|i] [|j] x Hne; simpl; try congruence; auto.
  Qed.
  Lemma upd_nth_len A (l : list A) : forall i x, List.length (upd_nth i x l) = List.length l.
  Proof. induction l as [|y r IH]; intros [|i] x; simpl; auto. Qed.
  Lemma vget_ok A what (l : list A) i a : nth_error l i = Some a -> vget what l i = Ok a.
  Proof. intros E. unfold vget. rewrite E. reflexivity. Qed.
  Lemma vset_ok A what (l : list A) i a : i < List.length l -> vset what l i a = Ok (upd_nth i a l).
  Proof. intros Hi. unfold vset. destruct (Nat.ltb_spec i (List.length l)); [reflexivity|lia]. Qed.

  Lemma Forall2_in_r A B (R : A -> B -> Prop) l l' : Forall2 R l l' ->
    forall y, In y l' -> exists x, In x l /\ R x y.
  Proof.
    induction 1 as [|x y l l' Rxy F IH]; intros z I; [destruct I|].
    destruct I as [E|I]; [subst; exists x; simpl; auto|].
    destruct (IH z I) as (x' & I' & R'). exists x'. simpl; auto.
  Qed.
  Lemma Forall2_len A B (R : A -> B -> Prop) l l' : Forall2 R l l' -> List.length l = List.length l'.
  Proof. induction 1; simpl; auto. Qed.
  Lemma nodup_app_l A (a b : list A) : NoDup (a ++ b) -> NoDup a.
  Proof.
    induction a as [|x a IH]; simpl; intros N; [constructor|].
    inversion N as [|y r Hni Hnd]; subst. constructor; auto.
    intros I. apply Hni. apply in_or_app; auto.
  Qed.
End VecFacts.

(* ------------------------------------------------------------------------------------ *)
(* the representation relation through an explicit decomposition  list = used ++ free    *)
(* ------------------------------------------------------------------------------------ *)
Section RepFacts.
  Context {K V : Type} `{EqDec K}.
  Local Open Scope list_scope.
  Local Open Scope nat_scope.

  Definition polof (mru : bool) : lc_policy := if mru then mru_policy else lru_policy.
  (* the used nodes oldest first *)
  Definition ord (mru : bool) (used : list nat) : list nat := if mru then used else rev used.
  (* the used nodes after do_access of node n *)
  Definition touched (mru : bool) (used : list nat) (n : nat) : list nat :=
    if mru then remove_nat n used ++ [n] else n :: remove_nat n used.

  Lemma in_ord mru used n : In n (ord mru used) <-> In n used.
  Proof. destruct mru; simpl; [tauto|]. symmetry. apply in_rev. Qed.
  Lemma length_ord mru used : List.length (ord mru used) = List.length used.
  Proof. destruct mru; simpl; auto. apply rev_length. Qed.
  Lemma ord_touched mru used n : NoDup used ->
    ord mru (touched mru used n) = remove_nat n (ord mru used) ++ [n].
  Proof. intros N. destruct mru; simpl; auto. rewrite remove_nat_rev by auto. reflexivity. Qed.
  Lemma ord_remove mru used n : NoDup used ->
    ord mru (remove_nat n used) = remove_nat n (ord mru used).
  Proof. intros N. destruct mru; simpl; auto. symmetry. apply remove_nat_rev; auto. Qed.
  Lemma perm_touched mru used n : In n used -> Permutation (touched mru used n) used.
  Proof.
    intros I. destruct mru; simpl.
    - eapply perm_trans; [|apply perm_remove_nat; eauto]. symmetry. apply Permutation_cons_append.
    - apply perm_remove_nat; auto.
  Qed.

  Definition cellkey (es : list (lelem K V)) (ix : list (K * nat)) (n : nat) (k : K) : Prop :=
    exists v, nth_error es n = Some {| le_keyed := Some k; le_pos := Some (It n); le_val := Some v |} /\
              assoc k ix = Some n.
  Definition cellok (es : list (lelem K V)) (ix : list (K * nat)) (n : nat) : Prop :=
    exists k v, nth_error es n = Some {| le_keyed := Some k; le_pos := Some (It n); le_val := Some v |} /\
                assoc k ix = Some n.

  Definition rep2 (mru : bool) (l : lrul K V) (s : lc K V) (used free : list nat) : Prop :=
    ll_list l = used ++ free /\ ll_end l = l_begin free /\
    ll_cap l = lc_cap s /\ List.length (ll_elems l) = lc_cap s /\
    NoDup (used ++ free) /\ List.length (used ++ free) = lc_cap s /\
    (forall n, In n (used ++ free) -> n < lc_cap s) /\
    ll_used l = List.length used /\ List.length (ll_index l) = List.length used /\
    NoDup (keys (ll_index l)) /\
    map (cell_entry l) (ord mru used) = map (@Some (K * V)) (lc_items s) /\
    (forall n, In n used -> cellok (ll_elems l) (ll_index l) n) /\
    (forall k n, assoc k (ll_index l) = Some n -> In n used).

  Lemma rep2_intro mru l s used free : rep2 mru l s used free -> ll_rep mru l s.
  Proof.
    intros (Hl & He & Hc & Hle & Hnd & Hlen & Hb & Hu & Hix & Hnk & Hmap & HA & HB).
    unfold ll_rep. cbv zeta. rewrite Hl, He.
    rewrite used_part_app by (apply nodup_sep; auto). rewrite valid_begin_app.
    split; [exact Hc|]. split; [exact Hle|]. split; [exact Hnd|]. split; [exact Hlen|].
    split; [exact Hb|]. split; [reflexivity|]. split; [exact Hu|]. split; [exact Hix|].
    split; [exact Hnk|]. split; [exact Hmap|]. split; [exact HA|exact HB].
  Qed.

  Lemma rep2_elim mru l s : ll_rep mru l s -> exists used free, rep2 mru l s used free.
  Proof.
    intros R. unfold ll_rep in R. cbv zeta in R.
    destruct R as (Hc & Hle & Hnd & Hlen & Hb & Hv & Hu & Hix & Hnk & Hmap & HA & HB).
    destruct (valid_decomp _ _ Hv) as (free & E1 & E2).
    exists (used_part (ll_list l) (ll_end l)), free. unfold rep2.
    split; [exact E1|]. split; [exact E2|]. split; [exact Hc|]. split; [exact Hle|].
    split; [rewrite <- E1; exact Hnd|]. split; [rewrite <- E1; exact Hlen|].
    split; [rewrite <- E1; exact Hb|]. split; [exact Hu|].
    split; [exact Hix|]. split; [exact Hnk|]. split; [exact Hmap|]. split; [exact HA|exact HB].
  Qed.

  (* the index and the used cells are in bijection (counting) *)
  Lemma cells_list es ix used : (forall n, In n used -> cellok es ix n) ->
    exists ks, Forall2 (cellkey es ix) used ks.
  Proof.
    induction used as [|n u IH]; intros HA.
    - exists []. constructor.
    - destruct IH as (ks & F). { intros m I; apply HA; right; auto. }
      destruct (HA n (or_introl eq_refl)) as (k & v & E1 & E2).
      exists (k :: ks). constructor; auto. exists v; auto.
  Qed.

  Lemma index_cell es (ix : list (K * nat)) used :
    NoDup used -> NoDup (keys ix) -> List.length ix = List.length used ->
    (forall n, In n used -> cellok es ix n) ->
    forall k n, assoc k ix = Some n -> cellkey es ix n k /\ In n used.
  Proof.
    intros Nu Nk Hlen HA k n E.
    destruct (cells_list es ix used HA) as (ks & F).
    assert (Nks : NoDup ks).
    { clear - F Nu. induction F as [|m k0 u ks0 R0 F IH]; [constructor|].
      inversion Nu; subst. constructor; auto.
      intros I. destruct (Forall2_in_r _ _ _ _ _ F _ I) as (m' & I' & (v' & _ & E')).
      destruct R0 as (v0 & _ & E0). rewrite E0 in E'. inversion E'; subst. auto. }
    assert (Inc : incl ks (keys ix)).
    { intros k0 I. destruct (Forall2_in_r _ _ _ _ _ F _ I) as (m & _ & (v & _ & E0)).
      apply assoc_in. congruence. }
    assert (Inc' : incl (keys ix) ks).
    { apply NoDup_length_incl; auto. unfold keys. rewrite map_length, Hlen.
      rewrite (Forall2_len _ _ _ _ _ F). lia. }
    assert (Ik : In k ks). { apply Inc'. apply assoc_in. congruence. }
    destruct (Forall2_in_r _ _ _ _ _ F _ Ik) as (m & Im & (v & E1 & E2)).
    rewrite E in E2. inversion E2; subst m. split; auto. exists v; auto.
  Qed.

  Lemma cell_entry_of (l : lrul K V) n k p v :
    nth_error (ll_elems l) n = Some {| le_keyed := Some k; le_pos := p; le_val := Some v |} ->
    cell_entry l n = Some (k, v).
  Proof. intros E. unfold cell_entry. rewrite E. reflexivity. Qed.

  Lemma cell_entry_ext (l1 l2 : lrul K V) n :
    nth_error (ll_elems l1) n = nth_error (ll_elems l2) n -> cell_entry l1 n = cell_entry l2 n.
  Proof. intros E. unfold cell_entry. rewrite E. reflexivity. Qed.

  Lemma rep2_nodup_used mru l s used free : rep2 mru l s used free -> NoDup used.
  Proof.
    intros (_ & _ & _ & _ & Hnd & _). eapply nodup_app_l. exact Hnd.
  Qed.

  Lemma rep2_len mru l s used free : rep2 mru l s used free ->
    List.length (lc_items s) = List.length used.
  Proof.
    intros (_ & _ & _ & _ & _ & _ & _ & _ & _ & _ & Hmap & _).
    apply (f_equal (@List.length _)) in Hmap. rewrite !map_length, length_ord in Hmap. auto.
  Qed.

  Lemma rep2_lookup mru l s used free k n :
    rep2 mru l s used free -> NoDup (keys (lc_items s)) -> assoc k (ll_index l) = Some n ->
    In n used /\
    exists v, nth_error (ll_elems l) n =
                Some {| le_keyed := Some k; le_pos := Some (It n); le_val := Some v |} /\
              assoc k (lc_items s) = Some v.
  Proof.
    intros R Nk E. pose proof (rep2_nodup_used _ _ _ _ _ R) as Nu.
    destruct R as (Hl & He & Hc & Hle & Hnd & Hlen & Hb & Hu & Hix & Hnk & Hmap & HA & HB).
    destruct (index_cell _ _ _ Nu Hnk Hix HA k n E) as ((v & E1 & _) & I).
    split; auto. exists v. split; auto.
    apply in_assoc_nodup; auto.
    eapply reads_in; [exact Hmap|apply in_ord; exact I|]. eapply cell_entry_of; eauto.
  Qed.

  Lemma rep2_lookup_none mru l s used free k :
    rep2 mru l s used free -> assoc k (ll_index l) = None -> assoc k (lc_items s) = None.
  Proof.
    intros R E.
    destruct R as (Hl & He & Hc & Hle & Hnd & Hlen & Hb & Hu & Hix & Hnk & Hmap & HA & HB).
    destruct (assoc k (lc_items s)) as [v|] eqn:Ea; auto. exfalso.
    apply assoc_in_pair in Ea.
    destruct (reads_in_inv _ _ _ _ _ Hmap Ea) as (n & I & Fn).
    apply in_ord in I. destruct (HA n I) as (k' & v' & E1 & E2).
    rewrite (cell_entry_of _ _ _ _ _ E1) in Fn. inversion Fn; subst. congruence.
  Qed.

  (* do_access on a used node *)
  Lemma ll_access_shape mru (s : lrul K V) e used free n :
    ll_list s = used ++ free -> ll_end s = l_begin free -> NoDup (used ++ free) -> In n used ->
    le_pos e = Some (It n) ->
    ll_access mru s e =
      Ok {| ll_cap := ll_cap s; ll_elems := ll_elems s; ll_index := ll_index s;
            ll_list := touched mru used n ++ free; ll_end := ll_end s; ll_used := ll_used s |}.
  Proof.
    intros Hl He N I Hp. unfold ll_access, get_pos. rewrite Hp. cbn [bind]. rewrite Hl, He.
    destruct mru; simpl touched.
    - rewrite l_splice_end by auto. cbn [bind]. rewrite <- app_assoc. reflexivity.
    - rewrite l_splice_begin by (apply in_or_app; auto). cbn [bind].
      rewrite remove_nat_app_in by auto. reflexivity.
  Qed.

  (* the state reached by touching node n (key k), its cell possibly rewritten with a new value *)
  Lemma rep2_touch mru t (l : lrul K V) (s : lc K V) used free k n es' v :
    rep2 mru l s used free -> lc_inv t s -> assoc k (ll_index l) = Some n ->
    List.length es' = lc_cap s ->
    nth_error es' n = Some {| le_keyed := Some k; le_pos := Some (It n); le_val := Some v |} ->
    (forall m, m <> n -> nth_error es' m = nth_error (ll_elems l) m) ->
    rep2 mru {| ll_cap := ll_cap l; ll_elems := es'; ll_index := ll_index l;
                ll_list := touched mru used n ++ free; ll_end := ll_end l; ll_used := ll_used l |}
         (lc_with s (remk k (lc_items s) ++ [(k, v)])) (touched mru used n) free.
  Proof.
    intros R (Nk & _ & _) E Hes Hn Hm.
    pose proof (rep2_nodup_used _ _ _ _ _ R) as Nu.
    destruct (rep2_lookup _ _ _ _ _ _ _ R Nk E) as (I & v0 & E1 & E2).
    destruct R as (Hl & He & Hc & Hle & Hnd & Hlen & Hb & Hu & Hix & Hnk & Hmap & HA & HB).
    pose proof (perm_touched mru used n I) as P.
    assert (P' : Permutation (touched mru used n ++ free) (used ++ free))
      by (apply Permutation_app_tail; exact P).
    unfold rep2. cbn [ll_cap ll_elems ll_index ll_list ll_end ll_used lc_with lc_cap lc_items].
    split; [reflexivity|]. split; [exact He|]. split; [exact Hc|]. split; [exact Hes|].
    split. { eapply Permutation_NoDup; [symmetry; exact P'|exact Hnd]. }
    split. { rewrite (Permutation_length P'). exact Hlen. }
    split. { intros m Im. apply Hb. eapply Permutation_in; eauto. }
    split. { rewrite (Permutation_length P). exact Hu. }
    split. { rewrite (Permutation_length P). exact Hix. }
    split; [exact Hnk|].
    split.
    { rewrite ord_touched by auto. rewrite !map_app. f_equal.
      - erewrite map_ext_in.
        + eapply reads_remove; [exact Hmap|exact Nk|apply in_ord; exact I|].
          eapply cell_entry_of; eauto.
        + intros m Im. apply cell_entry_ext. cbn [ll_elems]. apply Hm.
          apply in_remove_nat in Im; [tauto|].
          destruct mru; simpl; auto. apply NoDup_rev. auto.
      - simpl. f_equal. eapply cell_entry_of. cbn [ll_elems]. eauto. }
    split.
    { intros m Im. assert (Im' : In m used) by (eapply Permutation_in; eauto).
      destruct (Nat.eq_dec m n) as [Emn|Nmn].
      - subst m. exists k, v. auto.
      - unfold cellok. rewrite Hm by auto. apply HA. auto. }
    intros k' m E'. eapply Permutation_in; [symmetry; exact P|]. eapply HB; eauto.
  Qed.
End RepFacts.

(* ------------------------------------------------------------------------------------ *)
(* the do_* helpers                                                                      *)
(* ------------------------------------------------------------------------------------ *)
Section OpFacts.
  Context {K V : Type} `{EqDec K}.
  Local Open Scope list_scope.
  Local Open Scope nat_scope.

  Lemma cell_entry_elems (l1 l2 : lrul K V) : ll_elems l1 = ll_elems l2 -> cell_entry l1 = cell_entry l2.
  Proof. intros E. unfold cell_entry. rewrite E. reflexivity. Qed.

  (* do_erase(n) for the node n the index gives for key k: n becomes the first free node *)
  Lemma ll_do_erase_rep2 mru t (l : lrul K V) (s : lc K V) used free k n :
    rep2 mru l s used free -> lc_inv t s -> assoc k (ll_index l) = Some n ->
    exists l', ll_do_erase l n = Ok l' /\
               rep2 mru l' (lc_with s (remk k (lc_items s))) (remove_nat n used) (n :: free).
  Proof.
    intros R (Nk & _ & _) E.
    pose proof (rep2_nodup_used _ _ _ _ _ R) as Nu.
    destruct (rep2_lookup _ _ _ _ _ _ _ R Nk E) as (I & v0 & E1 & E2).
    assert (R0 := R).
    destruct R as (Hl & He & Hc & Hle & Hnd & Hlen & Hb & Hu & Hix & Hnk & Hmap & HA & HB).
    assert (P1 : Permutation (n :: remove_nat n used) used) by (apply perm_remove_nat; auto).
    assert (P : Permutation (remove_nat n used ++ n :: free) (used ++ free)).
    { eapply perm_trans; [symmetry; apply Permutation_middle|].
      change (n :: remove_nat n used ++ free) with ((n :: remove_nat n used) ++ free).
      apply Permutation_app_tail. exact P1. }
    assert (Nd' : NoDup (remove_nat n used ++ n :: free)).
    { eapply Permutation_NoDup; [symmetry; exact P|exact Hnd]. }
    destruct (@exists_last _ used) as (u & b & Eu). { intros E0; rewrite E0 in I; destruct I. }
    assert (Hp : l_prev (used ++ free) (l_begin free) = Ok (It b)).
    { rewrite Eu. rewrite <- app_assoc. simpl. apply l_prev_app.
      rewrite Eu in Hnd. rewrite <- app_assoc in Hnd. exact Hnd. }
    assert (Hs : (if iter_eqb (It n) (It b) then Ok (used ++ free)
                  else l_splice (used ++ free) (l_begin free) (It n))
                 = Ok (remove_nat n used ++ n :: free)).
    { simpl iter_eqb. destruct (Nat.eqb_spec n b) as [Enb|Nnb].
      - subst b. rewrite Eu. rewrite remove_nat_last.
        + rewrite <- app_assoc. reflexivity.
        + rewrite Eu in Nu. apply NoDup_remove_2 in Nu. rewrite app_nil_r in Nu. exact Nu.
      - apply l_splice_end; auto. }
    unfold ll_do_erase. rewrite (vget_ok _ _ _ _ _ E1). cbn [bind]. unfold get_pos.
    cbn [le_pos le_keyed bind]. rewrite Hl, He. rewrite Hp. cbn [bind]. rewrite Hs. cbn [bind].
    rewrite l_prev_app by exact Nd'. cbn [bind].
    unfold index_erase. rewrite E. cbn [bind].
    destruct (Nat.eqb_spec (ll_used l) 0) as [Ez|Nz].
    { exfalso. rewrite Hu, Eu, app_length in Ez. simpl in Ez. lia. }
    eexists. split; [reflexivity|].
    unfold rep2. cbn [ll_cap ll_elems ll_index ll_list ll_end ll_used lc_with lc_cap lc_items].
    split; [reflexivity|]. split; [reflexivity|]. split; [exact Hc|]. split; [exact Hle|].
    split; [exact Nd'|].
    split. { rewrite (Permutation_length P). exact Hlen. }
    split. { intros m Im. apply Hb. eapply Permutation_in; eauto. }
    split. { apply Permutation_length in P1. simpl in P1. lia. }
    split. { apply Permutation_length in P1. simpl in P1.
             pose proof (length_remk_S k (ll_index l) n Hnk E). lia. }
    split; [apply nodup_remk; exact Hnk|].
    split.
    { rewrite ord_remove by auto.
      match goal with |- map (cell_entry ?l') _ = _ => rewrite (cell_entry_elems l' l eq_refl) end.
      eapply reads_remove; [exact Hmap|exact Nk|apply in_ord; exact I|].
      eapply cell_entry_of; eauto. }
    split.
    { intros m Im. apply in_remove_nat in Im; [|exact Nu]. destruct Im as [Im Nmn].
      destruct (HA m Im) as (km & vm & Em1 & Em2). exists km, vm. split; auto.
      rewrite assoc_remk_other; auto. intros Ek; subst km. rewrite E in Em2. inversion Em2; auto. }
    intros k' m E'. destruct (Base.eqb_spec k' k) as [Ek|Nkk].
    { subst k'. rewrite assoc_remk_same in E'. discriminate. }
    rewrite assoc_remk_other in E' by auto.
    destruct (rep2_lookup _ _ _ _ _ _ _ R0 Nk E') as (Im & vm & Em1 & _).
    apply in_remove_nat; auto. split; auto. intros Emn; subst m.
    rewrite E1 in Em1. inversion Em1; auto.
  Qed.

  (* do_prune() on a full cache: the victim is the last node of the list *)
  Lemma ll_do_prune_rep2 mru t (l : lrul K V) (s : lc K V) used free :
    rep2 mru l s used free -> lc_inv t s -> lc_cap s <= List.length (lc_items s) ->
    exists l' used' free' kb, ll_do_prune l = Ok l' /\
      rep2 mru l' (lc_with s (remk kb (lc_items s))) used' free' /\
      remk kb (lc_items s) = (if mru then removelast (lc_items s) else tl (lc_items s)) /\
      List.length (remk kb (lc_items s)) < lc_cap s.
  Proof.
    intros R I Hfull. assert (I0 := I). destruct I as (Nk & Hl1 & Hc1).
    pose proof (rep2_len _ _ _ _ _ R) as Hlen'.
    assert (R0 := R).
    destruct R as (Hl & He & Hc & Hle & Hnd & Hlen & Hb & Hu & Hix & Hnk & Hmap & HA & HB).
    assert (Hfree : free = []).
    { rewrite app_length in Hlen. destruct free; auto. simpl in Hlen. lia. }
    subst free.
    destruct (@exists_last _ used) as (u & b & Eu).
    { intros E0. rewrite E0 in Hlen'. simpl in Hlen'. lia. }
    assert (Ib : In b used). { rewrite Eu. apply in_or_app; right; simpl; auto. }
    destruct (HA b Ib) as (kb & vb & Eb1 & Eb2).
    destruct (ll_do_erase_rep2 mru t l s used [] kb b R0 I0 Eb2) as (l' & D & R').
    pose proof (cell_entry_of _ _ _ _ _ Eb1) as Fb.
    assert (Ek : remk kb (lc_items s) = if mru then removelast (lc_items s) else tl (lc_items s)).
    { destruct mru; simpl ord in Hmap.
      - destruct (@exists_last _ (lc_items s)) as (it & x & Ei).
        { intros E0; rewrite E0 in Hfull; simpl in Hfull. lia. }
        rewrite Ei in Hmap, Nk |- *. rewrite Eu in Hmap. rewrite !map_app in Hmap. simpl in Hmap.
        apply app_inj_tail in Hmap. destruct Hmap as (_ & Ex). rewrite Fb in Ex.
        inversion Ex; subst x. rewrite removelast_last. apply remk_last. exact Nk.
      - rewrite Eu, rev_unit in Hmap.
        destruct (lc_items s) as [|[k' v'] it] eqn:Ei; simpl in Hmap; [discriminate|].
        injection Hmap as Ex _. rewrite Fb in Ex. inversion Ex; subst k' v'.
        simpl tl. apply remk_head. exact Nk. }
    exists l', (remove_nat b used), [b], kb. split; [|split; [exact R'|split; [exact Ek|]]].
    - unfold ll_do_prune. destruct (Nat.ltb_spec 0 (ll_used l)) as [Hp|Hz].
      + rewrite Hl, Eu, app_nil_r, l_back_app. cbn [bind]. exact D.
      + exfalso. lia.
    - pose proof (rep2_len _ _ _ _ _ R') as L. cbn [lc_with lc_items] in L. rewrite L.
      pose proof (perm_remove_nat b used Ib) as P1. apply Permutation_length in P1. simpl in P1. lia.
  Qed.

  (* the state after claiming the first free node n for (k, v) *)
  Lemma rep2_claim mru (l : lrul K V) (s : lc K V) used n free' k v :
    rep2 mru l s used (n :: free') -> assoc k (ll_index l) = None ->
    rep2 mru {| ll_cap := ll_cap l;
                ll_elems := upd_nth n {| le_keyed := Some k; le_pos := Some (It n); le_val := Some v |}
                                    (ll_elems l);
                ll_index := ll_index l ++ [(k, n)];
                ll_list := (if mru then used ++ [n] else n :: used) ++ free';
                ll_end := l_begin free'; ll_used := S (ll_used l) |}
         (lc_with s (lc_items s ++ [(k, v)])) (if mru then used ++ [n] else n :: used) free'.
  Proof.
    intros R E.
    pose proof (rep2_nodup_used _ _ _ _ _ R) as Nu.
    destruct R as (Hl & He & Hc & Hle & Hnd & Hlen & Hb & Hu & Hix & Hnk & Hmap & HA & HB).
    assert (Nn : ~ In n used).
    { apply NoDup_remove_2 in Hnd. intros I. apply Hnd. apply in_or_app; auto. }
    assert (Hn : n < lc_cap s). { apply Hb. apply in_or_app. right; left; auto. }
    set (used' := if mru then used ++ [n] else n :: used).
    assert (P : Permutation (used' ++ free') (used ++ n :: free')).
    { unfold used'. destruct mru.
      - rewrite <- app_assoc. reflexivity.
      - apply Permutation_middle. }
    assert (Lu : List.length used' = S (List.length used)).
    { unfold used'. destruct mru; simpl; auto. rewrite app_length. simpl. lia. }
    assert (Iu : forall m, In m used' <-> m = n \/ In m used).
    { intros m. unfold used'. destruct mru; simpl.
      - rewrite in_app_iff. simpl. split; intros [X|X]; auto. destruct X; auto. tauto.
      - split; intros [X|X]; auto. }
    assert (Ou : ord mru used' = ord mru used ++ [n]).
    { unfold used'. destruct mru; simpl; auto. }
    unfold rep2. cbn [ll_cap ll_elems ll_index ll_list ll_end ll_used lc_with lc_cap lc_items].
    split; [reflexivity|]. split; [reflexivity|]. split; [exact Hc|].
    split; [rewrite upd_nth_len; exact Hle|].
    split. { eapply Permutation_NoDup; [symmetry; exact P|exact Hnd]. }
    split. { rewrite (Permutation_length P). exact Hlen. }
    split. { intros m Im. apply Hb. eapply Permutation_in; eauto. }
    split; [lia|].
    split. { rewrite app_length. simpl. lia. }
    split. { rewrite keys_app. simpl. apply nodup_snoc; auto. apply assoc_none. exact E. }
    split.
    { rewrite Ou, !map_app. f_equal.
      - rewrite <- Hmap. apply map_ext_in. intros m Im. apply cell_entry_ext. cbn [ll_elems].
        apply nth_error_upd_neq. apply in_ord in Im. intros Emn; subst; auto.
      - simpl. f_equal. eapply cell_entry_of. cbn [ll_elems]. apply nth_error_upd_eq. lia. }
    split.
    { intros m Im. apply Iu in Im. destruct Im as [Emn|Im].
      - subst m. exists k, v. split; [apply nth_error_upd_eq; lia|].
        rewrite assoc_snoc, E, keqb_refl. reflexivity.
      - destruct (HA m Im) as (km & vm & Em1 & Em2). exists km, vm. split.
        + rewrite nth_error_upd_neq; auto. intros Emn; subst; auto.
        + rewrite assoc_snoc, Em2. reflexivity. }
    intros k' m E'. apply Iu. rewrite assoc_snoc in E'.
    destruct (assoc k' (ll_index l)) as [m0|] eqn:A0.
    - inversion E'; subst m0. right. eapply HB; eauto.
    - destruct (Base.eqb k' k); [inversion E'; auto|discriminate].
  Qed.

  (* do_insert when there is a free node *)
  Lemma ll_do_insert_nonfull mru t (l : lrul K V) (s : lc K V) used free k v :
    rep2 mru l s used free -> lc_inv t s -> List.length (lc_items s) < lc_cap s ->
    assoc k (ll_index l) = None ->
    exists l' used' free', ll_do_insert mru l k v = Ok l' /\
      rep2 mru l' (lc_with s (lc_items s ++ [(k, v)])) used' free'.
  Proof.
    intros R (Nk & Hl1 & Hc1) Hlt E.
    pose proof (rep2_len _ _ _ _ _ R) as Hlen'.
    assert (R0 := R).
    destruct R as (Hl & He & Hc & Hle & Hnd & Hlen & Hb & Hu & Hix & Hnk & Hmap & HA & HB).
    destruct free as [|n free']. { rewrite app_nil_r in Hlen. lia. }
    pose proof (rep2_claim mru l s used n free' k v R0 E) as RC.
    assert (Nn : ~ In n used).
    { apply NoDup_remove_2 in Hnd. intros I. apply Hnd. apply in_or_app; auto. }
    assert (Hn : n < lc_cap s). { apply Hb. apply in_or_app. right; left; auto. }
    assert (Ea : used ++ n :: free' = (used ++ [n]) ++ free') by (rewrite <- app_assoc; reflexivity).
    unfold ll_do_insert.
    assert (C1 : (List.length (ll_elems l) <=? ll_used l) = false) by (apply Nat.leb_gt; lia).
    rewrite C1. cbn [bind]. rewrite Hl, He. simpl l_begin. unfold l_deref.
    rewrite mem_nat_in by (apply in_or_app; right; left; auto). cbn [bind].
    unfold index_emplace.
    assert (C2 : (List.length (ll_index l) <? ll_cap l) = true) by (apply Nat.ltb_lt; lia).
    rewrite C2. cbn [bind]. rewrite vset_ok by lia. cbn [bind].
    unfold l_next. rewrite mem_nat_in by (apply in_or_app; right; left; auto). cbn [bind].
    rewrite after_app by exact Nn.
    destruct mru.
    - rewrite Ea. eexists. exists (used ++ [n]), free'. split; [reflexivity|]. exact RC.
    - match goal with |- context [ll_access false ?s2 ?e2] =>
        pose proof (ll_access_shape false s2 e2 (used ++ [n]) free' n Ea eq_refl) as HS end.
      cbn [ll_cap ll_elems ll_index ll_list ll_end ll_used] in HS.
      rewrite HS; [| rewrite <- Ea; exact Hnd | apply in_or_app; right; left; auto | reflexivity].
      unfold touched. rewrite remove_nat_last by exact Nn.
      eexists. exists (n :: used), free'. split; [reflexivity|]. exact RC.
  Qed.

  Lemma victim_back_polof mru : lc_victim_back (polof mru) = mru.
  Proof. destruct mru; reflexivity. Qed.
  Lemma touch_polof mru : lc_touch (polof mru) = true.
  Proof. destruct mru; reflexivity. Qed.

  (* do_insert *)
  Lemma ll_do_insert_rep2 mru t (l : lrul K V) (s : lc K V) used free k v :
    rep2 mru l s used free -> lc_inv t s -> assoc k (ll_index l) = None ->
    exists l' used' free', ll_do_insert mru l k v = Ok l' /\
      rep2 mru l' (lc_with s (lc_evict (polof mru) s ++ [(k, v)])) used' free'.
  Proof.
    intros R I E. unfold lc_evict. rewrite victim_back_polof.
    destruct (Nat.leb_spec (lc_cap s) (List.length (lc_items s))) as [Hfull|Hnf].
    - destruct (ll_do_prune_rep2 mru t l s used free R I Hfull)
        as (l1 & u1 & f1 & kb & D & R1 & Ek & L1).
      rewrite <- Ek.
      set (s1 := lc_with s (remk kb (lc_items s))) in *.
      assert (I1 : lc_inv t s1) by (apply inv_rem with t; exact I).
      assert (A1 : assoc k (ll_index l1) = None).
      { destruct (assoc k (ll_index l1)) as [m|] eqn:A; auto. exfalso.
        destruct I1 as (Nk1 & _).
        destruct (rep2_lookup _ _ _ _ _ _ _ R1 Nk1 A) as (_ & v1 & _ & E2).
        pose proof (rep2_lookup_none _ _ _ _ _ _ R E) as N0.
        unfold s1 in E2. cbn [lc_with lc_items] in E2.
        destruct (Base.eqb_spec k kb) as [Ekk|Nkk].
        - subst kb. rewrite assoc_remk_same in E2. discriminate.
        - rewrite assoc_remk_other in E2 by auto. congruence. }
      destruct (ll_do_insert_nonfull mru t l1 s1 u1 f1 k v R1 I1 L1 A1) as (l' & u' & f' & D2 & R2).
      assert (DI : ll_do_insert mru l k v = ll_do_insert mru l1 k v).
      { pose proof (rep2_len _ _ _ _ _ R) as La. pose proof (rep2_len _ _ _ _ _ R1) as Lb.
        destruct R as (_ & _ & _ & Hle & _ & _ & _ & Hu & _).
        destruct R1 as (_ & _ & _ & Hle1 & _ & _ & _ & Hu1 & _).
        unfold ll_do_insert.
        assert (Ca : (List.length (ll_elems l) <=? ll_used l) = true) by (apply Nat.leb_le; lia).
        assert (Cb : (List.length (ll_elems l1) <=? ll_used l1) = false).
        { apply Nat.leb_gt. rewrite Hle1, Hu1, <- Lb. exact L1. }
        rewrite Ca, Cb, D. reflexivity. }
      rewrite DI. exists l', u', f'. split; [exact D2|exact R2].
    - apply (ll_do_insert_nonfull mru t l s used free k v R I Hnf E).
  Qed.

  (* do_insert_update *)
  Lemma ll_ins_refines mru t (l : lrul K V) (s : lc K V) k v a s1 b :
    lc_inv t s -> ll_rep mru l s -> lc_ins (polof mru) s k v a = (s1, b) ->
    exists l', ll_ins mru l k v a = Ok (l', b) /\ ll_rep mru l' s1 /\ lc_inv t s1 /\
               lc_cap s1 = lc_cap s.
  Proof.
    intros I R E. destruct (rep2_elim _ _ _ R) as (used & free & R2).
    assert (I0 := I). destruct I as (Nk & Hl1 & Hc1).
    unfold lc_ins in E. unfold ll_ins.
    destruct (assoc k (ll_index l)) as [n|] eqn:A.
    - destruct (rep2_lookup _ _ _ _ _ _ _ R2 Nk A) as (In & v0 & E1 & E2). rewrite E2 in E.
      destruct (a_upd a).
      + rewrite touch_polof in E. inversion E; subst s1 b. clear E.
        assert (R0 := R2).
        destruct R2 as (Hl & He & Hc & Hle & Hnd & Hlen & Hb & Hu & Hix & Hnk & Hmap & HA & HB).
        assert (Hn : n < lc_cap s) by (apply Hb; apply in_or_app; auto).
        unfold ll_do_update. rewrite (vget_ok _ _ _ _ _ E1). cbn [bind le_keyed le_pos].
        rewrite vset_ok by lia. cbn [bind].
        match goal with |- context [ll_access mru ?s2 ?e2] =>
          pose proof (ll_access_shape mru s2 e2 used free n Hl He Hnd In eq_refl) as HS end.
        cbn [ll_cap ll_elems ll_index ll_list ll_end ll_used] in HS. rewrite HS. cbn [bind].
        eexists. split; [reflexivity|]. split.
        * eapply rep2_intro. eapply (rep2_touch mru t l s used free k n); eauto.
          -- rewrite upd_nth_len. exact Hle.
          -- apply nth_error_upd_eq. lia.
          -- intros m Nm. apply nth_error_upd_neq. exact Nm.
        * split; [|reflexivity]. apply inv_touch with t; auto. congruence.
      + inversion E; subst s1 b. exists l. auto.
    - rewrite (rep2_lookup_none _ _ _ _ _ _ R2 A) in E.
      destruct (a_ins a).
      + inversion E; subst s1 b. clear E.
        destruct (ll_do_insert_rep2 mru t l s used free k v R2 I0 A) as (l' & u' & f' & D & R').
        rewrite D. cbn [bind]. exists l'. split; [reflexivity|].
        split; [eapply rep2_intro; eauto|]. split; [|reflexivity].
        apply inv_new with t; auto. eapply rep2_lookup_none; eauto.
      + inversion E; subst s1 b. exists l. auto.
  Qed.

  (* erase(key) *)
  Lemma ll_erase_refines mru t (l : lrul K V) (s : lc K V) k s1 b :
    lc_inv t s -> ll_rep mru l s -> lc_erase s k = (s1, b) ->
    exists l', ll_erase l k = Ok (l', b) /\ ll_rep mru l' s1 /\ lc_inv t s1 /\ lc_cap s1 = lc_cap s.
  Proof.
    intros I R E. destruct (rep2_elim _ _ _ R) as (used & free & R2).
    assert (I0 := I). destruct I as (Nk & Hl1 & Hc1).
    unfold lc_erase in E. unfold ll_erase.
    destruct (assoc k (ll_index l)) as [n|] eqn:A.
    - destruct (rep2_lookup _ _ _ _ _ _ _ R2 Nk A) as (In & v0 & E1 & E2). rewrite E2 in E.
      inversion E; subst s1 b. clear E.
      destruct (ll_do_erase_rep2 mru t l s used free k n R2 I0 A) as (l' & D & R').
      rewrite D. cbn [bind]. exists l'. split; [reflexivity|].
      split; [eapply rep2_intro; eauto|]. split; [|reflexivity]. apply inv_rem with t; auto.
    - rewrite (rep2_lookup_none _ _ _ _ _ _ R2 A) in E. inversion E; subst s1 b. exists l. auto.
  Qed.

  (* do_find *)
  Lemma ll_find_refines mru t (l : lrul K V) (s : lc K V) k pk s1 r :
    lc_inv t s -> ll_rep mru l s -> lc_find (polof mru) s k pk = (s1, r) ->
    exists l', ll_find mru l k pk = Ok (l', r) /\ ll_rep mru l' s1 /\ lc_inv t s1 /\
               lc_cap s1 = lc_cap s.
  Proof.
    intros I R E. destruct (rep2_elim _ _ _ R) as (used & free & R2).
    assert (I0 := I). destruct I as (Nk & Hl1 & Hc1).
    unfold lc_find in E. unfold ll_find.
    destruct (assoc k (ll_index l)) as [n|] eqn:A.
    - destruct (rep2_lookup _ _ _ _ _ _ _ R2 Nk A) as (In & v0 & E1 & E2). rewrite E2 in E.
      rewrite touch_polof in E. rewrite (vget_ok _ _ _ _ _ E1). cbn [bind le_val].
      destruct pk; simpl in E; inversion E; subst s1 r; clear E.
      + cbn [bind]. exists l. auto.
      + assert (R0 := R2).
        destruct R2 as (Hl & He & Hc & Hle & Hnd & Hlen & Hb & Hu & Hix & Hnk & Hmap & HA & HB).
        match goal with |- context [ll_access mru ?s2 ?e2] =>
          pose proof (ll_access_shape mru s2 e2 used free n Hl He Hnd In eq_refl) as HS end.
        rewrite HS. cbn [bind]. eexists. split; [reflexivity|]. split.
        * eapply rep2_intro. eapply (rep2_touch mru t l s used free k n); eauto.
        * split; [|reflexivity]. apply inv_touch with t; auto. congruence.
    - rewrite (rep2_lookup_none _ _ _ _ _ _ R2 A) in E. inversion E; subst s1 r. exists l. auto.
  Qed.
End OpFacts.

(* ------------------------------------------------------------------------------------ *)
(* range calls                                                                           *)
(* ------------------------------------------------------------------------------------ *)
Section RangeFacts.
  Context {K V : Type} `{EqDec K}.
  Local Open Scope list_scope.
  Local Open Scope nat_scope.

  Lemma ll_ins_range_refines mru xs : forall t (l : lrul K V) (s : lc K V) a n,
    lc_inv t s -> ll_rep mru l s ->
    exists l', ll_ins_range mru l xs a n = Ok (l', snd (lc_ins_range (polof mru) s xs a n)) /\
               ll_rep mru l' (fst (lc_ins_range (polof mru) s xs a n)) /\
               lc_inv t (fst (lc_ins_range (polof mru) s xs a n)) /\
               lc_cap (fst (lc_ins_range (polof mru) s xs a n)) = lc_cap s.
  Proof.
    induction xs as [|[[z k] v] r IH]; intros t l s a n I R; simpl.
    - exists l. auto.
    - destruct (lc_ins (polof mru) s k v a) as [s1 b] eqn:E.
      destruct (ll_ins_refines mru t l s k v a s1 b I R E) as (l1 & D1 & R1 & I1 & C1).
      rewrite D1. cbn [bind].
      destruct (IH t l1 s1 a (if b then S n else n) I1 R1) as (l' & D2 & R2 & I2 & C2).
      exists l'. split; [exact D2|]. split; [exact R2|]. split; [exact I2|]. congruence.
  Qed.

  Lemma ll_erase_range_refines mru ks : forall t (l : lrul K V) (s : lc K V) n,
    lc_inv t s -> ll_rep mru l s ->
    exists l', ll_erase_range l ks n = Ok (l', snd (lc_erase_range s ks n)) /\
               ll_rep mru l' (fst (lc_erase_range s ks n)) /\
               lc_inv t (fst (lc_erase_range s ks n)) /\
               lc_cap (fst (lc_erase_range s ks n)) = lc_cap s.
  Proof.
    induction ks as [|k r IH]; intros t l s n I R; simpl.
    - exists l. auto.
    - destruct (lc_erase s k) as [s1 b] eqn:E.
      destruct (ll_erase_refines mru t l s k s1 b I R E) as (l1 & D1 & R1 & I1 & C1).
      rewrite D1. cbn [bind].
      destruct (IH t l1 s1 (if b then S n else n) I1 R1) as (l' & D2 & R2 & I2 & C2).
      exists l'. split; [exact D2|]. split; [exact R2|]. split; [exact I2|]. congruence.
  Qed.

  Lemma ll_find_range_refines mru pk ks : forall t (l : lrul K V) (s : lc K V),
    lc_inv t s -> ll_rep mru l s ->
    exists l', ll_find_range mru l ks pk = Ok (l', snd (lc_find_range (polof mru) s ks pk)) /\
               ll_rep mru l' (fst (lc_find_range (polof mru) s ks pk)) /\
               lc_inv t (fst (lc_find_range (polof mru) s ks pk)) /\
               lc_cap (fst (lc_find_range (polof mru) s ks pk)) = lc_cap s.
  Proof.
    induction ks as [|k r IH]; intros t l s I R; simpl.
    - exists l. auto.
    - destruct (lc_find (polof mru) s k pk) as [s1 o] eqn:E.
      destruct (ll_find_refines mru t l s k pk s1 o I R E) as (l1 & D1 & R1 & I1 & C1).
      rewrite D1. cbn [bind].
      destruct (IH t l1 s1 I1 R1) as (l' & D2 & R2 & I2 & C2).
      rewrite D2. cbn [bind].
      destruct (lc_find_range (polof mru) s1 r pk) as [s2 os]. simpl in *.
      exists l'. split; [reflexivity|]. split; [exact R2|]. split; [exact I2|]. congruence.
  Qed.
End RangeFacts.

Section LruLitFacts.
  Context {K V : Type} `{EqDec K}.
  Variable mru : bool.
  Definition pol : lc_policy := if mru then mru_policy else lru_policy.

  Theorem ll_rep_init : forall cap, 1 <= cap -> ll_rep (K := K) (V := V) mru (lrul_init cap) (lc_init cap).
  Proof.
    intros cap Hc. apply (rep2_intro mru _ _ [] (seq 0 cap)).
    unfold rep2, lrul_init, lc_init.
    cbn [ll_cap ll_elems ll_index ll_list ll_end ll_used lc_cap lc_items app].
    split; [reflexivity|]. split; [reflexivity|]. split; [reflexivity|].
    split; [apply repeat_length|]. split; [apply seq_NoDup|]. split; [apply seq_length|].
    split. { intros n I. apply in_seq in I. lia. }
    split; [reflexivity|]. split; [reflexivity|]. split; [constructor|].
    split. { destruct mru; reflexivity. }
    split. { intros n []. }
    intros k n E. discriminate.
  Qed.

  Lemma ll_step_refines_cap : forall t (l : lrul K V) (s : lc K V) o now rnd,
      lc_inv t s -> ll_rep mru l s ->
      exists l', ll_step mru l o now rnd = Ok (l', snd (lc_step pol s o now rnd)) /\
                 ll_rep mru l' (fst (lc_step pol s o now rnd)) /\
                 lc_inv now (fst (lc_step pol s o now rnd)) /\
                 lc_cap (fst (lc_step pol s o now rnd)) = lc_cap s.
  Proof.
    intros t l s o now rnd I R. change pol with (polof mru).
    assert (Hsz : ll_used l = List.length (lc_items s) /\ List.length (ll_elems l) = lc_cap s).
    { destruct (rep2_elim _ _ _ R) as (used & free & R2).
      pose proof (rep2_len _ _ _ _ _ R2) as L.
      destruct R2 as (_ & _ & _ & Hle & _ & _ & _ & Hu & _). split; congruence. }
    destruct Hsz as [Hsz Hcap].
    destruct o as [ttl k v a|xs a|k|ks|k pk|ks pk|ks pk|k pk| |d| | | | | ]; simpl;
      try (exists l; split; [reflexivity|split; [exact R|split; [exact I|reflexivity]]]).
    - destruct (lc_ins (polof mru) s k v a) as [s1 b] eqn:E.
      destruct (ll_ins_refines mru t l s k v a s1 b I R E) as (l1 & D1 & R1 & I1 & C1).
      rewrite D1. cbn [bind]. exists l1. simpl.
      split; [reflexivity|]. split; [exact R1|]. split; [exact I1|exact C1].
    - destruct (ll_ins_range_refines mru xs t l s a 0 I R) as (l1 & D1 & R1 & I1 & C1).
      rewrite D1. cbn [bind].
      destruct (lc_ins_range (polof mru) s xs a 0) as [s1 n]. simpl in *. exists l1.
      split; [reflexivity|]. split; [exact R1|]. split; [exact I1|exact C1].
    - destruct (lc_erase s k) as [s1 b] eqn:E.
      destruct (ll_erase_refines mru t l s k s1 b I R E) as (l1 & D1 & R1 & I1 & C1).
      rewrite D1. cbn [bind]. exists l1. simpl.
      split; [reflexivity|]. split; [exact R1|]. split; [exact I1|exact C1].
    - destruct (ll_erase_range_refines mru ks t l s 0 I R) as (l1 & D1 & R1 & I1 & C1).
      rewrite D1. cbn [bind].
      destruct (lc_erase_range s ks 0) as [s1 n]. simpl in *. exists l1.
      split; [reflexivity|]. split; [exact R1|]. split; [exact I1|exact C1].
    - destruct (lc_find (polof mru) s k pk) as [s1 r] eqn:E.
      destruct (ll_find_refines mru t l s k pk s1 r I R E) as (l1 & D1 & R1 & I1 & C1).
      rewrite D1. cbn [bind]. exists l1. simpl.
      split; [reflexivity|]. split; [exact R1|]. split; [exact I1|exact C1].
    - destruct (ll_find_range_refines mru pk ks t l s I R) as (l1 & D1 & R1 & I1 & C1).
      rewrite D1. cbn [bind].
      destruct (lc_find_range (polof mru) s ks pk) as [s1 r]. simpl in *. exists l1.
      split; [reflexivity|]. split; [exact R1|]. split; [exact I1|exact C1].
    - destruct (ll_find_range_refines mru pk ks t l s I R) as (l1 & D1 & R1 & I1 & C1).
      rewrite D1. cbn [bind].
      destruct (lc_find_range (polof mru) s ks pk) as [s1 r]. simpl in *. exists l1.
      split; [reflexivity|]. split; [exact R1|]. split; [exact I1|exact C1].
    - exists l. unfold lc_size. rewrite Hsz.
      split; [reflexivity|]. split; [exact R|]. split; [exact I|reflexivity].
    - exists l. unfold lc_size. rewrite Hsz.
      split; [reflexivity|]. split; [exact R|]. split; [exact I|reflexivity].
    - exists l. rewrite Hcap.
      split; [reflexivity|]. split; [exact R|]. split; [exact I|reflexivity].
  Qed.

  (* one public call: from related states (the mid-level one satisfying its invariant) the literal
     machine does not hit UB, returns the same result, and the successor states are related *)
  Theorem ll_step_refines : forall t (l : lrul K V) (s : lc K V) o now rnd,
      lc_inv t s -> ll_rep mru l s ->
      exists l', ll_step mru l o now rnd = Ok (l', snd (lc_step pol s o now rnd)) /\
                 ll_rep mru l' (fst (lc_step pol s o now rnd)) /\ lc_inv now (fst (lc_step pol s o now rnd)).
  Proof.
    intros t l s o now rnd I R.
    destruct (ll_step_refines_cap t l s o now rnd I R) as (l' & D & R' & I' & _).
    exists l'. auto.
  Qed.

  Fixpoint ll_run (l : lrul K V) (h : list (ev K V)) : res (lrul K V * list (ret K V)) :=
    match h with
    | [] => Ok (l, [])
    | e :: r => do x <- ll_step mru l (e_op e) (e_now e) (e_rnd e);
                let '(l1, y) := x in
                do z <- ll_run l1 r; let '(l2, ys) := z in Ok (l2, y :: ys)
    end.

  Lemma ll_run_refines : forall h t (l : lrul K V) (s : lc K V),
      lc_inv t s -> ll_rep mru l s ->
      exists l', ll_run l h = Ok (l', snd (run (lc_step pol) s h)) /\
                 ll_rep mru l' (fst (run (lc_step pol) s h)) /\
                 lc_cap (fst (run (lc_step pol) s h)) = lc_cap s.
  Proof.
    induction h as [|e r IH]; intros t l s I R; simpl.
    - exists l. auto.
    - destruct (ll_step_refines_cap t l s (e_op e) (e_now e) (e_rnd e) I R)
        as (l1 & D1 & R1 & I1 & C1).
      rewrite D1. cbn [bind]. unfold step_ev.
      destruct (lc_step pol s (e_op e) (e_now e) (e_rnd e)) as [s1 y1]. simpl in *.
      destruct (IH (e_now e) l1 s1 I1 R1) as (l2 & D2 & R2 & C2).
      rewrite D2. cbn [bind].
      destruct (run (lc_step pol) s1 r) as [s2 ys]. simpl in *.
      exists l2. split; [reflexivity|]. split; [exact R2|]. congruence.
  Qed.

  (* whole histories from a fresh cache: never UB, same results as the mid-level model *)
  Theorem ll_no_UB_on_any_history : forall cap h,
      1 <= cap ->
      exists l', ll_run (lrul_init cap) h = Ok (l', snd (run (lc_step pol) (lc_init cap) h)) /\
                 ll_rep mru l' (fst (run (lc_step pol) (lc_init cap) h)).
  Proof.
    intros cap h Hc.
    destruct (ll_run_refines h 0%Z (lrul_init cap) (lc_init cap)
                (lc_inv_init cap 0%Z Hc) (ll_rep_init cap Hc)) as (l' & D & R & _).
    exists l'. auto.
  Qed.

  (* the number of value cells never changes *)
  Theorem ll_value_cells_constant : forall cap h l' rs,
      1 <= cap -> ll_run (lrul_init cap) h = Ok (l', rs) -> List.length (ll_elems l') = cap.
  Proof.
    intros cap h l' rs Hc E.
    destruct (ll_run_refines h 0%Z (lrul_init cap) (lc_init cap)
                (lc_inv_init cap 0%Z Hc) (ll_rep_init cap Hc)) as (l2 & D & R & C).
    rewrite D in E. injection E as E1 E2. subst l2.
    destruct R as (_ & Rle & _). rewrite Rle, C. reflexivity.
  Qed.
End LruLitFacts.
