(* LruLitFacts.v — C08 for lru_cache and mru_cache: the literal machine (LruLit.v) never
   reaches UB and computes exactly what the mid-level model (ListCache.v) computes. *)
Require Import Capp.Base Capp.Spec Capp.ListCache Capp.ListCacheFacts Capp.RrLit Capp.LruLit.
From Coq Require Import Strings.String.

Section LruLitFacts.
  Context {K V : Type} `{EqDec K}.
  Variable mru : bool.
  Definition pol : lc_policy := if mru then mru_policy else lru_policy.

  Theorem ll_rep_init : forall cap, 1 <= cap -> ll_rep (K := K) (V := V) mru (lrul_init cap) (lc_init cap).
  Admitted.

  (* one public call: from related states (the mid-level one satisfying its invariant) the literal
     machine does not hit UB, returns the same result, and the successor states are related *)
  Theorem ll_step_refines : forall t (l : lrul K V) (s : lc K V) o now rnd,
      lc_inv t s -> ll_rep mru l s ->
      exists l', ll_step mru l o now rnd = Ok (l', snd (lc_step pol s o now rnd)) /\
                 ll_rep mru l' (fst (lc_step pol s o now rnd)) /\ lc_inv now (fst (lc_step pol s o now rnd)).
  Admitted.

  Fixpoint ll_run (l : lrul K V) (h : list (ev K V)) : res (lrul K V * list (ret K V)) :=
    match h with
    | [] => Ok (l, [])
    | e :: r => do x <- ll_step mru l (e_op e) (e_now e) (e_rnd e);
                let '(l1, y) := x in
                do z <- ll_run l1 r; let '(l2, ys) := z in Ok (l2, y :: ys)
    end.

  (* whole histories from a fresh cache: never UB, same results as the mid-level model *)
  Theorem ll_no_UB_on_any_history : forall cap h,
      1 <= cap ->
      exists l', ll_run (lrul_init cap) h = Ok (l', snd (run (lc_step pol) (lc_init cap) h)) /\
                 ll_rep mru l' (fst (run (lc_step pol) (lc_init cap) h)).
  Admitted.

  (* the number of value cells never changes *)
  Theorem ll_value_cells_constant : forall cap h l' rs,
      1 <= cap -> ll_run (lrul_init cap) h = Ok (l', rs) -> List.length (ll_elems l') = cap.
  Admitted.
End LruLitFacts.
