(* Base.v — shared vocabulary of all container models (DESIGN.md §3).
   Definitions only (executable); lemmas live in BaseFacts.v. *)
From Coq Require Export List Bool Arith ZArith Lia.
Export ListNotations.

(* Keys: any type with a decidable boolean equality. *)
Class EqDec (K : Type) := {
  eqb : K -> K -> bool;
  eqb_spec : forall a b, reflect (a = b) (eqb a b)
}.

Global Instance Z_EqDec : EqDec Z := {| eqb := Z.eqb; eqb_spec := Z.eqb_spec |}.
Global Instance nat_EqDec : EqDec nat := {| eqb := Nat.eqb; eqb_spec := Nat.eqb_spec |}.

(* cappuccino::allow as its two bits (allow.hpp:24-32); all four patterns. *)
Record allow := { a_ins : bool; a_upd : bool }.

(* Clock readings: nanoseconds on steady_clock, as Z.  TTLs and ticks are
   given in milliseconds by the API (std::chrono::milliseconds). *)
Definition ms (d : Z) : Z := (d * 1000000)%Z.

(* A deadline: [None] = never expires (non-TTL containers). *)
Definition dl := option Z.
Definition alive (t : Z) (d : dl) : bool :=
  match d with None => true | Some e => Z.ltb t e end.

Section Assoc.
  Context {K : Type} `{EqDec K} {A : Type}.

  Fixpoint assoc (k : K) (l : list (K * A)) : option A :=
    match l with
    | [] => None
    | (k', a) :: r => if eqb k k' then Some a else assoc k r
    end.

  Fixpoint remk (k : K) (l : list (K * A)) : list (K * A) :=
    match l with
    | [] => []
    | (k', a) :: r => if eqb k k' then remk k r else (k', a) :: remk k r
    end.

  Fixpoint setk (k : K) (a : A) (l : list (K * A)) : list (K * A) :=
    match l with
    | [] => []
    | (k', a') :: r => if eqb k k' then (k', a) :: r else (k', a') :: setk k a r
    end.

  Definition keys (l : list (K * A)) : list K := map fst l.

  Fixpoint memk (k : K) (l : list K) : bool :=
    match l with [] => false | k' :: r => if eqb k k' then true else memk k r end.

  Fixpoint remkey (k : K) (l : list K) : list K :=
    match l with [] => [] | k' :: r => if eqb k k' then remkey k r else k' :: remkey k r end.
End Assoc.

(* remove the entry whose *second* component is the key (multimap content lists) *)
Section Assoc2.
  Context {K : Type} `{EqDec K} {A : Type}.
  Fixpoint rem2 (k : K) (l : list (A * K)) : list (A * K) :=
    match l with
    | [] => []
    | (a, k') :: r => if eqb k k' then rem2 k r else (a, k') :: rem2 k r
    end.
  Fixpoint assoc2 (k : K) (l : list (A * K)) : option A :=
    match l with
    | [] => None
    | (a, k') :: r => if eqb k k' then Some a else assoc2 k r
    end.
End Assoc2.

(* -------- the public API as one operation type shared by all containers ---- *)
Section Ops.
  Context {K V : Type}.

  Inductive op :=
  | Insert (ttl : Z) (k : K) (v : V) (a : allow)       (* ttl (ms) used by tlru only *)
  | InsertRange (l : list (Z * K * V)) (a : allow)
  | Erase (k : K)
  | EraseRange (l : list K)
  | Find (k : K) (peek : bool)
  | FindRange (l : list K) (peek : bool)
  | FindRangeFill (l : list K) (peek : bool)
  | FindUse (k : K) (peek : bool)                       (* lfu, lfuda *)
  | DynAge                                              (* lfuda *)
  | UpdateTtl (d : Z)                                   (* utlru *)
  | Clear                                               (* utlru, ut_map *)
  | Clean                                               (* tlru, utlru, ut_map, ut_set *)
  | Size | Empty | Capacity.

  Inductive ret :=
  | RB (b : bool)
  | RN (n : nat)
  | RO (o : option V)
  | RU (o : option (V * nat))
  | RL (l : list (K * option V))
  | RUnit
  | RUnsupported.

  (* One public call: the operation, the clock reading the call samples, and the
     draws its random source hands out (rr only; one per eviction). *)
  Record ev := { e_op : op; e_now : Z; e_rnd : list nat }.
End Ops.
Arguments op : clear implicits.
Arguments ret : clear implicits.
Arguments ev : clear implicits.

(* generic run of a step function over a history *)
Section Run.
  Context {St K V : Type}.
  Variable step : St -> op K V -> Z -> list nat -> St * ret K V.
  Definition step_ev (s : St) (e : ev K V) : St * ret K V :=
    step s (e_op e) (e_now e) (e_rnd e).
  Fixpoint run (s : St) (h : list (ev K V)) : St * list (ret K V) :=
    match h with
    | [] => (s, [])
    | e :: r => let '(s1, x) := step_ev s e in
                let '(s2, xs) := run s1 r in (s2, x :: xs)
    end.
  Definition final (s : St) (h : list (ev K V)) : St :=
    fold_left (fun s e => fst (step_ev s e)) h s.
End Run.

(* clock readings of a history are non-decreasing (steady_clock) *)
Fixpoint mono_from {K V} (t : Z) (h : list (ev K V)) : Prop :=
  match h with
  | [] => True
  | e :: r => (t <= e_now e)%Z /\ mono_from (e_now e) r
  end.
