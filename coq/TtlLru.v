(* TtlLru.v — mid-level model (L2) of tlru_cache and utlru_cache.

   tl_lru : the used part of m_lru_list reversed: least recently used FIRST,
            as key |-> (value, m_expire_time in ns).
   tl_ord : the deadline structure in iteration order as (deadline, key):
            tlru  — std::multimap<time_point,size_t> m_ttl_list (emplace = upper bound);
            utlru — std::list<size_t> m_ttl_list, each write filed behind every entry
                    whose deadline is <= its own (same order as the multimap).
   tl_uniform = true for utlru (one configured TTL, update_ttl, clear), false for
   tlru (TTL supplied per insert). *)
Require Import Capp.Base.

Section TtlLru.
  Context {K V : Type} `{EqDec K}.

  Record tl := {
    tl_uniform : bool;
    tl_cap : nat;
    tl_ttl : Z;                         (* utlru m_ttl, milliseconds *)
    tl_lru : list (K * (V * Z));
    tl_ord : list (Z * K)
  }.

  Definition tl_init (uniform : bool) (cap : nat) (ttl : Z) : tl :=
    {| tl_uniform := uniform; tl_cap := cap; tl_ttl := ttl; tl_lru := []; tl_ord := [] |}.

  Definition tl_with (s : tl) (l : list (K * (V * Z))) (o : list (Z * K)) : tl :=
    {| tl_uniform := tl_uniform s; tl_cap := tl_cap s; tl_ttl := tl_ttl s; tl_lru := l; tl_ord := o |}.

  (* emplace at the upper bound of the deadline *)
  Fixpoint dl_insert (e : Z) (k : K) (o : list (Z * K)) : list (Z * K) :=
    match o with
    | [] => [(e, k)]
    | (e', k') :: r => if (e' <=? e)%Z then (e', k') :: dl_insert e k r else (e, k) :: o
    end.

  (* do_erase *)
  Definition tl_erase_key (s : tl) (k : K) : tl :=
    tl_with s (remk k (tl_lru s)) (rem2 k (tl_ord s)).

  (* do_update: new value and deadline, re-file, do_access *)
  Definition tl_update (s : tl) (k : K) (v : V) (e : Z) : tl :=
    tl_with s (remk k (tl_lru s) ++ [(k, (v, e))]) (dl_insert e k (rem2 k (tl_ord s))).

  (* do_prune(now): a dead entry at the head of the deadline order, else the LRU one *)
  Definition tl_prune (s : tl) (now : Z) : tl :=
    match tl_lru s with
    | [] => s
    | (kl, _) :: _ =>
        match tl_ord s with
        | (e, k) :: _ => if (e <=? now)%Z then tl_erase_key s k else tl_erase_key s kl
        | [] => tl_erase_key s kl
        end
    end.

  (* do_find *)
  Definition tl_find (s : tl) (k : K) (peek : bool) (now : Z) : tl * option V :=
    match assoc k (tl_lru s) with
    | Some (v, e) =>
        if (now <? e)%Z
        then ((if peek then s else tl_with s (remk k (tl_lru s) ++ [(k, (v, e))]) (tl_ord s)), Some v)
        else (tl_erase_key s k, None)
    | None => (s, None)
    end.

  (* do_insert_update(key, value, now, expire_time, allow) *)
  Definition tl_ins (s : tl) (k : K) (v : V) (a : allow) (now e : Z) : tl * bool :=
    match assoc k (tl_lru s) with
    | Some (_, e0) =>
        if a_upd a then (tl_update s k v e, true)
        else if a_ins a then (if (e0 <=? now)%Z then (tl_update s k v e, true) else (s, false))
        else (s, false)
    | None =>
        if a_ins a then
          let s1 := if tl_cap s <=? length (tl_lru s) then tl_prune s now else s in
          (tl_with s1 (tl_lru s1 ++ [(k, (v, e))]) (dl_insert e k (tl_ord s1)), true)
        else (s, false)
    end.

  Definition tl_erase (s : tl) (k : K) : tl * bool :=
    match assoc k (tl_lru s) with
    | Some _ => (tl_erase_key s k, true)
    | None => (s, false)
    end.

  (* clean_expired_values: erase the head of the deadline order while it is dead *)
  Fixpoint tl_clean_loop (now : Z) (o : list (Z * K)) (l : list (K * (V * Z))) (n : nat)
    : list (K * (V * Z)) * list (Z * K) * nat :=
    match o with
    | [] => (l, [], n)
    | (e, k) :: r => if (e <=? now)%Z then tl_clean_loop now r (remk k l) (S n) else (l, o, n)
    end.
  Definition tl_clean (s : tl) (now : Z) : tl * nat :=
    let '(l, o, n) := tl_clean_loop now (tl_ord s) (tl_lru s) 0 in (tl_with s l o, n).

  Fixpoint tl_ins_range (s : tl) (l : list (Z * K * V)) (a : allow) (now : Z) (n : nat) : tl * nat :=
    match l with
    | [] => (s, n)
    | (ttl, k, v) :: r =>
        let e := (now + ms (if tl_uniform s then tl_ttl s else ttl))%Z in
        let '(s1, b) := tl_ins s k v a now e in
        tl_ins_range s1 r a now (if b then S n else n)
    end.
  Fixpoint tl_erase_range (s : tl) (l : list K) (n : nat) : tl * nat :=
    match l with
    | [] => (s, n)
    | k :: r => let '(s1, b) := tl_erase s k in tl_erase_range s1 r (if b then S n else n)
    end.
  Fixpoint tl_find_range (s : tl) (l : list K) (peek : bool) (now : Z) : tl * list (K * option V) :=
    match l with
    | [] => (s, [])
    | k :: r => let '(s1, o) := tl_find s k peek now in
                let '(s2, os) := tl_find_range s1 r peek now in (s2, (k, o) :: os)
    end.

  Definition tl_size (s : tl) : nat := length (tl_lru s).

  Definition tl_step (s : tl) (o : op K V) (now : Z) (rnd : list nat) : tl * ret K V :=
    match o with
    | Insert ttl k v a =>
        let e := (now + ms (if tl_uniform s then tl_ttl s else ttl))%Z in
        let '(s1, b) := tl_ins s k v a now e in (s1, RB b)
    | InsertRange l a => let '(s1, n) := tl_ins_range s l a now 0 in (s1, RN n)
    | Erase k => let '(s1, b) := tl_erase s k in (s1, RB b)
    | EraseRange l => let '(s1, n) := tl_erase_range s l 0 in (s1, RN n)
    | Find k pk => let '(s1, r) := tl_find s k pk now in (s1, RO r)
    | FindRange l pk => let '(s1, r) := tl_find_range s l pk now in (s1, RL r)
    | FindRangeFill l pk => let '(s1, r) := tl_find_range s l pk now in (s1, RL r)
    | Clean => let '(s1, n) := tl_clean s now in (s1, RN n)
    | UpdateTtl d =>
        if tl_uniform s
        then ({| tl_uniform := true; tl_cap := tl_cap s; tl_ttl := d; tl_lru := tl_lru s; tl_ord := tl_ord s |}, RUnit)
        else (s, RUnsupported)
    | Clear => if tl_uniform s then (tl_init true (tl_cap s) (tl_ttl s), RUnit) else (s, RUnsupported)
    | Size => (s, RN (tl_size s))
    | Empty => (s, RB (Nat.eqb (tl_size s) 0))
    | Capacity => (s, RN (tl_cap s))
    | _ => (s, RUnsupported)
    end.

  Definition tl_view (s : tl) (now : Z) (k : K) : option V :=
    match assoc k (tl_lru s) with
    | Some (v, e) => if (now <? e)%Z then Some v else None
    | None => None
    end.
  Definition tl_get (s : tl) (k : K) : option (V * dl) :=
    match assoc k (tl_lru s) with Some (v, e) => Some (v, Some e) | None => None end.
End TtlLru.
Arguments tl : clear implicits.
