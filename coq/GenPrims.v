(* GenPrims.v — the primitives the translator tools/cpp2coq.py maps C++ constructs to, beyond
   those of the literal machines (RrLit.v: vget, vset, index_erase, index_emplace; LruLit.v:
   the formal std::list).  Each is the meaning of one C++ construct, stated once. *)
Require Import Capp.Base Capp.Rr Capp.RrLit Capp.LruLit.
From Coq Require Import Strings.String Lia.

Section GenPrims.
  Context {K : Type} `{EqDec K}.
  Local Open Scope string_scope.
  Local Open Scope list_scope.
  Local Open Scope nat_scope.

  (* element& e = m_elements[i] : binding the reference requires i < size() *)
  Definition vref {A} (l : list A) (i : nat) : res nat :=
    match nth_error l i with Some _ => Ok i | None => UB "index out of range: m_elements[]" end.

  (* an iterator into m_keyed_elements is the key of its node; None = end() (or singular) *)
  Definition mit_find {A} (ix : list (K * A)) (k : K) : option K :=
    match assoc k ix with Some _ => Some k | None => None end.
  Definition mit_eqb (a b : option K) : bool :=
    match a, b with Some x, Some y => Base.eqb x y | None, None => true | _, _ => false end.
  (* it->second *)
  Definition mit_second {A} (ix : list (K * A)) (it : option K) : res A :=
    match it with
    | None => UB "dereference of end() of the index"
    | Some k => match assoc k ix with Some a => Ok a | None => UB "dereference of an erased index iterator" end
    end.
  (* m_keyed_elements.emplace(key, idx): no insertion when the key is present *)
  Definition umap_emplace (cap : nat) (ix : list (K * nat)) (k : K) (i : nat) : res (list (K * nat)) :=
    match assoc k ix with Some _ => Ok ix | None => index_emplace cap ix k i end.
End GenPrims.

(* ---- equality of results up to the reason given for undefined behaviour ---- *)
Definition req {A} (x y : res A) : Prop :=
  match x, y with Ok a, Ok b => a = b | UB _, UB _ => True | _, _ => False end.

Lemma req_refl {A} (x : res A) : req x x.
Proof. destruct x; simpl; auto. Qed.
Lemma req_sym {A} (x y : res A) : req x y -> req y x.
Proof. destruct x, y; simpl; auto. Qed.
Lemma req_trans {A} (x y z : res A) : req x y -> req y z -> req x z.
Proof. destruct x, y, z; simpl; intros; try congruence; auto; contradiction. Qed.
Lemma req_bind {A B} (x y : res A) (f g : A -> res B) :
  req x y -> (forall a, x = Ok a -> req (f a) (g a)) -> req (bind x f) (bind y g).
Proof. destruct x, y; simpl; intros E F; try contradiction; subst; auto. Qed.
Lemma req_ok {A} (x : res A) (a : A) : req x (Ok a) <-> x = Ok a.
Proof. destruct x; simpl; split; intros E; try congruence; try contradiction. Qed.
Lemma req_ub_l {A} (w : string) (y : res A) : req (UB w) y <-> exists w', y = UB w'.
Proof. destruct y; simpl; split; intros E; try contradiction; eauto. destruct E as [? E]; discriminate. Qed.

(* ---- the algebra of bounds-checked vector access ---- *)
Section Vec.
  Context {A : Type}.
  Local Open Scope nat_scope.

  Lemma upd_nth_length : forall (l : list A) i x, List.length (upd_nth i x l) = List.length l.
  Proof. induction l; destruct i; simpl; intros; auto. Qed.
  Lemma nth_error_upd_same : forall (l : list A) i x, i < List.length l -> nth_error (upd_nth i x l) i = Some x.
  Proof. induction l; destruct i; simpl; intros; try lia; auto. apply IHl; lia. Qed.
  Lemma upd_nth_twice : forall (l : list A) i x y, upd_nth i y (upd_nth i x l) = upd_nth i y l.
  Proof. induction l; destruct i; simpl; intros; auto. f_equal; auto. Qed.

  Lemma vget_inv w (l : list A) i a : vget w l i = Ok a <-> nth_error l i = Some a.
  Proof. unfold vget. destruct (nth_error l i); split; intros E; inversion E; auto. Qed.
  Lemma vget_req w w' (l : list A) i : req (vget w l i) (vget w' l i).
  Proof. unfold vget. destruct (nth_error l i); simpl; auto. Qed.
  Lemma vset_inv w (l : list A) i a l' : vset w l i a = Ok l' <-> i < List.length l /\ l' = upd_nth i a l.
  Proof.
    unfold vset. destruct (Nat.ltb_spec i (List.length l)); split; intros E.
    - inversion E; subst; split; auto.
    - destruct E as [_ ->]; auto.
    - discriminate.
    - lia.
  Qed.
  Lemma vget_lt w (l : list A) i a : vget w l i = Ok a -> i < List.length l.
  Proof. intros E. apply vget_inv in E. apply nth_error_Some. congruence. Qed.
  Lemma vset_of_vget w w' (l : list A) i a b : vget w l i = Ok a -> vset w' l i b = Ok (upd_nth i b l).
  Proof. intros E. apply vset_inv. split; auto. eapply vget_lt; eauto. Qed.
  Lemma vget_upd_same w (l : list A) i a b : vget w l i = Ok a -> vget w (upd_nth i b l) i = Ok b.
  Proof. intros E. apply vget_inv. apply nth_error_upd_same. eapply vget_lt; eauto. Qed.
  Lemma vref_inv (l : list A) i j : vref l i = Ok j <-> j = i /\ i < List.length l.
  Proof.
    unfold vref. destruct (nth_error l i) eqn:E; split; intros F.
    - inversion F; subst; split; auto. apply nth_error_Some. congruence.
    - destruct F as [-> _]; auto.
    - discriminate.
    - destruct F as [_ F]. apply nth_error_Some in F. congruence.
  Qed.
  Lemma vref_vget w (l : list A) i : req (vref l i) (do _ <- vget w l i; Ok i).
  Proof. unfold vref, vget. destruct (nth_error l i); simpl; auto. Qed.
End Vec.

(* ---- runs of a step function in the UB monad ---- *)
Section Runs.
  Context {S E R : Type}.
  Fixpoint run_res (step : S -> E -> res (S * R)) (s : S) (h : list E) : res (S * list R) :=
    match h with
    | [] => Ok (s, [])
    | e :: r => do x <- step s e; let '(s1, y) := x in
                do z <- run_res step s1 r; let '(s2, ys) := z in Ok (s2, y :: ys)
    end.
  Lemma run_res_req (f g : S -> E -> res (S * R)) (P : E -> Prop) :
    (forall s e, P e -> req (f s e) (g s e)) ->
    forall h s, Forall P h -> req (run_res f s h) (run_res g s h).
  Proof.
    intros Hfg. induction h as [|e r IH]; intros s HP; simpl; auto.
    inversion HP; subst. apply req_bind; auto.
    intros [s1 y] _. apply req_bind; auto. intros [s2 ys] _. simpl. auto.
  Qed.
End Runs.

(* range-for over an input sequence *)
Fixpoint foldM {A B} (f : B -> A -> res B) (l : list A) (b : B) : res B :=
  match l with [] => Ok b | x :: r => do b1 <- f b x; foldM f r b1 end.

(* while / for loops (with break): [c] is the condition, [f] the body, which answers whether to
   go on; running out of fuel is reported as undefined behaviour, so a no-UB theorem about a
   generated method also says its loops end within the bound the schema states *)
Fixpoint whileB {B} (fuel : nat) (c : B -> res bool) (f : B -> res (bool * B)) (b : B) : res B :=
  match fuel with
  | 0 => UB "loop fuel exhausted"
  | S n => do t <- c b;
           if t then (do r <- f b; let '(go, b1) := r in if go then whileB n c f b1 else Ok b1) else Ok b
  end.

(* ---- std::optional<T> whose state the record keeps as [option T] ---- *)
(* o.has_value() *)
Definition opt_has_value {A} (o : option A) : bool := match o with Some _ => true | None => false end.
(* o.value(): on an empty optional it throws std::bad_optional_access; the monad has no
   exceptions, so the throw is reported as UB (conservative: a no-UB theorem excludes it) *)
Definition opt_value {A} (o : option A) : res A :=
  match o with Some a => Ok a | None => UB "value() of an empty optional (bad_optional_access)" end.

(* ---- iterators stored in a container whose record keeps only the node they point at ---- *)
(* a std::list iterator stored as the mapped value of the index (key -> list iterator): the record
   keeps the node identity n for It n; storing end() is defined C++ but has no representation, it
   is reported as UB (conservative) *)
Definition iter_node (i : iter) : res nat :=
  match i with It n => Ok n | End => UB "end() stored as a mapped list iterator: not representable" end.
(* an index iterator stored in a std::optional<keyed_iterator> kept as [option K] (None = nullopt,
   Some k = engaged, pointing at the node of key k): an engaged optional holding end() / a singular
   iterator has no representation, it is reported as UB (conservative) *)
Definition mit_engage {K} (it : option K) : res (option K) :=
  match it with Some k => Ok (Some k) | None => UB "end() stored in optional<keyed_iterator>: not representable" end.
(* ---- rr_cache: vector<size_t> elements as lvalues, unsigned subtraction, the random engine ---- *)
Section RrPrims.
  Local Open Scope string_scope.
  Local Open Scope nat_scope.

  (* a - b on size_t used as a value: wrap-around is reported (as for --x), the result is then an index or a bound *)
  Definition usub (a b : nat) : res nat :=
    if a <? b then UB "unsigned subtraction wraps around" else Ok (a - b).

  (* std::swap(v[i], v[j]) on two elements of the same vector: both references must be in range *)
  Definition vswap {A} (what : string) (l : list A) (i j : nat) : res (list A) :=
    do a <- vget what l i; do b <- vget what l j; Ok (upd_nth j a (upd_nth i b l)).

  (* std::uniform_int_distribution<size_t> d{a, b}: requires a <= b; the object is its pair of bounds *)
  Definition uniform_dist (a b : nat) : res (nat * nat) :=
    if a <=? b then Ok (a, b) else UB "uniform_int_distribution{a, b} with b < a".

  (* d(engine): the engine is the sequence of the draws it will hand out (a finite list stands for
     the stream that goes on with 0s, as in Rr.v / RrLit.v); a draw consumes the head; the
     distribution only produces values in [a, b], anything else is not a behaviour of the
     program and is reported *)
  Definition rng_draw (d : nat * nat) (g : list nat) : res (nat * list nat) :=
    let r := hd 0 g in
    if (fst d <=? r) && (r <=? snd d) then Ok (r, tl g) else UB "draw outside [a, b] of the distribution".
End RrPrims.

(* the state of a class with a random engine member: the state record of its literal machine
   plus the engine (the draws still to come) *)
Record with_rng (S : Type) := { rs_st : S; rs_rng : list nat }.
Arguments rs_st {S} _.
Arguments rs_rng {S} _.
(* ---- appended for lfu_cache (tools/cpp2coq_lfu.py): containers whose mapped values are
   std::list iterators, and std::multimap<size_t, list iterator> with the iterator model of
   LfudaLit.v (a multimap iterator is the list node its pair refers to; None = end()/singular) ---- *)
Require Import Capp.LfudaLit.
Section GenPrimsLfu.
  Local Open Scope string_scope.
  Local Open Scope list_scope.

  (* a std::list iterator handed to emplace(...) as the MAPPED value of m_keyed_elements / m_lfu_list:
     the formal containers keep node identities, in which end() has no representation; storing it is
     therefore reported (conservatively) as undefined *)
  Definition it_node (i : iter) : res nat :=
    match i with
    | It n => Ok n
    | End => UB "end() stored as a mapped list iterator: not representable in the formal container"
    end.

  (* m_lfu_list.begin() is mm_begin of the generic multimap section below *)

  (* it->second through a multimap iterator (it->first is mm_deref of LfudaLit.v) *)
  Definition mm_second (m : list (nat * nat)) (it : option nat) : res nat :=
    match it with
    | None => UB "dereference of end() / a singular multimap iterator"
    | Some n => match mm_count n m with Some _ => Ok n | None => UB "dereference of an erased multimap iterator" end
    end.

  (* std::optional<std::pair<V, B>>{std::make_pair(cell, b)} for a value cell: as for
     std::optional<V>{cell}, a never-assigned cell (None: a default-constructed V, which V does not
     represent) gives None *)
  Definition cell_pair {A B} (a : option A) (b : B) : option (A * B) :=
    match a with Some v => Some (v, b) | None => None end.
  (* std::make_pair(e.m_value, n) for a value cell (None = the default-constructed value of a never-used node) *)
  Definition val_pair {V} (o : option V) (n : nat) : option (V * nat) :=
    match o with Some v => Some (v, n) | None => None end.
End GenPrimsLfu.
(* ==== std::map<K, T> and std::list<T> with dynamically created nodes (ut_map.hpp, ut_set.hpp) ====
   A std::map is an association list (its iteration order is never observed); an iterator into it is
   the key of its node, None = end() (as for the index above).  A std::list<T> whose nodes are created
   by emplace_back and destroyed by erase is the sequence of its node identities (list nat, the formal
   std::list of LruLit.v), a store giving the element of each live node (list (nat * T)), and a counter
   handing out fresh identities.  A list iterator STORED in a structure field whose formal type is
   [option nat] is the identity of its node, None = singular. *)
Section GenPrimsMap.
  Context {K : Type} `{EqDec K}.
  Local Open Scope string_scope.
  Local Open Scope list_scope.
  Local Open Scope nat_scope.

  (* it->second as an lvalue (binding a reference to the mapped object): it must point at a live node *)
  Definition map_ref {A} (m : list (K * A)) (it : option K) : res K :=
    match it with
    | None => UB "dereference of end() of the map"
    | Some k => match assoc k m with Some _ => Ok k | None => UB "dereference of an erased map iterator" end
    end.
  (* a read through a reference to the mapped object of the node of key k *)
  Definition map_get {A} (m : list (K * A)) (k : K) : res A :=
    match assoc k m with Some a => Ok a | None => UB "use of a reference into an erased map node" end.
  (* map.emplace(key, obj): no insertion when the key is present; never invalidates iterators *)
  Definition map_emplace {A} (m : list (K * A)) (k : K) (a : A) : list (K * A) :=
    match assoc k m with Some _ => m | None => m ++ [(k, a)] end.
  (* map.erase(iterator) *)
  Definition map_erase_it {A} (m : list (K * A)) (it : option K) : res (list (K * A)) :=
    match it with
    | None => UB "map erase of end()"
    | Some k => match assoc k m with Some _ => Ok (remk k m) | None => UB "map erase through an erased iterator" end
    end.
  (* a map iterator stored in a field whose formal type is K (the key of the node): end() has no such form *)
  Definition mit_key (it : option K) : res K :=
    match it with Some k => Ok k | None => UB "end() of the map stored where only node iterators are representable" end.
End GenPrimsMap.

(* reading / writing a stored list iterator *)
Definition it_load (p : option nat) : res iter :=
  match p with Some n => Ok (It n) | None => UB "use of a singular list iterator"%string end.
Definition it_store (i : iter) : res (option nat) :=
  match i with It n => Ok (Some n) | End => UB "end() of the list stored where only node iterators are representable"%string end.
(* the element of a live list node *)
Definition node_get {T} (nodes : list (nat * T)) (n : nat) : res T :=
  match assoc n nodes with Some t => Ok t | None => UB "list node without element"%string end.
(* list.erase(it): it must be dereferenceable; the node is destroyed *)
Definition l_erase_node (l : list nat) (i : iter) : res (nat * list nat) :=
  match i with
  | End => UB "list erase of end()"%string
  | It n => if mem_nat n l then Ok (n, remove_nat n l) else UB "list erase through an invalid iterator"%string
  end.
(* the nodes before position i, and those from i on; None when i is not a position of l *)
Fixpoint split_at (i : iter) (l : list nat) : option (list nat * list nat) :=
  match l with
  | [] => match i with End => Some ([], []) | It _ => None end
  | x :: r => if iter_eqb i (It x) then Some ([], l)
              else match split_at i r with Some (p, q) => Some (x :: p, q) | None => None end
  end.
(* list.erase(first, last): [first, last) must be a range of the list; answers the remaining list and the destroyed nodes *)
Definition l_erase_nodes (l : list nat) (a b : iter) : res (list nat * list nat) :=
  match split_at a l with
  | None => UB "list erase(first, last): first is not an iterator of the list"%string
  | Some (pre, rest) =>
      match split_at b rest with
      | None => UB "list erase(first, last): last is not reachable from first"%string
      | Some (mid, post) => Ok ((pre ++ post)%list, mid)
      end
  end.
(* the store after the nodes [ids] were destroyed *)
Definition drop_nodes {T} (ids : list nat) (nodes : list (nat * T)) : list (nat * T) :=
  filter (fun p => negb (mem_nat (fst p) ids)) nodes.
(* size_t a - b is usub (above): wrapping below zero is reported rather than computed modulo 2^64 *)

(* ---- std::multimap<T, size_t> in the formal STL of TtlLit.v / LfudaLit.v: the content in iteration
   order; a node is identified by its mapped value, so an iterator is [Some n] = the node whose mapped
   value is n (valid iff such a node is present), [None] = end() or singular.  (erase(iterator) and
   emplace at the upper bound are ord_erase / mm_emplace_z of TtlLit.v.) ---- *)
Section MMap.
  Context {A : Type}.
  Local Open Scope string_scope.
  (* begin() *)
  Definition mm_begin (o : list (A * nat)) : option nat :=
    match o with [] => None | (_, n) :: _ => Some n end.
  Fixpoint mm_node (n : nat) (o : list (A * nat)) : option (A * nat) :=
    match o with [] => None | (a, x) :: r => if Nat.eqb n x then Some (a, x) else mm_node n r end.
  (* *it, it->first, it->second *)
  Definition mm_it_deref (o : list (A * nat)) (it : option nat) : res (A * nat) :=
    match it with
    | None => UB "dereference of end() of the multimap"
    | Some n => match mm_node n o with Some p => Ok p | None => UB "dereference of an erased multimap iterator" end
    end.
  Definition mm_it_first (o : list (A * nat)) (it : option nat) : res A :=
    do p <- mm_it_deref o it; Ok (fst p).
  Definition mm_it_second (o : list (A * nat)) (it : option nat) : res nat :=
    do p <- mm_it_deref o it; Ok (snd p).
End MMap.
(* ==== primitives added for utlru_cache (tools/cpp2coq_utlru.py) ==== *)

(* std::list<size_t> whose nodes are created (emplace) and destroyed (erase, clear) — utlru's
   m_ttl_list.  The representation is the one of the state record of TtlLit.v: the sequence of
   the nodes, each a pair (tag, value held); a node is named by the value it holds (the convention
   of te_ttl in TtlLit.v), the tag is not part of the C++ object (the record shares the field with
   the keys of tlru's multimap; emplace writes 0).  An iterator is [It v] (the node holding v) or
   [End]; the iterator operations are those of the formal std::list of LruLit.v on the node names. *)
Section NodeList.
  Local Open Scope string_scope.
  Local Open Scope list_scope.
  Local Open Scope nat_scope.

  Definition nl_names (o : list (Z * nat)) : list nat := map snd o.
  (* l.begin() *)
  Definition nl_begin (o : list (Z * nat)) : iter := l_begin (nl_names o).
  (* *it *)
  Definition nl_deref (o : list (Z * nat)) (i : iter) : res nat := l_deref (nl_names o) i.
  (* std::prev(it), --it *)
  Definition nl_prev (o : list (Z * nat)) (i : iter) : res iter := l_prev (nl_names o) i.
  (* l.emplace(pos, v): a new node holding v in front of pos; the result is the list and the new node *)
  Fixpoint nl_insert_before (pos : iter) (v : nat) (o : list (Z * nat)) : list (Z * nat) :=
    match o with
    | [] => [(0%Z, v)]
    | (z, x) :: r => if iter_eqb pos (It x) then (0%Z, v) :: (z, x) :: r else (z, x) :: nl_insert_before pos v r
    end.
  Definition nl_emplace (o : list (Z * nat)) (pos : iter) (v : nat) : res (list (Z * nat) * nat) :=
    if valid_it (nl_names o) pos then Ok (nl_insert_before pos v o, v) else UB "emplace at an invalid list iterator".
  (* l.erase(it) *)
  Fixpoint nl_remove (n : nat) (o : list (Z * nat)) : list (Z * nat) :=
    match o with [] => [] | (z, x) :: r => if Nat.eqb n x then r else (z, x) :: nl_remove n r end.
  Definition nl_erase (o : list (Z * nat)) (i : iter) : res (list (Z * nat)) :=
    match i with
    | End => UB "erase(end())"
    | It n => if mem_nat n (nl_names o) then Ok (nl_remove n o) else UB "erase through an invalid list iterator"
    end.
  (* a stored std::list iterator kept as the name of its node (None = singular), read as an iterator *)
  Definition opt_node (p : option nat) : res iter :=
    match p with Some n => Ok (It n) | None => UB "use of a singular list iterator" end.

  (* std::iota(l.begin(), l.end(), start) over a std::list<size_t> of LruLit.v (nodes named by the
     value they hold): the node at position p now holds start + p, so the list of names becomes
     seq start (length l), and an iterator kept from before — it stays with its node — is renamed
     accordingly; an iterator that was not a node of the list gets a name that is not one either *)
  Definition l_iota (l : list nat) (start : nat) : list nat := seq start (List.length l).
  Fixpoint pos_of (n : nat) (l : list nat) : option nat :=
    match l with
    | [] => None
    | x :: r => if Nat.eqb n x then Some 0 else match pos_of n r with Some p => Some (S p) | None => None end
    end.
  Definition l_iota_it (l : list nat) (start : nat) (i : iter) : iter :=
    match i with
    | End => End
    | It n => match pos_of n l with Some p => It (start + p) | None => It (start + List.length l + n) end
    end.
End NodeList.

Section IndexMore.
  Context {K : Type} `{EqDec K}.
  Local Open Scope string_scope.
  Local Open Scope nat_scope.
  (* *it for an iterator of the index: the pair (key, mapped value) of its node *)
  Definition mit_deref {A} (ix : list (K * A)) (it : option K) : res (K * A) :=
    match it with
    | None => UB "dereference of end() of the index"
    | Some k => match assoc k ix with Some a => Ok (k, a) | None => UB "dereference of an erased index iterator" end
    end.
  (* m.reserve(n): afterwards no rehash happens while size() <= n.  A reserve may rehash, which
     invalidates the stored iterators, so it is accepted on an empty index only *)
  Definition umap_reserve {A} (ix : list (K * A)) (n : nat) : res nat :=
    match ix with [] => Ok n | _ => UB "reserve on a non-empty index: a rehash invalidates stored iterators" end.
End IndexMore.

(* a pointer to an element of the container: None is nullptr; dereferencing a null pointer is undefined *)
Definition ptr_deref (p : option nat) : res nat :=
  match p with Some i => Ok i | None => UB "null pointer dereference" end.
