(* ListCacheFacts.v — proofs about the lru / mru / fifo model (ListCache.v):
   the ModelOK instance (Spec.v), policy order (C10, C12, C13), no-effect calls (C19). *)
Require Import Capp.Base Capp.Spec Capp.ListCache.

(* ---------- general facts about assoc / remk / setk / keys ---------- *)
Section AssocFacts.
  Context {K : Type} `{EqDec K} {A : Type}.

  Lemma keqb_refl (k : K) : eqb k k = true.
  Proof. destruct (eqb_spec k k); congruence. Qed.
  Lemma keqb_neq (a b : K) : a <> b -> eqb a b = false.
  Proof. destruct (eqb_spec a b); congruence. Qed.
  Lemma keqb_true (a b : K) : eqb a b = true -> a = b.
  Proof. destruct (eqb_spec a b); congruence. Qed.
  Lemma keqb_false (a b : K) : eqb a b = false -> a <> b.
  Proof. destruct (eqb_spec a b); congruence. Qed.

  Lemma keys_app (l1 l2 : list (K * A)) : keys (l1 ++ l2) = keys l1 ++ keys l2.
  Proof. unfold keys. apply map_app. Qed.

  Lemma assoc_app k (l1 l2 : list (K * A)) :
    assoc k (l1 ++ l2) = match assoc k l1 with Some a => Some a | None => assoc k l2 end.
  Proof.
    induction l1 as [|[k' a] l1 IH]; simpl; auto.
    destruct (eqb k k'); auto.
  Qed.

  Lemma assoc_in k (l : list (K * A)) : assoc k l <> None <-> In k (keys l).
  Proof.
    induction l as [|[k' a] l IH]; simpl.
    - split; [congruence | tauto].
    - destruct (eqb_spec k k') as [E|N].
      + split; [intros _; left; auto | congruence].
      + rewrite IH. split; [auto | intros [E|I]; [congruence | auto]].
  Qed.

  Lemma assoc_none k (l : list (K * A)) : assoc k l = None <-> ~ In k (keys l).
  Proof.
    rewrite <- assoc_in. destruct (assoc k l); split; try congruence.
    intros N. exfalso. apply N. congruence.
  Qed.

  Lemma assoc_snoc k (l : list (K * A)) k0 a0 :
    assoc k (l ++ [(k0, a0)]) =
    match assoc k l with Some a => Some a | None => if eqb k k0 then Some a0 else None end.
  Proof. rewrite assoc_app. reflexivity. Qed.

  Lemma assoc_remk_same k (l : list (K * A)) : assoc k (remk k l) = None.
  Proof.
    induction l as [|[k' a] l IH]; simpl; auto.
    destruct (eqb k k') eqn:E; auto. simpl. rewrite E. auto.
  Qed.

  Lemma assoc_remk_other k k0 (l : list (K * A)) : k <> k0 -> assoc k (remk k0 l) = assoc k l.
  Proof.
    intros N. induction l as [|[k' a] l IH]; simpl; auto.
    destruct (eqb_spec k0 k') as [E|N'].
    - subst k'. rewrite (keqb_neq k k0 N). auto.
    - simpl. rewrite IH. auto.
  Qed.

  Lemma assoc_setk_same k a (l : list (K * A)) :
    assoc k (setk k a l) = match assoc k l with Some _ => Some a | None => None end.
  Proof.
    induction l as [|[k' a'] l IH]; simpl; auto.
    destruct (eqb k k') eqn:E; simpl; rewrite E; auto.
  Qed.

  Lemma assoc_setk_other k k0 a (l : list (K * A)) : k <> k0 -> assoc k (setk k0 a l) = assoc k l.
  Proof.
    intros N. induction l as [|[k' a'] l IH]; simpl; auto.
    destruct (eqb_spec k0 k') as [E|N'].
    - subst k'. simpl. rewrite (keqb_neq k k0 N). auto.
    - simpl. rewrite IH. auto.
  Qed.

  Lemma keys_setk k a (l : list (K * A)) : keys (setk k a l) = keys l.
  Proof.
    induction l as [|[k' a'] l IH]; simpl; auto.
    destruct (eqb k k'); simpl; auto. f_equal. exact IH.
  Qed.

  Lemma length_setk k a (l : list (K * A)) : length (setk k a l) = length l.
  Proof.
    induction l as [|[k' a'] l IH]; simpl; auto.
    destruct (eqb k k'); simpl; auto.
  Qed.

  Lemma in_keys_remk k k' (l : list (K * A)) :
    In k' (keys (remk k l)) <-> In k' (keys l) /\ k' <> k.
  Proof.
    rewrite <- !assoc_in. destruct (eqb_spec k' k) as [E|N].
    - subst. rewrite assoc_remk_same. split; [congruence | intros [_ N]; congruence].
    - rewrite assoc_remk_other by auto. tauto.
  Qed.

  Lemma nodup_remk k (l : list (K * A)) : NoDup (keys l) -> NoDup (keys (remk k l)).
  Proof.
    induction l as [|[k' a] l IH]; simpl; auto.
    intros N. inversion N as [|x r Hni Hnd]; subst.
    destruct (eqb k k'); auto. simpl. constructor; auto.
    intros I. apply in_keys_remk in I. tauto.
  Qed.

  Lemma length_remk_lt k (l : list (K * A)) :
    assoc k l <> None -> S (length (remk k l)) <= length l.
  Proof.
    induction l as [|[k' a] l IH]; simpl; [congruence|].
    destruct (eqb k k') eqn:E.
    - intros _. clear IH. apply le_n_S. induction l as [|[k2 a2] l IH2]; simpl; auto.
      destruct (eqb k k2); simpl; lia.
    - intros Hs. simpl. apply le_n_S. auto.
  Qed.

  Lemma length_remk_le k (l : list (K * A)) : length (remk k l) <= length l.
  Proof.
    induction l as [|[k2 a2] l IH2]; simpl; auto.
    destruct (eqb k k2); simpl; lia.
  Qed.

  Lemma nodup_snoc (l : list K) k : NoDup l -> ~ In k l -> NoDup (l ++ [k]).
  Proof.
    induction l as [|x l IH]; simpl; intros N I.
    - constructor; [auto | constructor].
    - inversion N; subst. constructor.
      + rewrite in_app_iff. simpl. intros [J|[J|[]]]; auto.
      + apply IH; auto.
  Qed.

  (* strictly increasing measure along a key list *)
  Fixpoint incr (f : K -> nat) (l : list K) : Prop :=
    match l with
    | [] => True
    | k :: r => (forall k', In k' r -> f k < f k') /\ incr f r
    end.

  Lemma incr_ext f g (l : list K) : (forall k, In k l -> f k = g k) -> incr f l -> incr g l.
  Proof.
    induction l as [|x l IH]; simpl; auto.
    intros E [H1 H2]. split.
    - intros k' I. rewrite <- !E by auto. auto.
    - apply IH; auto.
  Qed.

  Lemma incr_snoc f (l : list K) k :
    incr f l -> (forall k', In k' l -> f k' < f k) -> incr f (l ++ [k]).
  Proof.
    induction l as [|x l IH]; simpl.
    - intros _ _. split; [intros ? []|exact I].
    - intros [H1 H2] Hk. split.
      + intros k' I. apply in_app_iff in I. destruct I as [I|[I|[]]]; auto. subst. auto.
      + apply IH; auto.
  Qed.

  Lemma incr_remove f (l1 : list K) x l2 : incr f (l1 ++ x :: l2) -> incr f (l1 ++ l2).
  Proof.
    induction l1 as [|y l1 IH]; simpl.
    - tauto.
    - intros [H1 H2]. split; auto.
      intros k' I. apply H1. rewrite in_app_iff in *. simpl. tauto.
  Qed.

  Lemma incr_last f (l : list K) k : incr f (l ++ [k]) -> forall k', In k' l -> f k' < f k.
  Proof.
    induction l as [|y l IH]; simpl; [tauto|].
    intros [H1 H2] k' [E|I].
    - subst. apply H1. rewrite in_app_iff. simpl. auto.
    - auto.
  Qed.

  Lemma incr_remk f k (l : list (K * A)) : incr f (keys l) -> incr f (keys (remk k l)).
  Proof.
    induction l as [|[k' a] l IH]; simpl; auto.
    intros [H1 H2]. destruct (eqb k k'); auto. simpl. split; auto.
    intros k2 I. apply in_keys_remk in I. apply H1. tauto.
  Qed.
End AssocFacts.

Section LcFacts.
  Context {K V : Type} `{EqDec K}.
  Variable p : lc_policy.

  Definition lc_inv (t : Z) (s : lc K V) : Prop :=
    NoDup (keys (lc_items s)) /\ length (lc_items s) <= lc_cap s /\ 1 <= lc_cap s.

  Definition lc_model : model K V := {|
    St := lc K V;
    m_step := lc_step p;
    m_get := lc_get;
    m_view := lc_view;
    m_keys := fun s => keys (lc_items s);
    m_size := lc_size;
    m_cap := @lc_cap K V;
    m_bounded := true;
    m_dl := fun _ _ _ => None;
    m_inv := lc_inv;
    m_rnd_ok := fun _ _ => True;
    m_has_find_use := false;
    m_has_clean := false;
    m_has_clear := false
  |}.

  Lemma lc_inv_init : forall cap t, 1 <= cap -> lc_inv t (lc_init cap).
  Proof.
    intros cap t Hc. unfold lc_inv, lc_init; simpl. repeat split; auto; try lia. constructor.
  Qed.

  (* ---- lc_get ---- *)
  Lemma lc_get_none (s : lc K V) k : lc_get s k = None <-> assoc k (lc_items s) = None.
  Proof. unfold lc_get. destruct (assoc k (lc_items s)); split; congruence. Qed.

  Lemma lc_get_eq (s s' : lc K V) k :
    assoc k (lc_items s') = assoc k (lc_items s) -> lc_get s' k = lc_get s k.
  Proof. unfold lc_get. intros E; rewrite E; auto. Qed.

  Lemma lc_not_dead (s : lc K V) now k : ~ deadk (lc_get s) now k.
  Proof.
    unfold deadk, lc_get. intros (v & d & E & _).
    destruct (assoc k (lc_items s)); congruence.
  Qed.

  Lemma lc_livek (s : lc K V) now k : livek (lc_get s) now k <-> assoc k (lc_items s) <> None.
  Proof.
    unfold livek, lc_get. split.
    - intros (v & d & E & _). destruct (assoc k (lc_items s)); congruence.
    - intros N. destruct (assoc k (lc_items s)) as [v|]; [|congruence].
      exists v, None. split; auto.
  Qed.

  (* ---- case analysis of the three helpers ---- *)
  Inductive ins_case (s : lc K V) (k : K) (v : V) (a : allow) (s' : lc K V) (b : bool) : Prop :=
  | ic_rej : b = false -> s' = s ->
             (assoc k (lc_items s) = None -> a_ins a = false) ->
             (assoc k (lc_items s) <> None -> a_upd a = false) -> ins_case s k v a s' b
  | ic_touch v0 : b = true -> assoc k (lc_items s) = Some v0 -> a_upd a = true ->
             lc_touch p = true ->
             s' = lc_with s (remk k (lc_items s) ++ [(k, v)]) -> ins_case s k v a s' b
  | ic_set v0 : b = true -> assoc k (lc_items s) = Some v0 -> a_upd a = true ->
             lc_touch p = false ->
             s' = lc_with s (setk k v (lc_items s)) -> ins_case s k v a s' b
  | ic_new : b = true -> assoc k (lc_items s) = None -> a_ins a = true ->
             s' = lc_with s (lc_evict p s ++ [(k, v)]) -> ins_case s k v a s' b.

  Lemma lc_ins_spec s k v a s' b : lc_ins p s k v a = (s', b) -> ins_case s k v a s' b.
  Proof.
    unfold lc_ins. intros E. destruct (assoc k (lc_items s)) as [v0|] eqn:Ea.
    - destruct (a_upd a) eqn:Eu.
      + destruct (lc_touch p) eqn:Et; inversion E; subst.
        * eapply ic_touch; eauto.
        * eapply ic_set; eauto.
      + inversion E; subst. apply ic_rej; auto; congruence.
    - destruct (a_ins a) eqn:Ei; inversion E; subst.
      + apply ic_new; auto.
      + apply ic_rej; auto; congruence.
  Qed.

  Inductive find_case (s : lc K V) (k : K) (pk : bool) (s' : lc K V) (r : option V) : Prop :=
  | fc_same : s' = s -> r = assoc k (lc_items s) ->
              (r <> None -> lc_touch p && negb pk = false) -> find_case s k pk s' r
  | fc_touch v : assoc k (lc_items s) = Some v -> r = Some v -> lc_touch p = true -> pk = false ->
              s' = lc_with s (remk k (lc_items s) ++ [(k, v)]) -> find_case s k pk s' r.

  Lemma lc_find_spec s k pk s' r : lc_find p s k pk = (s', r) -> find_case s k pk s' r.
  Proof.
    unfold lc_find. intros E. destruct (assoc k (lc_items s)) as [v|] eqn:Ea.
    - destruct (lc_touch p) eqn:Et; simpl in E.
      + destruct pk; simpl in E; inversion E; subst.
        * apply fc_same; auto. intros _. rewrite Et. reflexivity.
        * eapply fc_touch; eauto.
      + inversion E; subst. apply fc_same; auto. intros _. rewrite Et. reflexivity.
    - inversion E; subst. apply fc_same; auto. congruence.
  Qed.

  Inductive erase_case (s : lc K V) (k : K) (s' : lc K V) (b : bool) : Prop :=
  | ec_absent : b = false -> s' = s -> assoc k (lc_items s) = None -> erase_case s k s' b
  | ec_present v0 : b = true -> assoc k (lc_items s) = Some v0 ->
              s' = lc_with s (remk k (lc_items s)) -> erase_case s k s' b.

  Lemma lc_erase_spec s k s' b : lc_erase s k = (s', b) -> erase_case s k s' b.
  Proof.
    unfold lc_erase. intros E. destruct (assoc k (lc_items s)) as [v0|] eqn:Ea; inversion E; subst.
    - eapply ec_present; eauto.
    - apply ec_absent; auto.
  Qed.

  (* ---- eviction: either nothing, or exactly one entry (head or last) is dropped ---- *)
  Lemma lc_evict_cases (s : lc K V) :
    1 <= lc_cap s ->
    (lc_evict p s = lc_items s /\ length (lc_items s) < lc_cap s) \/
    (lc_cap s <= length (lc_items s) /\ exists l1 kx vx l2,
        lc_items s = l1 ++ (kx, vx) :: l2 /\ lc_evict p s = l1 ++ l2 /\
        (lc_victim_back p = false -> l1 = []) /\ (lc_victim_back p = true -> l2 = [])).
  Proof.
    intros Hc. unfold lc_evict.
    destruct (Nat.leb_spec (lc_cap s) (length (lc_items s))) as [L|L].
    - right. split; auto. destruct (lc_victim_back p).
      + destruct (@exists_last _ (lc_items s)) as (l0 & [kx vx] & E).
        { intro E; rewrite E in L; simpl in L; lia. }
        exists l0, kx, vx, []. rewrite E. rewrite removelast_last. rewrite app_nil_r.
        repeat split; auto. discriminate.
      + destruct (lc_items s) as [|[kx vx] l2]. { simpl in L; lia. }
        exists [], kx, vx, l2. simpl. repeat split; auto. discriminate.
    - left; split; auto.
  Qed.

  (* facts about  l = l1 ++ x :: l2  vs  l1 ++ l2 *)
  Lemma drop_assoc_other (l1 l2 : list (K * V)) kx vx k :
    k <> kx -> assoc k (l1 ++ l2) = assoc k (l1 ++ (kx, vx) :: l2).
  Proof.
    intros N. rewrite !assoc_app. simpl. rewrite (keqb_neq k kx N). auto.
  Qed.

  Lemma drop_assoc_same (l1 l2 : list (K * V)) kx vx :
    NoDup (keys (l1 ++ (kx, vx) :: l2)) -> assoc kx (l1 ++ l2) = None.
  Proof.
    intros N. apply assoc_none. rewrite keys_app in *. simpl in N.
    apply NoDup_remove_2 in N. exact N.
  Qed.

  Lemma drop_nodup (l1 l2 : list (K * V)) kx vx :
    NoDup (keys (l1 ++ (kx, vx) :: l2)) -> NoDup (keys (l1 ++ l2)).
  Proof.
    intros N. rewrite keys_app in *. simpl in N. apply NoDup_remove_1 in N. exact N.
  Qed.

  Lemma evict_in (s : lc K V) k : 1 <= lc_cap s ->
    In k (keys (lc_evict p s)) -> In k (keys (lc_items s)).
  Proof.
    intros Hc I. destruct (lc_evict_cases s Hc) as [[E _]|(_ & l1 & kx & vx & l2 & E1 & E2 & _)].
    - rewrite <- E; auto.
    - rewrite E1. rewrite E2 in I. rewrite keys_app in *. simpl. rewrite in_app_iff in *.
      simpl. tauto.
  Qed.

  Lemma evict_nodup (s : lc K V) : 1 <= lc_cap s ->
    NoDup (keys (lc_items s)) -> NoDup (keys (lc_evict p s)).
  Proof.
    intros Hc N. destruct (lc_evict_cases s Hc) as [[E _]|(_ & l1 & kx & vx & l2 & E1 & E2 & _)].
    - rewrite E; auto.
    - rewrite E2. rewrite E1 in N. eapply drop_nodup; eauto.
  Qed.

  Lemma evict_length (s : lc K V) : 1 <= lc_cap s -> length (lc_items s) <= lc_cap s ->
    S (length (lc_evict p s)) =
    if length (lc_items s) <? lc_cap s then S (length (lc_items s)) else lc_cap s.
  Proof.
    intros Hc Hl. destruct (lc_evict_cases s Hc) as [[E L]|(L & l1 & kx & vx & l2 & E1 & E2 & _)].
    - rewrite E. apply Nat.ltb_lt in L. rewrite L. auto.
    - assert (F : length (lc_items s) <? lc_cap s = false) by (apply Nat.ltb_ge; auto).
      rewrite F. rewrite E2. rewrite E1 in L, Hl. rewrite app_length in *. simpl in *. lia.
  Qed.

  Lemma evict_incr (s : lc K V) f : 1 <= lc_cap s ->
    incr f (keys (lc_items s)) -> incr f (keys (lc_evict p s)).
  Proof.
    intros Hc N. destruct (lc_evict_cases s Hc) as [[E _]|(_ & l1 & kx & vx & l2 & E1 & E2 & _)].
    - rewrite E; auto.
    - rewrite E2. rewrite E1 in N. rewrite keys_app in *. simpl in N.
      eapply incr_remove; eauto.
  Qed.

  (* ---- invariant preservation, per shape of the new list ---- *)
  Lemma inv_touch t t' (s : lc K V) k v :
    lc_inv t s -> assoc k (lc_items s) <> None ->
    lc_inv t' (lc_with s (remk k (lc_items s) ++ [(k, v)])).
  Proof.
    intros (Hn & Hl & Hc) Ha. unfold lc_inv; simpl. repeat split; auto.
    - rewrite keys_app. simpl. apply nodup_snoc.
      + apply nodup_remk; auto.
      + intros I. apply in_keys_remk in I. tauto.
    - rewrite app_length. simpl. pose proof (length_remk_lt k _ Ha). lia.
  Qed.

  Lemma inv_set t t' (s : lc K V) k v :
    lc_inv t s -> lc_inv t' (lc_with s (setk k v (lc_items s))).
  Proof.
    intros (Hn & Hl & Hc). unfold lc_inv; simpl. rewrite keys_setk, length_setk. auto.
  Qed.

  Lemma inv_rem t t' (s : lc K V) k :
    lc_inv t s -> lc_inv t' (lc_with s (remk k (lc_items s))).
  Proof.
    intros (Hn & Hl & Hc). unfold lc_inv; simpl. repeat split; auto.
    - apply nodup_remk; auto.
    - pose proof (length_remk_le k (lc_items s)). lia.
  Qed.

  Lemma inv_new t t' (s : lc K V) k v :
    lc_inv t s -> assoc k (lc_items s) = None ->
    lc_inv t' (lc_with s (lc_evict p s ++ [(k, v)])).
  Proof.
    intros (Hn & Hl & Hc) Ha. unfold lc_inv; simpl. repeat split; auto.
    - rewrite keys_app. simpl. apply nodup_snoc.
      + apply evict_nodup; auto.
      + intros I. apply evict_in in I; auto. apply assoc_none in Ha. auto.
    - rewrite app_length. simpl. rewrite Nat.add_1_r. rewrite evict_length by auto.
      destruct (length (lc_items s) <? lc_cap s) eqn:E; auto. apply Nat.ltb_lt in E. lia.
  Qed.

  Lemma lc_inv_step t s o now rnd s' r :
    lc_inv t s -> single o = true -> lc_step p s o now rnd = (s', r) ->
    lc_inv now s' /\ lc_cap s' = lc_cap s.
  Proof.
    intros Hi Hsg Hs.
    destruct o; simpl in Hsg; try discriminate; simpl in Hs;
      try (inversion Hs; subst; split; [exact Hi | reflexivity]).
    - destruct (lc_ins p s k v a) as [s1 b] eqn:Ei. inversion Hs; subst.
      destruct (lc_ins_spec _ _ _ _ _ _ Ei); subst; simpl; split; auto.
      + apply inv_touch with t; auto. congruence.
      + apply inv_set with t; auto.
      + apply inv_new with t; auto.
    - destruct (lc_erase s k) as [s1 b] eqn:Ee. inversion Hs; subst.
      destruct (lc_erase_spec _ _ _ _ Ee); subst; simpl; split; auto.
      apply inv_rem with t; auto.
    - destruct (lc_find p s k peek) as [s1 r1] eqn:Ef. inversion Hs; subst.
      destruct (lc_find_spec _ _ _ _ _ Ef); subst; simpl; split; auto.
      apply inv_touch with t; auto. congruence.
  Qed.

  (* ---- frame: what a call does to a key it does not address ---- *)
  Lemma assoc_touch (l : list (K * V)) k v k' :
    assoc k' (remk k l ++ [(k, v)]) = if eqb k' k then Some v else assoc k' l.
  Proof.
    rewrite assoc_snoc. destruct (eqb_spec k' k) as [E|N].
    - subst. rewrite assoc_remk_same. auto.
    - rewrite assoc_remk_other by auto. destruct (assoc k' l); auto.
  Qed.

  Lemma assoc_touch_present (l : list (K * V)) k v k' :
    assoc k l = Some v -> assoc k' (remk k l ++ [(k, v)]) = assoc k' l.
  Proof.
    intros E. rewrite assoc_touch. destruct (eqb_spec k' k); subst; auto.
  Qed.

  Lemma assoc_new_other (l : list (K * V)) k v k' :
    k' <> k -> assoc k' (l ++ [(k, v)]) = assoc k' l.
  Proof.
    intros N. rewrite assoc_snoc. rewrite (keqb_neq _ _ N). destruct (assoc k' l); auto.
  Qed.

  Lemma lc_step_frame t s o now rnd s' r k' :
    lc_inv t s -> single o = true -> lc_step p s o now rnd = (s', r) -> touches o k' = false ->
    assoc k' (lc_items s') = assoc k' (lc_items s) \/
    (exists ttl k v a, o = Insert ttl k v a /\ r = RB true /\ assoc k (lc_items s) = None /\
                       k' <> k /\ lc_items s' = lc_evict p s ++ [(k, v)]).
  Proof.
    intros Hi Hsg Hs Ht.
    destruct o; simpl in Hsg; try discriminate; simpl in Hs;
      try (inversion Hs; subst; left; reflexivity).
    - destruct (lc_ins p s k v a) as [s1 b] eqn:Ei. inversion Hs; subst. simpl in Ht.
      apply keqb_false in Ht.
      destruct (lc_ins_spec _ _ _ _ _ _ Ei); subst; simpl.
      + left; auto.
      + left. rewrite assoc_touch. rewrite keqb_neq; auto.
      + left. apply assoc_setk_other; auto.
      + right. exists ttl, k, v, a. repeat split; auto.
    - destruct (lc_erase s k) as [s1 b] eqn:Ee. inversion Hs; subst. simpl in Ht.
      apply keqb_false in Ht.
      destruct (lc_erase_spec _ _ _ _ Ee); subst; simpl; left; auto.
      apply assoc_remk_other; auto.
    - destruct (lc_find p s k peek) as [s1 r1] eqn:Ef. inversion Hs; subst.
      destruct (lc_find_spec _ _ _ _ _ Ef); subst; simpl; left; auto.
      apply assoc_touch_present; auto.
  Qed.

  (* the evicted key, when there is one *)
  Lemma evict_victim t (s : lc K V) :
    lc_inv t s ->
    (lc_evict p s = lc_items s /\ length (lc_items s) < lc_cap s) \/
    (lc_cap s <= length (lc_items s) /\ exists kx,
        assoc kx (lc_items s) <> None /\ assoc kx (lc_evict p s) = None /\
        forall k', k' <> kx -> assoc k' (lc_evict p s) = assoc k' (lc_items s)).
  Proof.
    intros (Hn & Hl & Hc).
    destruct (lc_evict_cases s Hc) as [?|(L & l1 & kx & vx & l2 & E1 & E2 & _)]; auto.
    right. split; auto. exists kx. rewrite E1 in *. rewrite E2. repeat split.
    - rewrite assoc_app. simpl. rewrite keqb_refl. destruct (assoc kx l1); congruence.
    - eapply drop_assoc_same; eauto.
    - intros k' N. apply drop_assoc_other; auto.
  Qed.

  Lemma evict_assoc_absent t (s : lc K V) k :
    lc_inv t s -> assoc k (lc_items s) = None -> assoc k (lc_evict p s) = None.
  Proof.
    intros (Hn & Hl & Hc) Ha. apply assoc_none. intros I. apply evict_in in I; auto.
    apply assoc_none in Ha. auto.
  Qed.

  Lemma evict_no_appear t (s : lc K V) k :
    lc_inv t s -> assoc k (lc_evict p s) <> None ->
    assoc k (lc_evict p s) = assoc k (lc_items s).
  Proof.
    intros Hi Ha. destruct (evict_victim t s Hi) as [[E _]|(_ & kx & _ & E1 & E2)].
    - rewrite E; auto.
    - destruct (eqb_spec k kx) as [E|N]; [subst; congruence | auto].
  Qed.

  Lemma lc_no_appear t s o now rnd s' r k' :
    lc_inv t s -> single o = true -> lc_step p s o now rnd = (s', r) -> touches o k' = false ->
    lc_get s' k' <> None -> lc_get s' k' = lc_get s k'.
  Proof.
    intros Hi Hsg Hs Ht Hg.
    destruct (lc_step_frame _ _ _ _ _ _ _ _ Hi Hsg Hs Ht)
      as [E|(ttl & k & v & a & Eo & Er & Ea & N & El)].
    - apply lc_get_eq; auto.
    - apply lc_get_eq. rewrite lc_get_none in Hg. rewrite El in *.
      rewrite assoc_new_other in * by auto. eapply evict_no_appear; eauto.
  Qed.

  Lemma lc_loss t s o now rnd s' r k' :
    lc_inv t s -> single o = true -> lc_step p s o now rnd = (s', r) -> touches o k' = false ->
    lost_live (lc_get s) (lc_get s') now k' ->
    (exists ttl k v a, o = Insert ttl k v a /\ r = RB true /\ lc_get s k = None) /\
    lc_size s = lc_cap s /\ lc_size s' = lc_cap s /\
    (forall k'', ~ deadk (lc_get s) now k'') /\
    (forall k'', touches o k'' = false -> lost_live (lc_get s) (lc_get s') now k'' -> k'' = k').
  Proof.
    intros Hi Hsg Hs Ht [Hlv Hg].
    apply lc_livek in Hlv. apply lc_get_none in Hg.
    destruct (lc_step_frame _ _ _ _ _ _ _ _ Hi Hsg Hs Ht)
      as [E|(ttl & k & v & a & Eo & Er & Ea & N & El)]; [congruence|].
    rewrite El in Hg. rewrite assoc_new_other in Hg by auto.
    destruct (evict_victim t s Hi) as [[E _]|(L & kx & Hx1 & Hx2 & Hx3)]; [congruence|].
    assert (Ek : k' = kx).
    { destruct (eqb_spec k' kx) as [?|N']; auto. rewrite Hx3 in Hg by auto. congruence. }
    subst kx. destruct Hi as (Hn & Hl & Hc).
    split; [|split; [|split; [|split]]].
    - exists ttl, k, v, a. repeat split; auto. apply lc_get_none; auto.
    - unfold lc_size. lia.
    - unfold lc_size. rewrite El. rewrite app_length. simpl. rewrite Nat.add_1_r.
      rewrite evict_length by auto.
      assert (F : length (lc_items s) <? lc_cap s = false) by (apply Nat.ltb_ge; auto).
      rewrite F. auto.
    - intros k''. apply lc_not_dead.
    - intros k'' Ht' [Hlv' Hg']. apply lc_livek in Hlv'. apply lc_get_none in Hg'.
      subst o. simpl in Ht'. apply keqb_false in Ht'.
      rewrite El in Hg'. rewrite assoc_new_other in Hg' by auto.
      destruct (eqb_spec k'' k') as [?|N']; auto. rewrite Hx3 in Hg' by auto. congruence.
  Qed.

  Lemma lc_ok_find (s : lc K V) k pk now rnd s' r :
    lc_step p s (Find k pk) now rnd = (s', r) ->
    r = RO (lc_view s now k) /\ (lc_view s now k = None -> lc_get s' k = None).
  Proof.
    intros Hs. simpl in Hs. destruct (lc_find p s k pk) as [s1 r1] eqn:Ef. inversion Hs; subst.
    unfold lc_view. destruct (lc_find_spec _ _ _ _ _ Ef) as [E1 E2 _|v Ea Er Et Ep E1]; subst.
    - split; auto. intros E. apply lc_get_none; auto.
    - split; [congruence|]. intros E; congruence.
  Qed.

  Lemma lc_ok_ins t s ttl k v a now rnd s' r :
    lc_inv t s -> lc_step p s (Insert ttl k v a) now rnd = (s', r) ->
    exists b, r = RB b /\
      (livek (lc_get s) now k -> b = a_upd a) /\
      (lc_get s k = None -> b = a_ins a) /\
      (deadk (lc_get s) now k -> (a_ins a = true -> b = true) /\
                                  (b = true -> a_ins a = true \/ a_upd a = true)) /\
      (b = true -> lc_get s' k = Some (v, None)) /\
      (b = false -> keeps (lc_get s) (lc_get s') now k) /\
      (true = true -> b = true -> lc_get s k = None ->
         lc_size s' = if lc_size s <? lc_cap s then S (lc_size s) else lc_cap s).
  Proof.
    intros Hi Hs. simpl in Hs. destruct (lc_ins p s k v a) as [s1 b] eqn:Ei.
    inversion Hs; subst s1 r. clear Hs. exists b. split; auto.
    split; [intros L; apply lc_livek in L|
    split; [intros L; apply lc_get_none in L|
    split; [intros D; exfalso; eapply lc_not_dead; eauto|
    split; [intros Hb|
    split; [intros Hb|intros _ Hb L; apply lc_get_none in L]]]]];
    destruct (lc_ins_spec _ _ _ _ _ _ Ei)
      as [Eb Es Hni Hnu | v0 Eb Ha Hu Ht Es | v0 Eb Ha Hu Ht Es | Eb Ha Hin Es];
    subst b s'; try congruence; try discriminate.
    - symmetry; auto.
    - symmetry; auto.
    - unfold lc_get; simpl. rewrite assoc_touch, keqb_refl. auto.
    - unfold lc_get; simpl. rewrite assoc_setk_same, Ha. auto.
    - unfold lc_get; simpl. rewrite assoc_snoc, keqb_refl.
      rewrite (evict_assoc_absent t s k Hi Ha). auto.
    - left; auto.
    - destruct Hi as (Hn & Hl & Hc). unfold lc_size; simpl. rewrite app_length. simpl.
      rewrite Nat.add_1_r. apply evict_length; auto.
  Qed.

  Lemma lc_ok_erase (s : lc K V) k now rnd s' r :
    lc_step p s (Erase k) now rnd = (s', r) ->
    exists b, r = RB b /\ lc_get s' k = None /\
      (livek (lc_get s) now k -> b = true) /\ (b = true -> lc_get s k <> None).
  Proof.
    intros Hs. simpl in Hs. destruct (lc_erase s k) as [s1 b] eqn:Ee. inversion Hs; subst.
    exists b. split; auto.
    destruct (lc_erase_spec _ _ _ _ Ee) as [Eb Es Ha|v0 Eb Ha Es]; subst.
    - split; [apply lc_get_none; auto|]. split; [|discriminate].
      intros L. apply lc_livek in L. congruence.
    - split; [apply lc_get_none; simpl; apply assoc_remk_same|]. split; auto.
      intros _. rewrite lc_get_none. congruence.
  Qed.

  Global Instance lc_ok : ModelOK lc_model.
  Proof.
    constructor; simpl.
    - intros t s (Hn & _); auto.
    - intros t s k _. rewrite <- assoc_in. rewrite lc_get_none. tauto.
    - intros t s _. unfold lc_size, keys. rewrite map_length. reflexivity.
    - intros t s (_ & Hl & _) _. exact Hl.
    - intros t t' s Hi _. exact Hi.
    - intros t s now k _ _. unfold lc_view, view_of, lc_get.
      destruct (assoc k (lc_items s)); auto.
    - intros t s o now rnd s' r Hi _ Hsg _ Hs. apply (lc_inv_step t s o now rnd s' r); auto.
    - intros t s o now rnd s' r k' Hi _ Hsg _ Hs Ht Hg. apply (lc_no_appear t s o now rnd s' r k'); auto.
    - intros t s o now rnd s' r k' Hi _ Hsg _ Hs Ht Hl. split; auto. apply (lc_loss t s o now rnd s' r k'); auto.
    - intros t s k pk now rnd s' r _ _ _ Hs. apply (lc_ok_find s k pk now rnd s' r); auto.
    - intros t s k pk now rnd s' r _ _ _ Hs. inversion Hs; auto.
    - intros t s ttl k v a now rnd s' r Hi _ _ Hs. apply (lc_ok_ins t s ttl k v a now rnd s' r); auto.
    - intros t s k now rnd s' r _ _ _ Hs. apply (lc_ok_erase s k now rnd s' r); auto.
    - intros t s now rnd s' r _ _ _ Hs. inversion Hs; auto.
    - intros t s now rnd s' r _ _ _ Hs. inversion Hs; auto.
    - reflexivity.
    - reflexivity.
    - reflexivity.
    - intros t s now rnd s' r _ _ Hs k. inversion Hs; auto.
    - intros t s d now rnd s' r _ _ Hs k. inversion Hs; auto.
  Qed.

  (* C19: calls without effect leave the state untouched (state equality, hence every
     continuation is identical) *)
  Lemma lc_peek_noop : forall (s : lc K V) k now rnd, fst (lc_step p s (Find k true) now rnd) = s.
  Proof.
    intros s k now rnd. simpl. unfold lc_find.
    destruct (assoc k (lc_items s)); simpl; auto.
    rewrite andb_false_r. auto.
  Qed.
  Lemma lc_miss_noop : forall (s : lc K V) k pk now rnd,
      lc_get s k = None -> lc_step p s (Find k pk) now rnd = (s, RO None).
  Proof.
    intros s k pk now rnd Hg. apply lc_get_none in Hg. simpl. unfold lc_find. rewrite Hg. auto.
  Qed.
  Lemma lc_rejected_insert_noop : forall (s : lc K V) ttl k v a now rnd s',
      lc_step p s (Insert ttl k v a) now rnd = (s', RB false) -> s' = s.
  Proof.
    intros s ttl k v a now rnd s' Hs. simpl in Hs.
    destruct (lc_ins p s k v a) as [s1 b] eqn:Ei. inversion Hs; subst.
    destruct (lc_ins_spec _ _ _ _ _ _ Ei); auto; discriminate.
  Qed.
  Lemma lc_erase_absent_noop : forall (s : lc K V) k now rnd s',
      lc_step p s (Erase k) now rnd = (s', RB false) -> s' = s.
  Proof.
    intros s k now rnd s' Hs. simpl in Hs.
    destruct (lc_erase s k) as [s1 b] eqn:Ee. inversion Hs; subst.
    destruct (lc_erase_spec _ _ _ _ Ee); auto; discriminate.
  Qed.
End LcFacts.

(* ---- history functions: position of the last event satisfying a predicate ---- *)
Section HistFacts.
  Context {K V : Type} `{EqDec K}.
  Variable M : model K V.

  Lemma lp_fold_fst (f : titem M -> bool) tr : forall a,
    fst (fold_left (fun '(i, q) x => (S i, if f x then S i else q)) tr a) = length tr + fst a.
  Proof.
    induction tr as [|x tr IH]; intros [i q]; simpl; auto. rewrite IH. simpl. lia.
  Qed.

  Lemma last_pos_snoc f tr x :
    last_pos M f (tr ++ [x]) = if f x then S (length tr) else last_pos M f tr.
  Proof.
    unfold last_pos. rewrite fold_left_app. simpl.
    pose proof (lp_fold_fst f tr (0, 0)) as E.
    destruct (fold_left _ tr (0, 0)) as [i q]. simpl in *.
    rewrite E, Nat.add_0_r. destruct (f x); auto.
  Qed.

  Lemma last_pos_le f tr : last_pos M f tr <= length tr.
  Proof.
    induction tr as [|x tr IH] using rev_ind.
    - unfold last_pos; simpl; lia.
    - rewrite last_pos_snoc, app_length. simpl. destruct (f x); lia.
  Qed.

  Lemma last_use_snoc k tr x :
    last_use M k (tr ++ [x]) = if uses M k x then S (length tr) else last_use M k tr.
  Proof. apply last_pos_snoc. Qed.

  Lemma created_at_snoc k tr x :
    created_at M k (tr ++ [x]) = if creates M k x then S (length tr) else created_at M k tr.
  Proof. apply last_pos_snoc. Qed.
End HistFacts.

(* ---- policy order.  [last_use], [created_at] are the history functions of Spec.v. ---- *)
Section LcPolicy.
  Context {K V : Type} `{EqDec K}.

  (* the situation of an evicting insert: after a history [tr] from the empty cache the
     store is full and a new key is inserted successfully *)
  Definition evicting (p : lc_policy) (cap : nat) (tr : list (titem (lc_model p))) (s : lc K V)
             (k : K) (s' : lc K V) : Prop :=
    exists t ttl v a now rnd,
      wruns (lc_model p) 0 (lc_init cap) tr t s /\ 1 <= cap /\ (t <= now)%Z /\
      lc_step p s (Insert ttl k v a) now rnd = (s', RB true) /\
      lc_get s k = None /\ lc_size s = lc_cap s.

  (* a key moved (or appended) to the back gets the newest stamp *)
  Lemma incr_move_back (f : K -> nat) n k (l : list K) :
    incr f l -> ~ In k l -> (forall k', In k' l -> f k' <= n) ->
    incr (fun k0 => if eqb k k0 then S n else f k0) (l ++ [k]).
  Proof.
    intros Hf Hni Hle. apply incr_snoc.
    - apply incr_ext with f; auto. intros k0 I.
      rewrite keqb_neq; auto. intros E; subst; auto.
    - intros k' I. rewrite keqb_refl. rewrite keqb_neq.
      + apply Hle in I. lia.
      + intros E; subst; auto.
  Qed.

  (* the order invariant along a history, generic in the stamping predicate [u] *)
  Lemma wruns_incr p cap (u : K -> titem (lc_model p) -> bool) :
    (forall t (s : lc K V) e s' r f n,
        lc_inv t s -> single (e_op e) = true ->
        lc_step p s (e_op e) (e_now e) (e_rnd e) = (s', r) ->
        incr f (keys (lc_items s)) -> (forall k, In k (keys (lc_items s)) -> f k <= n) ->
        incr (fun k => if u k (s, e, r) then S n else f k) (keys (lc_items s'))) ->
    1 <= cap ->
    forall tr t s, wruns (lc_model p) 0 (lc_init cap) tr t s ->
      lc_inv t s /\ incr (fun k => last_pos (lc_model p) (u k) tr) (keys (lc_items s)).
  Proof.
    intros Hstep Hc tr t s Hw. induction Hw as [|tr t s e s' r Hw [IHi IHs] Hsg Ht _ Hs].
    - split; [apply lc_inv_init; auto | exact I].
    - simpl in Hs. split.
      + apply (lc_inv_step p t s (e_op e) (e_now e) (e_rnd e) s' r); auto.
      + apply incr_ext with
            (f := fun k => if u k (s, e, r) then S (length tr) else last_pos (lc_model p) (u k) tr).
        * intros k _. cbv beta. symmetry. apply (last_pos_snoc (lc_model p) (u k) tr (s, e, r)).
        * apply (Hstep t s e s' r (fun k => last_pos (lc_model p) (u k) tr) (length tr)); auto.
          intros k _. apply last_pos_le.
  Qed.

  (* touch policies (lru, mru): the used key goes to the back *)
  Lemma touch_step p t (s : lc K V) e s' r f n :
    lc_touch p = true ->
    lc_inv t s -> single (e_op e) = true ->
    lc_step p s (e_op e) (e_now e) (e_rnd e) = (s', r) ->
    incr f (keys (lc_items s)) -> (forall k, In k (keys (lc_items s)) -> f k <= n) ->
    incr (fun k => if uses (lc_model p) k (s, e, r) then S n else f k) (keys (lc_items s')).
  Proof.
    intros Htp Hi Hsg Hs Hf Hle. destruct e as [o now rnd]. unfold uses. simpl in *.
    destruct Hi as (Hn & Hl & Hc).
    destruct o; simpl in Hsg; try discriminate; simpl in Hs;
      try (inversion Hs; subst; simpl; exact Hf).
    - destruct (lc_ins p s k v a) as [s1 b] eqn:Ei. inversion Hs; subst.
      destruct (lc_ins_spec _ _ _ _ _ _ _ Ei) as
          [Eb Es Hni Hnu | v0 Eb Ha Hu Ht Es | v0 Eb Ha Hu Ht Es | Eb Ha Hin Es]; subst; simpl.
      + exact Hf.
      + rewrite keys_app. simpl. apply incr_move_back.
        * apply incr_remk; auto.
        * intros I. apply in_keys_remk in I. tauto.
        * intros k' I. apply in_keys_remk in I. apply Hle. tauto.
      + congruence.
      + rewrite keys_app. simpl. apply incr_move_back.
        * apply evict_incr; auto.
        * intros I. apply evict_in in I; auto. apply assoc_none in Ha. auto.
        * intros k' I. apply evict_in in I; auto.
    - destruct (lc_erase s k) as [s1 b] eqn:Ee. inversion Hs; subst.
      destruct (lc_erase_spec _ _ _ _ Ee) as [Eb Es Ha|v0 Eb Ha Es]; subst; simpl; auto.
      apply incr_remk; auto.
    - destruct (lc_find p s k peek) as [s1 r1] eqn:Ef. inversion Hs; subst.
      destruct (lc_find_spec _ _ _ _ _ _ Ef) as [E1 E2 E3|v Ea Er Et Ep E1]; subst; simpl.
      + destruct peek; simpl; auto.
        destruct (assoc k (lc_items s)) as [v|]; simpl; auto.
        rewrite Htp in E3. simpl in E3. assert (true = false) by (apply E3; congruence).
        discriminate.
      + rewrite keys_app. simpl. apply incr_move_back.
        * apply incr_remk; auto.
        * intros I. apply in_keys_remk in I. tauto.
        * intros k' I. apply in_keys_remk in I. apply Hle. tauto.
    - inversion Hs; subst. destruct peek; simpl; exact Hf.
  Qed.

  (* fifo: only the creating insert appends; nothing else reorders *)
  Lemma fifo_step p t (s : lc K V) e s' r f n :
    lc_touch p = false ->
    lc_inv t s -> single (e_op e) = true ->
    lc_step p s (e_op e) (e_now e) (e_rnd e) = (s', r) ->
    incr f (keys (lc_items s)) -> (forall k, In k (keys (lc_items s)) -> f k <= n) ->
    incr (fun k => if creates (lc_model p) k (s, e, r) then S n else f k) (keys (lc_items s')).
  Proof.
    intros Htp Hi Hsg Hs Hf Hle. destruct e as [o now rnd]. unfold creates. simpl in *.
    destruct Hi as (Hn & Hl & Hc).
    destruct o; simpl in Hsg; try discriminate; simpl in Hs;
      try (inversion Hs; subst; simpl; exact Hf).
    - destruct (lc_ins p s k v a) as [s1 b] eqn:Ei. inversion Hs; subst.
      destruct (lc_ins_spec _ _ _ _ _ _ _ Ei) as
          [Eb Es Hni Hnu | v0 Eb Ha Hu Ht Es | v0 Eb Ha Hu Ht Es | Eb Ha Hin Es]; subst; simpl.
      + exact Hf.
      + congruence.
      + rewrite keys_setk. apply incr_ext with f; auto. intros k0 _.
        destruct (eqb_spec k k0) as [E|N]; simpl; auto. subst k0.
        unfold lc_get. rewrite Ha. auto.
      + rewrite keys_app. simpl.
        apply incr_ext with (fun k0 => if eqb k k0 then S n else f k0).
        * intros k0 _. destruct (eqb_spec k k0) as [E|N]; simpl; auto. subst k0.
          unfold lc_get. rewrite Ha. auto.
        * apply incr_move_back.
          -- apply evict_incr; auto.
          -- intros I. apply evict_in in I; auto. apply assoc_none in Ha. auto.
          -- intros k' I. apply evict_in in I; auto.
    - destruct (lc_erase s k) as [s1 b] eqn:Ee. inversion Hs; subst.
      destruct (lc_erase_spec _ _ _ _ Ee) as [Eb Es Ha|v0 Eb Ha Es]; subst; simpl; auto.
      apply incr_remk; auto.
    - destruct (lc_find p s k peek) as [s1 r1] eqn:Ef. inversion Hs; subst.
      destruct (lc_find_spec _ _ _ _ _ _ Ef) as [E1 E2 E3|v Ea Er Et Ep E1]; subst; simpl; auto.
      congruence.
  Qed.

  Lemma touch_sorted p cap tr t (s : lc K V) :
    lc_touch p = true -> 1 <= cap -> wruns (lc_model p) 0 (lc_init cap) tr t s ->
    lc_inv t s /\ incr (fun k => last_use (lc_model p) k tr) (keys (lc_items s)).
  Proof.
    intros Htp Hc Hw. apply (wruns_incr p cap (uses (lc_model p))) with (tr := tr) (t := t); auto.
    intros. eapply touch_step; eauto.
  Qed.

  Lemma fifo_sorted p cap tr t (s : lc K V) :
    lc_touch p = false -> 1 <= cap -> wruns (lc_model p) 0 (lc_init cap) tr t s ->
    lc_inv t s /\ incr (fun k => created_at (lc_model p) k tr) (keys (lc_items s)).
  Proof.
    intros Htp Hc Hw. apply (wruns_incr p cap (creates (lc_model p))) with (tr := tr) (t := t); auto.
    intros. eapply fifo_step; eauto.
  Qed.

  (* shape of an evicting insert: exactly one resident (head, or last for mru) goes *)
  Lemma evict_step_shape p t (s : lc K V) ttl k v a now rnd s' :
    lc_inv t s -> lc_step p s (Insert ttl k v a) now rnd = (s', RB true) ->
    lc_get s k = None -> lc_size s = lc_cap s ->
    exists l1 kx vx l2,
      lc_items s = l1 ++ (kx, vx) :: l2 /\
      (lc_victim_back p = false -> l1 = []) /\ (lc_victim_back p = true -> l2 = []) /\
      kx <> k /\ lc_get s kx <> None /\ lc_get s' kx = None /\
      (forall k', k' <> k -> k' <> kx -> lc_get s' k' = lc_get s k').
  Proof.
    intros Hi Hs Hg Hsz. apply lc_get_none in Hg. simpl in Hs.
    destruct (lc_ins p s k v a) as [s1 b] eqn:Ei. inversion Hs; subst. clear Hs.
    destruct (lc_ins_spec _ _ _ _ _ _ _ Ei) as
        [Eb Es Hni Hnu | v0 Eb Ha Hu Ht Es | v0 Eb Ha Hu Ht Es | Eb Ha Hin Es];
      try congruence; try discriminate.
    destruct Hi as (Hn & Hl & Hc). unfold lc_size in Hsz.
    destruct (lc_evict_cases p s Hc) as [[_ L]|(L & l1 & kx & vx & l2 & E1 & E2 & B1 & B2)]; [lia|].
    exists l1, kx, vx, l2. subst s'.
    assert (Hx : assoc kx (lc_items s) <> None).
    { rewrite E1, assoc_app. simpl. rewrite keqb_refl. destruct (assoc kx l1); congruence. }
    assert (Nk : kx <> k) by (intros E; subst; congruence).
    repeat split; auto.
    - rewrite lc_get_none. auto.
    - apply lc_get_none. simpl. rewrite E2. rewrite assoc_new_other by auto.
      rewrite E1 in Hn. eapply drop_assoc_same; eauto.
    - intros k' N1 N2. apply lc_get_eq. simpl. rewrite E2, E1.
      rewrite assoc_new_other by auto. apply drop_assoc_other; auto.
  Qed.

  (* C10: lru evicts the resident whose most recent use is oldest *)
  Theorem lru_victim_least_recent : forall cap tr (s : lc K V) k s',
      evicting lru_policy cap tr s k s' ->
      exists kv, kv <> k /\ lc_get s kv <> None /\ lc_get s' kv = None /\
        (forall k', k' <> k -> k' <> kv -> lc_get s' k' = lc_get s k') /\
        (forall k', lc_get s k' <> None -> k' <> kv ->
                    last_use (lc_model lru_policy) kv tr < last_use (lc_model lru_policy) k' tr).
  Proof.
    intros cap tr s k s' (t & ttl & v & a & now & rnd & Hw & Hc & Ht & Hs & Hg & Hsz).
    destruct (touch_sorted lru_policy cap tr t s eq_refl Hc Hw) as [Hi Hinc].
    destruct (evict_step_shape _ _ _ _ _ _ _ _ _ _ Hi Hs Hg Hsz)
      as (l1 & kx & vx & l2 & E & B1 & _ & N & G1 & G2 & G3).
    rewrite (B1 eq_refl) in E. simpl in E.
    exists kx. repeat split; auto.
    intros k' Gk Nk. rewrite lc_get_none in Gk. apply assoc_in in Gk.
    rewrite E in Gk, Hinc. simpl in Gk, Hinc. destruct Hinc as [H1 _].
    apply H1. destruct Gk as [Ek|I]; [congruence | auto].
  Qed.

  (* C13: mru evicts the resident whose most recent use is newest *)
  Theorem mru_victim_most_recent : forall cap tr (s : lc K V) k s',
      evicting mru_policy cap tr s k s' ->
      exists kv, kv <> k /\ lc_get s kv <> None /\ lc_get s' kv = None /\
        (forall k', k' <> k -> k' <> kv -> lc_get s' k' = lc_get s k') /\
        (forall k', lc_get s k' <> None -> k' <> kv ->
                    last_use (lc_model mru_policy) k' tr < last_use (lc_model mru_policy) kv tr).
  Proof.
    intros cap tr s k s' (t & ttl & v & a & now & rnd & Hw & Hc & Ht & Hs & Hg & Hsz).
    destruct (touch_sorted mru_policy cap tr t s eq_refl Hc Hw) as [Hi Hinc].
    destruct (evict_step_shape _ _ _ _ _ _ _ _ _ _ Hi Hs Hg Hsz)
      as (l1 & kx & vx & l2 & E & _ & B2 & N & G1 & G2 & G3).
    rewrite (B2 eq_refl) in E.
    exists kx. repeat split; auto.
    intros k' Gk Nk. rewrite lc_get_none in Gk. apply assoc_in in Gk.
    rewrite E in Gk, Hinc. rewrite keys_app in Gk, Hinc. simpl in Gk, Hinc.
    apply (incr_last _ _ _ Hinc).
    apply in_app_iff in Gk. destruct Gk as [I|[Ek|[]]]; [auto | congruence].
  Qed.

  (* C12: fifo evicts the resident that was inserted earliest; updates and lookups
     do not change [created_at] by definition *)
  Theorem fifo_victim_earliest_inserted : forall cap tr (s : lc K V) k s',
      evicting fifo_policy cap tr s k s' ->
      exists kv, kv <> k /\ lc_get s kv <> None /\ lc_get s' kv = None /\
        (forall k', k' <> k -> k' <> kv -> lc_get s' k' = lc_get s k') /\
        (forall k', lc_get s k' <> None -> k' <> kv ->
                    created_at (lc_model fifo_policy) kv tr < created_at (lc_model fifo_policy) k' tr).
  Proof.
    intros cap tr s k s' (t & ttl & v & a & now & rnd & Hw & Hc & Ht & Hs & Hg & Hsz).
    destruct (fifo_sorted fifo_policy cap tr t s eq_refl Hc Hw) as [Hi Hinc].
    destruct (evict_step_shape _ _ _ _ _ _ _ _ _ _ Hi Hs Hg Hsz)
      as (l1 & kx & vx & l2 & E & B1 & _ & N & G1 & G2 & G3).
    rewrite (B1 eq_refl) in E. simpl in E.
    exists kx. repeat split; auto.
    intros k' Gk Nk. rewrite lc_get_none in Gk. apply assoc_in in Gk.
    rewrite E in Gk, Hinc. simpl in Gk, Hinc. destruct Hinc as [H1 _].
    apply H1. destruct Gk as [Ek|I]; [congruence | auto].
  Qed.

  (* C13, second half: after the insert the new key is the most recently used *)
  Theorem mru_new_key_is_most_recent : forall cap tr t (s : lc K V) e s' ttl k v a,
      1 <= cap -> wruns (lc_model mru_policy) 0 (lc_init cap) (tr ++ [(s, e, RB true)]) t s' ->
      e_op e = Insert ttl k v a ->
      forall k', lc_get s' k' <> None -> k' <> k ->
        last_use (lc_model mru_policy) k' (tr ++ [(s, e, RB true)]) <
        last_use (lc_model mru_policy) k (tr ++ [(s, e, RB true)]).
  Proof.
    intros cap tr t s e s' ttl k v a Hc Hw Eo k' Hg Nk.
    assert (E1 : uses (lc_model mru_policy) k' (s, e, RB true) = false).
    { unfold uses. rewrite Eo. apply keqb_neq; auto. }
    assert (E2 : uses (lc_model mru_policy) k (s, e, RB true) = true).
    { unfold uses. rewrite Eo. apply keqb_refl. }
    pose proof (last_use_snoc (lc_model mru_policy) k' tr (s, e, RB true)) as L1.
    rewrite E1 in L1.
    pose proof (last_use_snoc (lc_model mru_policy) k tr (s, e, RB true)) as L2.
    rewrite E2 in L2.
    pose proof (last_pos_le (lc_model mru_policy) (uses (lc_model mru_policy) k') tr) as L.
    apply Nat.le_lt_trans with (last_use (lc_model mru_policy) k' tr).
    { apply Nat.eq_le_incl. exact L1. }
    apply Nat.lt_le_trans with (S (length tr)).
    { apply Nat.lt_succ_r. exact L. }
    apply Nat.eq_le_incl. symmetry. exact L2.
  Qed.
End LcPolicy.
