(* ListCacheFacts.v — proofs about the lru / mru / fifo model (ListCache.v):
   the ModelOK instance (Spec.v), policy order (C10, C12, C13), no-effect calls (C19). *)
Require Import Capp.Base Capp.Spec Capp.ListCache.

Section LcFacts.
  Context {K V : Type} `{EqDec K}.
  Variable p : lc_policy.

  Definition lc_inv (t : Z) (s : lc K V) : Prop :=
    NoDup (keys (lc_items s)) /\ length (lc_items s) <= lc_cap s /\ 1 <= lc_cap s.

  Definition lc_model : model K V := {|
    St := lc K V;
    m_step := lc_step p;
    m_get := lc_get;
    m_view := lc_view;
    m_keys := fun s => keys (lc_items s);
    m_size := lc_size;
    m_cap := @lc_cap K V;
    m_bounded := true;
    m_dl := fun _ _ _ => None;
    m_inv := lc_inv;
    m_rnd_ok := fun _ _ => True;
    m_has_find_use := false;
    m_has_clean := false;
    m_has_clear := false
  |}.

  Lemma lc_inv_init : forall cap t, 1 <= cap -> lc_inv t (lc_init cap).
  Admitted.

  Global Instance lc_ok : ModelOK lc_model.
  Admitted.

  (* C19: calls without effect leave the state untouched (state equality, hence every
     continuation is identical) *)
  Lemma lc_peek_noop : forall (s : lc K V) k now rnd, fst (lc_step p s (Find k true) now rnd) = s.
  Admitted.
  Lemma lc_miss_noop : forall (s : lc K V) k pk now rnd,
      lc_get s k = None -> lc_step p s (Find k pk) now rnd = (s, RO None).
  Admitted.
  Lemma lc_rejected_insert_noop : forall (s : lc K V) ttl k v a now rnd s',
      lc_step p s (Insert ttl k v a) now rnd = (s', RB false) -> s' = s.
  Admitted.
  Lemma lc_erase_absent_noop : forall (s : lc K V) k now rnd s',
      lc_step p s (Erase k) now rnd = (s', RB false) -> s' = s.
  Admitted.
End LcFacts.

(* ---- policy order.  [last_use], [created_at] are the history functions of Spec.v. ---- *)
Section LcPolicy.
  Context {K V : Type} `{EqDec K}.

  (* the situation of an evicting insert: after a history [tr] from the empty cache the
     store is full and a new key is inserted successfully *)
  Definition evicting (p : lc_policy) (cap : nat) (tr : list (titem (lc_model p))) (s : lc K V)
             (k : K) (s' : lc K V) : Prop :=
    exists t ttl v a now rnd,
      wruns (lc_model p) 0 (lc_init cap) tr t s /\ 1 <= cap /\ (t <= now)%Z /\
      lc_step p s (Insert ttl k v a) now rnd = (s', RB true) /\
      lc_get s k = None /\ lc_size s = lc_cap s.

  (* C10: lru evicts the resident whose most recent use is oldest *)
  Theorem lru_victim_least_recent : forall cap tr (s : lc K V) k s',
      evicting lru_policy cap tr s k s' ->
      exists kv, kv <> k /\ lc_get s kv <> None /\ lc_get s' kv = None /\
        (forall k', k' <> k -> k' <> kv -> lc_get s' k' = lc_get s k') /\
        (forall k', lc_get s k' <> None -> k' <> kv ->
                    last_use (lc_model lru_policy) kv tr < last_use (lc_model lru_policy) k' tr).
  Admitted.

  (* C13: mru evicts the resident whose most recent use is newest *)
  Theorem mru_victim_most_recent : forall cap tr (s : lc K V) k s',
      evicting mru_policy cap tr s k s' ->
      exists kv, kv <> k /\ lc_get s kv <> None /\ lc_get s' kv = None /\
        (forall k', k' <> k -> k' <> kv -> lc_get s' k' = lc_get s k') /\
        (forall k', lc_get s k' <> None -> k' <> kv ->
                    last_use (lc_model mru_policy) k' tr < last_use (lc_model mru_policy) kv tr).
  Admitted.

  (* C12: fifo evicts the resident that was inserted earliest; updates and lookups
     do not change [created_at] by definition *)
  Theorem fifo_victim_earliest_inserted : forall cap tr (s : lc K V) k s',
      evicting fifo_policy cap tr s k s' ->
      exists kv, kv <> k /\ lc_get s kv <> None /\ lc_get s' kv = None /\
        (forall k', k' <> k -> k' <> kv -> lc_get s' k' = lc_get s k') /\
        (forall k', lc_get s k' <> None -> k' <> kv ->
                    created_at (lc_model fifo_policy) kv tr < created_at (lc_model fifo_policy) k' tr).
  Admitted.

  (* C13, second half: after the insert the new key is the most recently used *)
  Theorem mru_new_key_is_most_recent : forall cap tr t (s : lc K V) e s' ttl k v a,
      1 <= cap -> wruns (lc_model mru_policy) 0 (lc_init cap) (tr ++ [(s, e, RB true)]) t s' ->
      e_op e = Insert ttl k v a ->
      forall k', lc_get s' k' <> None -> k' <> k ->
        last_use (lc_model mru_policy) k' (tr ++ [(s, e, RB true)]) <
        last_use (lc_model mru_policy) k (tr ++ [(s, e, RB true)]).
  Admitted.
End LcPolicy.
