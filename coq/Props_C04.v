(* C04 TTL safety: an expired entry is never served. *)
Require Import Capp.Base Capp.Spec Capp.Generic Capp.Container Capp.AllKinds Capp.Lift.
Require Import Capp.TtlLru Capp.TtlLruFacts Capp.UtMap Capp.UtMapFacts.

(* If the latest not-undone write of k recorded deadline d (the time of that write plus the
   TTL in force for it), every lookup at or after d reports k absent — whether or not any
   cleanup ran, whatever happened in between. *)
Theorem C04_expired_never_served :
  forall (K V : Type) (E : EqDec K) (kd : kind) (cfg : config), valid_config kd cfg ->
  forall tr t s k pk now rnd s' r w d,
    let M := kind_model (K:=K) (V:=V) kd in
    wruns M 0 (kind_init kd cfg) tr t s -> (t <= now)%Z -> m_rnd_ok M s rnd ->
    lastw M k tr = Some (w, Some d) -> (d <= now)%Z ->
    m_step M s (Find k pk) now rnd = (s', r) -> r = RO None.
Proof. intros K V E kd cfg Hv. exact (L_expired kd cfg Hv). Qed.
Print Assumptions C04_expired_never_served.

(* the deadline a write records: tlru — the TTL supplied with the call; utlru — the TTL
   currently configured; ut_map / ut_set — the constructor TTL; all counted from the clock
   reading of the call, in nanoseconds *)
Theorem C04_deadline_of_a_write :
  forall (K V : Type) (E : EqDec K),
    (forall (s : tl K V) ttl now, tl_uniform s = false ->
        m_dl (tl_model false) s ttl now = Some (now + ms ttl)%Z) /\
    (forall (s : tl K V) ttl now, tl_uniform s = true ->
        m_dl (tl_model true) s ttl now = Some (now + ms (tl_ttl s))%Z) /\
    (forall (s : um K V) ttl now, m_dl um_model s ttl now = Some (now + ms (um_ttl s))%Z).
Proof.
  intros K V E. split; [|split].
  - intros s ttl now Hu. cbn. rewrite Hu. reflexivity.
  - intros s ttl now Hu. cbn. rewrite Hu. reflexivity.
  - reflexivity.
Qed.
Print Assumptions C04_deadline_of_a_write.

(* utlru: the configured TTL is what the last update_ttl (or the constructor) set; nothing
   else changes it, and update_ttl changes nothing else *)
Theorem C04_utlru_configured_ttl :
  forall (K V : Type) (E : EqDec K),
    (forall (s : tl K V) o now rnd s' r,
        tl_step s o now rnd = (s', r) -> (forall d, o <> UpdateTtl d) -> o <> Clear -> tl_ttl s' = tl_ttl s) /\
    (forall (s : tl K V) d now rnd s' r,
        tl_uniform s = true -> tl_step s (UpdateTtl d) now rnd = (s', r) ->
        r = RUnit /\ tl_ttl s' = d /\ tl_lru s' = tl_lru s /\ tl_ord s' = tl_ord s /\ tl_cap s' = tl_cap s).
Proof. intros K V E. exact (conj (@tl_ttl_frame K V E) (@tl_update_ttl_only_ttl K V E)). Qed.
Print Assumptions C04_utlru_configured_ttl.
