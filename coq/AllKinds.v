(* AllKinds.v — the ten containers as instances of the model class: for every kind the
   model record, its ModelOK instance, the start state with its invariant, and the link to
   the dispatcher [c_step] of Container.v (the function the extracted driver runs). *)
Require Import Capp.Base Capp.Spec Capp.ListCache Capp.Rr Capp.Lfuda Capp.TtlLru Capp.UtMap Capp.Container.
Require Import Capp.ListCacheFacts Capp.RrFacts Capp.LfudaFacts Capp.TtlLruFacts Capp.UtMapFacts.

Section AllKinds.
  Context {K V : Type} `{EqDec K}.

  Definition kind_model (kd : kind) : model K V :=
    match kd with
    | KLru => lc_model lru_policy
    | KMru => lc_model mru_policy
    | KFifo => lc_model fifo_policy
    | KRr => rr_model
    | KLfu => lfu_model
    | KLfuda => lf_model
    | KTlru => tl_model false
    | KUtlru => tl_model true
    | KUtMap => um_model
    | KUtSet => um_model
    end.

  Global Instance kind_ok : forall kd, ModelOK (kind_model kd).
  Proof. intros []; cbn [kind_model]; typeclasses eauto. Qed.

  (* capacity >= 1 for the eight caches; tick > 0 (lfuda); TTL >= 0 (utlru, ut_map, ut_set) *)
  Definition bounded_kind (kd : kind) : bool :=
    match kd with KUtMap | KUtSet => false | _ => true end.
  Definition valid_config (kd : kind) (c : config) : Prop :=
    (bounded_kind kd = true -> 1 <= c_cap c) /\ (0 <= c_tick c)%Z /\ (0 <= c_ttl c)%Z.

  Definition kind_init (kd : kind) (c : config) : St (kind_model kd) :=
    match kd return St (kind_model kd) with
    | KLru | KMru | KFifo => lc_init (c_cap c)
    | KRr => rr_init (c_cap c)
    | KLfu => lfu_init (c_cap c)
    | KLfuda => lf_init (c_cap c) (c_tick c) (c_rnum c) (c_rk c)
    | KTlru => tl_init false (c_cap c) 0
    | KUtlru => tl_init true (c_cap c) (c_ttl c)
    | KUtMap | KUtSet => um_init (c_ttl c)
    end.

  Lemma kind_init_inv : forall kd c, valid_config kd c -> m_inv (kind_model kd) 0 (kind_init kd c).
  Proof.
    intros kd c (Hc & Ht & Hl).
    destruct kd; cbn [kind_model kind_init m_inv];
      try (apply lc_inv_init; apply Hc; reflexivity).
    - apply rr_inv_init; apply Hc; reflexivity.
    - apply lfu_inv_init; [apply Hc; reflexivity|lia].
    - apply lf_inv_init; [apply Hc; reflexivity|exact Ht].
    - apply tl_inv_init; apply Hc; reflexivity.
    - apply tl_inv_init; apply Hc; reflexivity.
    - apply um_inv_init; exact Hl.
    - apply um_inv_init; exact Hl.
  Qed.

  Lemma kind_init_empty : forall kd c k, m_get (kind_model kd) (kind_init kd c) k = None.
  Proof.
    intros kd c k. destruct kd; cbn [kind_model kind_init m_get]; try reflexivity.
    (* rr: no slot of the fresh array holds a key *)
    assert (Hn : forall n i, rr_lookup_from i (repeat (@None (K * V)) n) k = None).
    { induction n as [|n IH]; intro i; [reflexivity|]. cbn. apply IH. }
    unfold rr_model; cbn [m_get]. unfold rr_get, rr_find, rr_lookup, rr_init. cbn [rr_slots].
    rewrite (Hn (c_cap c) 0). reflexivity.
  Qed.

  Lemma kind_bounded : forall kd, m_bounded (kind_model kd) = bounded_kind kd.
  Proof. intros []; reflexivity. Qed.

  (* ---- the dispatcher of Container.v runs exactly these models ---- *)
  Definition wrap (kd : kind) : St (kind_model kd) -> cstate K V :=
    match kd return St (kind_model kd) -> cstate K V with
    | KLru => SLc lru_policy
    | KMru => SLc mru_policy
    | KFifo => SLc fifo_policy
    | KRr => SRr
    | KLfu => SLf true
    | KLfuda => SLf false
    | KTlru => STl
    | KUtlru => STl
    | KUtMap => SUm
    | KUtSet => SUm
    end.

  Lemma c_init_wrap : forall kd c, c_init kd c = wrap kd (kind_init kd c).
  Proof. intros [] c; reflexivity. Qed.

  Lemma c_step_wrap : forall kd s o now rnd,
      c_step (wrap kd s) o now rnd =
      (wrap kd (fst (m_step (kind_model kd) s o now rnd)), snd (m_step (kind_model kd) s o now rnd)).
  Proof.
    intros kd s o now rnd.
    destruct kd; unfold kind_model, lc_model, rr_model, lf_model, lfu_model, tl_model, um_model in *;
      cbn [wrap c_step m_step St] in *;
      match goal with |- context [let '(_, _) := ?x in _] => destruct x end; reflexivity.
  Qed.

  Lemma c_view_wrap : forall kd s now k, c_view (wrap kd s) now k = m_view (kind_model kd) s now k.
  Proof. intros [] s now k; reflexivity. Qed.
  Lemma c_get_wrap : forall kd s k, c_get (wrap kd s) k = m_get (kind_model kd) s k.
  Proof. intros [] s k; reflexivity. Qed.
  Lemma c_size_wrap : forall kd s, c_size (wrap kd s) = m_size (kind_model kd) s.
  Proof. intros [] s; reflexivity. Qed.
End AllKinds.
