(* Generic.v — property theorems derived ONCE from the ModelOK class (Spec.v), hence
   valid for every container whose model has an instance.  All statements are in
   "forward" form: after any finite history [tr] of single calls leading from the
   start state to [s], the next call ... *)
Require Import Capp.Base Capp.Spec.

Section Generic.
  Context {K V : Type} `{EqDec K}.
  Variable M : model K V.
  Context {OK : ModelOK M}.

  Notation G := (m_get M).

  (* ------------------------------------------------------------------ *)
  (* the invariant holds along every history                             *)
  Lemma inv_run : forall t0 s0 tr t s,
      m_inv M t0 s0 -> wruns M t0 s0 tr t s -> m_inv M t s /\ m_cap M s = m_cap M s0.
  Proof.
    intros t0 s0 tr t s Hi Hr. induction Hr as [|tr t s e s' r Hr IH Hs Ht Hrnd Hstep].
    - split; [exact Hi|reflexivity].
    - destruct IH as [IHi IHc].
      destruct (ok_inv_step _ _ _ _ _ _ _ IHi Ht Hs Hrnd Hstep) as [Hi' Hc'].
      split; [exact Hi'|congruence].
  Qed.

  Lemma lastw_snoc : forall k tr x, lastw M k (tr ++ [x]) = upd_lastw M k (lastw M k tr) x.
  Proof. intros. unfold lastw. rewrite fold_left_app. reflexivity. Qed.

  (* ------------------------------------------------------------------ *)
  (* C01: the content of the store is always the latest write            *)
  Definition agrees (tr : list (titem M)) (s : St M) : Prop :=
    forall k x, G s k = Some x -> lastw M k tr = Some x.

  Lemma eqb_refl' : forall k : K, eqb k k = true.
  Proof. intro k. destruct (eqb_spec k k); congruence. Qed.
  Lemma eqb_neq : forall a b : K, a <> b -> eqb a b = false.
  Proof. intros a b Hn. destruct (eqb_spec a b); congruence. Qed.

  Lemma agrees_step : forall t s tr e s' r,
      m_inv M t s -> agrees tr s ->
      single (e_op e) = true -> (t <= e_now e)%Z -> m_rnd_ok M s (e_rnd e) ->
      m_step M s (e_op e) (e_now e) (e_rnd e) = (s', r) ->
      agrees (tr ++ [(s, e, r)]) s'.
  Proof.
    intros t s tr e s' r Hi Ha Hs Ht Hrnd Hstep k x Hg.
    rewrite lastw_snoc. unfold upd_lastw.
    assert (Hna : touches (e_op e) k = false -> lastw M k tr = Some x).
    { intro Ht0. apply Ha.
      rewrite <- (ok_no_appear _ _ _ _ _ _ _ k Hi Ht Hs Hrnd Hstep Ht0); [exact Hg|congruence]. }
    destruct (e_op e) as [ttl k' v a|l a|k'|l|k' pk|l pk|l pk|k' pk| |d| | | | |] eqn:Eo;
      try discriminate Hs; cbn [touches] in Hna.
    - (* Insert *)
      destruct (ok_ins _ _ _ _ _ _ _ _ _ _ Hi Ht Hrnd Hstep)
        as (b & -> & _ & _ & _ & Hw & Hk & _).
      destruct (eqb_spec k' k) as [->|Hne].
      + destruct b.
        * rewrite (Hw eq_refl) in Hg. congruence.
        * destruct (Hk eq_refl) as [Hsame|[Hnone _]]; [|congruence].
          apply Ha. congruence.
      + destruct b; apply Hna; reflexivity.
    - (* Erase *)
      destruct (ok_erase _ _ _ _ _ _ _ Hi Ht Hrnd Hstep) as (b & -> & Hnone & _).
      destruct (eqb_spec k' k) as [->|Hne].
      + congruence.
      + destruct b; apply Hna; reflexivity.
    - (* Find *)
      destruct (ok_find _ _ _ _ _ _ _ _ Hi Ht Hrnd Hstep) as (-> & Hmiss).
      destruct (m_view M s (e_now e) k') eqn:Ev.
      + apply Hna; reflexivity.
      + destruct (eqb_spec k' k) as [->|Hne].
        * rewrite (Hmiss eq_refl) in Hg. discriminate.
        * apply Hna; reflexivity.
    - (* FindUse *)
      pose proof (ok_find_use _ _ _ _ _ _ _ _ Hi Ht Hrnd Hstep) as Hfu.
      destruct (m_has_find_use M).
      + destruct Hfu as (o & -> & Hv & Hmiss). destruct o as [[v c]|].
        * apply Hna; reflexivity.
        * destruct (eqb_spec k' k) as [->|Hne].
          -- rewrite (Hmiss Hv) in Hg. discriminate.
          -- apply Hna; reflexivity.
      + destruct Hfu as (-> & ->). apply Hna; reflexivity.
    - destruct r; apply Hna; reflexivity.
    - destruct r; apply Hna; reflexivity.
    - (* Clear *)
      pose proof (ok_clear _ _ _ _ _ _ Hi Ht Hrnd Hstep) as Hc.
      destruct (m_has_clear M).
      + destruct Hc as (_ & Hall & _). rewrite Hall in Hg. discriminate.
      + destruct Hc as (-> & ->). apply Ha. exact Hg.
    - destruct r; apply Hna; reflexivity.
    - destruct r; apply Hna; reflexivity.
    - destruct r; apply Hna; reflexivity.
    - destruct r; apply Hna; reflexivity.
  Qed.

  Lemma agrees_run : forall t0 s0 tr t s,
      m_inv M t0 s0 -> (forall k, G s0 k = None) -> wruns M t0 s0 tr t s -> agrees tr s.
  Proof.
    intros t0 s0 tr t s Hi He Hr. induction Hr as [|tr t s e s' r Hr IH Hs Ht Hrnd Hstep].
    - intros k x Hg. rewrite He in Hg. discriminate.
    - eapply agrees_step; eauto. exact (proj1 (inv_run _ _ _ _ _ Hi Hr)).
  Qed.

  (* C01 / C04 / C05 in one statement: a lookup hit reports exactly the value of the latest
     successful write of that key that has not been undone since (by a successful erase, a
     clear, or having been seen missing), and only while that write's deadline — the time of
     the write plus the TTL in force for it — has not been reached. *)
  Theorem hit_reports_latest_write : forall t0 s0 tr t s k pk now rnd s' v,
      m_inv M t0 s0 -> (forall k, G s0 k = None) -> wruns M t0 s0 tr t s ->
      (t <= now)%Z -> m_rnd_ok M s rnd ->
      m_step M s (Find k pk) now rnd = (s', RO (Some v)) ->
      exists d, lastw M k tr = Some (v, d) /\ alive now d = true.
  Proof.
    intros t0 s0 tr t s k pk now rnd s' v Hi He Hr Ht Hrnd Hstep.
    destruct (inv_run _ _ _ _ _ Hi Hr) as [Hi' _].
    destruct (ok_find _ _ _ _ _ _ _ _ Hi' Ht Hrnd Hstep) as (Hr' & _).
    injection Hr' as Hv. rewrite (ok_view _ _ _ k Hi' Ht) in Hv. unfold view_of in Hv.
    destruct (G s k) as [[v0 d]|] eqn:Eg; [|discriminate].
    destruct (alive now d) eqn:Ea; [|discriminate]. injection Hv as ->.
    exists d. split; [|exact Ea]. exact (agrees_run _ _ _ _ _ Hi He Hr k _ Eg).
  Qed.

  Theorem hit_use_reports_latest_write : forall t0 s0 tr t s k pk now rnd s' v c,
      m_inv M t0 s0 -> (forall k, G s0 k = None) -> wruns M t0 s0 tr t s ->
      (t <= now)%Z -> m_rnd_ok M s rnd ->
      m_step M s (FindUse k pk) now rnd = (s', RU (Some (v, c))) ->
      exists d, lastw M k tr = Some (v, d) /\ alive now d = true.
  Proof.
    intros t0 s0 tr t s k pk now rnd s' v c Hi He Hr Ht Hrnd Hstep.
    destruct (inv_run _ _ _ _ _ Hi Hr) as [Hi' _].
    pose proof (ok_find_use _ _ _ _ _ _ _ _ Hi' Ht Hrnd Hstep) as Hfu.
    destruct (m_has_find_use M).
    - destruct Hfu as (o & Ho & Hv & _). injection Ho as <-.
      rewrite (ok_view _ _ _ k Hi' Ht) in Hv. unfold view_of in Hv.
      destruct (G s k) as [[v0 d]|] eqn:Eg; [|discriminate].
      destruct (alive now d) eqn:Ea; [|discriminate]. injection Hv as ->.
      exists d. split; [|exact Ea]. exact (agrees_run _ _ _ _ _ Hi He Hr k _ Eg).
    - destruct Hfu as (Hu & _). discriminate.
  Qed.

  (* never inserted, erased, cleared, or once seen missing (evicted / expired): absent *)
  Corollary no_write_no_hit : forall t0 s0 tr t s k pk now rnd s' r,
      m_inv M t0 s0 -> (forall k, G s0 k = None) -> wruns M t0 s0 tr t s ->
      (t <= now)%Z -> m_rnd_ok M s rnd ->
      lastw M k tr = None ->
      m_step M s (Find k pk) now rnd = (s', r) -> r = RO None.
  Proof.
    intros t0 s0 tr t s k pk now rnd s' r Hi He Hr Ht Hrnd Hl Hstep.
    destruct (inv_run _ _ _ _ _ Hi Hr) as [Hi' _].
    destruct (ok_find _ _ _ _ _ _ _ _ Hi' Ht Hrnd Hstep) as (-> & _).
    destruct (m_view M s now k) eqn:Ev; [|reflexivity].
    exfalso. rewrite <- Ev in Hstep.
    assert (Hs : m_step M s (Find k pk) now rnd = (s', RO (Some v))) by (rewrite Ev in Hstep; exact Hstep).
    destruct (hit_reports_latest_write _ _ _ _ _ _ _ _ _ _ _ Hi He Hr Ht Hrnd Hs) as (d & Hd & _).
    congruence.
  Qed.

  (* C04: at or after the deadline of the latest write the key is reported absent *)
  Corollary expired_never_served : forall t0 s0 tr t s k pk now rnd s' r w d,
      m_inv M t0 s0 -> (forall k, G s0 k = None) -> wruns M t0 s0 tr t s ->
      (t <= now)%Z -> m_rnd_ok M s rnd ->
      lastw M k tr = Some (w, Some d) -> (d <= now)%Z ->
      m_step M s (Find k pk) now rnd = (s', r) -> r = RO None.
  Proof.
    intros t0 s0 tr t s k pk now rnd s' r w d Hi He Hr Ht Hrnd Hl Hd Hstep.
    destruct (inv_run _ _ _ _ _ Hi Hr) as [Hi' _].
    destruct (ok_find _ _ _ _ _ _ _ _ Hi' Ht Hrnd Hstep) as (-> & _).
    destruct (m_view M s now k) eqn:Ev; [|reflexivity].
    exfalso.
    assert (Hs : m_step M s (Find k pk) now rnd = (s', RO (Some v))) by exact Hstep.
    destruct (hit_reports_latest_write _ _ _ _ _ _ _ _ _ _ _ Hi He Hr Ht Hrnd Hs) as (d' & Hd' & Ha).
    rewrite Hl in Hd'. injection Hd' as _ <-. cbn in Ha.
    apply Z.ltb_lt in Ha. lia.
  Qed.

  (* C05: the stored entry of a key is its latest write, deadline included, for as long
     as it is stored; while it is stored and the deadline has not been reached every lookup
     returns it.  (When it stops being stored is C03.) *)
  Theorem stored_entry_served_until_deadline : forall t0 s0 tr t s k v d pk now rnd s' r,
      m_inv M t0 s0 -> (forall k, G s0 k = None) -> wruns M t0 s0 tr t s ->
      (t <= now)%Z -> m_rnd_ok M s rnd ->
      G s k = Some (v, d) -> alive now d = true ->
      m_step M s (Find k pk) now rnd = (s', r) ->
      r = RO (Some v) /\ lastw M k tr = Some (v, d) /\ G s' k = Some (v, d).
  Proof.
    intros t0 s0 tr t s k v d pk now rnd s' r Hi He Hr Ht Hrnd Hg Ha Hstep.
    destruct (inv_run _ _ _ _ _ Hi Hr) as [Hi' _].
    destruct (ok_find _ _ _ _ _ _ _ _ Hi' Ht Hrnd Hstep) as (-> & _).
    rewrite (ok_view _ _ _ k Hi' Ht). unfold view_of. rewrite Hg, Ha.
    split; [reflexivity|]. split; [exact (agrees_run _ _ _ _ _ Hi He Hr k _ Hg)|].
    destruct (G s' k) as [x|] eqn:Eg'.
    - rewrite <- Hg, <- Eg'. eapply ok_no_appear; eauto; try reflexivity; congruence.
    - exfalso.
      assert (Hl : lost_live (G s) (G s') now k).
      { split; [exists v, d; auto|exact Eg']. }
      destruct (ok_loss _ _ (Find k pk) _ _ _ _ k Hi' Ht eq_refl Hrnd Hstep eq_refl Hl)
        as (_ & (ttl & k0 & v0 & a0 & Habs & _) & _).
      discriminate.
  Qed.

  (* ------------------------------------------------------------------ *)
  (* C03: retention                                                       *)
  (* a live entry that the call does not itself erase, overwrite or clear survives it,
     unless the call is a successful insert of a new key into a store with size = capacity,
     in which case at most that one live entry is lost, no resident entry was dead, and the
     size stays at capacity *)
  Theorem retention : forall t0 s0 tr t s o now rnd s' r k,
      m_inv M t0 s0 -> wruns M t0 s0 tr t s ->
      single o = true -> (t <= now)%Z -> m_rnd_ok M s rnd -> m_step M s o now rnd = (s', r) ->
      touches o k = false -> livek (G s) now k ->
      G s' k = G s k \/
      (G s' k = None /\ m_bounded M = true /\
       (exists ttl k0 v a, o = Insert ttl k0 v a /\ r = RB true /\ G s k0 = None /\ k0 <> k) /\
       m_size M s = m_cap M s /\ m_size M s' = m_cap M s /\
       (forall k'', ~ deadk (G s) now k'') /\
       (forall k'', touches o k'' = false -> lost_live (G s) (G s') now k'' -> k'' = k)).
  Proof.
    intros t0 s0 tr t s o now rnd s' r k Hi Hr Hs Ht Hrnd Hstep Hto Hl.
    destruct (inv_run _ _ _ _ _ Hi Hr) as [Hi' _].
    destruct (G s' k) as [x|] eqn:Eg.
    - left. rewrite <- Eg. eapply ok_no_appear; eauto. congruence.
    - right. assert (Hll : lost_live (G s) (G s') now k) by (split; assumption).
      destruct (ok_loss _ _ _ _ _ _ _ k Hi' Ht Hs Hrnd Hstep Hto Hll)
        as (Hb & (ttl & k0 & v & a & -> & -> & Hk0) & Hsz & Hsz' & Hnd & Hu).
      split; [reflexivity|]. split; [exact Hb|]. split.
      + exists ttl, k0, v, a. repeat split; auto.
        intros ->. destruct Hl as (v1 & d1 & Hg & _). congruence.
      + repeat split; auto.
  Qed.

  (* ut_map / ut_set (unbounded) never lose a live entry that way *)
  Corollary unbounded_never_evicts : forall t0 s0 tr t s o now rnd s' r k,
      m_bounded M = false ->
      m_inv M t0 s0 -> wruns M t0 s0 tr t s ->
      single o = true -> (t <= now)%Z -> m_rnd_ok M s rnd -> m_step M s o now rnd = (s', r) ->
      touches o k = false -> livek (G s) now k -> G s' k = G s k.
  Proof.
    intros t0 s0 tr t s o now rnd s' r k Hub Hi Hr Hs Ht Hrnd Hstep Hto Hl.
    destruct (retention _ _ _ _ _ _ _ _ _ _ _ Hi Hr Hs Ht Hrnd Hstep Hto Hl) as [Hk|(_ & Hb & _)];
      [exact Hk|congruence].
  Qed.

  (* an insert into a store that is not full removes no live entry; neither does any call
     that is not a successful insert of a new key *)
  Corollary no_loss_when_not_full : forall t0 s0 tr t s o now rnd s' r k,
      m_inv M t0 s0 -> wruns M t0 s0 tr t s ->
      single o = true -> (t <= now)%Z -> m_rnd_ok M s rnd -> m_step M s o now rnd = (s', r) ->
      touches o k = false -> livek (G s) now k ->
      m_size M s <> m_cap M s -> G s' k = G s k.
  Proof.
    intros t0 s0 tr t s o now rnd s' r k Hi Hr Hs Ht Hrnd Hstep Hto Hl Hne.
    destruct (retention _ _ _ _ _ _ _ _ _ _ _ Hi Hr Hs Ht Hrnd Hstep Hto Hl)
      as [Hk|(_ & _ & _ & Hsz & _)]; [exact Hk|congruence].
  Qed.

  Corollary only_new_key_inserts_evict : forall t0 s0 tr t s o now rnd s' r k,
      m_inv M t0 s0 -> wruns M t0 s0 tr t s ->
      single o = true -> (t <= now)%Z -> m_rnd_ok M s rnd -> m_step M s o now rnd = (s', r) ->
      touches o k = false -> livek (G s) now k ->
      (forall ttl k0 v a, o = Insert ttl k0 v a -> r = RB true -> G s k0 <> None) ->
      G s' k = G s k.
  Proof.
    intros t0 s0 tr t s o now rnd s' r k Hi Hr Hs Ht Hrnd Hstep Hto Hl Hno.
    destruct (retention _ _ _ _ _ _ _ _ _ _ _ Hi Hr Hs Ht Hrnd Hstep Hto Hl)
      as [Hk|(_ & _ & (ttl & k0 & v & a & Ho & Hrr & Hk0 & _) & _)]; [exact Hk|].
    exfalso. exact (Hno _ _ _ _ Ho Hrr Hk0).
  Qed.

  (* C16: while a dead entry is resident, an insert removes no live entry *)
  Corollary expired_first : forall t0 s0 tr t s o now rnd s' r k kd,
      m_inv M t0 s0 -> wruns M t0 s0 tr t s ->
      single o = true -> (t <= now)%Z -> m_rnd_ok M s rnd -> m_step M s o now rnd = (s', r) ->
      touches o k = false -> livek (G s) now k ->
      deadk (G s) now kd -> G s' k = G s k.
  Proof.
    intros t0 s0 tr t s o now rnd s' r k kd Hi Hr Hs Ht Hrnd Hstep Hto Hl Hd.
    destruct (retention _ _ _ _ _ _ _ _ _ _ _ Hi Hr Hs Ht Hrnd Hstep Hto Hl)
      as [Hk|(_ & _ & _ & _ & _ & Hnd & _)]; [exact Hk|].
    exfalso. exact (Hnd kd Hd).
  Qed.

  (* ------------------------------------------------------------------ *)
  (* C02: capacity bound and truthful observers                           *)
  Definition liveb (s : St M) (now : Z) (k : K) : bool :=
    match G s k with Some (_, d) => alive now d | None => false end.
  Definition deadb (s : St M) (now : Z) (k : K) : bool :=
    match G s k with Some (_, d) => negb (alive now d) | None => false end.

  Lemma filter_partition_length : forall (A : Type) (f g : A -> bool) (l : list A),
      (forall x, In x l -> g x = negb (f x)) ->
      length (filter f l) + length (filter g l) = length l.
  Proof.
    intros A f g l. induction l as [|a l IH]; intro Hfg; [reflexivity|].
    cbn [filter]. rewrite (Hfg a (or_introl eq_refl)).
    assert (IH' := IH (fun x Hx => Hfg x (or_intror Hx))).
    destruct (f a); cbn [negb length]; lia.
  Qed.

  Theorem observers_truthful : forall t0 s0 tr t s now rnd,
      m_inv M t0 s0 -> wruns M t0 s0 tr t s ->
      (* capacity() is the constructor argument; 0 <= size() <= capacity() *)
      m_cap M s = m_cap M s0 /\
      (m_bounded M = true -> m_size M s <= m_cap M s0) /\
      (* size()/empty()/capacity() report exactly that *)
      m_step M s Size now rnd = (s, RN (m_size M s)) /\
      m_step M s Empty now rnd = (s, RB (Nat.eqb (m_size M s) 0)) /\
      (m_bounded M = true -> m_step M s Capacity now rnd = (s, RN (m_cap M s0))) /\
      (* size() counts the resident keys, each once *)
      m_size M s = length (m_keys M s) /\ NoDup (m_keys M s) /\
      (forall k, In k (m_keys M s) <-> G s k <> None) /\
      (* ... = live ones + expired ones not yet removed *)
      length (filter (liveb s now) (m_keys M s)) + length (filter (deadb s now) (m_keys M s))
      = m_size M s.
  Proof.
    intros t0 s0 tr t s now rnd Hi Hr.
    destruct (inv_run _ _ _ _ _ Hi Hr) as [Hi' Hc].
    split; [exact Hc|]. split.
    { intro Hb. rewrite <- Hc. eapply ok_bound; eauto. }
    split; [apply ok_size_op|]. split; [apply ok_empty_op|]. split.
    { intro Hb. rewrite <- Hc. apply ok_cap_op; exact Hb. }
    split; [eapply ok_size; eauto|]. split; [eapply ok_keys_nodup; eauto|].
    split; [intro k; eapply ok_keys_get; eauto|].
    rewrite (ok_size _ _ Hi'). apply filter_partition_length.
    intros k Hk. unfold liveb, deadb.
    destruct (G s k) as [[v d]|] eqn:Eg; [reflexivity|].
    exfalso. apply (proj1 (ok_keys_get _ _ k Hi') Hk). exact Eg.
  Qed.

  (* the live keys are exactly the keys a lookup finds *)
  Theorem live_keys_are_found : forall t0 s0 tr t s now k,
      m_inv M t0 s0 -> wruns M t0 s0 tr t s -> (t <= now)%Z ->
      (liveb s now k = true <-> m_view M s now k <> None).
  Proof.
    intros t0 s0 tr t s now k Hi Hr Ht.
    destruct (inv_run _ _ _ _ _ Hi Hr) as [Hi' _].
    rewrite (ok_view _ _ _ k Hi' Ht). unfold liveb, view_of.
    destruct (G s k) as [[v d]|]; [|split; [discriminate|congruence]].
    destruct (alive now d); split; congruence.
  Qed.

  (* ------------------------------------------------------------------ *)
  (* C09: the allow table                                                 *)
  Theorem allow_modes : forall t0 s0 tr t s ttl k v a now rnd s' r,
      m_inv M t0 s0 -> wruns M t0 s0 tr t s ->
      (t <= now)%Z -> m_rnd_ok M s rnd -> m_step M s (Insert ttl k v a) now rnd = (s', r) ->
      exists b, r = RB b /\
        (* live entry: succeeds iff update is allowed *)
        (livek (G s) now k -> b = a_upd a) /\
        (* no entry: succeeds iff insert is allowed *)
        (G s k = None -> b = a_ins a) /\
        (* expired, not yet removed: insert-allowed always succeeds; update-only may go either way;
           never succeeds when neither bit is set *)
        (deadk (G s) now k -> (a_ins a = true -> b = true) /\
                              (b = true -> a_ins a = true \/ a_upd a = true)) /\
        (* success: the value is replaced and the TTL restarts from now *)
        (b = true -> G s' k = Some (v, m_dl M s ttl now)) /\
        (* failure: value and expiry unchanged (an already expired entry may be reaped) *)
        (b = false -> keeps (G s) (G s') now k).
  Proof.
    intros t0 s0 tr t s ttl k v a now rnd s' r Hi Hr Ht Hrnd Hstep.
    destruct (inv_run _ _ _ _ _ Hi Hr) as [Hi' _].
    destruct (ok_ins _ _ _ _ _ _ _ _ _ _ Hi' Ht Hrnd Hstep)
      as (b & Hr' & Hl & Hn & Hd & Hw & Hk & _).
    exists b. repeat split; auto; apply Hd; auto.
  Qed.

  (* allow::insert_or_update always succeeds; the empty mode never does *)
  Corollary insert_or_update_always_succeeds : forall t0 s0 tr t s ttl k v now rnd s' r,
      m_inv M t0 s0 -> wruns M t0 s0 tr t s ->
      (t <= now)%Z -> m_rnd_ok M s rnd ->
      m_step M s (Insert ttl k v {| a_ins := true; a_upd := true |}) now rnd = (s', r) ->
      r = RB true.
  Proof.
    intros t0 s0 tr t s ttl k v now rnd s' r Hi Hr Ht Hrnd Hstep.
    destruct (allow_modes _ _ _ _ _ _ _ _ _ _ _ _ _ Hi Hr Ht Hrnd Hstep)
      as (b & -> & Hl & Hn & Hd & _).
    destruct (G s k) as [[v0 d]|] eqn:Eg.
    - destruct (alive now d) eqn:Ea.
      + rewrite Hl; [reflexivity|]. exists v0, d. auto.
      + destruct d as [d|]; [|discriminate]. cbn in Ea. apply Z.ltb_ge in Ea.
        destruct Hd as [Hd _]; [exists v0, d; auto|]. rewrite Hd; reflexivity.
    - rewrite Hn; reflexivity.
  Qed.

  (* ------------------------------------------------------------------ *)
  (* C17: clean_expired_values                                            *)
  Theorem clean_removes_exactly_expired : forall t0 s0 tr t s now rnd s' r,
      m_has_clean M = true ->
      m_inv M t0 s0 -> wruns M t0 s0 tr t s ->
      (t <= now)%Z -> m_rnd_ok M s rnd -> m_step M s Clean now rnd = (s', r) ->
      exists n, r = RN n /\ n + m_size M s' = m_size M s /\
        (forall k, deadk (G s) now k -> G s' k = None) /\
        (forall k, ~ deadk (G s) now k -> G s' k = G s k) /\
        (forall k, ~ deadk (G s') now k).
  Proof.
    intros t0 s0 tr t s now rnd s' r Hc Hi Hr Ht Hrnd Hstep.
    destruct (inv_run _ _ _ _ _ Hi Hr) as [Hi' _].
    pose proof (ok_clean _ _ _ _ _ _ Hi' Ht Hrnd Hstep) as Hcl. rewrite Hc in Hcl.
    destruct Hcl as (n & -> & Hn & Hd & Hnd).
    exists n. repeat split; auto.
    intros k (v & d & Hg & Hle).
    destruct (G s k) as [[v1 d1]|] eqn:Eg.
    - assert (Hdec : deadk (G s) now k \/ ~ deadk (G s) now k).
      { destruct d1 as [d1|].
        - destruct (Z_le_gt_dec d1 now); [left; exists v1, d1; auto|].
          right. intros (v2 & d2 & Hg2 & Hle2). rewrite Eg in Hg2. injection Hg2 as _ <-. lia.
        - right. intros (v2 & d2 & Hg2 & _). rewrite Eg in Hg2. discriminate. }
      destruct Hdec as [Hdk|Hndk].
      + rewrite (Hd k Hdk) in Hg. discriminate.
      + rewrite (Hnd k Hndk), Eg in Hg. apply Hndk. exists v, d.
        injection Hg as -> ->. auto.
    - assert (Hndk : ~ deadk (G s) now k).
      { intros (v2 & d2 & Hg2 & _). rewrite Eg in Hg2. discriminate. }
      rewrite (Hnd k Hndk), Eg in Hg. discriminate.
  Qed.

  (* ------------------------------------------------------------------ *)
  (* C03, second half: an insert of a new key into a full bounded store removes EXACTLY one
     previously resident entry and leaves size() at capacity() *)
  Lemma one_missing : forall (l1 l2 : list K),
      NoDup l1 -> NoDup l2 -> incl l1 l2 -> length l2 = S (length l1) ->
      exists x, In x l2 /\ ~ In x l1 /\ forall y, In y l2 -> y <> x -> In y l1.
  Proof.
    induction l1 as [|a l1 IH]; intros l2 Hn1 Hn2 Hinc Hlen.
    - destruct l2 as [|x [|y l2]]; cbn in Hlen; try lia.
      exists x. split; [left; reflexivity|]. split; [intros []|].
      intros y [->|[]] Hne. congruence.
    - assert (Ha : In a l2) by (apply Hinc; left; reflexivity).
      destruct (in_split _ _ Ha) as (l2a & l2b & ->).
      inversion Hn1 as [|a' l1' Hnotin Hn1' Heq]; subst.
      pose proof (NoDup_remove_1 _ _ _ Hn2) as Hn2'.
      pose proof (NoDup_remove_2 _ _ _ Hn2) as Hanot.
      assert (Hinc' : incl l1 (l2a ++ l2b)).
      { intros y Hy. assert (Hy2 : In y (l2a ++ a :: l2b)) by (apply Hinc; right; exact Hy).
        apply in_app_or in Hy2. apply in_or_app.
        destruct Hy2 as [Hy2|[->|Hy2]]; [left; exact Hy2|contradiction|right; exact Hy2]. }
      assert (Hlen' : length (l2a ++ l2b) = S (length l1)).
      { rewrite app_length in *. cbn in Hlen. lia. }
      destruct (IH _ Hn1' Hn2' Hinc' Hlen') as (x & Hx & Hxn & Hall).
      exists x. split.
      { apply in_app_or in Hx. apply in_or_app. destruct Hx; [left|right; right]; assumption. }
      split.
      { intros [->|Hx1]; [contradiction|contradiction]. }
      intros y Hy Hne. apply in_app_or in Hy. destruct Hy as [Hy|[->|Hy]].
      + right. apply Hall; [apply in_or_app; left; exact Hy|exact Hne].
      + left; reflexivity.
      + right. apply Hall; [apply in_or_app; right; exact Hy|exact Hne].
  Qed.

  Lemma remove_key_props : forall (k : K) (l : list K),
      NoDup l -> In k l ->
      exists l', NoDup l' /\ length l = S (length l') /\ ~ In k l' /\
                 (forall y, In y l' <-> In y l /\ y <> k).
  Proof.
    intros k l Hn Hin. destruct (in_split _ _ Hin) as (la & lb & ->).
    exists (la ++ lb). pose proof (NoDup_remove_1 _ _ _ Hn) as Hn'.
    pose proof (NoDup_remove_2 _ _ _ Hn) as Hnot.
    split; [exact Hn'|]. split; [rewrite !app_length; cbn; lia|]. split; [exact Hnot|].
    intro y. split.
    - intro Hy. split.
      + apply in_app_or in Hy. apply in_or_app. destruct Hy; [left|right; right]; assumption.
      + intros ->. contradiction.
    - intros [Hy Hne]. apply in_app_or in Hy. apply in_or_app.
      destruct Hy as [Hy|[Hy|Hy]]; [left; exact Hy|congruence|right; exact Hy].
  Qed.

  Theorem full_insert_removes_exactly_one : forall t0 s0 tr t s ttl k v a now rnd s',
      m_bounded M = true ->
      m_inv M t0 s0 -> wruns M t0 s0 tr t s ->
      (t <= now)%Z -> m_rnd_ok M s rnd ->
      m_step M s (Insert ttl k v a) now rnd = (s', RB true) ->
      G s k = None -> m_size M s = m_cap M s ->
      m_size M s' = m_cap M s /\
      exists kv, kv <> k /\ G s kv <> None /\ G s' kv = None /\
        (forall k', k' <> k -> k' <> kv -> G s' k' = G s k').
  Proof.
    intros t0 s0 tr t s ttl k v a now rnd s' Hb Hi Hr Ht Hrnd Hstep Hk Hfull.
    destruct (inv_run _ _ _ _ _ Hi Hr) as [Hi' _].
    destruct (ok_inv_step _ _ (Insert ttl k v a) _ _ _ _ Hi' Ht eq_refl Hrnd Hstep) as [Hi2 _].
    destruct (ok_ins _ _ _ _ _ _ _ _ _ _ Hi' Ht Hrnd Hstep)
      as (b & Hb' & _ & _ & _ & Hw & _ & Hsz).
    injection Hb' as <-.
    pose proof (Hsz Hb eq_refl Hk) as Hsz'.
    rewrite Hfull, Nat.ltb_irrefl in Hsz'.
    split; [exact Hsz'|].
    assert (Hkin : In k (m_keys M s')).
    { apply (ok_keys_get _ _ k Hi2). rewrite (Hw eq_refl). discriminate. }
    destruct (remove_key_props k _ (ok_keys_nodup _ _ Hi2) Hkin) as (l' & Hnl' & Hlen & Hknot & Hmem).
    assert (Hinc : incl l' (m_keys M s)).
    { intros y Hy. apply Hmem in Hy. destruct Hy as [Hy Hne].
      apply (ok_keys_get _ _ y Hi').
      assert (Hgy : G s' y <> None) by (apply (ok_keys_get _ _ y Hi2); exact Hy).
      rewrite <- (ok_no_appear _ _ (Insert ttl k v a) _ _ _ _ y Hi' Ht eq_refl Hrnd Hstep); [exact Hgy| |exact Hgy].
      cbn. apply eqb_neq. congruence. }
    assert (Hlen2 : length (m_keys M s) = S (length l')).
    { rewrite <- (ok_size _ _ Hi'), Hfull, <- Hsz', (ok_size _ _ Hi2). exact Hlen. }
    destruct (one_missing l' (m_keys M s) Hnl' (ok_keys_nodup _ _ Hi') Hinc Hlen2)
      as (kv & Hkv & Hkvn & Hall).
    exists kv.
    assert (Hkvk : kv <> k).
    { intros ->. apply (proj1 (ok_keys_get _ _ k Hi') Hkv). exact Hk. }
    split; [exact Hkvk|]. split; [apply (ok_keys_get _ _ kv Hi'); exact Hkv|]. split.
    - destruct (G s' kv) eqn:Eg; [|reflexivity]. exfalso. apply Hkvn. apply Hmem. split; [|exact Hkvk].
      apply (ok_keys_get _ _ kv Hi2). congruence.
    - intros k' Hne1 Hne2.
      destruct (G s k') as [x|] eqn:Eg.
      + assert (Hin' : In k' l').
        { apply Hall; [apply (ok_keys_get _ _ k' Hi'); congruence|exact Hne2]. }
        apply Hmem in Hin'. destruct Hin' as [Hin' _].
        assert (Hg' : G s' k' <> None) by (apply (ok_keys_get _ _ k' Hi2); exact Hin').
        rewrite (ok_no_appear _ _ (Insert ttl k v a) _ _ _ _ k' Hi' Ht eq_refl Hrnd Hstep); [exact Eg| |exact Hg'].
        cbn. apply eqb_neq. congruence.
      + destruct (G s' k') as [y|] eqn:Eg'; [|reflexivity]. exfalso.
        assert (Hg' : G s' k' <> None) by congruence.
        rewrite (ok_no_appear _ _ (Insert ttl k v a) _ _ _ _ k' Hi' Ht eq_refl Hrnd Hstep) in Eg'; [congruence| |exact Hg'].
        cbn. apply eqb_neq. congruence.
  Qed.
End Generic.
