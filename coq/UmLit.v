(* UmLit.v — LITERAL model (L3) of ut_map.hpp (and ut_set.hpp, whose code is the same without
   the value): std::map<key, keyed_element{value, ttl_iterator}> m_keyed_elements and
   std::list<ttl_element{expire_time, keyed_iterator}> m_ttl_list whose nodes are created by
   emplace_back and destroyed by erase; do_prune / do_insert / do_update / do_erase / do_find
   and the public methods transcribed line by line into the undefined-behaviour monad. *)
Require Import Capp.Base Capp.Rr Capp.UtMap Capp.RrLit Capp.LruLit.
From Coq Require Import Strings.String.

Section UmLit.
  Context {K V : Type} `{EqDec K}.
  Local Open Scope string_scope.
  Local Open Scope list_scope.
  Local Open Scope nat_scope.

  (* struct ttl_element { time_point m_expire_time; keyed_iterator m_keyed_elements_position; } *)
  Record tnode := { tn_expire : Z; tn_keyed : K (* map iterator: the key of its node *) }.

  Record uml := {
    ul_ttl   : Z;                          (* m_uniform_ttl, ms *)
    ul_map   : list (K * (V * option nat)); (* m_keyed_elements: key -> (value, m_ttl_position = node id; None = singular) *)
    ul_list  : list nat;                   (* m_ttl_list: node identities in list order *)
    ul_nodes : list (nat * tnode);         (* the ttl_element stored in each live node *)
    ul_next  : nat                         (* next fresh node identity (allocation) *)
  }.

  Definition uml_init (ttl : Z) : uml :=
    {| ul_ttl := ttl; ul_map := []; ul_list := []; ul_nodes := []; ul_next := 0 |}.

  Definition node_of (s : uml) (it : option nat) : res (nat * tnode) :=
    match it with
    | None => UB "use of a singular m_ttl_list iterator"
    | Some n => if mem_nat n (ul_list s)
                then (match assoc n (ul_nodes s) with Some t => Ok (n, t) | None => UB "list node without element" end)
                else UB "use of an erased m_ttl_list iterator"
    end.

  (* m_keyed_elements.erase(iterator) *)
  Definition map_erase (m : list (K * (V * option nat))) (k : K) : res (list (K * (V * option nat))) :=
    match assoc k m with Some _ => Ok (remk k m) | None => UB "map erase through an erased iterator" end.

  (* do_prune(now): walk from begin while expired, erasing the keyed elements; then erase the range *)
  Fixpoint ul_prune_walk (s : uml) (l : list nat) (m : list (K * (V * option nat))) (now : Z) (n : nat)
    : res (list nat * list (K * (V * option nat)) * nat) :=
    match l with
    | [] => Ok ([], m, n)
    | x :: r =>
        match assoc x (ul_nodes s) with
        | None => UB "list node without element"
        | Some t =>
            if (tn_expire t <=? now)%Z
            then (do m1 <- map_erase m (tn_keyed t); ul_prune_walk s r m1 now (S n))
            else Ok (l, m, n)
        end
    end.
  Definition ul_do_prune (s : uml) (now : Z) : res (uml * nat) :=
    do x <- ul_prune_walk s (ul_list s) (ul_map s) now 0;
    let '(l, m, n) := x in
    Ok ({| ul_ttl := ul_ttl s; ul_map := m; ul_list := l;
           ul_nodes := filter (fun p => mem_nat (fst p) l) (ul_nodes s); ul_next := ul_next s |}, n).

  (* do_insert(key, value, expire_time) *)
  Definition ul_do_insert (s : uml) (k : K) (v : V) (ex : Z) : res uml :=
    let id := ul_next s in
    Ok {| ul_ttl := ul_ttl s; ul_map := ul_map s ++ [(k, (v, Some id))]; ul_list := ul_list s ++ [id];
          ul_nodes := ul_nodes s ++ [(id, {| tn_expire := ex; tn_keyed := k |})]; ul_next := S id |}.

  (* do_update(keyed_position, value, expire_time) *)
  Definition ul_do_update (s : uml) (k : K) (v : V) (ex : Z) : res uml :=
    match assoc k (ul_map s) with
    | None => UB "update through an erased map iterator"
    | Some (_, tp) =>
        do nt <- node_of s tp;
        let '(n, t) := nt in
        (* element.m_ttl_position->m_expire_time = expire_time; splice(end(), list, position); position = prev(end()) *)
        do l <- l_splice (ul_list s) End (It n);
        do lastp <- l_prev l End;
        let tp' := match lastp with It x => Some x | End => None end in
        Ok {| ul_ttl := ul_ttl s; ul_map := setk k (v, tp') (ul_map s); ul_list := l;
              ul_nodes := setk n {| tn_expire := ex; tn_keyed := tn_keyed t |} (ul_nodes s); ul_next := ul_next s |}
    end.

  (* do_erase(keyed_elements_position) *)
  Definition ul_do_erase (s : uml) (k : K) : res uml :=
    match assoc k (ul_map s) with
    | None => UB "erase through an erased map iterator"
    | Some (_, tp) =>
        do nt <- node_of s tp;
        let '(n, _) := nt in
        Ok {| ul_ttl := ul_ttl s; ul_map := remk k (ul_map s); ul_list := remove_nat n (ul_list s);
              ul_nodes := remk n (ul_nodes s); ul_next := ul_next s |}
    end.

  (* do_insert_update(key, value, expire_time, allow) *)
  Definition ul_ins (s : uml) (k : K) (v : V) (a : allow) (ex : Z) : res (uml * bool) :=
    match assoc k (ul_map s) with
    | Some _ => if a_upd a then (do s1 <- ul_do_update s k v ex; Ok (s1, true)) else Ok (s, false)
    | None => if a_ins a then (do s1 <- ul_do_insert s k v ex; Ok (s1, true)) else Ok (s, false)
    end.

  Definition ul_erase (s : uml) (k : K) : res (uml * bool) :=
    match assoc k (ul_map s) with
    | Some _ => do s1 <- ul_do_erase s k; Ok (s1, true)
    | None => Ok (s, false)
    end.

  Definition ul_find (s : uml) (k : K) : option V :=
    match assoc k (ul_map s) with Some (v, _) => Some v | None => None end.

  Fixpoint ul_ins_range (s : uml) (l : list (Z * K * V)) (a : allow) (ex : Z) (n : nat) : res (uml * nat) :=
    match l with
    | [] => Ok (s, n)
    | (_, k, v) :: r => do x <- ul_ins s k v a ex; let '(s1, b) := x in ul_ins_range s1 r a ex (if b then S n else n)
    end.
  Fixpoint ul_erase_range (s : uml) (l : list K) (n : nat) : res (uml * nat) :=
    match l with
    | [] => Ok (s, n)
    | k :: r => do x <- ul_erase s k; let '(s1, b) := x in ul_erase_range s1 r (if b then S n else n)
    end.

  Definition ul_step (s : uml) (o : op K V) (now : Z) (rnd : list nat) : res (uml * ret K V) :=
    let ex := (now + ms (ul_ttl s))%Z in
    match o with
    | Insert _ k v a => do p <- ul_do_prune s now; do x <- ul_ins (fst p) k v a ex; let '(s1, b) := x in Ok (s1, RB b)
    | InsertRange l a => do p <- ul_do_prune s now; do x <- ul_ins_range (fst p) l a ex 0; let '(s1, n) := x in Ok (s1, RN n)
    | Erase k => do p <- ul_do_prune s now; do x <- ul_erase (fst p) k; let '(s1, b) := x in Ok (s1, RB b)
    | EraseRange l => do p <- ul_do_prune s now; do x <- ul_erase_range (fst p) l 0; let '(s1, n) := x in Ok (s1, RN n)
    | Find k _ => do p <- ul_do_prune s now; Ok (fst p, RO (ul_find (fst p) k))
    | FindRange l _ => do p <- ul_do_prune s now; Ok (fst p, RL (map (fun k => (k, ul_find (fst p) k)) l))
    | FindRangeFill l _ => do p <- ul_do_prune s now; Ok (fst p, RL (map (fun k => (k, ul_find (fst p) k)) l))
    | Clean => do p <- ul_do_prune s now; Ok (fst p, RN (snd p))
    | Clear => Ok ({| ul_ttl := ul_ttl s; ul_map := []; ul_list := []; ul_nodes := []; ul_next := ul_next s |}, RUnit)
    | Size => Ok (s, RN (List.length (ul_map s)))
    | Empty => Ok (s, RB (Nat.eqb (List.length (ul_map s)) 0))
    | _ => Ok (s, RUnsupported)
    end.

  (* ---- representation: the ttl list read through its nodes and the map is um_list ---- *)
  Definition ul_entry (s : uml) (n : nat) : option (K * (V * Z)) :=
    match assoc n (ul_nodes s) with
    | Some t => match assoc (tn_keyed t) (ul_map s) with
                | Some (v, _) => Some (tn_keyed t, (v, tn_expire t))
                | None => None
                end
    | None => None
    end.

  Definition ul_rep (l : uml) (s : um K V) : Prop :=
    ul_ttl l = um_ttl s /\
    NoDup (ul_list l) /\ NoDup (keys (ul_map l)) /\ NoDup (keys (ul_nodes l)) /\
    (forall n, In n (ul_list l) <-> In n (keys (ul_nodes l))) /\ (forall n, In n (ul_list l) -> n < ul_next l) /\
    List.length (ul_map l) = List.length (ul_list l) /\
    map (ul_entry l) (ul_list l) = map (@Some (K * (V * Z))) (um_list s) /\
    (forall k v tp, assoc k (ul_map l) = Some (v, tp) ->
        exists n t, tp = Some n /\ In n (ul_list l) /\ assoc n (ul_nodes l) = Some t /\ tn_keyed t = k).
End UmLit.

Arguments uml : clear implicits.
