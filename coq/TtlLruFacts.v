(* TtlLruFacts.v — proofs about the tlru / utlru model (TtlLru.v): the ModelOK instances
   (Spec.v), LRU order among live entries (C10), expired-first eviction (C16),
   clean_expired_values (C17), TTL bookkeeping (C04/C05), no-effect calls (C19), clear (C20). *)
Require Import Capp.Base Capp.Spec Capp.TtlLru.
From Coq Require Import Sorted Permutation.

(* ------------------------------------------------------------------------- *)
(* generic list helpers                                                       *)
(* ------------------------------------------------------------------------- *)
Section ListHelpers.
  Context {K : Type} `{EqDec K}.

  Lemma tl_keqb_refl : forall k : K, eqb k k = true.
  Proof. intros k. destruct (eqb_spec k k); congruence. Qed.
  Lemma tl_keqb_neq : forall a b : K, a <> b -> eqb a b = false.
  Proof. intros a b n. destruct (eqb_spec a b); congruence. Qed.
  Lemma tl_keqb_true : forall a b : K, eqb a b = true -> a = b.
  Proof. intros a b e. destruct (eqb_spec a b); congruence. Qed.
  Lemma tl_keqb_false : forall a b : K, eqb a b = false -> a <> b.
  Proof. intros a b e. destruct (eqb_spec a b); congruence. Qed.

  Lemma tl_NoDup_snoc : forall (A : Type) (l : list A) x, NoDup l -> ~ In x l -> NoDup (l ++ [x]).
  Proof.
    intros A l x Hn Hx. induction l as [|a l IH]; simpl.
    - constructor; [intros []|constructor].
    - inversion Hn as [|? ? Ha Hl]; subst. constructor.
      + rewrite in_app_iff. intros [Hin|[Heq|[]]]; [tauto|]. subst. apply Hx. now left.
      + apply IH; [assumption|]. intros Hin. apply Hx. now right.
  Qed.

  Lemma tl_filter_all : forall (A : Type) (p : A -> bool) l,
      (forall x, In x l -> p x = true) -> filter p l = l.
  Proof.
    intros A p l. induction l as [|a l IH]; simpl; intros Hall; [reflexivity|].
    rewrite (Hall a (or_introl eq_refl)). f_equal. apply IH. intros x Hx. apply Hall. now right.
  Qed.
  Lemma tl_filter_none : forall (A : Type) (p : A -> bool) l,
      (forall x, In x l -> p x = false) -> filter p l = [].
  Proof.
    intros A p l. induction l as [|a l IH]; simpl; intros Hall; [reflexivity|].
    rewrite (Hall a (or_introl eq_refl)). apply IH. intros x Hx. apply Hall. now right.
  Qed.

  Lemma tl_sorted_map_filter : forall (A B : Type) (R : B -> B -> Prop) (f : A -> B) (p : A -> bool) l,
      StronglySorted R (map f l) -> StronglySorted R (map f (filter p l)).
  Proof.
    intros A B R f p l. induction l as [|a l IH]; simpl; intros Hs; [constructor|].
    inversion Hs as [|? ? Hs' Hall]; subst.
    destruct (p a); simpl; [|now apply IH].
    constructor; [now apply IH|].
    rewrite Forall_forall in *. intros y Hy. apply Hall.
    rewrite in_map_iff in *. destruct Hy as [x [Hx Hin]]. exists x. split; [assumption|].
    rewrite filter_In in Hin. tauto.
  Qed.
  Lemma tl_nodup_map_filter : forall (A B : Type) (f : A -> B) (p : A -> bool) l,
      NoDup (map f l) -> NoDup (map f (filter p l)).
  Proof.
    intros A B f p l. induction l as [|a l IH]; simpl; intros Hn; [constructor|].
    inversion Hn as [|? ? Ha Hl]; subst.
    destruct (p a); simpl; [|now apply IH].
    constructor; [|now apply IH].
    intros Hin. apply Ha. rewrite in_map_iff in *. destruct Hin as [x [Hx Hin]]. exists x.
    rewrite filter_In in Hin. tauto.
  Qed.
  Lemma tl_sorted_weaken : forall (A : Type) (R R' : A -> A -> Prop) l,
      StronglySorted R l -> (forall a b, In a l -> In b l -> R a b -> R' a b) -> StronglySorted R' l.
  Proof.
    intros A R R' l Hs. induction Hs as [|a l Hs IH Hall]; intros Himp; [constructor|].
    constructor.
    - apply IH. intros x y Hx Hy. apply Himp; now right.
    - rewrite Forall_forall in *. intros y Hy. apply Himp; [now left|now right|now apply Hall].
  Qed.
  Lemma tl_sorted_snoc : forall (A : Type) (R : A -> A -> Prop) l x,
      StronglySorted R l -> (forall y, In y l -> R y x) -> StronglySorted R (l ++ [x]).
  Proof.
    intros A R l x Hs. induction Hs as [|a l Hs IH Hall]; intros Hx; simpl.
    - constructor; constructor.
    - constructor.
      + apply IH. intros y Hy. apply Hx. now right.
      + rewrite Forall_forall in *. intros y Hy. rewrite in_app_iff in Hy.
        destruct Hy as [Hy|[Hy|[]]]; [now apply Hall|]. subst. apply Hx. now left.
  Qed.

  Section AssocFacts.
    Context {A : Type}.
    Implicit Types (l : list (K * A)).

    Lemma tl_remk_filter : forall k l, remk k l = filter (fun x => negb (eqb k (fst x))) l.
    Proof.
      intros k l. induction l as [|[k' a] l IH]; simpl; [reflexivity|].
      destruct (eqb k k'); simpl; [assumption|now f_equal].
    Qed.
    Lemma tl_assoc_remk : forall k k' l, assoc k' (remk k l) = if eqb k k' then None else assoc k' l.
    Proof.
      intros k k' l. induction l as [|[k0 a] l IH]; simpl.
      - now destruct (eqb k k').
      - destruct (eqb_spec k k0) as [E|N]; simpl.
        + subst k0. rewrite IH. destruct (eqb_spec k k') as [E'|N']; [reflexivity|].
          rewrite tl_keqb_neq; [reflexivity|congruence].
        + rewrite IH. destruct (eqb_spec k k') as [E'|N']; [|reflexivity].
          subst k'. now rewrite tl_keqb_neq.
    Qed.
    Lemma tl_assoc_app : forall k l1 l2,
        assoc k (l1 ++ l2) = match assoc k l1 with Some a => Some a | None => assoc k l2 end.
    Proof.
      intros k l1 l2. induction l1 as [|[k0 a] l1 IH]; simpl; [reflexivity|].
      now destruct (eqb k k0).
    Qed.
    Lemma tl_assoc_none_keys : forall k l, assoc k l = None <-> ~ In k (keys l).
    Proof.
      intros k l. induction l as [|[k0 a] l IH]; simpl; [tauto|].
      destruct (eqb_spec k k0) as [E|N].
      - subst. split; [discriminate|]. intros Hn. exfalso. apply Hn. now left.
      - rewrite IH. split; [intros Hn [E|Hin]; [congruence|tauto]|tauto].
    Qed.
    Lemma tl_assoc_some_keys : forall k a l, assoc k l = Some a -> In k (keys l).
    Proof.
      intros k a l Ha. destruct (in_dec (fun x y => reflect_dec _ _ (eqb_spec x y)) k (keys l)) as [Hi|Hn];
        [assumption|]. apply tl_assoc_none_keys in Hn. congruence.
    Qed.
    Lemma tl_assoc_some_in : forall k a l, assoc k l = Some a -> In (k, a) l.
    Proof.
      intros k a l. induction l as [|[k0 a0] l IH]; simpl; [discriminate|].
      destruct (eqb_spec k k0) as [E|N]; intros Ha.
      - left. congruence.
      - right. now apply IH.
    Qed.
    Lemma tl_in_assoc_nodup : forall k a l, NoDup (keys l) -> In (k, a) l -> assoc k l = Some a.
    Proof.
      intros k a l. induction l as [|[k0 a0] l IH]; simpl; intros Hn Hin; [tauto|].
      inversion Hn as [|? ? Hk Hl]; subst.
      destruct Hin as [E|Hin].
      - inversion E; subst. now rewrite tl_keqb_refl.
      - destruct (eqb_spec k k0) as [E|N]; [|now apply IH].
        subst. exfalso. apply Hk. unfold keys. rewrite in_map_iff. now exists (k0, a).
    Qed.
    Lemma tl_nodup_keys_remk : forall k l, NoDup (keys l) -> NoDup (keys (remk k l)).
    Proof. intros k l. rewrite tl_remk_filter. apply tl_nodup_map_filter. Qed.
    Lemma tl_remk_absent : forall k l, assoc k l = None -> remk k l = l.
    Proof.
      intros k l. induction l as [|[k0 a] l IH]; simpl; [reflexivity|].
      destruct (eqb k k0); [discriminate|]. intros Ha. f_equal. now apply IH.
    Qed.
    Lemma tl_length_remk_le : forall k l, length (remk k l) <= length l.
    Proof.
      intros k l. induction l as [|[k0 a] l IH]; simpl; [lia|]. destruct (eqb k k0); simpl; lia.
    Qed.
    Lemma tl_length_remk : forall k a l, NoDup (keys l) -> assoc k l = Some a ->
        length l = S (length (remk k l)).
    Proof.
      intros k a l. induction l as [|[k0 a0] l IH]; simpl; intros Hn Ha; [discriminate|].
      inversion Hn as [|? ? Hk Hl]; subst.
      destruct (eqb_spec k k0) as [E|N]; simpl.
      - subst. rewrite tl_remk_absent; [reflexivity|]. now apply tl_assoc_none_keys.
      - f_equal. now apply IH.
    Qed.
    Lemma tl_assoc_touch : forall k a k' l,
        assoc k' (remk k l ++ [(k, a)]) = if eqb k k' then Some a else assoc k' l.
    Proof.
      intros k a k' l. rewrite tl_assoc_app, tl_assoc_remk. simpl.
      destruct (eqb_spec k k') as [E|N].
      - subst. now rewrite tl_keqb_refl.
      - rewrite (tl_keqb_neq k' k) by congruence. now destruct (assoc k' l).
    Qed.
    Lemma tl_assoc_touch_same : forall k a k' l, assoc k l = Some a ->
        assoc k' (remk k l ++ [(k, a)]) = assoc k' l.
    Proof.
      intros k a k' l Ha. rewrite tl_assoc_touch. destruct (eqb_spec k k'); congruence.
    Qed.
    Lemma tl_assoc_snoc_absent : forall k a k' l, assoc k l = None ->
        assoc k' (l ++ [(k, a)]) = if eqb k k' then Some a else assoc k' l.
    Proof.
      intros k a k' l Ha. rewrite <- (tl_remk_absent k l Ha) at 1. apply tl_assoc_touch.
    Qed.
    Lemma tl_nodup_keys_touch : forall k a l, NoDup (keys l) -> NoDup (keys (remk k l ++ [(k, a)])).
    Proof.
      intros k a l Hn. unfold keys. rewrite map_app. simpl. apply tl_NoDup_snoc.
      - now apply tl_nodup_keys_remk.
      - apply tl_assoc_none_keys. rewrite tl_assoc_remk. now rewrite tl_keqb_refl.
    Qed.
    Lemma tl_length_touch : forall k a a0 l, NoDup (keys l) -> assoc k l = Some a0 ->
        length (remk k l ++ [(k, a)]) = length l.
    Proof.
      intros k a a0 l Hn Ha. rewrite app_length. simpl. rewrite (tl_length_remk k a0 l Hn Ha). lia.
    Qed.
    Lemma tl_assoc_filter : forall (p : K * A -> bool) k l, NoDup (keys l) ->
        assoc k (filter p l) =
        match assoc k l with Some a => if p (k, a) then Some a else None | None => None end.
    Proof.
      intros p k l. induction l as [|[k0 a0] l IH]; simpl; intros Hn; [reflexivity|].
      inversion Hn as [|? ? Hk Hl]; subst.
      destruct (eqb_spec k k0) as [E|N].
      - subst. destruct (p (k0, a0)) eqn:Hp; simpl.
        + now rewrite tl_keqb_refl.
        + rewrite IH by assumption. apply tl_assoc_none_keys in Hk. now rewrite Hk.
      - destruct (p (k0, a0)); simpl; [rewrite (tl_keqb_neq _ _ N)|]; now apply IH.
    Qed.
    Lemma tl_filter_remk_false : forall (p : K * A -> bool) k a l, NoDup (keys l) ->
        assoc k l = Some a -> p (k, a) = false -> filter p (remk k l) = filter p l.
    Proof.
      intros p k a l. induction l as [|[k0 a0] l IH]; simpl; intros Hn Ha Hp; [reflexivity|].
      inversion Hn as [|? ? Hk Hl]; subst.
      destruct (eqb_spec k k0) as [E|N].
      - subst. inversion Ha; subst. rewrite Hp. rewrite tl_remk_absent; [reflexivity|].
        now apply tl_assoc_none_keys.
      - simpl. destruct (p (k0, a0)); [f_equal|]; now apply IH.
    Qed.
    Lemma tl_filter_remk_true : forall (p : K * A -> bool) k a l, NoDup (keys l) ->
        assoc k l = Some a -> p (k, a) = true ->
        length (filter p l) = S (length (filter p (remk k l))).
    Proof.
      intros p k a l. induction l as [|[k0 a0] l IH]; simpl; intros Hn Ha Hp; [discriminate|].
      inversion Hn as [|? ? Hk Hl]; subst.
      destruct (eqb_spec k k0) as [E|N].
      - subst. inversion Ha; subst. rewrite Hp. simpl. rewrite tl_remk_absent; [reflexivity|].
        now apply tl_assoc_none_keys.
      - simpl. destruct (p (k0, a0)); simpl; [f_equal|]; now apply IH.
    Qed.
  End AssocFacts.

  (* the deadline order *)
  Implicit Types (o : list (Z * K)).

  Lemma tl_rem2_filter : forall k o, rem2 k o = filter (fun x => negb (eqb k (snd x))) o.
  Proof.
    intros k o. induction o as [|[e k'] o IH]; simpl; [reflexivity|].
    destruct (eqb k k'); simpl; [assumption|now f_equal].
  Qed.
  Lemma tl_in_rem2 : forall k e k' o, In (e, k') (rem2 k o) <-> In (e, k') o /\ k' <> k.
  Proof.
    intros k e k' o. rewrite tl_rem2_filter, filter_In. simpl.
    destruct (eqb_spec k k') as [E|N]; simpl; split; intros [H1 H2]; split; auto; congruence.
  Qed.
  Lemma tl_rem2_absent : forall k o, ~ In k (map snd o) -> rem2 k o = o.
  Proof.
    intros k o Hn. rewrite tl_rem2_filter. apply tl_filter_all. intros [e k'] Hin. simpl.
    rewrite tl_keqb_neq; [reflexivity|]. intros E. subst. apply Hn. rewrite in_map_iff. now exists (e, k').
  Qed.
  Lemma tl_rem2_head : forall k e o, ~ In k (map snd o) -> rem2 k ((e, k) :: o) = o.
  Proof. intros k e o Hn. simpl. rewrite tl_keqb_refl. now apply tl_rem2_absent. Qed.
  Lemma tl_dl_insert_perm : forall e k o, Permutation ((e, k) :: o) (dl_insert e k o).
  Proof.
    intros e k o. induction o as [|[e' k'] o IH]; simpl; [reflexivity|].
    destruct (e' <=? e)%Z; [|reflexivity].
    eapply perm_trans; [apply perm_swap|]. now apply perm_skip.
  Qed.
  Lemma tl_in_dl_insert : forall e k o x, In x (dl_insert e k o) <-> x = (e, k) \/ In x o.
  Proof.
    intros e k o x. split.
    - intros Hin. apply (Permutation_in _ (Permutation_sym (tl_dl_insert_perm e k o))) in Hin.
      destruct Hin as [E|Hin]; [left; congruence|now right].
    - intros Hin. apply (Permutation_in _ (tl_dl_insert_perm e k o)). destruct Hin; [left; congruence|now right].
  Qed.
  Lemma tl_nodup_snd_dl_insert : forall e k o, NoDup (map snd o) -> ~ In k (map snd o) ->
      NoDup (map snd (dl_insert e k o)).
  Proof.
    intros e k o Hn Hk.
    apply (Permutation_NoDup (Permutation_map snd (tl_dl_insert_perm e k o))). simpl. now constructor.
  Qed.
  Lemma tl_sorted_dl_insert : forall e k o, StronglySorted Z.le (map fst o) ->
      StronglySorted Z.le (map fst (dl_insert e k o)).
  Proof.
    intros e k o. induction o as [|[e' k'] o IH]; simpl; intros Hs.
    - constructor; constructor.
    - inversion Hs as [|? ? Hs' Hall]; subst.
      destruct (Z.leb_spec e' e) as [Hle|Hlt]; simpl.
      + constructor; [now apply IH|].
        rewrite Forall_forall in *. intros y Hy. rewrite in_map_iff in Hy.
        destruct Hy as [[e1 k1] [E Hin]]. simpl in E. subst e1.
        apply tl_in_dl_insert in Hin. destruct Hin as [E|Hin].
        * inversion E; subst. assumption.
        * apply Hall. rewrite in_map_iff. now exists (y, k1).
      + constructor; [assumption|].
        constructor; [lia|]. rewrite Forall_forall in *. intros y Hy. apply Hall in Hy. lia.
  Qed.
  Lemma tl_sorted_head : forall e k o e' k', StronglySorted Z.le (map fst ((e, k) :: o)) ->
      In (e', k') ((e, k) :: o) -> (e <= e')%Z.
  Proof.
    intros e k o e' k' Hs Hin. simpl in Hs. inversion Hs as [|? ? Hs' Hall]; subst.
    destruct Hin as [E|Hin]; [inversion E; lia|].
    rewrite Forall_forall in Hall. apply Hall. rewrite in_map_iff. now exists (e', k').
  Qed.
End ListHelpers.

Ltac tl_splits := repeat match goal with |- _ /\ _ => split end.

Section TlFacts.
  Context {K V : Type} `{EqDec K}.

  (* keys distinct; the deadline order files exactly the resident keys, each under its
     stored deadline, and is sorted by deadline *)
  Definition tl_inv (u : bool) (t : Z) (s : tl K V) : Prop :=
    tl_uniform s = u /\ 1 <= tl_cap s /\
    NoDup (keys (tl_lru s)) /\ length (tl_lru s) <= tl_cap s /\
    NoDup (map snd (tl_ord s)) /\
    (forall k e, In (e, k) (tl_ord s) <-> exists v, assoc k (tl_lru s) = Some (v, e)) /\
    StronglySorted Z.le (map fst (tl_ord s)).

  (* u = false: tlru_cache (TTL per insert); u = true: utlru_cache (configured TTL) *)
  Definition tl_model (u : bool) : model K V := {|
    St := tl K V;
    m_step := tl_step;
    m_get := tl_get;
    m_view := tl_view;
    m_keys := fun s => keys (tl_lru s);
    m_size := tl_size;
    m_cap := @tl_cap K V;
    m_bounded := true;
    m_dl := fun s ttl now => Some (now + ms (if tl_uniform s then tl_ttl s else ttl))%Z;
    m_inv := tl_inv u;
    m_rnd_ok := fun _ _ => True;
    m_has_find_use := false;
    m_has_clean := true;
    m_has_clear := u
  |}.

  (* ---- the list part of the invariant ---- *)
  Definition tl_core (l : list (K * (V * Z))) (o : list (Z * K)) : Prop :=
    NoDup (keys l) /\ NoDup (map snd o) /\
    (forall k e, In (e, k) o <-> exists v, assoc k l = Some (v, e)) /\
    StronglySorted Z.le (map fst o).

  Lemma tl_inv_core : forall u t s, tl_inv u t s -> tl_core (tl_lru s) (tl_ord s).
  Proof. intros u t s (_ & _ & H1 & _ & H2 & H3 & H4). unfold tl_core. tl_splits; auto. Qed.

  Lemma tl_inv_with : forall u t t' s l o, tl_inv u t s -> tl_core l o -> length l <= tl_cap s ->
      tl_inv u t' (tl_with s l o).
  Proof.
    intros u t t' s l o (Hu & Hc & _) (H1 & H2 & H3 & H4) Hlen.
    unfold tl_inv. simpl. tl_splits; auto.
  Qed.

  Lemma tl_core_absent_ord : forall l o k, tl_core l o -> assoc k l = None -> ~ In k (map snd o).
  Proof.
    intros l o k (_ & _ & Hiff & _) Ha Hin. rewrite in_map_iff in Hin.
    destruct Hin as [[e k'] [E Hin]]. simpl in E. subst k'.
    apply Hiff in Hin. destruct Hin as [v Hv]. congruence.
  Qed.

  Lemma tl_core_erase : forall l o k, tl_core l o -> tl_core (remk k l) (rem2 k o).
  Proof.
    intros l o k (H1 & H2 & H3 & H4). repeat split.
    - now apply tl_nodup_keys_remk.
    - rewrite tl_rem2_filter. now apply tl_nodup_map_filter.
    - intros Hin. apply tl_in_rem2 in Hin. destruct Hin as [Hin Hne].
      apply H3 in Hin. destruct Hin as [v Hv]. exists v. rewrite tl_assoc_remk.
      rewrite tl_keqb_neq by congruence. assumption.
    - intros [v Hv]. rewrite tl_assoc_remk in Hv. destruct (eqb_spec k k0) as [E|N]; [discriminate|].
      apply tl_in_rem2. split; [|congruence]. apply H3. now exists v.
    - rewrite tl_rem2_filter. now apply tl_sorted_map_filter.
  Qed.

  Lemma tl_core_add : forall l o k v e, tl_core l o -> assoc k l = None ->
      tl_core (l ++ [(k, (v, e))]) (dl_insert e k o).
  Proof.
    intros l o k v e Hc Ha. pose proof (tl_core_absent_ord _ _ _ Hc Ha) as Hko.
    destruct Hc as (H1 & H2 & H3 & H4). repeat split.
    - unfold keys. rewrite map_app. simpl. apply tl_NoDup_snoc; [assumption|].
      now apply tl_assoc_none_keys.
    - now apply tl_nodup_snd_dl_insert.
    - intros Hin. apply tl_in_dl_insert in Hin. rewrite tl_assoc_snoc_absent by assumption.
      destruct Hin as [E|Hin].
      + inversion E; subst. rewrite tl_keqb_refl. now exists v.
      + destruct (eqb_spec k k0) as [E|N].
        * subst. exfalso. apply Hko. rewrite in_map_iff. now exists (e0, k0).
        * now apply H3.
    - intros [v0 Hv]. rewrite tl_assoc_snoc_absent in Hv by assumption. apply tl_in_dl_insert.
      destruct (eqb_spec k k0) as [E|N].
      + left. congruence.
      + right. apply H3. now exists v0.
    - now apply tl_sorted_dl_insert.
  Qed.

  Lemma tl_core_update : forall l o k v e, tl_core l o ->
      tl_core (remk k l ++ [(k, (v, e))]) (dl_insert e k (rem2 k o)).
  Proof.
    intros l o k v e Hc. apply tl_core_add; [now apply tl_core_erase|].
    rewrite tl_assoc_remk. now rewrite tl_keqb_refl.
  Qed.

  Lemma tl_core_touch : forall l o k v e, tl_core l o -> assoc k l = Some (v, e) ->
      tl_core (remk k l ++ [(k, (v, e))]) o.
  Proof.
    intros l o k v e (H1 & H2 & H3 & H4) Ha. repeat split; auto.
    - now apply tl_nodup_keys_touch.
    - intros Hin. rewrite tl_assoc_touch_same by assumption. now apply H3.
    - intros Hv. rewrite tl_assoc_touch_same in Hv by assumption. now apply H3.
  Qed.

  Lemma tl_core_nil : tl_core [] [].
  Proof.
    repeat split; simpl; try constructor; try tauto. intros [v Hv]. discriminate.
  Qed.

  Lemma tl_inv_init : forall u cap ttl t, 1 <= cap -> tl_inv u t (tl_init u cap ttl).
  Proof.
    intros u cap ttl t Hc. destruct tl_core_nil as (H1 & H2 & H3 & H4).
    unfold tl_inv. simpl. tl_splits; auto; try lia.
  Qed.

  Lemma tl_inv_time : forall u t t' s, tl_inv u t s -> tl_inv u t' s.
  Proof. intros u t t' s Hi. exact Hi. Qed.

  Lemma tl_inv_erase_key : forall u t t' s k, tl_inv u t s -> tl_inv u t' (tl_erase_key s k).
  Proof.
    intros u t t' s k Hi. unfold tl_erase_key. eapply tl_inv_with; [eassumption| |].
    - apply tl_core_erase. eapply tl_inv_core; eassumption.
    - destruct Hi as (_ & _ & _ & Hl & _). pose proof (tl_length_remk_le k (tl_lru s)). lia.
  Qed.

  Lemma tl_inv_update : forall u t t' s k v e v0 e0, tl_inv u t s ->
      assoc k (tl_lru s) = Some (v0, e0) -> tl_inv u t' (tl_update s k v e).
  Proof.
    intros u t t' s k v e v0 e0 Hi Ha. unfold tl_update. eapply tl_inv_with; [eassumption| |].
    - apply tl_core_update. eapply tl_inv_core; eassumption.
    - destruct Hi as (_ & _ & Hn & Hl & _). erewrite tl_length_touch; eauto.
  Qed.

  Lemma tl_inv_touch : forall u t t' s k v e, tl_inv u t s ->
      assoc k (tl_lru s) = Some (v, e) ->
      tl_inv u t' (tl_with s (remk k (tl_lru s) ++ [(k, (v, e))]) (tl_ord s)).
  Proof.
    intros u t t' s k v e Hi Ha. eapply tl_inv_with; [eassumption| |].
    - apply tl_core_touch; [eapply tl_inv_core; eassumption|assumption].
    - destruct Hi as (_ & _ & Hn & Hl & _). erewrite tl_length_touch; eauto.
  Qed.

  (* ---- what do_prune does on a non-empty store ---- *)
  Lemma tl_prune_spec : forall u t s now, tl_inv u t s -> tl_lru s <> [] ->
      exists kv vv ev, tl_prune s now = tl_erase_key s kv /\
        assoc kv (tl_lru s) = Some (vv, ev) /\
        ((ev <= now)%Z \/
         ((exists x r, tl_lru s = (kv, x) :: r) /\
          forall k v e, assoc k (tl_lru s) = Some (v, e) -> (now < e)%Z)).
  Proof.
    intros u t s now Hi Hne. apply tl_inv_core in Hi. destruct Hi as (H1 & H2 & H3 & H4).
    unfold tl_prune.
    destruct (tl_lru s) as [|[kl [vl el]] r] eqn:Hl; [congruence|].
    destruct (tl_ord s) as [|[e kh] ro] eqn:Ho.
    - exfalso. apply (H3 kl el). exists vl. simpl. now rewrite tl_keqb_refl.
    - destruct (Z.leb_spec e now) as [Hle|Hlt].
      + destruct (proj1 (H3 kh e) (or_introl eq_refl)) as [v Hv].
        exists kh, v, e. repeat split; auto.
      + exists kl, vl, el. split; [reflexivity|]. split; [simpl; now rewrite tl_keqb_refl|].
        right. split; [now exists (vl, el), r|].
        intros k v e' Ha. assert (Hin : In (e', k) ((e, kh) :: ro)) by (apply H3; now exists v).
        pose proof (tl_sorted_head _ _ _ _ _ H4 Hin). lia.
  Qed.

  (* ---- case analyses of the three state-changing calls ---- *)
  Lemma tl_find_cases : forall (s : tl K V) k pk now s' r, tl_find s k pk now = (s', r) ->
      (assoc k (tl_lru s) = None /\ s' = s /\ r = None) \/
      (exists v e, assoc k (tl_lru s) = Some (v, e) /\ (now < e)%Z /\ r = Some v /\
         s' = if pk then s else tl_with s (remk k (tl_lru s) ++ [(k, (v, e))]) (tl_ord s)) \/
      (exists v e, assoc k (tl_lru s) = Some (v, e) /\ (e <= now)%Z /\ r = None /\
         s' = tl_erase_key s k).
  Proof.
    intros s k pk now s' r Hf. unfold tl_find in Hf.
    destruct (assoc k (tl_lru s)) as [[v e]|] eqn:Ha.
    - destruct (Z.ltb_spec now e) as [Hlt|Hle]; inversion Hf; subst.
      + right; left. exists v, e. auto.
      + right; right. exists v, e. auto.
    - inversion Hf; subst. left. auto.
  Qed.

  Lemma tl_ins_cases : forall u t (s : tl K V) k v a now e s' b, tl_inv u t s ->
      tl_ins s k v a now e = (s', b) ->
      (b = false /\ s' = s /\
        ((assoc k (tl_lru s) = None /\ a_ins a = false) \/
         (exists v0 e0, assoc k (tl_lru s) = Some (v0, e0) /\ a_upd a = false /\
            (a_ins a = false \/ (now < e0)%Z)))) \/
      (b = true /\ s' = tl_update s k v e /\
        exists v0 e0, assoc k (tl_lru s) = Some (v0, e0) /\
          (a_upd a = true \/ (a_ins a = true /\ (e0 <= now)%Z))) \/
      (b = true /\ assoc k (tl_lru s) = None /\ a_ins a = true /\
        length (tl_lru s) < tl_cap s /\
        s' = tl_with s (tl_lru s ++ [(k, (v, e))]) (dl_insert e k (tl_ord s))) \/
      (b = true /\ assoc k (tl_lru s) = None /\ a_ins a = true /\
        length (tl_lru s) = tl_cap s /\
        exists kv vv ev,
          s' = tl_with s (remk kv (tl_lru s) ++ [(k, (v, e))])
                         (dl_insert e k (rem2 kv (tl_ord s))) /\
          assoc kv (tl_lru s) = Some (vv, ev) /\
          ((ev <= now)%Z \/
           ((exists x r, tl_lru s = (kv, x) :: r) /\
            forall k1 v1 e1, assoc k1 (tl_lru s) = Some (v1, e1) -> (now < e1)%Z))).
  Proof.
    intros u t s k v a now e s' b Hi Hins. unfold tl_ins in Hins.
    destruct (assoc k (tl_lru s)) as [[v0 e0]|] eqn:Ha.
    - destruct (a_upd a) eqn:Hu.
      + inversion Hins; subst. right; left. tl_splits; auto. exists v0, e0. auto.
      + destruct (a_ins a) eqn:Hin.
        * destruct (Z.leb_spec e0 now) as [Hle|Hlt]; inversion Hins; subst.
          -- right; left. tl_splits; auto. exists v0, e0. auto.
          -- left. tl_splits; auto. right. exists v0, e0. auto.
        * inversion Hins; subst. left. tl_splits; auto. right. exists v0, e0. auto.
    - destruct (a_ins a) eqn:Hin.
      + destruct (Nat.leb_spec (tl_cap s) (length (tl_lru s))) as [Hfull|Hroom];
          cbv zeta in Hins; inversion Hins; subst; clear Hins.
        * right; right; right.
          assert (Hlen : length (tl_lru s) = tl_cap s).
          { destruct Hi as (_ & _ & _ & Hl & _). lia. }
          assert (Hne : tl_lru s <> []).
          { intros E. rewrite E in Hlen. simpl in Hlen. destruct Hi as (_ & Hc & _). lia. }
          destruct (tl_prune_spec u t s now Hi Hne) as (kv & vv & ev & Hp & Hkv & Hor).
          tl_splits; auto. exists kv, vv, ev. rewrite Hp. tl_splits; auto.
        * right; right; left. tl_splits; auto.
      + inversion Hins; subst. left. tl_splits; auto.
  Qed.

  Lemma tl_assoc_evict_add : forall (l : list (K * (V * Z))) k a kv k', assoc k l = None ->
      assoc k' (remk kv l ++ [(k, a)]) =
      if eqb k k' then Some a else if eqb kv k' then None else assoc k' l.
  Proof.
    intros l k a kv k' Ha. rewrite tl_assoc_snoc_absent.
    - now rewrite tl_assoc_remk.
    - rewrite tl_assoc_remk. now destruct (eqb kv k).
  Qed.

  (* ---- clean_expired_values ---- *)
  Lemma tl_filter_split_len : forall now (l : list (K * (V * Z))),
      length (filter (fun x => (now <? snd (snd x))%Z) l) +
      length (filter (fun x => (snd (snd x) <=? now)%Z) l) = length l.
  Proof.
    intros now l. induction l as [|[k [v e]] l IH]; simpl; [reflexivity|].
    destruct (Z.ltb_spec now e) as [H1|H1]; destruct (Z.leb_spec e now) as [H2|H2]; simpl; lia.
  Qed.

  Lemma tl_clean_loop_spec : forall now o (l : list (K * (V * Z))) n l' o' n', tl_core l o ->
      tl_clean_loop now o l n = (l', o', n') ->
      tl_core l' o' /\ l' = filter (fun x => (now <? snd (snd x))%Z) l /\
      n' = n + length (filter (fun x => (snd (snd x) <=? now)%Z) l) /\
      (forall e k, In (e, k) o' -> (now < e)%Z).
  Proof.
    intros now o. induction o as [|[e k] r IH]; intros l n l' o' n' Hc Hloop; simpl in Hloop.
    - inversion Hloop; subst l' o' n'. destruct l as [|[k [v e]] l].
      + simpl. tl_splits; auto; try lia; try (intros e k []).
      + exfalso. destruct Hc as (_ & _ & H3 & _). apply (H3 k e). exists v. simpl.
        now rewrite tl_keqb_refl.
    - destruct (Z.leb_spec e now) as [Hle|Hlt].
      + assert (Hk : exists v, assoc k l = Some (v, e)).
        { destruct Hc as (_ & _ & H3 & _). apply H3. now left. }
        destruct Hk as [v Hv].
        assert (Hc' : tl_core (remk k l) r).
        { pose proof (tl_core_erase _ _ k Hc) as Hc'. rewrite tl_rem2_head in Hc'; [assumption|].
          destruct Hc as (_ & H2 & _). simpl in H2. now inversion H2. }
        destruct (IH _ _ _ _ _ Hc' Hloop) as (Hc2 & Hl & Hn & Ho).
        destruct Hc as (H1 & _).
        tl_splits; auto.
        * rewrite Hl. apply (tl_filter_remk_false _ k (v, e)); auto. simpl.
          destruct (Z.ltb_spec now e); [lia|reflexivity].
        * rewrite Hn. rewrite (tl_filter_remk_true (fun x => (snd (snd x) <=? now)%Z) k (v, e) l); auto.
          -- lia.
          -- simpl. destruct (Z.leb_spec e now); [reflexivity|lia].
      + inversion Hloop; subst l' o' n'.
        assert (Hall : forall x, In x l -> (now < snd (snd x))%Z).
        { intros [k' [v' e']] Hin. simpl. destruct Hc as (H1 & _ & H3 & H4).
          assert (Hin' : In (e', k') ((e, k) :: r)).
          { apply H3. exists v'. now apply tl_in_assoc_nodup. }
          pose proof (tl_sorted_head _ _ _ _ _ H4 Hin'). lia. }
        tl_splits; auto.
        * symmetry. apply tl_filter_all. intros x Hx. apply Hall in Hx.
          destruct (Z.ltb_spec now (snd (snd x))); [reflexivity|lia].
        * rewrite tl_filter_none; [simpl; lia|]. intros x Hx. apply Hall in Hx.
          destruct (Z.leb_spec (snd (snd x)) now); [lia|reflexivity].
        * intros e' k' Hin. destruct Hc as (_ & _ & _ & H4).
          pose proof (tl_sorted_head _ _ _ _ _ H4 Hin). lia.
  Qed.

  (* ---- the abstract content in terms of the store ---- *)
  Lemma tl_get_none : forall (s : tl K V) k, tl_get s k = None <-> assoc k (tl_lru s) = None.
  Proof.
    intros s k. unfold tl_get. destruct (assoc k (tl_lru s)) as [[v e]|]; split; congruence.
  Qed.
  Lemma tl_get_ext : forall (s s' : tl K V) k, assoc k (tl_lru s') = assoc k (tl_lru s) ->
      tl_get s' k = tl_get s k.
  Proof. intros s s' k E. unfold tl_get. now rewrite E. Qed.
  Lemma tl_live_assoc : forall (s : tl K V) now k,
      livek (tl_get s) now k <-> exists v e, assoc k (tl_lru s) = Some (v, e) /\ (now < e)%Z.
  Proof.
    intros s now k. unfold livek, tl_get. split.
    - intros (v & d & Hg & Ha). destruct (assoc k (tl_lru s)) as [[v0 e0]|]; [|discriminate].
      inversion Hg; subst. simpl in Ha. exists v, e0. split; [reflexivity|].
      destruct (Z.ltb_spec now e0); [assumption|discriminate].
    - intros (v & e & Ha & Hlt). rewrite Ha. exists v, (Some e). split; [reflexivity|].
      simpl. destruct (Z.ltb_spec now e); [reflexivity|lia].
  Qed.
  Lemma tl_dead_assoc : forall (s : tl K V) now k,
      deadk (tl_get s) now k <-> exists v e, assoc k (tl_lru s) = Some (v, e) /\ (e <= now)%Z.
  Proof.
    intros s now k. unfold deadk, tl_get. split.
    - intros (v & d & Hg & Ha). destruct (assoc k (tl_lru s)) as [[v0 e0]|]; [|discriminate].
      inversion Hg; subst. exists v, d. auto.
    - intros (v & e & Ha & Hle). rewrite Ha. exists v, e. auto.
  Qed.
  Lemma tl_no_loss : forall (s s' : tl K V) now k, assoc k (tl_lru s') = assoc k (tl_lru s) ->
      ~ lost_live (tl_get s) (tl_get s') now k.
  Proof.
    intros s s' now k E [Hl Hn]. apply tl_live_assoc in Hl. destruct Hl as (v & e & Ha & _).
    apply tl_get_none in Hn. congruence.
  Qed.

  (* ---------------- C17: clean_expired_values ---------------- *)
  (* removes exactly the dead entries, returns their number, and leaves the live entries
     and their recency order as they were *)
  Theorem tl_clean_exact : forall u t (s : tl K V) now s' n,
      tl_inv u t s -> (t <= now)%Z -> tl_clean s now = (s', n) ->
      tl_inv u now s' /\
      tl_lru s' = filter (fun x => (now <? snd (snd x))%Z) (tl_lru s) /\
      n = length (filter (fun x => (snd (snd x) <=? now)%Z) (tl_lru s)) /\
      tl_size s' + n = tl_size s /\
      (forall k, ~ deadk (tl_get s') now k).
  Proof.
    intros u t s now s' n Hi Ht Hcl. unfold tl_clean in Hcl.
    destruct (tl_clean_loop now (tl_ord s) (tl_lru s) 0) as [[l o] n0] eqn:Hloop.
    inversion Hcl; subst; clear Hcl.
    destruct (tl_clean_loop_spec _ _ _ _ _ _ _ (tl_inv_core _ _ _ Hi) Hloop) as (Hc & Hl & Hn & Ho).
    pose proof (tl_filter_split_len now (tl_lru s)) as Hsplit.
    tl_splits.
    - eapply tl_inv_with; [eassumption|assumption|]. destruct Hi as (_ & _ & _ & Hlen & _).
      rewrite Hl. lia.
    - assumption.
    - simpl in Hn. assumption.
    - unfold tl_size. simpl. rewrite Hl, Hn. simpl. lia.
    - intros k Hd. apply tl_dead_assoc in Hd. destruct Hd as (v & e & Ha & Hle). simpl in Ha.
      destruct Hc as (_ & _ & H3 & _). assert (Hin : In (e, k) o) by (apply H3; now exists v).
      apply Ho in Hin. lia.
  Qed.

  Lemma tl_clean_assoc : forall u t (s : tl K V) now s' n k, tl_inv u t s ->
      tl_clean s now = (s', n) ->
      assoc k (tl_lru s') =
      match assoc k (tl_lru s) with
      | Some (v, e) => if (now <? e)%Z then Some (v, e) else None
      | None => None
      end.
  Proof.
    intros u t s now s' n k Hi Hcl. unfold tl_clean in Hcl.
    destruct (tl_clean_loop now (tl_ord s) (tl_lru s) 0) as [[l o] n0] eqn:Hloop.
    inversion Hcl; subst; clear Hcl.
    destruct (tl_clean_loop_spec _ _ _ _ _ _ _ (tl_inv_core _ _ _ Hi) Hloop) as (Hc & Hl & Hn & Ho).
    simpl. rewrite Hl. rewrite tl_assoc_filter by (destruct Hi as (_ & _ & Hnd & _); exact Hnd).
    destruct (assoc k (tl_lru s)) as [[v e]|]; reflexivity.
  Qed.

  (* ---- every single call preserves the invariant and the capacity ---- *)
  Lemma tl_step_inv : forall u t (s : tl K V) o now rnd s' r, tl_inv u t s -> single o = true ->
      tl_step s o now rnd = (s', r) -> tl_inv u now s' /\ tl_cap s' = tl_cap s.
  Proof.
    intros u t s o now rnd s' r Hi Hs Hst.
    destruct o; simpl in Hs; try discriminate; simpl in Hst;
      try (inversion Hst; subst; split; [exact Hi|reflexivity]).
    - (* Insert *)
      destruct (tl_ins s k v a now (now + ms (if tl_uniform s then tl_ttl s else ttl))) as [s1 b] eqn:Hins.
      inversion Hst; subst; clear Hst.
      destruct (tl_ins_cases _ _ _ _ _ _ _ _ _ _ Hi Hins)
        as [(Hb & Hs' & _)|[(Hb & Hs' & v0 & e0 & Ha & _)|[(Hb & Ha & Hai & Hlen & Hs')|
            (Hb & Ha & Hai & Hlen & kv & vv & ev & Hs' & Hkv & _)]]]; subst.
      + split; [exact Hi|reflexivity].
      + split; [eapply tl_inv_update; eauto|reflexivity].
      + split; [|reflexivity]. eapply tl_inv_with; [eassumption| |].
        * apply tl_core_add; [eapply tl_inv_core; eassumption|assumption].
        * rewrite app_length. simpl. lia.
      + split; [|reflexivity]. eapply tl_inv_with; [eassumption| |].
        * apply tl_core_add; [apply tl_core_erase; eapply tl_inv_core; eassumption|].
          rewrite tl_assoc_remk. now destruct (eqb kv k).
        * rewrite app_length. simpl. destruct Hi as (_ & _ & Hn & _).
          rewrite (tl_length_remk kv _ _ Hn Hkv) in Hlen. lia.
    - (* Erase *)
      unfold tl_erase in Hst. destruct (assoc k (tl_lru s)); inversion Hst; subst.
      + split; [now apply (tl_inv_erase_key u t)|reflexivity].
      + split; [exact Hi|reflexivity].
    - (* Find *)
      destruct (tl_find s k peek now) as [s1 r1] eqn:Hf. inversion Hst; subst; clear Hst.
      destruct (tl_find_cases _ _ _ _ _ _ Hf)
        as [(Ha & Hs' & Hr)|[(v & e & Ha & Hlt & Hr & Hs')|(v & e & Ha & Hle & Hr & Hs')]]; subst.
      + split; [exact Hi|reflexivity].
      + destruct peek; (split; [|reflexivity]); [exact Hi|now apply (tl_inv_touch u t)].
      + split; [now apply (tl_inv_erase_key u t)|reflexivity].
    - (* UpdateTtl *)
      destruct (tl_uniform s) eqn:Hu; inversion Hst; subst; (split; [|reflexivity]); [|exact Hi].
      destruct Hi as (H0 & H1 & H2 & H3 & H4 & H5 & H6). unfold tl_inv. simpl.
      tl_splits; auto. congruence.
    - (* Clear *)
      destruct (tl_uniform s) eqn:Hu; inversion Hst; subst; (split; [|reflexivity]); [|exact Hi].
      destruct Hi as (H0 & H1 & _). rewrite <- H0, Hu. now apply tl_inv_init.
    - (* Clean *)
      destruct (tl_clean s now) as [s1 n] eqn:Hc. inversion Hst; subst; clear Hst.
      split.
      + unfold tl_clean in Hc.
        destruct (tl_clean_loop now (tl_ord s) (tl_lru s) 0) as [[l o] n0] eqn:Hloop.
        inversion Hc; subst; clear Hc.
        destruct (tl_clean_loop_spec _ _ _ _ _ _ _ (tl_inv_core _ _ _ Hi) Hloop) as (Hc & Hl & Hn & Ho).
        pose proof (tl_filter_split_len now (tl_lru s)) as Hsplit.
        eapply tl_inv_with; [eassumption|assumption|]. destruct Hi as (_ & _ & _ & Hlen & _).
        rewrite Hl. lia.
      + unfold tl_clean in Hc.
        destruct (tl_clean_loop now (tl_ord s) (tl_lru s) 0) as [[l o] n0].
        inversion Hc; subst. reflexivity.
  Qed.

  (* ---- structure ---- *)
  Lemma tl_f_keys_get : forall (s : tl K V) k, In k (keys (tl_lru s)) <-> tl_get s k <> None.
  Proof.
    intros s k. unfold tl_get. destruct (assoc k (tl_lru s)) as [[v e]|] eqn:Ha.
    - split; [discriminate|]. intros _. eapply tl_assoc_some_keys; eassumption.
    - apply tl_assoc_none_keys in Ha. split; [tauto|congruence].
  Qed.
  Lemma tl_f_view : forall (s : tl K V) now k, tl_view s now k = view_of (tl_get s) now k.
  Proof.
    intros s now k. unfold tl_view, view_of, tl_get.
    destruct (assoc k (tl_lru s)) as [[v e]|]; reflexivity.
  Qed.

  (* ---- frame: nothing appears ---- *)
  Lemma tl_step_no_appear : forall u t (s : tl K V) o now rnd s' r k', tl_inv u t s ->
      single o = true -> tl_step s o now rnd = (s', r) ->
      touches o k' = false -> tl_get s' k' <> None -> tl_get s' k' = tl_get s k'.
  Proof.
    intros u t s o now rnd s' r k' Hi Hs Hst Ht Hg.
    destruct o; simpl in Hs; try discriminate; simpl in Hst; simpl in Ht;
      try (inversion Hst; subst; reflexivity).
    - (* Insert *)
      destruct (tl_ins s k v a now (now + ms (if tl_uniform s then tl_ttl s else ttl))) as [s1 b] eqn:Hins.
      inversion Hst; subst; clear Hst.
      destruct (tl_ins_cases _ _ _ _ _ _ _ _ _ _ Hi Hins)
        as [(Hb & Hs' & _)|[(Hb & Hs' & v0 & e0 & Ha & _)|[(Hb & Ha & Hai & Hlen & Hs')|
            (Hb & Ha & Hai & Hlen & kv & vv & ev & Hs' & Hkv & _)]]]; subst.
      + reflexivity.
      + apply tl_get_ext. simpl. rewrite tl_assoc_touch. now rewrite Ht.
      + apply tl_get_ext. simpl. rewrite tl_assoc_snoc_absent by assumption. now rewrite Ht.
      + revert Hg. unfold tl_get. simpl. rewrite tl_assoc_evict_add by assumption. rewrite Ht.
        destruct (eqb kv k'); [congruence|reflexivity].
    - (* Erase *)
      unfold tl_erase in Hst. destruct (assoc k (tl_lru s)); inversion Hst; subst; [|reflexivity].
      apply tl_get_ext. simpl. rewrite tl_assoc_remk. now rewrite Ht.
    - (* Find *)
      destruct (tl_find s k peek now) as [s1 r1] eqn:Hf. inversion Hst; subst; clear Hst.
      destruct (tl_find_cases _ _ _ _ _ _ Hf)
        as [(Ha & Hs' & Hr)|[(v & e & Ha & Hlt & Hr & Hs')|(v & e & Ha & Hle & Hr & Hs')]]; subst.
      + reflexivity.
      + destruct peek; [reflexivity|]. apply tl_get_ext. simpl. now apply tl_assoc_touch_same.
      + revert Hg. unfold tl_get. simpl. rewrite tl_assoc_remk.
        destruct (eqb k k'); [congruence|reflexivity].
    - (* UpdateTtl *)
      destruct (tl_uniform s); inversion Hst; subst; reflexivity.
    - (* Clean *)
      destruct (tl_clean s now) as [s1 n] eqn:Hc. inversion Hst; subst; clear Hst.
      revert Hg. unfold tl_get. rewrite (tl_clean_assoc _ _ _ _ _ _ k' Hi Hc).
      destruct (assoc k' (tl_lru s)) as [[v e]|]; [|congruence].
      destruct (now <? e)%Z; [reflexivity|congruence].
  Qed.

  (* ---- a live entry is lost only as the single victim of an evicting insert ---- *)
  Lemma tl_step_loss : forall u t (s : tl K V) o now rnd s' r k', tl_inv u t s ->
      single o = true -> tl_step s o now rnd = (s', r) ->
      touches o k' = false -> lost_live (tl_get s) (tl_get s') now k' ->
      (exists ttl k v a, o = Insert ttl k v a /\ r = RB true /\ tl_get s k = None) /\
      tl_size s = tl_cap s /\ tl_size s' = tl_cap s /\
      (forall k'', ~ deadk (tl_get s) now k'') /\
      (forall k'', touches o k'' = false -> lost_live (tl_get s) (tl_get s') now k'' -> k'' = k').
  Proof.
    intros u t s o now rnd s' r k' Hi Hs Hst Ht Hlost.
    destruct o; simpl in Hs; try discriminate; simpl in Hst; simpl in Ht;
      try (exfalso; inversion Hst; subst; revert Hlost; apply tl_no_loss; reflexivity).
    - (* Insert *)
      destruct (tl_ins s k v a now (now + ms (if tl_uniform s then tl_ttl s else ttl))) as [s1 b] eqn:Hins.
      inversion Hst; subst; clear Hst.
      destruct (tl_ins_cases _ _ _ _ _ _ _ _ _ _ Hi Hins)
        as [(Hb & Hs' & _)|[(Hb & Hs' & v0 & e0 & Ha & _)|[(Hb & Ha & Hai & Hlen & Hs')|
            (Hb & Ha & Hai & Hlen & kv & vv & ev & Hs' & Hkv & Hor)]]]; subst.
      + exfalso. revert Hlost. now apply tl_no_loss.
      + exfalso. revert Hlost. apply tl_no_loss. simpl. rewrite tl_assoc_touch. now rewrite Ht.
      + exfalso. revert Hlost. apply tl_no_loss. simpl. rewrite tl_assoc_snoc_absent by assumption.
        now rewrite Ht.
      + assert (Hvict : forall k'', eqb k k'' = false ->
                  lost_live (tl_get s)
                    (tl_get (tl_with s (remk kv (tl_lru s) ++
                       [(k, (v, (now + ms (if tl_uniform s then tl_ttl s else ttl))%Z))])
                       (dl_insert (now + ms (if tl_uniform s then tl_ttl s else ttl)) k
                                  (rem2 kv (tl_ord s))))) now k'' ->
                  k'' = kv /\ (now < ev)%Z).
        { intros k'' Hk'' [Hl Hn]. apply tl_live_assoc in Hl. destruct Hl as (v1 & e1 & Ha1 & Hlt1).
          apply tl_get_none in Hn. simpl in Hn. rewrite tl_assoc_evict_add in Hn by assumption.
          rewrite Hk'' in Hn. destruct (eqb_spec kv k'') as [E|N]; [|congruence].
          subst k''. split; [reflexivity|]. congruence. }
        destruct (Hvict k' Ht Hlost) as [E Hlt]. subst k'.
        destruct Hor as [Hle|[Hhead Hnodead]]; [lia|].
        tl_splits.
        * exists ttl, k, v, a. tl_splits; auto. now apply tl_get_none.
        * exact Hlen.
        * unfold tl_size. simpl. rewrite app_length. simpl.
          destruct Hi as (_ & _ & Hn & _). rewrite (tl_length_remk kv _ _ Hn Hkv) in Hlen. lia.
        * intros k'' Hd. apply tl_dead_assoc in Hd. destruct Hd as (v1 & e1 & Ha1 & Hle1).
          apply Hnodead in Ha1. lia.
        * intros k'' Ht'' Hl''. simpl in Ht''. now destruct (Hvict k'' Ht'' Hl'').
    - (* Erase *)
      exfalso. revert Hlost. apply tl_no_loss.
      unfold tl_erase in Hst. destruct (assoc k (tl_lru s)); inversion Hst; subst; [|reflexivity].
      simpl. rewrite tl_assoc_remk. now rewrite Ht.
    - (* Find *)
      exfalso.
      destruct (tl_find s k peek now) as [s1 r1] eqn:Hf. inversion Hst; subst; clear Hst.
      destruct (tl_find_cases _ _ _ _ _ _ Hf)
        as [(Ha & Hs' & Hr)|[(v & e & Ha & Hlt & Hr & Hs')|(v & e & Ha & Hle & Hr & Hs')]]; subst.
      + revert Hlost. now apply tl_no_loss.
      + revert Hlost. apply tl_no_loss. destruct peek; [reflexivity|]. simpl.
        now apply tl_assoc_touch_same.
      + destruct Hlost as [Hl Hn]. apply tl_live_assoc in Hl. destruct Hl as (v1 & e1 & Ha1 & Hlt1).
        apply tl_get_none in Hn. simpl in Hn. rewrite tl_assoc_remk in Hn.
        destruct (eqb_spec k k') as [E|N]; [|congruence]. subst k'.
        assert (e1 = e) by congruence. lia.
    - (* UpdateTtl *)
      exfalso. revert Hlost. apply tl_no_loss.
      destruct (tl_uniform s); inversion Hst; subst; reflexivity.
    - (* Clean *)
      exfalso.
      destruct (tl_clean s now) as [s1 n] eqn:Hc. inversion Hst; subst; clear Hst.
      destruct Hlost as [Hl Hn]. apply tl_live_assoc in Hl. destruct Hl as (v1 & e1 & Ha1 & Hlt1).
      apply tl_get_none in Hn. rewrite (tl_clean_assoc _ _ _ _ _ _ k' Hi Hc) in Hn. rewrite Ha1 in Hn.
      destruct (Z.ltb_spec now e1); [discriminate|lia].
  Qed.

  (* ---- lookups ---- *)
  Lemma tl_step_find : forall (s : tl K V) k pk now rnd s' r,
      tl_step s (Find k pk) now rnd = (s', r) ->
      r = RO (tl_view s now k) /\ (tl_view s now k = None -> tl_get s' k = None).
  Proof.
    intros s k pk now rnd s' r Hst. simpl in Hst.
    destruct (tl_find s k pk now) as [s1 r1] eqn:Hf. inversion Hst; subst; clear Hst.
    unfold tl_view.
    destruct (tl_find_cases _ _ _ _ _ _ Hf)
      as [(Ha & Hs' & Hr)|[(v & e & Ha & Hlt & Hr & Hs')|(v & e & Ha & Hle & Hr & Hs')]]; subst;
      rewrite Ha.
    - split; [reflexivity|]. intros _. now apply tl_get_none.
    - destruct (Z.ltb_spec now e); [|lia]. split; [reflexivity|discriminate].
    - destruct (Z.ltb_spec now e); [lia|]. split; [reflexivity|]. intros _.
      apply tl_get_none. simpl. rewrite tl_assoc_remk. now rewrite tl_keqb_refl.
  Qed.

  (* ---- insert ---- *)
  Lemma tl_step_ins : forall u t (s : tl K V) ttl k v a now rnd s' r, tl_inv u t s ->
      tl_step s (Insert ttl k v a) now rnd = (s', r) ->
      exists b, r = RB b /\
        (livek (tl_get s) now k -> b = a_upd a) /\
        (tl_get s k = None -> b = a_ins a) /\
        (deadk (tl_get s) now k -> (a_ins a = true -> b = true) /\
                                   (b = true -> a_ins a = true \/ a_upd a = true)) /\
        (b = true -> tl_get s' k =
                     Some (v, Some (now + ms (if tl_uniform s then tl_ttl s else ttl))%Z)) /\
        (b = false -> keeps (tl_get s) (tl_get s') now k) /\
        (true = true -> b = true -> tl_get s k = None ->
           tl_size s' = if tl_size s <? tl_cap s then S (tl_size s) else tl_cap s).
  Proof.
    intros u t s ttl k v a now rnd s' r Hi Hst. simpl in Hst.
    destruct (tl_ins s k v a now (now + ms (if tl_uniform s then tl_ttl s else ttl))) as [s1 b] eqn:Hins.
    inversion Hst; subst; clear Hst. exists b. split; [reflexivity|].
    destruct (tl_ins_cases _ _ _ _ _ _ _ _ _ _ Hi Hins)
      as [(Hb & Hs' & Hor)|[(Hb & Hs' & v0 & e0 & Ha & Hor)|[(Hb & Ha & Hai & Hlen & Hs')|
          (Hb & Ha & Hai & Hlen & kv & vv & ev & Hs' & Hkv & _)]]]; subst.
    - (* rejected *)
      tl_splits; try discriminate.
      + intros Hl. apply tl_live_assoc in Hl. destruct Hl as (v1 & e1 & Ha1 & Hlt1).
        destruct Hor as [[Ha _]|(v0 & e0 & Ha & Hu & _)]; congruence.
      + intros Hn. apply tl_get_none in Hn.
        destruct Hor as [[Ha Hai]|(v0 & e0 & Ha & _)]; congruence.
      + intros Hd. apply tl_dead_assoc in Hd. destruct Hd as (v1 & e1 & Ha1 & Hle1).
        destruct Hor as [[Ha _]|(v0 & e0 & Ha & Hu & [Hai|Hlt])]; try congruence.
        * split; [congruence|discriminate].
        * assert (e1 = e0) by congruence. lia.
      + intros _. now left.
    - (* update / revive *)
      tl_splits; try discriminate.
      + intros Hl. apply tl_live_assoc in Hl. destruct Hl as (v1 & e1 & Ha1 & Hlt1).
        destruct Hor as [Hu|[Hai Hle]]; [congruence|]. assert (e1 = e0) by congruence. lia.
      + intros Hn. apply tl_get_none in Hn. congruence.
      + intros _. split; [reflexivity|]. intros _. destruct Hor as [Hu|[Hai _]]; auto.
      + intros _. unfold tl_get. simpl. rewrite tl_assoc_touch. now rewrite tl_keqb_refl.
      + intros _ _ Hn. apply tl_get_none in Hn. congruence.
    - (* new key, room *)
      tl_splits; try discriminate.
      + intros Hl. apply tl_live_assoc in Hl. destruct Hl as (v1 & e1 & Ha1 & Hlt1). congruence.
      + intros _. congruence.
      + intros Hd. apply tl_dead_assoc in Hd. destruct Hd as (v1 & e1 & Ha1 & Hle1). congruence.
      + intros _. unfold tl_get. simpl. rewrite tl_assoc_snoc_absent by assumption.
        now rewrite tl_keqb_refl.
      + intros _ _ _. unfold tl_size. simpl. rewrite app_length. simpl.
        destruct (Nat.ltb_spec (length (tl_lru s)) (tl_cap s)); lia.
    - (* new key, eviction *)
      tl_splits; try discriminate.
      + intros Hl. apply tl_live_assoc in Hl. destruct Hl as (v1 & e1 & Ha1 & Hlt1). congruence.
      + intros _. congruence.
      + intros Hd. apply tl_dead_assoc in Hd. destruct Hd as (v1 & e1 & Ha1 & Hle1). congruence.
      + intros _. unfold tl_get. simpl. rewrite tl_assoc_evict_add by assumption.
        now rewrite tl_keqb_refl.
      + intros _ _ _. unfold tl_size. simpl. rewrite app_length. simpl.
        destruct Hi as (_ & _ & Hn & _). pose proof (tl_length_remk kv _ _ Hn Hkv).
        destruct (Nat.ltb_spec (length (tl_lru s)) (tl_cap s)); lia.
  Qed.

  (* ---- erase ---- *)
  Lemma tl_step_erase : forall (s : tl K V) k now rnd s' r,
      tl_step s (Erase k) now rnd = (s', r) ->
      exists b, r = RB b /\ tl_get s' k = None /\
        (livek (tl_get s) now k -> b = true) /\ (b = true -> tl_get s k <> None).
  Proof.
    intros s k now rnd s' r Hst. simpl in Hst. unfold tl_erase in Hst.
    destruct (assoc k (tl_lru s)) as [[v e]|] eqn:Ha; inversion Hst; subst; clear Hst.
    - exists true. tl_splits; auto.
      + apply tl_get_none. simpl. rewrite tl_assoc_remk. now rewrite tl_keqb_refl.
      + intros _ Hn. apply tl_get_none in Hn. congruence.
    - exists false. tl_splits; auto.
      + now apply tl_get_none.
      + intros Hl. apply tl_live_assoc in Hl. destruct Hl as (v1 & e1 & Ha1 & _). congruence.
      + discriminate.
  Qed.

  (* ---- clean ---- *)
  Lemma tl_step_clean : forall u t (s : tl K V) now rnd s' r, tl_inv u t s ->
      tl_step s Clean now rnd = (s', r) ->
      exists n, r = RN n /\ n + tl_size s' = tl_size s /\
        (forall k, deadk (tl_get s) now k -> tl_get s' k = None) /\
        (forall k, ~ deadk (tl_get s) now k -> tl_get s' k = tl_get s k).
  Proof.
    intros u t s now rnd s' r Hi Hst. simpl in Hst.
    destruct (tl_clean s now) as [s1 n] eqn:Hc. inversion Hst; subst; clear Hst.
    exists n. split; [reflexivity|]. tl_splits.
    - pose proof Hc as Hc0. unfold tl_clean in Hc.
      destruct (tl_clean_loop now (tl_ord s) (tl_lru s) 0) as [[l o] n0] eqn:Hloop.
      inversion Hc; subst; clear Hc.
      destruct (tl_clean_loop_spec _ _ _ _ _ _ _ (tl_inv_core _ _ _ Hi) Hloop) as (_ & Hl & Hn & _).
      pose proof (tl_filter_split_len now (tl_lru s)). unfold tl_size. simpl. rewrite Hl, Hn. simpl. lia.
    - intros k Hd. apply tl_dead_assoc in Hd. destruct Hd as (v1 & e1 & Ha1 & Hle1).
      apply tl_get_none. rewrite (tl_clean_assoc _ _ _ _ _ _ k Hi Hc). rewrite Ha1.
      destruct (Z.ltb_spec now e1); [lia|reflexivity].
    - intros k Hnd. apply tl_get_ext. rewrite (tl_clean_assoc _ _ _ _ _ _ k Hi Hc).
      destruct (assoc k (tl_lru s)) as [[v1 e1]|] eqn:Ha1; [|reflexivity].
      destruct (Z.ltb_spec now e1); [reflexivity|]. exfalso. apply Hnd. apply tl_dead_assoc.
      exists v1, e1. auto.
  Qed.

  (* ---- clear ---- *)
  Lemma tl_step_clear : forall u t (s : tl K V) now rnd s' r, tl_inv u t s ->
      tl_step s Clear now rnd = (s', r) ->
      if u then r = RUnit /\ (forall k, tl_get s' k = None) /\ tl_size s' = 0
      else r = RUnsupported /\ s' = s.
  Proof.
    intros u t s now rnd s' r Hi Hst. simpl in Hst. destruct Hi as (Hu & _). rewrite Hu in Hst.
    destruct u; inversion Hst; subst; auto.
  Qed.

  Lemma tl_step_updttl : forall (s : tl K V) d now rnd s' r,
      tl_step s (UpdateTtl d) now rnd = (s', r) -> forall k, tl_get s' k = tl_get s k.
  Proof.
    intros s d now rnd s' r Hst k. simpl in Hst.
    destruct (tl_uniform s); inversion Hst; subst; reflexivity.
  Qed.

  Global Instance tl_ok : forall u, ModelOK (tl_model u).
  Proof.
    intros u. constructor; simpl.
    - intros t s (_ & _ & Hn & _). exact Hn.
    - intros t s k _. apply tl_f_keys_get.
    - intros t s _. unfold tl_size, keys. now rewrite map_length.
    - intros t s (_ & _ & _ & Hl & _) _. exact Hl.
    - intros t t' s Hi _. exact Hi.
    - intros t s now k _ _. apply tl_f_view.
    - intros t s o now rnd s' r Hi _ Hs _ Hst. exact (tl_step_inv u t s o now rnd s' r Hi Hs Hst).
    - intros t s o now rnd s' r k' Hi _ Hs _ Hst. exact (tl_step_no_appear u t s o now rnd s' r k' Hi Hs Hst).
    - intros t s o now rnd s' r k' Hi _ Hs _ Hst Ht Hl. split; [reflexivity|].
      exact (tl_step_loss u t s o now rnd s' r k' Hi Hs Hst Ht Hl).
    - intros t s k pk now rnd s' r _ _ _ Hst. exact (tl_step_find s k pk now rnd s' r Hst).
    - intros t s k pk now rnd s' r _ _ _ Hst. inversion Hst; auto.
    - intros t s ttl k v a now rnd s' r Hi _ _ Hst. exact (tl_step_ins u t s ttl k v a now rnd s' r Hi Hst).
    - intros t s k now rnd s' r _ _ _ Hst. exact (tl_step_erase s k now rnd s' r Hst).
    - intros t s now rnd s' r Hi _ _ Hst. exact (tl_step_clean u t s now rnd s' r Hi Hst).
    - intros t s now rnd s' r Hi _ _ Hst. exact (tl_step_clear u t s now rnd s' r Hi Hst).
    - reflexivity.
    - reflexivity.
    - reflexivity.
    - intros t s now rnd s' r _ _ Hst k. inversion Hst; subst; reflexivity.
    - intros t s d now rnd s' r _ _ Hst. exact (tl_step_updttl s d now rnd s' r Hst).
  Qed.

  (* ---------------- C16: expired-first eviction ---------------- *)
  (* a successful insert of a new key into a full cache holding a dead entry removes a dead
     entry and nothing else: every other entry keeps value and deadline, and the recency
     order of the others is unchanged *)
  Theorem tl_expired_first : forall u t (s : tl K V) ttl k v a now rnd s',
      tl_inv u t s -> (t <= now)%Z -> tl_size s = tl_cap s -> tl_get s k = None ->
      tl_step s (Insert ttl k v a) now rnd = (s', RB true) ->
      (exists kd, deadk (tl_get s) now kd) ->
      exists kv, deadk (tl_get s) now kv /\ kv <> k /\ tl_get s' kv = None /\
        (forall k', k' <> k -> k' <> kv -> tl_get s' k' = tl_get s k') /\
        tl_lru s' = remk kv (tl_lru s) ++ [(k, (v, now + ms (if tl_uniform s then tl_ttl s else ttl))%Z)].
  Proof.
    intros u t s ttl k v a now rnd s' Hi Ht Hfull Hk Hst [kd Hkd]. simpl in Hst.
    destruct (tl_ins s k v a now (now + ms (if tl_uniform s then tl_ttl s else ttl))) as [s1 b] eqn:Hins.
    inversion Hst; subst; clear Hst. apply tl_get_none in Hk. unfold tl_size in Hfull.
    destruct (tl_ins_cases _ _ _ _ _ _ _ _ _ _ Hi Hins)
      as [(Hb & _)|[(Hb & Hs' & v0 & e0 & Ha & Hor)|[(Hb & Ha & Hai & Hlen & Hs')|
          (Hb & Ha & Hai & Hlen & kv & vv & ev & Hs' & Hkv & Hor)]]]; subst;
      [discriminate|congruence|lia|].
    apply tl_dead_assoc in Hkd. destruct Hkd as (vd & ed & Had & Hled).
    destruct Hor as [Hle|[_ Hnodead]]; [|apply Hnodead in Had; lia].
    assert (Hne : kv <> k) by congruence.
    exists kv. tl_splits.
    - apply tl_dead_assoc. exists vv, ev. auto.
    - exact Hne.
    - apply tl_get_none. simpl. rewrite tl_assoc_evict_add by assumption.
      rewrite (tl_keqb_neq k kv) by congruence. now rewrite tl_keqb_refl.
    - intros k' Hk1 Hk2. apply tl_get_ext. simpl. rewrite tl_assoc_evict_add by assumption.
      rewrite (tl_keqb_neq k k') by congruence. now rewrite (tl_keqb_neq kv k') by congruence.
    - reflexivity.
  Qed.

  (* ---------------- C04 / C05: which TTL a write gets, and that update_ttl only
     changes later writes ---------------- *)
  Lemma tl_prune_ttl : forall (s : tl K V) now,
      tl_ttl (tl_prune s now) = tl_ttl s /\ tl_uniform (tl_prune s now) = tl_uniform s.
  Proof.
    intros s now. unfold tl_prune. destruct (tl_lru s) as [|[kl x] r]; auto.
    destruct (tl_ord s) as [|[e k] ro]; auto. destruct (e <=? now)%Z; auto.
  Qed.
  Lemma tl_ins_ttl : forall (s : tl K V) k v a now e s' b,
      tl_ins s k v a now e = (s', b) -> tl_ttl s' = tl_ttl s /\ tl_uniform s' = tl_uniform s.
  Proof.
    intros s k v a now e s' b Hins. unfold tl_ins in Hins.
    destruct (assoc k (tl_lru s)) as [[v0 e0]|].
    - destruct (a_upd a); [inversion Hins; subst; auto|].
      destruct (a_ins a); [|inversion Hins; subst; auto].
      destruct (e0 <=? now)%Z; inversion Hins; subst; auto.
    - destruct (a_ins a); inversion Hins; subst; auto. simpl.
      destruct (tl_cap s <=? length (tl_lru s)); auto. apply tl_prune_ttl.
  Qed.
  Lemma tl_ins_range_ttl : forall l (s : tl K V) a now n s' n',
      tl_ins_range s l a now n = (s', n') -> tl_ttl s' = tl_ttl s /\ tl_uniform s' = tl_uniform s.
  Proof.
    induction l as [|[[ttl k] v] l IH]; intros s a now n s' n' Hr; simpl in Hr.
    - inversion Hr; subst; auto.
    - destruct (tl_ins s k v a now (now + ms (if tl_uniform s then tl_ttl s else ttl))) as [s1 b] eqn:Hins.
      apply tl_ins_ttl in Hins. apply IH in Hr. destruct Hins, Hr. split; congruence.
  Qed.
  Lemma tl_erase_range_ttl : forall l (s : tl K V) n s' n',
      tl_erase_range s l n = (s', n') -> tl_ttl s' = tl_ttl s.
  Proof.
    induction l as [|k l IH]; intros s n s' n' Hr; simpl in Hr.
    - inversion Hr; subst; auto.
    - unfold tl_erase in Hr. destruct (assoc k (tl_lru s)); apply IH in Hr; exact Hr.
  Qed.
  Lemma tl_find_ttl : forall (s : tl K V) k pk now s' r,
      tl_find s k pk now = (s', r) -> tl_ttl s' = tl_ttl s.
  Proof.
    intros s k pk now s' r Hf. unfold tl_find in Hf.
    destruct (assoc k (tl_lru s)) as [[v e]|]; [|inversion Hf; subst; auto].
    destruct (now <? e)%Z; [destruct pk|]; inversion Hf; subst; auto.
  Qed.
  Lemma tl_find_range_ttl : forall l (s : tl K V) pk now s' r,
      tl_find_range s l pk now = (s', r) -> tl_ttl s' = tl_ttl s.
  Proof.
    induction l as [|k l IH]; intros s pk now s' r Hr; simpl in Hr.
    - inversion Hr; subst; auto.
    - destruct (tl_find s k pk now) as [s1 o] eqn:Hf.
      destruct (tl_find_range s1 l pk now) as [s2 os] eqn:Hr2.
      inversion Hr; subst. apply tl_find_ttl in Hf. apply IH in Hr2. congruence.
  Qed.

  Lemma tl_ttl_frame : forall (s : tl K V) o now rnd s' r,
      tl_step s o now rnd = (s', r) -> (forall d, o <> UpdateTtl d) -> o <> Clear -> tl_ttl s' = tl_ttl s.
  Proof.
    intros s o now rnd s' r Hst Hnu Hnc.
    destruct o; simpl in Hst; try (inversion Hst; subst; reflexivity).
    - destruct (tl_ins s k v a now (now + ms (if tl_uniform s then tl_ttl s else ttl))) as [s1 b] eqn:Hins.
      inversion Hst; subst. now apply tl_ins_ttl in Hins.
    - destruct (tl_ins_range s l a now 0) as [s1 n] eqn:Hr. inversion Hst; subst.
      now apply tl_ins_range_ttl in Hr.
    - unfold tl_erase in Hst. destruct (assoc k (tl_lru s)); inversion Hst; subst; reflexivity.
    - destruct (tl_erase_range s l 0) as [s1 n] eqn:Hr. inversion Hst; subst.
      now apply tl_erase_range_ttl in Hr.
    - destruct (tl_find s k peek now) as [s1 r1] eqn:Hf. inversion Hst; subst.
      now apply tl_find_ttl in Hf.
    - destruct (tl_find_range s l peek now) as [s1 r1] eqn:Hf. inversion Hst; subst.
      now apply tl_find_range_ttl in Hf.
    - destruct (tl_find_range s l peek now) as [s1 r1] eqn:Hf. inversion Hst; subst.
      now apply tl_find_range_ttl in Hf.
    - exfalso. now apply (Hnu d).
    - congruence.
    - unfold tl_clean in Hst.
      destruct (tl_clean_loop now (tl_ord s) (tl_lru s) 0) as [[l o] n0].
      inversion Hst; subst. reflexivity.
  Qed.
  Lemma tl_update_ttl_only_ttl : forall (s : tl K V) d now rnd s' r,
      tl_uniform s = true -> tl_step s (UpdateTtl d) now rnd = (s', r) ->
      r = RUnit /\ tl_ttl s' = d /\ tl_lru s' = tl_lru s /\ tl_ord s' = tl_ord s /\ tl_cap s' = tl_cap s.
  Proof.
    intros s d now rnd s' r Hu Hst. simpl in Hst. rewrite Hu in Hst. inversion Hst; subst.
    simpl. auto.
  Qed.

  (* ---------------- C19: calls without effect ---------------- *)
  Lemma tl_peek_live_noop : forall (s : tl K V) k now rnd v,
      tl_view s now k = Some v -> tl_step s (Find k true) now rnd = (s, RO (Some v)).
  Proof.
    intros s k now rnd v Hv. simpl. unfold tl_find. unfold tl_view in Hv.
    destruct (assoc k (tl_lru s)) as [[v0 e0]|]; [|discriminate].
    destruct (now <? e0)%Z; [|discriminate]. congruence.
  Qed.
  Lemma tl_miss_absent_noop : forall (s : tl K V) k pk now rnd,
      tl_get s k = None -> tl_step s (Find k pk) now rnd = (s, RO None).
  Proof.
    intros s k pk now rnd Hg. apply tl_get_none in Hg. simpl. unfold tl_find. now rewrite Hg.
  Qed.
  (* a lookup of an expired resident entry reaps exactly that entry *)
  Lemma tl_miss_dead_reaps : forall (s : tl K V) k pk now rnd v e,
      assoc k (tl_lru s) = Some (v, e) -> (e <= now)%Z ->
      tl_step s (Find k pk) now rnd = (tl_erase_key s k, RO None).
  Proof.
    intros s k pk now rnd v e Ha Hle. simpl. unfold tl_find. rewrite Ha.
    destruct (Z.ltb_spec now e); [lia|reflexivity].
  Qed.
  Lemma tl_rejected_insert_noop : forall (s : tl K V) ttl k v a now rnd s',
      tl_step s (Insert ttl k v a) now rnd = (s', RB false) -> s' = s.
  Proof.
    intros s ttl k v a now rnd s' Hst. simpl in Hst. unfold tl_ins in Hst.
    destruct (assoc k (tl_lru s)) as [[v0 e0]|].
    - destruct (a_upd a); [inversion Hst|].
      destruct (a_ins a); [|inversion Hst; subst; auto].
      destruct (e0 <=? now)%Z; inversion Hst; subst; auto.
    - destruct (a_ins a); inversion Hst; subst; auto.
  Qed.
  Lemma tl_erase_absent_noop : forall (s : tl K V) k now rnd s',
      tl_step s (Erase k) now rnd = (s', RB false) -> s' = s.
  Proof.
    intros s k now rnd s' Hst. simpl in Hst. unfold tl_erase in Hst.
    destruct (assoc k (tl_lru s)); inversion Hst; subst; auto.
  Qed.

  (* ---------------- C20: clear() ---------------- *)
  Lemma tl_clear_is_init : forall (s : tl K V) now rnd,
      tl_uniform s = true -> tl_step s Clear now rnd = (tl_init true (tl_cap s) (tl_ttl s), RUnit).
  Proof. intros s now rnd Hu. simpl. now rewrite Hu. Qed.

  (* ---------------- C10: LRU victim when nothing is dead ---------------- *)
  Section Recency.
    Variable u : bool.
    Let M := tl_model u.

    Lemma tl_last_pos_fold_fst : forall (f : titem M -> bool) tr i p,
        fst (fold_left (fun '(i, p) x => (S i, if f x then S i else p)) tr (i, p)) = i + length tr.
    Proof.
      intros f tr. induction tr as [|x tr IH]; intros i p; simpl; [lia|].
      rewrite IH. lia.
    Qed.
    Lemma tl_last_pos_snoc : forall (f : titem M -> bool) tr x,
        last_pos M f (tr ++ [x]) = if f x then S (length tr) else last_pos M f tr.
    Proof.
      intros f tr x. unfold last_pos. rewrite fold_left_app. simpl.
      pose proof (tl_last_pos_fold_fst f tr 0 0) as Hf.
      destruct (fold_left (fun '(i, p) x => (S i, if f x then S i else p)) tr (0, 0)) as [i p].
      simpl in *. subst i. reflexivity.
    Qed.
    Lemma tl_last_pos_le : forall (f : titem M -> bool) tr, last_pos M f tr <= length tr.
    Proof.
      intros f tr. induction tr as [|x tr IH] using rev_ind; [unfold last_pos; simpl; lia|].
      rewrite tl_last_pos_snoc, app_length. simpl. destruct (f x); lia.
    Qed.

    Definition tl_rec_lt (tr : list (titem M)) (a b : K) : Prop :=
      last_use M a tr < last_use M b tr.

    Lemma tl_rec_weak : forall tr x ks, StronglySorted (tl_rec_lt tr) ks ->
        (forall k, In k ks -> uses M k x = false) -> StronglySorted (tl_rec_lt (tr ++ [x])) ks.
    Proof.
      intros tr x ks Hs Hu. eapply tl_sorted_weaken; [eassumption|].
      intros a b Ha Hb. unfold tl_rec_lt, last_use. rewrite !tl_last_pos_snoc.
      rewrite (Hu a Ha), (Hu b Hb). auto.
    Qed.
    Lemma tl_rec_touch : forall tr x (l : list (K * (V * Z))) k a,
        StronglySorted (tl_rec_lt tr) (keys l) ->
        (forall k', uses M k' x = eqb k k') ->
        StronglySorted (tl_rec_lt (tr ++ [x])) (keys (remk k l ++ [(k, a)])).
    Proof.
      intros tr x l k a Hs Hu. unfold keys. rewrite map_app. simpl.
      assert (Hne : forall k', In k' (map fst (remk k l)) -> k' <> k).
      { intros k' Hin E. subst k'. revert Hin. apply tl_assoc_none_keys. rewrite tl_assoc_remk.
        now rewrite tl_keqb_refl. }
      apply tl_sorted_snoc.
      - apply tl_rec_weak.
        + rewrite tl_remk_filter. now apply tl_sorted_map_filter.
        + intros k' Hin. rewrite Hu. apply tl_keqb_neq. apply Hne in Hin. congruence.
      - intros k' Hin. unfold tl_rec_lt, last_use. rewrite !tl_last_pos_snoc.
        rewrite (Hu k'), (Hu k), tl_keqb_refl. rewrite (tl_keqb_neq k k') by (apply Hne in Hin; congruence).
        pose proof (tl_last_pos_le (uses M k') tr). lia.
    Qed.
    Lemma tl_rec_remk : forall tr x (l : list (K * (V * Z))) k,
        StronglySorted (tl_rec_lt tr) (keys l) ->
        (forall k', uses M k' x = false) ->
        StronglySorted (tl_rec_lt (tr ++ [x])) (keys (remk k l)).
    Proof.
      intros tr x l k Hs Hu. apply tl_rec_weak; [|intros; apply Hu].
      unfold keys. rewrite tl_remk_filter. now apply tl_sorted_map_filter.
    Qed.

    Lemma tl_rec_step : forall t tr (s : tl K V) e s' r, tl_inv u t s ->
        StronglySorted (tl_rec_lt tr) (keys (tl_lru s)) ->
        single (e_op e) = true -> tl_step s (e_op e) (e_now e) (e_rnd e) = (s', r) ->
        StronglySorted (tl_rec_lt (tr ++ [((s : St M), e, r)])) (keys (tl_lru s')).
    Proof.
      intros t tr s [o now rnd] s' r Hi Hrec Hs Hst. simpl in Hs, Hst.
      destruct o; simpl in Hs; try discriminate; simpl in Hst;
        try (inversion Hst; subst; apply tl_rec_weak; [assumption|intros; try destruct peek; reflexivity]).
      - (* Insert *)
        destruct (tl_ins s k v a now (now + ms (if tl_uniform s then tl_ttl s else ttl))) as [s1 b] eqn:Hins.
        inversion Hst; subst; clear Hst.
        destruct (tl_ins_cases _ _ _ _ _ _ _ _ _ _ Hi Hins)
          as [(Hb & Hs' & _)|[(Hb & Hs' & v0 & e0 & Ha & _)|[(Hb & Ha & Hai & Hlen & Hs')|
              (Hb & Ha & Hai & Hlen & kv & vv & ev & Hs' & Hkv & _)]]]; subst.
        + apply tl_rec_weak; [assumption|reflexivity].
        + simpl. apply tl_rec_touch; [assumption|reflexivity].
        + simpl. rewrite <- (tl_remk_absent k (tl_lru s) Ha) at 1.
          apply tl_rec_touch; [assumption|reflexivity].
        + simpl. assert (Ha' : assoc k (remk kv (tl_lru s)) = None).
          { rewrite tl_assoc_remk. now destruct (eqb kv k). }
          rewrite <- (tl_remk_absent k _ Ha') at 1.
          apply tl_rec_touch; [|reflexivity].
          unfold keys. rewrite tl_remk_filter. now apply tl_sorted_map_filter.
      - (* Erase *)
        unfold tl_erase in Hst. destruct (assoc k (tl_lru s)); inversion Hst; subst.
        + simpl. apply tl_rec_remk; [assumption|reflexivity].
        + apply tl_rec_weak; [assumption|reflexivity].
      - (* Find *)
        destruct (tl_find s k peek now) as [s1 r1] eqn:Hf. inversion Hst; subst; clear Hst.
        destruct (tl_find_cases _ _ _ _ _ _ Hf)
          as [(Ha & Hs' & Hr)|[(v & e & Ha & Hlt & Hr & Hs')|(v & e & Ha & Hle & Hr & Hs')]]; subst.
        + apply tl_rec_weak; [assumption|intros; destruct peek; reflexivity].
        + destruct peek.
          * apply tl_rec_weak; [assumption|reflexivity].
          * simpl. apply tl_rec_touch; [assumption|reflexivity].
        + simpl. apply tl_rec_remk; [assumption|intros; destruct peek; reflexivity].
      - (* UpdateTtl *)
        destruct (tl_uniform s); inversion Hst; subst; simpl;
          (apply tl_rec_weak; [assumption|reflexivity]).
      - (* Clear *)
        destruct (tl_uniform s); inversion Hst; subst; simpl.
        + constructor.
        + apply tl_rec_weak; [assumption|reflexivity].
      - (* Clean *)
        destruct (tl_clean s now) as [s1 n] eqn:Hc. inversion Hst; subst; clear Hst.
        unfold tl_clean in Hc.
        destruct (tl_clean_loop now (tl_ord s) (tl_lru s) 0) as [[l o] n0] eqn:Hloop.
        inversion Hc; subst; clear Hc.
        destruct (tl_clean_loop_spec _ _ _ _ _ _ _ (tl_inv_core _ _ _ Hi) Hloop) as (_ & Hl & _ & _).
        simpl. subst l. apply tl_rec_weak; [|reflexivity].
        unfold keys. now apply tl_sorted_map_filter.
    Qed.

    Lemma tl_wruns_inv : forall cap ttl0 tr t (s : tl K V), 1 <= cap ->
        wruns M 0 (tl_init u cap ttl0) tr t s ->
        tl_inv u t s /\ StronglySorted (tl_rec_lt tr) (keys (tl_lru s)).
    Proof.
      intros cap ttl0 tr t s Hcap Hw. induction Hw as [|tr t s e s' r Hw IH Hs Ht _ Hst].
      - split; [now apply tl_inv_init|constructor].
      - destruct IH as [Hi Hrec]. split.
        + exact (proj1 (tl_step_inv u t s (e_op e) (e_now e) (e_rnd e) s' r Hi Hs Hst)).
        + eapply tl_rec_step; eauto.
    Qed.
  End Recency.

  Theorem tl_victim_least_recent : forall u cap ttl0 tr t (s : tl K V) ttl k v a now rnd s',
      1 <= cap -> wruns (tl_model u) 0 (tl_init u cap ttl0) tr t s -> (t <= now)%Z ->
      tl_size s = tl_cap s -> tl_get s k = None ->
      tl_step s (Insert ttl k v a) now rnd = (s', RB true) ->
      (forall kd, ~ deadk (tl_get s) now kd) ->
      exists kv, kv <> k /\ tl_get s kv <> None /\ tl_get s' kv = None /\
        (forall k', k' <> k -> k' <> kv -> tl_get s' k' = tl_get s k') /\
        (forall k', tl_get s k' <> None -> k' <> kv ->
                    last_use (tl_model u) kv tr < last_use (tl_model u) k' tr).
  Proof.
    intros u cap ttl0 tr t s ttl k v a now rnd s' Hcap Hw Ht Hfull Hk Hst Hnd.
    destruct (tl_wruns_inv u cap ttl0 tr t s Hcap Hw) as [Hi Hrec].
    simpl in Hst.
    destruct (tl_ins s k v a now (now + ms (if tl_uniform s then tl_ttl s else ttl))) as [s1 b] eqn:Hins.
    inversion Hst; subst; clear Hst. apply tl_get_none in Hk. unfold tl_size in Hfull.
    destruct (tl_ins_cases _ _ _ _ _ _ _ _ _ _ Hi Hins)
      as [(Hb & _)|[(Hb & Hs' & v0 & e0 & Ha & Hor)|[(Hb & Ha & Hai & Hlen & Hs')|
          (Hb & Ha & Hai & Hlen & kv & vv & ev & Hs' & Hkv & Hor)]]]; subst;
      [discriminate|congruence|lia|].
    destruct Hor as [Hle|[(x & r0 & Hhead) _]].
    { exfalso. apply (Hnd kv). apply tl_dead_assoc. exists vv, ev. auto. }
    assert (Hne : kv <> k) by congruence.
    exists kv. tl_splits.
    - exact Hne.
    - intros Hn. apply tl_get_none in Hn. congruence.
    - apply tl_get_none. simpl. rewrite tl_assoc_evict_add by assumption.
      rewrite (tl_keqb_neq k kv) by congruence. now rewrite tl_keqb_refl.
    - intros k' Hk1 Hk2. apply tl_get_ext. simpl. rewrite tl_assoc_evict_add by assumption.
      rewrite (tl_keqb_neq k k') by congruence. now rewrite (tl_keqb_neq kv k') by congruence.
    - intros k' Hres Hk2. apply tl_f_keys_get in Hres. rewrite Hhead in Hres, Hrec. simpl in Hres, Hrec.
      inversion Hrec as [|? ? _ Hall]; subst. rewrite Forall_forall in Hall.
      destruct Hres as [E|Hin]; [congruence|]. exact (Hall k' Hin).
  Qed.
End TlFacts.
