(* TtlLruFacts.v — proofs about the tlru / utlru model (TtlLru.v): the ModelOK instances
   (Spec.v), LRU order among live entries (C10), expired-first eviction (C16),
   clean_expired_values (C17), TTL bookkeeping (C04/C05), no-effect calls (C19), clear (C20). *)
Require Import Capp.Base Capp.Spec Capp.TtlLru.
From Coq Require Import Sorted.

Section TlFacts.
  Context {K V : Type} `{EqDec K}.

  (* keys distinct; the deadline order files exactly the resident keys, each under its
     stored deadline, and is sorted by deadline *)
  Definition tl_inv (u : bool) (t : Z) (s : tl K V) : Prop :=
    tl_uniform s = u /\ 1 <= tl_cap s /\
    NoDup (keys (tl_lru s)) /\ length (tl_lru s) <= tl_cap s /\
    NoDup (map snd (tl_ord s)) /\
    (forall k e, In (e, k) (tl_ord s) <-> exists v, assoc k (tl_lru s) = Some (v, e)) /\
    StronglySorted Z.le (map fst (tl_ord s)).

  (* u = false: tlru_cache (TTL per insert); u = true: utlru_cache (configured TTL) *)
  Definition tl_model (u : bool) : model K V := {|
    St := tl K V;
    m_step := tl_step;
    m_get := tl_get;
    m_view := tl_view;
    m_keys := fun s => keys (tl_lru s);
    m_size := tl_size;
    m_cap := @tl_cap K V;
    m_bounded := true;
    m_dl := fun s ttl now => Some (now + ms (if tl_uniform s then tl_ttl s else ttl))%Z;
    m_inv := tl_inv u;
    m_rnd_ok := fun _ _ => True;
    m_has_find_use := false;
    m_has_clean := true;
    m_has_clear := u
  |}.

  Lemma tl_inv_init : forall u cap ttl t, 1 <= cap -> tl_inv u t (tl_init u cap ttl).
  Admitted.

  Global Instance tl_ok : forall u, ModelOK (tl_model u).
  Admitted.

  (* ---------------- C16: expired-first eviction ---------------- *)
  (* a successful insert of a new key into a full cache holding a dead entry removes a dead
     entry and nothing else: every other entry keeps value and deadline, and the recency
     order of the others is unchanged *)
  Theorem tl_expired_first : forall u t (s : tl K V) ttl k v a now rnd s',
      tl_inv u t s -> (t <= now)%Z -> tl_size s = tl_cap s -> tl_get s k = None ->
      tl_step s (Insert ttl k v a) now rnd = (s', RB true) ->
      (exists kd, deadk (tl_get s) now kd) ->
      exists kv, deadk (tl_get s) now kv /\ kv <> k /\ tl_get s' kv = None /\
        (forall k', k' <> k -> k' <> kv -> tl_get s' k' = tl_get s k') /\
        tl_lru s' = remk kv (tl_lru s) ++ [(k, (v, now + ms (if tl_uniform s then tl_ttl s else ttl))%Z)].
  Admitted.

  (* ---------------- C10: LRU victim when nothing is dead ---------------- *)
  Theorem tl_victim_least_recent : forall u cap ttl0 tr t (s : tl K V) ttl k v a now rnd s',
      1 <= cap -> wruns (tl_model u) 0 (tl_init u cap ttl0) tr t s -> (t <= now)%Z ->
      tl_size s = tl_cap s -> tl_get s k = None ->
      tl_step s (Insert ttl k v a) now rnd = (s', RB true) ->
      (forall kd, ~ deadk (tl_get s) now kd) ->
      exists kv, kv <> k /\ tl_get s kv <> None /\ tl_get s' kv = None /\
        (forall k', k' <> k -> k' <> kv -> tl_get s' k' = tl_get s k') /\
        (forall k', tl_get s k' <> None -> k' <> kv ->
                    last_use (tl_model u) kv tr < last_use (tl_model u) k' tr).
  Admitted.

  (* ---------------- C17: clean_expired_values ---------------- *)
  (* removes exactly the dead entries, returns their number, and leaves the live entries
     and their recency order as they were *)
  Theorem tl_clean_exact : forall u t (s : tl K V) now s' n,
      tl_inv u t s -> (t <= now)%Z -> tl_clean s now = (s', n) ->
      tl_inv u now s' /\
      tl_lru s' = filter (fun x => (now <? snd (snd x))%Z) (tl_lru s) /\
      n = length (filter (fun x => (snd (snd x) <=? now)%Z) (tl_lru s)) /\
      tl_size s' + n = tl_size s /\
      (forall k, ~ deadk (tl_get s') now k).
  Admitted.

  (* ---------------- C04 / C05: which TTL a write gets, and that update_ttl only
     changes later writes ---------------- *)
  Lemma tl_ttl_frame : forall (s : tl K V) o now rnd s' r,
      tl_step s o now rnd = (s', r) -> (forall d, o <> UpdateTtl d) -> o <> Clear -> tl_ttl s' = tl_ttl s.
  Admitted.
  Lemma tl_update_ttl_only_ttl : forall (s : tl K V) d now rnd s' r,
      tl_uniform s = true -> tl_step s (UpdateTtl d) now rnd = (s', r) ->
      r = RUnit /\ tl_ttl s' = d /\ tl_lru s' = tl_lru s /\ tl_ord s' = tl_ord s /\ tl_cap s' = tl_cap s.
  Admitted.

  (* ---------------- C19: calls without effect ---------------- *)
  Lemma tl_peek_live_noop : forall (s : tl K V) k now rnd v,
      tl_view s now k = Some v -> tl_step s (Find k true) now rnd = (s, RO (Some v)).
  Admitted.
  Lemma tl_miss_absent_noop : forall (s : tl K V) k pk now rnd,
      tl_get s k = None -> tl_step s (Find k pk) now rnd = (s, RO None).
  Admitted.
  (* a lookup of an expired resident entry reaps exactly that entry *)
  Lemma tl_miss_dead_reaps : forall (s : tl K V) k pk now rnd v e,
      assoc k (tl_lru s) = Some (v, e) -> (e <= now)%Z ->
      tl_step s (Find k pk) now rnd = (tl_erase_key s k, RO None).
  Admitted.
  Lemma tl_rejected_insert_noop : forall (s : tl K V) ttl k v a now rnd s',
      tl_step s (Insert ttl k v a) now rnd = (s', RB false) -> s' = s.
  Admitted.
  Lemma tl_erase_absent_noop : forall (s : tl K V) k now rnd s',
      tl_step s (Erase k) now rnd = (s', RB false) -> s' = s.
  Admitted.

  (* ---------------- C20: clear() ---------------- *)
  Lemma tl_clear_is_init : forall (s : tl K V) now rnd,
      tl_uniform s = true -> tl_step s Clear now rnd = (tl_init true (tl_cap s) (tl_ttl s), RUnit).
  Admitted.
End TlFacts.
