(* RrLitFacts.v — C08 for rr_cache: the literal machine (RrLit.v) never reaches UB and
   computes exactly what the mid-level model (Rr.v) computes. *)
Require Import Capp.Base Capp.Spec Capp.Rr Capp.RrFacts Capp.RrLit.
From Coq Require Import Strings.String.
From Coq Require Import Permutation.

Section RrLitFacts.
  Context {K V : Type} `{EqDec K}.

  (* ---------------- the index: assoc / remk / keys ---------------- *)
  Lemma assoc_in_keys : forall (ix : list (K * nat)) k i, assoc k ix = Some i -> In k (keys ix).
  Proof.
    induction ix as [|[k' j] r IH]; intros k i E; simpl in *; [discriminate|].
    destruct (Base.eqb_spec k k') as [Ek|Nk]; [left; auto|right; eauto].
  Qed.

  Lemma assoc_none_notin : forall (ix : list (K * nat)) k, assoc k ix = None -> ~ In k (keys ix).
  Proof.
    induction ix as [|[k' j] r IH]; intros k E; simpl in *; [auto|].
    destruct (Base.eqb_spec k k') as [Ek|Nk]; [discriminate|].
    intros [E'|I]; [congruence|]. eapply IH; eauto.
  Qed.

  Lemma notin_assoc_none : forall (ix : list (K * nat)) k, ~ In k (keys ix) -> assoc k ix = None.
  Proof.
    intros ix k NI. destruct (assoc k ix) as [i|] eqn:A; auto.
    exfalso. apply NI. eapply assoc_in_keys; eauto.
  Qed.

  Lemma assoc_remk : forall (ix : list (K * nat)) k k',
    assoc k' (remk k ix) = if Base.eqb k' k then None else assoc k' ix.
  Proof.
    induction ix as [|[k0 j] r IH]; intros k k'; simpl.
    - destruct (Base.eqb k' k); reflexivity.
    - destruct (Base.eqb_spec k k0) as [E|N].
      + subst k0. rewrite IH. destruct (Base.eqb_spec k' k); reflexivity.
      + simpl. rewrite IH. destruct (Base.eqb_spec k' k0) as [E0|N0]; [|reflexivity].
        subst k0. destruct (Base.eqb_spec k' k); [congruence|reflexivity].
  Qed.

  Lemma in_keys_remk : forall (ix : list (K * nat)) k k',
    In k' (keys (remk k ix)) -> In k' (keys ix) /\ k' <> k.
  Proof.
    induction ix as [|[k0 j] r IH]; intros k k' I; simpl in *; [contradiction|].
    destruct (Base.eqb_spec k k0) as [E|N].
    - destruct (IH _ _ I). auto.
    - simpl in I. destruct I as [E|I]; [subst; split; auto|]. destruct (IH _ _ I); auto.
  Qed.

  Lemma nodup_keys_remk : forall (ix : list (K * nat)) k, NoDup (keys ix) -> NoDup (keys (remk k ix)).
  Proof.
    induction ix as [|[k0 j] r IH]; intros k ND; simpl in *; [constructor|].
    inversion ND as [|x l NI ND']; subst.
    destruct (Base.eqb_spec k k0) as [E|N]; [auto|]. simpl. constructor; auto.
    intros I. apply in_keys_remk in I. tauto.
  Qed.

  Lemma remk_notin : forall (ix : list (K * nat)) k, ~ In k (keys ix) -> remk k ix = ix.
  Proof.
    induction ix as [|[k0 j] r IH]; intros k NI; simpl in *; [reflexivity|].
    destruct (Base.eqb_spec k k0) as [E|N]; [exfalso; apply NI; left; auto|].
    f_equal. apply IH. intros I. apply NI. right. exact I.
  Qed.

  Lemma length_remk : forall (ix : list (K * nat)) k i, NoDup (keys ix) -> assoc k ix = Some i ->
    S (List.length (remk k ix)) = List.length ix.
  Proof.
    induction ix as [|[k0 j] r IH]; intros k i ND A; simpl in *; [discriminate|].
    inversion ND as [|x l NI ND']; subst.
    destruct (Base.eqb_spec k k0) as [E|N].
    - subst k0. rewrite remk_notin; auto.
    - simpl. f_equal. eapply IH; eauto.
  Qed.

  Lemma assoc_app_last : forall (ix : list (K * nat)) k i k',
    assoc k' (ix ++ [(k, i)]) =
    match assoc k' ix with Some j => Some j | None => if Base.eqb k' k then Some i else None end.
  Proof.
    induction ix as [|[k0 j] r IH]; intros k i k'; simpl.
    - reflexivity.
    - destruct (Base.eqb k' k0); [reflexivity|apply IH].
  Qed.

  Lemma keys_app_last : forall (ix : list (K * nat)) k i, keys (ix ++ [(k, i)]) = keys ix ++ [k].
  Proof. intros. unfold keys. rewrite map_app. reflexivity. Qed.

  Lemma nodup_snoc : forall (l : list K) k, NoDup l -> ~ In k l -> NoDup (l ++ [k]).
  Proof.
    intros l k ND NI. eapply Permutation_NoDup; [apply Permutation_cons_append|].
    constructor; auto.
  Qed.

  (* ---------------- vectors: nth_error / upd_nth / index_of ---------------- *)
  Lemma nth_error_upd_nth_eq : forall A (l : list A) i x, i < List.length l ->
    nth_error (upd_nth i x l) i = Some x.
  Proof.
    induction l as [|y r IH]; intros [|j] x Hi; simpl in *; try lia; auto. apply IH; lia.
  Qed.

  Lemma nth_error_upd_nth_neq : forall A (l : list A) i j x, j <> i ->
    nth_error (upd_nth i x l) j = nth_error l j.
  Proof.
    induction l as [|y r IH]; intros [|i] [|j] x Hne; simpl; try congruence; auto.
  Qed.

  Lemma nth_error_lt_some : forall A (l : list A) i, i < List.length l -> exists a, nth_error l i = Some a.
  Proof.
    intros A l i Hi. destruct (nth_error l i) as [a|] eqn:E; [eauto|].
    apply nth_error_None in E. lia.
  Qed.

  Lemma nth_error_nth_nat : forall (l : list nat) i, i < List.length l -> nth_error l i = Some (nth i l 0).
  Proof.
    induction l as [|y r IH]; intros [|i] Hi; simpl in *; try lia; auto. apply IH; lia.
  Qed.

  Lemma index_of_unique : forall (l : list nat) q i, NoDup l -> q < List.length l ->
    nth q l 0 = i -> index_of i l = q.
  Proof.
    intros l q i ND Hq E.
    assert (Hin : In i l) by (rewrite <- E; apply nth_In; exact Hq).
    destruct (index_of_spec l i Hin) as [L N].
    apply (proj1 (NoDup_nth l 0) ND); auto. congruence.
  Qed.

  Lemma vget_ok : forall A what (l : list A) i a, nth_error l i = Some a -> vget what l i = Ok a.
  Proof. intros A what l i a E. unfold vget. rewrite E. reflexivity. Qed.

  Lemma vset_ok : forall A what (l : list A) i a, i < List.length l -> vset what l i a = Ok (upd_nth i a l).
  Proof.
    intros A what l i a Hi. unfold vset.
    destruct (Nat.ltb_spec i (List.length l)); [reflexivity|lia].
  Qed.

  (* ---------------- rep: the initial states ---------------- *)
  Theorem rep_init : forall cap, 1 <= cap -> rep (rrl_init (K := K) (V := V) cap) (rr_init cap).
  Proof.
    intros cap Hc. unfold rep, rrl_init, rr_init; simpl.
    rewrite repeat_length.
    split; [reflexivity|]. split; [reflexivity|]. split; [reflexivity|]. split; [reflexivity|].
    split; [constructor|]. split; [reflexivity|]. split.
    - intros k i. split; [discriminate|]. intros (v & E & _). rewrite nth_repeat in E. discriminate.
    - intros k i E. discriminate.
  Qed.

  (* ---------------- rep: what the index says about the mid-level lookup ---------------- *)
  Lemma rep_assoc_some : forall t (l : rrl K V) (s : rr K V) k i,
    rr_inv t s -> rep l s -> assoc k (l_index l) = Some i ->
    exists v e, nth i (rr_slots s) None = Some (k, v) /\ i < rr_cap s /\
                rr_lookup s k = Some (i, v) /\
                nth_error (l_elems l) i = Some e /\ e_keyed e = Some k /\
                e_pos e = index_of i (rr_open s) /\ e_val e = Some v.
  Proof.
    intros t l s k i I R A.
    destruct R as (Rc & Rle & Ro & Re & Rnd & Rli & Riff & Rel).
    destruct (Rel k i A) as (e & Ee & Ek & Ep & v & Ev & Es).
    destruct (proj1 (Riff k i) A) as (v' & Es' & Hi).
    exists v, e.
    split; [exact Es|]. split; [exact Hi|]. split.
    - destruct I as (_ & _ & _ & _ & _ & _ & _ & Hnd & _).
      unfold rr_lookup. rewrite (lookup_from_nth _ 0 i k v Hnd Es). reflexivity.
    - auto.
  Qed.

  Lemma rep_assoc_none : forall t (l : rrl K V) (s : rr K V) k,
    rr_inv t s -> rep l s -> assoc k (l_index l) = None -> rr_lookup s k = None.
  Proof.
    intros t l s k I R A. unfold rr_lookup. apply lookup_from_none.
    intros I'. apply in_slot_keys in I'. destruct I' as (i & v & E).
    assert (Hi : i < rr_cap s).
    { destruct I as (_ & Hls & _). rewrite <- Hls. eapply nth_some_lt; eauto. }
    destruct R as (Rc & Rle & Ro & Re & Rnd & Rli & Riff & Rel).
    assert (A' : assoc k (l_index l) = Some i) by (apply Riff; eauto).
    congruence.
  Qed.

  (* ---------------- do_find ---------------- *)
  Lemma l_find_refines : forall t (l : rrl K V) (s : rr K V) k,
    rr_inv t s -> rep l s -> l_find l k = Ok (rr_find s k).
  Proof.
    intros t l s k I R. unfold l_find, rr_find.
    destruct (assoc k (l_index l)) as [i|] eqn:A.
    - destruct (rep_assoc_some t l s k i I R A) as (v & e & Es & Hi & L & Ee & Ek & Ep & Ev).
      rewrite L, (vget_ok _ _ _ _ _ Ee). simpl. rewrite Ev. reflexivity.
    - rewrite (rep_assoc_none t l s k I R A). reflexivity.
  Qed.

  Lemma l_find_range_refines : forall t (l : rrl K V) (s : rr K V) ks,
    rr_inv t s -> rep l s -> l_find_range l ks = Ok (rr_find_range s ks).
  Proof.
    intros t l s ks I R. induction ks as [|k r IH]; simpl; [reflexivity|].
    rewrite (l_find_refines t l s k I R). simpl. rewrite IH. reflexivity.
  Qed.

  (* ---------------- do_update ---------------- *)
  Lemma l_update_refines : forall t (l : rrl K V) (s : rr K V) i k v v0,
    rr_inv t s -> rep l s -> nth i (rr_slots s) None = Some (k, v0) ->
    exists l', l_do_update l i v = Ok l' /\
      rep l' {| rr_cap := rr_cap s; rr_slots := upd_nth i (Some (k, v)) (rr_slots s);
                rr_open := rr_open s; rr_end := rr_end s |}.
  Proof.
    intros t l s i k v v0 I R Hnth.
    assert (Hi : i < rr_cap s).
    { destruct I as (_ & Hls & _). rewrite <- Hls. eapply nth_some_lt; eauto. }
    destruct I as (Hc1 & Hls & Hlo & Hob & Hoi & Hec & Hiff & Hnd & Hlen).
    destruct R as (Rc & Rle & Ro & Re & Rnd & Rli & Riff & Rel).
    assert (A : assoc k (l_index l) = Some i) by (apply Riff; eauto).
    destruct (Rel k i A) as (e & Ee & Ek & Ep & v1 & Ev & Es).
    unfold l_do_update. rewrite (vget_ok _ _ _ _ _ Ee). cbn [bind].
    rewrite vset_ok by lia. cbn [bind].
    eexists. split; [reflexivity|].
    unfold rep, with_elems; simpl. rewrite upd_nth_length.
    split; [exact Rc|]. split; [exact Rle|]. split; [exact Ro|]. split; [exact Re|].
    split; [exact Rnd|]. split; [exact Rli|]. split.
    - intros k' j. destruct (Nat.eq_dec j i) as [Ej|Nj].
      + subst j. rewrite nth_upd_nth_eq by lia. split.
        * intros A'. apply Riff in A'. destruct A' as (v' & E' & _).
          rewrite Hnth in E'. inversion E'; subst. eauto.
        * intros (v' & E' & _). inversion E'; subst. exact A.
      + rewrite nth_upd_nth_neq by auto. apply Riff.
    - intros k' j A'. destruct (Nat.eq_dec j i) as [Ej|Nj].
      + subst j. assert (k' = k).
        { apply Riff in A'. destruct A' as (v' & E' & _). rewrite Hnth in E'. inversion E'; auto. }
        subst k'. rewrite nth_error_upd_nth_eq by lia. eexists. split; [reflexivity|]. simpl.
        split; [exact Ek|]. split; [exact Ep|]. exists v. split; [reflexivity|].
        apply nth_upd_nth_eq. lia.
      + rewrite nth_error_upd_nth_neq by auto. rewrite nth_upd_nth_neq by auto. apply Rel. exact A'.
  Qed.

  (* ---------------- do_erase ---------------- *)
  Lemma rep_after_erase : forall t (l : rrl K V) (s : rr K V) idx k v es op,
    rr_inv t s -> rep l s -> nth idx (rr_slots s) None = Some (k, v) ->
    op = rr_open (rr_erase_slot s idx) ->
    List.length es = rr_cap s ->
    (forall k' j, k' <> k -> assoc k' (l_index l) = Some j ->
        exists e, nth_error es j = Some e /\ e_keyed e = Some k' /\ e_pos e = index_of j op /\
                  exists v', e_val e = Some v' /\ nth j (rr_slots s) None = Some (k', v')) ->
    rep {| l_cap := l_cap l; l_elems := es; l_index := remk k (l_index l);
           l_open := op; l_end := rr_end s - 1 |}
        (rr_erase_slot s idx).
  Proof.
    intros t l s idx k v es op I R Hnth Eop Hes HE.
    assert (Hi : idx < rr_cap s).
    { destruct I as (_ & Hls & _). rewrite <- Hls. eapply nth_some_lt; eauto. }
    destruct I as (Hc1 & Hls & Hlo & Hob & Hoi & Hec & Hiff & Hnd & Hlen).
    destruct R as (Rc & Rle & Ro & Re & Rnd & Rli & Riff & Rel).
    assert (A : assoc k (l_index l) = Some idx) by (apply Riff; eauto).
    unfold rep. cbn [l_cap l_elems l_index l_open l_end].
    change (rr_cap (rr_erase_slot s idx)) with (rr_cap s).
    change (rr_end (rr_erase_slot s idx)) with (rr_end s - 1).
    change (rr_slots (rr_erase_slot s idx)) with (upd_nth idx (@None (K * V)) (rr_slots s)).
    split; [exact Rc|]. split; [exact Hes|]. split; [exact Eop|]. split; [reflexivity|].
    split; [apply nodup_keys_remk; exact Rnd|]. split.
    { pose proof (length_remk _ _ _ Rnd A) as L. lia. }
    split.
    - intros k' j. rewrite assoc_remk. destruct (Base.eqb_spec k' k) as [Ek|Nk].
      + subst k'. split; [discriminate|]. intros (v' & E' & Hj). exfalso.
        destruct (Nat.eq_dec j idx) as [Ej|Nj].
        * subst j. rewrite nth_upd_nth_eq in E' by lia. discriminate.
        * rewrite nth_upd_nth_neq in E' by auto. apply Nj.
          eapply slots_key_inj; eauto.
      + destruct (Nat.eq_dec j idx) as [Ej|Nj].
        * subst j. rewrite nth_upd_nth_eq by lia. split.
          -- intros A'. apply Riff in A'. destruct A' as (v' & E' & _). rewrite Hnth in E'.
             inversion E'; congruence.
          -- intros (v' & E' & _). discriminate.
        * rewrite nth_upd_nth_neq by auto. apply Riff.
    - intros k' j. rewrite assoc_remk. destruct (Base.eqb_spec k' k) as [Ek|Nk]; [discriminate|].
      intros A'. destruct (HE k' j Nk A') as (e & Ee & Ek & Ep & v' & Ev & Es).
      exists e. split; [exact Ee|]. split; [exact Ek|]. split; [rewrite <- Eop; exact Ep|].
      exists v'. split; [exact Ev|].
      assert (Nj : j <> idx).
      { intros Ej. subst j. rewrite Hnth in Es. inversion Es; congruence. }
      rewrite nth_upd_nth_neq by auto. exact Es.
  Qed.

  Lemma l_do_erase_refines : forall t (l : rrl K V) (s : rr K V) idx k v,
    rr_inv t s -> rep l s -> nth idx (rr_slots s) None = Some (k, v) ->
    exists l', l_do_erase true l idx = Ok l' /\ rep l' (rr_erase_slot s idx) /\
               l_index l' = remk k (l_index l).
  Proof.
    intros t l s idx k v I R Hnth.
    assert (I0 := I). assert (R0 := R).
    destruct (erase_slot_spec t t s idx k v I Hnth) as (I' & _).
    destruct (rr_inv_perm t _ I') as (_ & ND' & _).
    assert (Hi : idx < rr_cap s).
    { destruct I as (_ & Hls & _). rewrite <- Hls. eapply nth_some_lt; eauto. }
    destruct (rr_inv_in_open t s idx I Hi) as [Hp Hpn].
    destruct I as (Hc1 & Hls & Hlo & Hob & Hoi & Hec & Hiff & Hnd & Hlen).
    destruct R as (Rc & Rle & Ro & Re & Rnd & Rli & Riff & Rel).
    assert (A : assoc k (l_index l) = Some idx) by (apply Riff; eauto).
    destruct (Rel k idx A) as (e & Ee & Ek & Ep & v1 & Ev & Es).
    set (p := index_of idx (rr_open s)) in *.
    assert (Hpe : p < rr_end s).
    { apply Hiff; auto. rewrite Hpn, Hnth. discriminate. }
    assert (IE : index_erase (l_index l) (e_keyed e) = Ok (remk k (l_index l))).
    { unfold index_erase. rewrite Ek, A. reflexivity. }
    unfold l_do_erase. rewrite (vget_ok _ _ _ _ _ Ee). cbn [bind].
    destruct (Nat.eqb_spec (l_end l) 0) as [Ez|NZ]; [lia|].
    cbv zeta. rewrite Ep, Re, Ro.
    destruct (Nat.eqb_spec p (rr_end s - 1)) as [El|Nl].
    - cbn [bind]. rewrite IE. cbn [bind]. eexists. split; [reflexivity|]. split; [|reflexivity].
      assert (Eop : rr_open s = rr_open (rr_erase_slot s idx)).
      { unfold rr_erase_slot; simpl. fold p. rewrite (proj2 (Nat.eqb_eq _ _) El). reflexivity. }
      apply (rep_after_erase t l s idx k v); auto.
    - set (last := rr_end s - 1) in *.
      assert (Hlast : last < rr_cap s) by (unfold last; lia).
      set (b := nth last (rr_open s) 0).
      assert (Hb : b < rr_cap s) by (apply Hob; exact Hlast).
      rewrite (vget_ok _ _ _ p idx) by (rewrite nth_error_nth_nat by lia; f_equal; exact Hpn).
      cbn [bind].
      rewrite (vget_ok _ _ _ last b) by (apply nth_error_nth_nat; lia).
      cbn [bind].
      destruct (nth_error_lt_some _ (l_elems l) b) as (mv & Emv); [lia|].
      rewrite (vget_ok _ _ _ _ _ Emv). cbn [bind].
      rewrite vset_ok by lia. cbn [bind]. rewrite IE. cbn [bind].
      eexists. split; [reflexivity|]. split; [|reflexivity].
      assert (Eop : upd_nth last idx (upd_nth p b (rr_open s)) = rr_open (rr_erase_slot s idx)).
      { unfold rr_erase_slot; simpl. fold p. fold last.
        rewrite (proj2 (Nat.eqb_neq _ _) Nl). unfold swap_nth. fold b. rewrite Hpn. reflexivity. }
      assert (Hnew : forall q, nth q (rr_open (rr_erase_slot s idx)) 0 =
                if q =? last then idx else if q =? p then b else nth q (rr_open s) 0).
      { intros q. rewrite <- Eop. change (upd_nth last idx (upd_nth p b (rr_open s)))
          with (upd_nth last idx (upd_nth p b (rr_open s))).
        destruct (Nat.eqb_spec q last) as [E1|N1].
        - subst q. apply nth_upd_nth_eq. rewrite upd_nth_length. lia.
        - rewrite nth_upd_nth_neq by auto. destruct (Nat.eqb_spec q p) as [E2|N2].
          + subst q. apply nth_upd_nth_eq. lia.
          + apply nth_upd_nth_neq. auto. }
      assert (Hl' : List.length (rr_open (rr_erase_slot s idx)) = rr_cap s).
      { rewrite <- Eop, !upd_nth_length. exact Hlo. }
      apply (rep_after_erase t l s idx k v); auto.
      + rewrite upd_nth_length. exact Rle.
      + intros k' j Nk A'. destruct (Rel k' j A') as (e' & Ee' & Ek' & Ep' & v' & Ev' & Es').
        assert (Hj : j < rr_cap s).
        { rewrite <- Hls. eapply nth_some_lt; eauto. }
        assert (Nj : j <> idx).
        { intros Ej. subst j. rewrite Hnth in Es'. inversion Es'; congruence. }
        rewrite Eop.
        destruct (Nat.eq_dec j b) as [Ejb|Njb].
        * subst j. rewrite nth_error_upd_nth_eq by lia.
          rewrite Emv in Ee'. inversion Ee'; subst e'.
          eexists. split; [reflexivity|]. cbn [e_keyed e_pos e_val]. split; [exact Ek'|]. split; [|eauto].
          symmetry. apply index_of_unique; [exact ND'|lia|].
          rewrite Hnew. rewrite (proj2 (Nat.eqb_neq _ _) Nl), Nat.eqb_refl. reflexivity.
        * rewrite nth_error_upd_nth_neq by auto.
          exists e'. split; [exact Ee'|]. split; [exact Ek'|]. split; [|eauto].
          rewrite Ep'. symmetry.
          destruct (rr_inv_in_open t s j I0 Hj) as [Hq Hqn].
          apply index_of_unique; [exact ND'|lia|].
          rewrite Hnew.
          destruct (Nat.eqb_spec (index_of j (rr_open s)) last) as [E1|N1].
          { exfalso. apply Njb. unfold b. rewrite <- E1. symmetry. exact Hqn. }
          destruct (Nat.eqb_spec (index_of j (rr_open s)) p) as [E2|N2].
          { exfalso. apply Nj. rewrite <- Hqn, E2. exact Hpn. }
          exact Hqn.
  Qed.

  (* ---------------- do_insert on a cache that is not full ---------------- *)
  Lemma l_claim_refines : forall t (l : rrl K V) (s : rr K V) k v rnd,
    rr_inv t s -> rep l s -> rr_end s < rr_cap s -> assoc k (l_index l) = None ->
    exists l', l_do_insert true l k v rnd = Ok (l', rnd) /\
      rep l' {| rr_cap := rr_cap s;
                rr_slots := upd_nth (nth (rr_end s) (rr_open s) 0) (Some (k, v)) (rr_slots s);
                rr_open := rr_open s; rr_end := S (rr_end s) |}.
  Proof.
    intros t l s k v rnd I R Hlt A.
    destruct (rr_inv_perm t _ I) as (_ & ND & _).
    destruct I as (Hc1 & Hls & Hlo & Hob & Hoi & Hec & Hiff & Hnd & Hlen).
    destruct R as (Rc & Rle & Ro & Re & Rnd & Rli & Riff & Rel).
    set (idx := nth (rr_end s) (rr_open s) 0).
    assert (Hidx : idx < rr_cap s) by (apply Hob; lia).
    assert (Hfree : nth idx (rr_slots s) None = None).
    { destruct (nth idx (rr_slots s) None) eqn:E; auto.
      exfalso. assert (L : rr_end s < rr_end s); [|lia]. apply Hiff; [lia|].
      fold idx. congruence. }
    unfold l_do_insert.
    assert (C1 : (List.length (l_elems l) <=? l_end l) = false) by (apply Nat.leb_gt; lia).
    rewrite C1. cbn [bind].
    rewrite (vget_ok _ _ _ (l_end l) idx)
      by (rewrite Ro, Re; apply nth_error_nth_nat; lia).
    cbn [bind]. unfold index_emplace.
    assert (C2 : (List.length (l_index l) <? l_cap l) = true) by (apply Nat.ltb_lt; lia).
    rewrite C2. cbn [bind]. rewrite vset_ok by lia. cbn [bind].
    eexists. split; [reflexivity|].
    unfold rep. cbn [l_cap l_elems l_index l_open l_end rr_cap rr_slots rr_open rr_end].
    rewrite upd_nth_length.
    split; [exact Rc|]. split; [exact Rle|]. split; [exact Ro|]. split; [congruence|].
    split. { rewrite keys_app_last. apply nodup_snoc; [exact Rnd|]. apply assoc_none_notin. exact A. }
    split. { rewrite app_length. simpl. lia. }
    split.
    - intros k' j. rewrite assoc_app_last.
      destruct (assoc k' (l_index l)) as [j0|] eqn:A'.
      + assert (A0 := A'). apply Riff in A0. destruct A0 as (v0 & E0 & Hj0).
        assert (Nj0 : j0 <> idx) by (intros E; subst j0; congruence).
        split.
        * intros E; inversion E; subst j. exists v0. rewrite nth_upd_nth_neq by auto. auto.
        * intros (v' & E' & Hj). destruct (Nat.eq_dec j idx) as [Ej|Nj].
          -- subst j. rewrite nth_upd_nth_eq in E' by lia. inversion E'; subst. congruence.
          -- rewrite nth_upd_nth_neq in E' by auto.
             assert (A1 : assoc k' (l_index l) = Some j) by (apply Riff; eauto). congruence.
      + destruct (Base.eqb_spec k' k) as [Ek|Nk].
        * subst k'. split.
          -- intros E; inversion E; subst j. exists v. rewrite nth_upd_nth_eq by lia. auto.
          -- intros (v' & E' & Hj). destruct (Nat.eq_dec j idx) as [Ej|Nj]; [congruence|].
             rewrite nth_upd_nth_neq in E' by auto.
             assert (A1 : assoc k (l_index l) = Some j) by (apply Riff; eauto). congruence.
        * split; [discriminate|].
          intros (v' & E' & Hj). exfalso. destruct (Nat.eq_dec j idx) as [Ej|Nj].
          -- subst j. rewrite nth_upd_nth_eq in E' by lia. inversion E'; congruence.
          -- rewrite nth_upd_nth_neq in E' by auto.
             assert (A1 : assoc k' (l_index l) = Some j) by (apply Riff; eauto). congruence.
    - intros k' j. rewrite assoc_app_last.
      destruct (assoc k' (l_index l)) as [j0|] eqn:A'.
      + intros E; inversion E; subst j0.
        destruct (Rel k' j A') as (e' & Ee' & Ek' & Ep' & v' & Ev' & Es').
        assert (Nj : j <> idx) by (intros E'; subst j; congruence).
        rewrite nth_error_upd_nth_neq by auto. rewrite nth_upd_nth_neq by auto.
        exists e'. eauto 10.
      + destruct (Base.eqb_spec k' k) as [Ek|Nk]; [|discriminate].
        subst k'. intros E; inversion E; subst j.
        rewrite nth_error_upd_nth_eq by lia. eexists. split; [reflexivity|].
        cbn [e_keyed e_pos e_val]. split; [reflexivity|]. split.
        * rewrite Re. symmetry. apply index_of_unique; [exact ND|lia|reflexivity].
        * exists v. split; [reflexivity|]. apply nth_upd_nth_eq. lia.
  Qed.

  Lemma rnd_hd_lt : forall cap rnd, 1 <= cap -> rnd_in_range cap rnd -> hd 0 rnd < cap.
  Proof.
    intros cap rnd Hc F. destruct rnd as [|r rest]; simpl; [lia|]. inversion F; auto.
  Qed.

  Lemma rnd_tl_ok : forall cap rnd, rnd_in_range cap rnd -> rnd_in_range cap (tl rnd).
  Proof.
    intros cap rnd F. destruct rnd as [|r rest]; simpl; [exact F|]. inversion F; auto.
  Qed.

  Lemma rr_get_none_of_lookup : forall (s : rr K V) k, rr_lookup s k = None -> rr_get s k = None.
  Proof. intros s k L. unfold rr_get, rr_find. rewrite L. reflexivity. Qed.

  (* ---------------- do_insert_update ---------------- *)
  Lemma l_ins_refines : forall t t' (l : rrl K V) (s : rr K V) k v a rnd s1 b rnd1,
    rr_inv t s -> rep l s -> rnd_in_range (rr_cap s) rnd ->
    rr_ins s k v a rnd = (s1, b, rnd1) ->
    exists l', l_ins true l k v a rnd = Ok (l', b, rnd1) /\ rep l' s1 /\ rr_inv t' s1 /\
               rr_cap s1 = rr_cap s /\ rnd_in_range (rr_cap s) rnd1.
  Proof.
    intros t t' l s k v a rnd s1 b rnd1 I R F E.
    unfold rr_ins in E. unfold l_ins.
    destruct (assoc k (l_index l)) as [i|] eqn:A.
    - destruct (rep_assoc_some t l s k i I R A) as (v0 & e & Es & Hi & L & _).
      rewrite L in E. destruct (a_upd a).
      + injection E as E1 E2 E3. subst s1 b rnd1.
        destruct (l_update_refines t l s i k v v0 I R Es) as (l' & U & R').
        destruct (update_spec t t' s k v i v0 I Es) as (I' & _).
        rewrite U. cbn [bind]. exists l'. auto.
      + injection E as E1 E2 E3. subst s1 b rnd1. exists l. auto.
    - pose proof (rep_assoc_none t l s k I R A) as L. rewrite L in E.
      destruct (a_ins a); [|injection E as E1 E2 E3; subst s1 b rnd1; exists l; auto].
      assert (I0 := I). assert (R0 := R).
      destruct I as (Hc1 & Hls & Hlo & Hob & Hoi & Hec & Hiff & Hnd & Hlen).
      destruct R as (Rc & Rle & Ro & Re & Rnd & Rli & Riff & Rel).
      destruct (Nat.leb_spec (rr_cap s) (rr_end s)) as [Hfull|Hnf].
      + destruct (Nat.ltb_spec 0 (rr_end s)) as [Hpos|Hz]; [|lia].
        assert (Hend : rr_end s = rr_cap s) by lia.
        pose proof (rnd_hd_lt _ _ Hc1 F) as Hr.
        set (r := hd 0 rnd) in *.
        destruct (rr_inv_full_slot t s r I0 Hend Hr) as (kv & vv & Hv).
        destruct (erase_slot_spec t t s r kv vv I0 Hv) as (I1 & C1 & E1 & G1 & F1).
        destruct (l_do_erase_refines t l s r kv vv I0 R0 Hv) as (l1 & D1 & R1 & X1).
        assert (Nk : kv <> k).
        { intros Ek. subst kv. assert (A' : assoc k (l_index l) = Some r) by (apply Riff; eauto).
          congruence. }
        assert (A1 : assoc k (l_index l1) = None).
        { rewrite X1, assoc_remk. destruct (Base.eqb k kv); auto. }
        set (sa := rr_erase_slot s r) in *.
        cbv beta iota zeta in E. injection E as E2 E3 E4. subst s1 b rnd1.
        assert (Hlt1 : rr_end sa < rr_cap sa) by lia.
        destruct (l_claim_refines t l1 sa k v (tl rnd) I1 R1 Hlt1 A1) as (l' & D2 & R2).
        destruct (claim_spec t t' sa k v I1 Hlt1) as (I2 & _).
        { apply rr_get_none_of_lookup. eapply rep_assoc_none; eauto. }
        assert (DI : l_do_insert true l k v rnd = l_do_insert true l1 k v (tl rnd)).
        { unfold l_do_insert.
          assert (Ca : (List.length (l_elems l) <=? l_end l) = true) by (apply Nat.leb_le; lia).
          assert (Cb : (List.length (l_elems l1) <=? l_end l1) = false).
          { destruct R1 as (_ & Rle1 & _ & Re1 & _). apply Nat.leb_gt. lia. }
          rewrite Ca, Cb. unfold l_do_prune.
          assert (Cc : (0 <? l_end l) = true) by (apply Nat.ltb_lt; lia).
          assert (Cd : (hd 0 rnd <? l_end l) = true) by (apply Nat.ltb_lt; fold r; lia).
          rewrite Cc, Cd. fold r. rewrite D1. reflexivity. }
        rewrite DI, D2. cbn [bind]. exists l'.
        split; [reflexivity|]. split; [exact R2|]. split; [exact I2|]. split; [exact C1|].
        apply rnd_tl_ok. exact F.
      + injection E as E2 E3 E4. subst s1 b rnd1.
        destruct (l_claim_refines t l s k v rnd I0 R0 Hnf A) as (l' & D2 & R2).
        destruct (claim_spec t t' s k v I0 Hnf) as (I2 & _).
        { apply rr_get_none_of_lookup. exact L. }
        rewrite D2. cbn [bind]. exists l'. auto.
  Qed.

  (* ---------------- erase(key) ---------------- *)
  Lemma l_erase_refines : forall t t' (l : rrl K V) (s : rr K V) k s1 b,
    rr_inv t s -> rep l s -> rr_erase s k = (s1, b) ->
    exists l', l_erase true l k = Ok (l', b) /\ rep l' s1 /\ rr_inv t' s1 /\ rr_cap s1 = rr_cap s.
  Proof.
    intros t t' l s k s1 b I R E. unfold rr_erase in E. unfold l_erase.
    destruct (assoc k (l_index l)) as [i|] eqn:A.
    - destruct (rep_assoc_some t l s k i I R A) as (v0 & e & Es & Hi & L & _).
      rewrite L in E. injection E as E1 E2. subst s1 b.
      destruct (l_do_erase_refines t l s i k v0 I R Es) as (l1 & D1 & R1 & _).
      destruct (erase_slot_spec t t' s i k v0 I Es) as (I1 & C1 & _).
      rewrite D1. cbn [bind]. exists l1. auto.
    - rewrite (rep_assoc_none t l s k I R A) in E. injection E as E1 E2. subst s1 b.
      exists l. auto.
  Qed.

  (* ---------------- range calls ---------------- *)
  Lemma l_ins_range_refines : forall xs t t' (l : rrl K V) (s : rr K V) a rnd n,
    rr_inv t s -> rep l s -> rnd_in_range (rr_cap s) rnd ->
    exists l', l_ins_range true l xs a rnd n = Ok (l', snd (rr_ins_range s xs a rnd n)) /\
               rep l' (fst (rr_ins_range s xs a rnd n)) /\
               rr_inv t' (fst (rr_ins_range s xs a rnd n)) /\
               rr_cap (fst (rr_ins_range s xs a rnd n)) = rr_cap s.
  Proof.
    induction xs as [|[[z k] v] r IH]; intros t t' l s a rnd n I R F; simpl.
    - exists l. auto.
    - destruct (rr_ins s k v a rnd) as [[s1 b] rnd1] eqn:E.
      destruct (l_ins_refines t t l s k v a rnd s1 b rnd1 I R F E) as (l1 & D1 & R1 & I1 & C1 & F1).
      rewrite D1. cbn [bind]. rewrite <- C1 in F1.
      destruct (IH t t' l1 s1 a rnd1 (if b then S n else n) I1 R1 F1) as (l' & D2 & R2 & I2 & C2).
      exists l'. split; [exact D2|]. split; [exact R2|]. split; [exact I2|]. congruence.
  Qed.

  Lemma l_erase_range_refines : forall ks t t' (l : rrl K V) (s : rr K V) n,
    rr_inv t s -> rep l s ->
    exists l', l_erase_range true l ks n = Ok (l', snd (rr_erase_range s ks n)) /\
               rep l' (fst (rr_erase_range s ks n)) /\
               rr_inv t' (fst (rr_erase_range s ks n)) /\
               rr_cap (fst (rr_erase_range s ks n)) = rr_cap s.
  Proof.
    induction ks as [|k r IH]; intros t t' l s n I R; simpl.
    - exists l. auto.
    - destruct (rr_erase s k) as [s1 b] eqn:E.
      destruct (l_erase_refines t t l s k s1 b I R E) as (l1 & D1 & R1 & I1 & C1).
      rewrite D1. cbn [bind].
      destruct (IH t t' l1 s1 (if b then S n else n) I1 R1) as (l' & D2 & R2 & I2 & C2).
      exists l'. split; [exact D2|]. split; [exact R2|]. split; [exact I2|]. congruence.
  Qed.

  (* ---------------- one public call ---------------- *)
  Lemma lit_step_refines_cap : forall t (l : rrl K V) (s : rr K V) o now rnd,
      rr_inv t s -> rep l s -> rnd_in_range (rr_cap s) rnd ->
      exists l', l_step true l o now rnd = Ok (l', snd (rr_step s o now rnd)) /\
                 rep l' (fst (rr_step s o now rnd)) /\ rr_inv now (fst (rr_step s o now rnd)) /\
                 rr_cap (fst (rr_step s o now rnd)) = rr_cap s.
  Proof.
    intros t l s o now rnd I R F.
    assert (R0 := R). destruct R0 as (Rc & Rle & Ro & Re & _).
    destruct o; simpl; try (exists l; rewrite ?Re, ?Rle; auto; fail).
    - destruct (rr_ins s k v a rnd) as [[s1 b] rnd1] eqn:E.
      destruct (l_ins_refines t now l s k v a rnd s1 b rnd1 I R F E) as (l1 & D1 & R1 & I1 & C1 & _).
      rewrite D1. cbn [bind]. exists l1. auto.
    - destruct (l_ins_range_refines l0 t now l s a rnd 0 I R F) as (l1 & D1 & R1 & I1 & C1).
      rewrite D1. cbn [bind].
      destruct (rr_ins_range s l0 a rnd 0) as [s1 n]. exists l1. auto.
    - destruct (rr_erase s k) as [s1 b] eqn:E.
      destruct (l_erase_refines t now l s k s1 b I R E) as (l1 & D1 & R1 & I1 & C1).
      rewrite D1. cbn [bind]. exists l1. auto.
    - destruct (l_erase_range_refines l0 t now l s 0 I R) as (l1 & D1 & R1 & I1 & C1).
      rewrite D1. cbn [bind].
      destruct (rr_erase_range s l0 0) as [s1 n]. exists l1. auto.
    - rewrite (l_find_refines t l s k I R). cbn [bind]. exists l. auto.
    - rewrite (l_find_range_refines t l s l0 I R). cbn [bind]. exists l. auto.
    - rewrite (l_find_range_refines t l s l0 I R). cbn [bind]. exists l. auto.
  Qed.

  (* one public call: from related states (the mid-level one satisfying its invariant), with
     every draw in [0, capacity), the literal machine does not hit UB, returns the same result
     as the mid-level model, and the successor states are related again *)
  Theorem lit_step_refines : forall t (l : rrl K V) (s : rr K V) o now rnd,
      rr_inv t s -> rep l s -> rnd_in_range (rr_cap s) rnd ->
      exists l', l_step true l o now rnd = Ok (l', snd (rr_step s o now rnd)) /\
                 rep l' (fst (rr_step s o now rnd)) /\ rr_inv now (fst (rr_step s o now rnd)).
  Proof.
    intros t l s o now rnd I R F.
    destruct (lit_step_refines_cap t l s o now rnd I R F) as (l' & D & R' & I' & _).
    exists l'. auto.
  Qed.

  (* whole histories: the literal machine started on a fresh cache never reaches UB, and
     returns the results of the mid-level model, call by call *)
  Fixpoint l_run (l : rrl K V) (h : list (ev K V)) : res (rrl K V * list (ret K V)) :=
    match h with
    | [] => Ok (l, [])
    | e :: r => do x <- l_step true l (e_op e) (e_now e) (e_rnd e);
                let '(l1, y) := x in
                do z <- l_run l1 r; let '(l2, ys) := z in Ok (l2, y :: ys)
    end.

  Lemma l_run_refines : forall h t (l : rrl K V) (s : rr K V),
      rr_inv t s -> rep l s -> Forall (fun e => rnd_in_range (rr_cap s) (e_rnd e)) h ->
      exists l', l_run l h = Ok (l', snd (run rr_step s h)) /\
                 rep l' (fst (run rr_step s h)) /\ rr_cap (fst (run rr_step s h)) = rr_cap s.
  Proof.
    induction h as [|e r IH]; intros t l s I R F; simpl.
    - exists l. auto.
    - inversion F as [|x y Fe Fr]; subst.
      destruct (lit_step_refines_cap t l s (e_op e) (e_now e) (e_rnd e) I R Fe)
        as (l1 & D1 & R1 & I1 & C1).
      rewrite D1. cbn [bind]. unfold step_ev.
      destruct (rr_step s (e_op e) (e_now e) (e_rnd e)) as [s1 y1]. simpl in *.
      rewrite <- C1 in Fr.
      destruct (IH (e_now e) l1 s1 I1 R1 Fr) as (l2 & D2 & R2 & C2).
      rewrite D2. cbn [bind].
      destruct (run rr_step s1 r) as [s2 ys]. simpl in *.
      exists l2. split; [reflexivity|]. split; [exact R2|]. congruence.
  Qed.

  Theorem no_UB_on_any_history : forall cap h,
      1 <= cap -> Forall (fun e => rnd_in_range cap (e_rnd e)) h ->
      exists l', l_run (rrl_init cap) h = Ok (l', snd (run rr_step (rr_init cap) h)) /\
                 rep l' (fst (run rr_step (rr_init cap) h)).
  Proof.
    intros cap h Hc F.
    destruct (l_run_refines h 0%Z (rrl_init cap) (rr_init cap)
                (rr_inv_init cap 0%Z Hc) (rep_init cap Hc) F) as (l' & D & R & _).
    exists l'. auto.
  Qed.

  (* the number of value cells never changes: every value handed in is moved into one of the
     [cap] cells (ending the previous occupant) or dropped with a rejected insert; the cells
     end with the container *)
  Theorem value_cells_constant : forall cap h l' rs,
      1 <= cap -> Forall (fun e => rnd_in_range cap (e_rnd e)) h ->
      l_run (rrl_init cap) h = Ok (l', rs) -> List.length (l_elems l') = cap.
  Proof.
    intros cap h l' rs Hc F E.
    destruct (l_run_refines h 0%Z (rrl_init cap) (rr_init cap)
                (rr_inv_init cap 0%Z Hc) (rep_init cap Hc) F) as (l2 & D & R & C).
    rewrite D in E. injection E as E1 E2. subst l2.
    destruct R as (_ & Rle & _). rewrite Rle, C. reflexivity.
  Qed.
End RrLitFacts.

(* the ORIGINAL do_erase (without the refresh of the moved element's position) goes wrong on
   the history of the fixed defect: cap 3; insert 1,2,3; erase 1; erase 3; insert 4,5; then
   find 2 reports 5's value (and a later erase goes through a dead index node) *)
Local Open Scope Z_scope.
Example original_rr_do_erase_refuted :
  let both := {| a_ins := true; a_upd := true |} in
  let run_ops := fix go (l : rrl Z Z) (os : list (op Z Z)) : res (rrl Z Z * list (ret Z Z)) :=
    match os with
    | [] => Ok (l, [])
    | o :: r => do x <- l_step false l o 0 [0%nat];
                let '(l1, y) := x in do z <- go l1 r; let '(l2, ys) := z in Ok (l2, y :: ys)
    end in
  match run_ops (rrl_init 3) [Insert 0 1 10 both; Insert 0 2 20 both; Insert 0 3 30 both;
                              Erase 1; Erase 3; Insert 0 4 40 both; Insert 0 5 50 both; Find 2 false] with
  | Ok (_, rs) => last rs RUnit = RO (Some 50)
  | UB _ => True
  end.
Proof. vm_compute. reflexivity. Qed.
