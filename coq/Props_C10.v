(* C10 LRU order: the victim is the least recently used entry. *)
Require Import Capp.Base Capp.Spec Capp.ListCache Capp.ListCacheFacts Capp.TtlLru Capp.TtlLruFacts.

(* lru_cache: after any history from the empty cache, a successful insert of a new key into
   the full cache removes exactly the resident whose most recent use — its insert, a
   successful update, or a successful non-peek lookup, [last_use] of Spec.v — is oldest. *)
Theorem C10_lru_victim_is_least_recently_used :
  forall (K V : Type) (E : EqDec K) cap tr (s : lc K V) k s',
    evicting lru_policy cap tr s k s' ->
    exists kv, kv <> k /\ lc_get s kv <> None /\ lc_get s' kv = None /\
      (forall k', k' <> k -> k' <> kv -> lc_get s' k' = lc_get s k') /\
      (forall k', lc_get s k' <> None -> k' <> kv ->
                  last_use (lc_model lru_policy) kv tr < last_use (lc_model lru_policy) k' tr).
Proof. exact @lru_victim_least_recent. Qed.
Print Assumptions C10_lru_victim_is_least_recently_used.

(* tlru_cache (u = false) and utlru_cache (u = true) choose the same victim whenever no
   resident entry has expired *)
Theorem C10_tlru_utlru_victim_is_least_recently_used :
  forall (K V : Type) (E : EqDec K) u cap ttl0 tr t (s : tl K V) ttl k v a now rnd s',
    1 <= cap -> wruns (tl_model u) 0 (tl_init u cap ttl0) tr t s -> (t <= now)%Z ->
    tl_size s = tl_cap s -> tl_get s k = None ->
    tl_step s (Insert ttl k v a) now rnd = (s', RB true) ->
    (forall kd, ~ deadk (tl_get s) now kd) ->
    exists kv, kv <> k /\ tl_get s kv <> None /\ tl_get s' kv = None /\
      (forall k', k' <> k -> k' <> kv -> tl_get s' k' = tl_get s k') /\
      (forall k', tl_get s k' <> None -> k' <> kv ->
                  last_use (tl_model u) kv tr < last_use (tl_model u) k' tr).
Proof. exact @tl_victim_least_recent. Qed.
Print Assumptions C10_tlru_utlru_victim_is_least_recently_used.
