(* Spec.v — what every container model must satisfy (one class), stated only in
   terms of the abstract content  get : state -> key -> option (value * deadline).
   The generic property theorems (Generic.v) are derived from this class once; each
   of the five model files proves an instance (XFacts.v). *)
Require Import Capp.Base.

Section Spec.
  Context {K V : Type} `{EqDec K}.

  Definition amap := K -> option (V * dl).

  Definition livek (g : amap) (now : Z) (k : K) : Prop :=
    exists v d, g k = Some (v, d) /\ alive now d = true.
  Definition deadk (g : amap) (now : Z) (k : K) : Prop :=
    exists v d, g k = Some (v, Some d) /\ (d <= now)%Z.
  (* an entry is untouched, or it was already dead and has been reaped *)
  Definition keeps (g g' : amap) (now : Z) (k : K) : Prop :=
    g' k = g k \/ (g' k = None /\ deadk g now k).
  (* a live entry disappears *)
  Definition lost_live (g g' : amap) (now : Z) (k : K) : Prop :=
    livek g now k /\ g' k = None.

  (* what a lookup at [now] must report, given the content *)
  Definition view_of (g : amap) (now : Z) (k : K) : option V :=
    match g k with
    | Some (v, d) => if alive now d then Some v else None
    | None => None
    end.

  (* single-key public calls (range calls are folds of these: Range.v / C18) *)
  Definition single (o : op K V) : bool :=
    match o with
    | InsertRange _ _ | EraseRange _ | FindRange _ _ | FindRangeFill _ _ => false
    | _ => true
    end.

  (* does the call address key k' as a write / erase / clear *)
  Definition touches (o : op K V) (k' : K) : bool :=
    match o with
    | Insert _ k _ _ => eqb k k'
    | Erase k => eqb k k'
    | Clear => true
    | _ => false
    end.

  Record model := {
    St      : Type;
    m_step  : St -> op K V -> Z -> list nat -> St * ret K V;
    m_get   : St -> amap;
    m_view  : St -> Z -> K -> option V;         (* side-effect-free lookup *)
    m_keys  : St -> list K;                      (* resident keys *)
    m_size  : St -> nat;
    m_cap   : St -> nat;
    m_bounded : bool;                            (* false: ut_map / ut_set (never evict) *)
    m_dl    : St -> Z -> Z -> dl;                (* deadline of a write: state, ttl argument (ms), now *)
    m_inv   : Z -> St -> Prop;                   (* invariant, indexed by the last clock reading *)
    m_rnd_ok : St -> list nat -> Prop;           (* the draws handed to the call are in range (rr) *)
    m_has_find_use : bool;
    m_has_clean : bool;
    m_has_clear : bool
  }.

  Class ModelOK (M : model) : Prop := {
    (* --- structure --- *)
    ok_keys_nodup : forall t s, m_inv M t s -> NoDup (m_keys M s);
    ok_keys_get : forall t s k, m_inv M t s -> (In k (m_keys M s) <-> m_get M s k <> None);
    ok_size : forall t s, m_inv M t s -> m_size M s = length (m_keys M s);
    ok_bound : forall t s, m_inv M t s -> m_bounded M = true -> m_size M s <= m_cap M s;
    ok_inv_mono : forall t t' s, m_inv M t s -> (t <= t')%Z -> m_inv M t' s;
    ok_view : forall t s now k, m_inv M t s -> (t <= now)%Z ->
        m_view M s now k = view_of (m_get M s) now k;

    (* --- every single call: invariant, capacity, frame --- *)
    ok_inv_step : forall t s o now rnd s' r, m_inv M t s -> (t <= now)%Z -> single o = true ->
        m_rnd_ok M s rnd -> m_step M s o now rnd = (s', r) ->
        m_inv M now s' /\ m_cap M s' = m_cap M s;
    (* an entry that is there afterwards and was not written by this call was there before *)
    ok_no_appear : forall t s o now rnd s' r k', m_inv M t s -> (t <= now)%Z -> single o = true ->
        m_rnd_ok M s rnd -> m_step M s o now rnd = (s', r) ->
        touches o k' = false -> m_get M s' k' <> None -> m_get M s' k' = m_get M s k';
    (* a live entry is lost only as the single victim of an insert of a new key into a full store,
       and then only if no resident entry is dead *)
    ok_loss : forall t s o now rnd s' r k', m_inv M t s -> (t <= now)%Z -> single o = true ->
        m_rnd_ok M s rnd -> m_step M s o now rnd = (s', r) ->
        touches o k' = false -> lost_live (m_get M s) (m_get M s') now k' ->
        m_bounded M = true /\
        (exists ttl k v a, o = Insert ttl k v a /\ r = RB true /\ m_get M s k = None) /\
        m_size M s = m_cap M s /\ m_size M s' = m_cap M s /\
        (forall k'', ~ deadk (m_get M s) now k'') /\
        (forall k'', touches o k'' = false -> lost_live (m_get M s) (m_get M s') now k'' -> k'' = k');
    (* the only calls after which a resident entry that was not addressed is gone are: the
       insert above, or any call reaping already-dead entries *)

    (* --- lookups --- *)
    ok_find : forall t s k pk now rnd s' r, m_inv M t s -> (t <= now)%Z -> m_rnd_ok M s rnd ->
        m_step M s (Find k pk) now rnd = (s', r) ->
        r = RO (m_view M s now k) /\ (m_view M s now k = None -> m_get M s' k = None);
    ok_find_use : forall t s k pk now rnd s' r, m_inv M t s -> (t <= now)%Z -> m_rnd_ok M s rnd ->
        m_step M s (FindUse k pk) now rnd = (s', r) ->
        if m_has_find_use M
        then exists x, r = RU x /\
             match x with Some (v, _) => m_view M s now k = Some v | None => m_view M s now k = None end /\
             (m_view M s now k = None -> m_get M s' k = None)
        else r = RUnsupported /\ s' = s;

    (* --- insert: the allow table of C09, the write, the TTL --- *)
    ok_ins : forall t s ttl k v a now rnd s' r, m_inv M t s -> (t <= now)%Z -> m_rnd_ok M s rnd ->
        m_step M s (Insert ttl k v a) now rnd = (s', r) ->
        exists b, r = RB b /\
          (livek (m_get M s) now k -> b = a_upd a) /\
          (m_get M s k = None -> b = a_ins a) /\
          (deadk (m_get M s) now k -> (a_ins a = true -> b = true) /\
                                      (b = true -> a_ins a = true \/ a_upd a = true)) /\
          (b = true -> m_get M s' k = Some (v, m_dl M s ttl now)) /\
          (b = false -> keeps (m_get M s) (m_get M s') now k) /\
          (* size accounting for the bounded caches *)
          (m_bounded M = true -> b = true -> m_get M s k = None ->
             m_size M s' = if m_size M s <? m_cap M s then S (m_size M s) else m_cap M s) ;

    (* --- erase --- *)
    ok_erase : forall t s k now rnd s' r, m_inv M t s -> (t <= now)%Z -> m_rnd_ok M s rnd ->
        m_step M s (Erase k) now rnd = (s', r) ->
        exists b, r = RB b /\ m_get M s' k = None /\
          (livek (m_get M s) now k -> b = true) /\ (b = true -> m_get M s k <> None);

    (* --- clean_expired_values --- *)
    ok_clean : forall t s now rnd s' r, m_inv M t s -> (t <= now)%Z -> m_rnd_ok M s rnd ->
        m_step M s Clean now rnd = (s', r) ->
        if m_has_clean M
        then exists n, r = RN n /\ n + m_size M s' = m_size M s /\
             (forall k, deadk (m_get M s) now k -> m_get M s' k = None) /\
             (forall k, ~ deadk (m_get M s) now k -> m_get M s' k = m_get M s k)
        else r = RUnsupported /\ s' = s;

    (* --- clear --- *)
    ok_clear : forall t s now rnd s' r, m_inv M t s -> (t <= now)%Z -> m_rnd_ok M s rnd ->
        m_step M s Clear now rnd = (s', r) ->
        if m_has_clear M
        then r = RUnit /\ (forall k, m_get M s' k = None) /\ m_size M s' = 0
        else r = RUnsupported /\ s' = s;

    (* --- observers --- *)
    ok_size_op : forall s now rnd, m_step M s Size now rnd = (s, RN (m_size M s));
    ok_empty_op : forall s now rnd, m_step M s Empty now rnd = (s, RB (Nat.eqb (m_size M s) 0));
    ok_cap_op : forall s now rnd, m_bounded M = true -> m_step M s Capacity now rnd = (s, RN (m_cap M s));

    (* --- calls that change no entry: dynamically_age, update_ttl --- *)
    ok_dynage : forall t s now rnd s' r, m_inv M t s -> (t <= now)%Z ->
        m_step M s DynAge now rnd = (s', r) -> forall k, m_get M s' k = m_get M s k;
    ok_updttl : forall t s d now rnd s' r, m_inv M t s -> (t <= now)%Z ->
        m_step M s (UpdateTtl d) now rnd = (s', r) -> forall k, m_get M s' k = m_get M s k
  }.
End Spec.

Arguments model K V : clear implicits.
Arguments amap K V : clear implicits.

(* ---------- single-call histories with their pre-states -------------------- *)
Section Hist.
  Context {K V : Type} `{EqDec K}.
  Variable M : model K V.

  Definition titem : Type := (St M * ev K V * ret K V)%type.

  (* every finite history of single calls from (t0, s0): clock readings non-decreasing,
     draws in range; the trace records (state before, call, result), oldest first *)
  Inductive wruns (t0 : Z) (s0 : St M) : list titem -> Z -> St M -> Prop :=
  | wr_nil : wruns t0 s0 [] t0 s0
  | wr_snoc tr t s e s' r :
      wruns t0 s0 tr t s ->
      single (e_op e) = true -> (t <= e_now e)%Z -> m_rnd_ok M s (e_rnd e) ->
      m_step M s (e_op e) (e_now e) (e_rnd e) = (s', r) ->
      wruns t0 s0 (tr ++ [(s, e, r)]) (e_now e) s'.

  (* --- history functions (DESIGN §3), all folds from the oldest event --- *)

  (* the value and deadline of the latest successful write of k that has not since been
     undone by a successful erase, a clear, or been seen missing by a lookup *)
  Definition upd_lastw (k : K) (acc : option (V * dl)) (x : titem) : option (V * dl) :=
    let '(s, e, r) := x in
    match e_op e, r with
    | Insert ttl k' v _, RB true => if eqb k' k then Some (v, m_dl M s ttl (e_now e)) else acc
    | Erase k', RB true => if eqb k' k then None else acc
    | Clear, RUnit => None
    | Find k' _, RO None => if eqb k' k then None else acc
    | FindUse k' _, RU None => if eqb k' k then None else acc
    | _, _ => acc
    end.
  Definition lastw (k : K) (tr : list titem) : option (V * dl) := fold_left (upd_lastw k) tr None.

  (* a use of k: a successful insert/update of k, or a successful non-peek lookup of k *)
  Definition uses (k : K) (x : titem) : bool :=
    let '(_, e, r) := x in
    match e_op e, r with
    | Insert _ k' _ _, RB true => eqb k' k
    | Find k' false, RO (Some _) => eqb k' k
    | FindUse k' false, RU (Some _) => eqb k' k
    | _, _ => false
    end.
  (* the insert that created the current entry of k: successful, k not resident before *)
  Definition creates (k : K) (x : titem) : bool :=
    let '(s, e, r) := x in
    match e_op e, r with
    | Insert _ k' _ _, RB true => eqb k' k && (match m_get M s k with None => true | Some _ => false end)
    | _, _ => false
    end.

  (* 1-based position of the last event satisfying f, 0 if none *)
  Definition last_pos (f : titem -> bool) (tr : list titem) : nat :=
    snd (fold_left (fun '(i, p) x => (S i, if f x then S i else p)) tr (0, 0)).
  Definition last_use (k : K) := last_pos (uses k).
  Definition created_at (k : K) := last_pos (creates k).

  (* use count: 1 at creation, +1 per later use *)
  Definition use_count (k : K) (tr : list titem) : nat :=
    fold_left (fun c x => if creates k x then 1 else if uses k x then S c else c) tr 0.
End Hist.
