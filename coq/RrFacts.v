(* RrFacts.v — proofs about the rr_cache model (Rr.v): the representation invariant of
   the open-list permutation, the ModelOK instance (Spec.v), random replacement (C15),
   no-effect calls (C19). *)
Require Import Capp.Base Capp.Spec Capp.Rr.
From Coq Require Import Permutation.

Section RrFacts.
  Context {K V : Type} `{EqDec K}.

  Definition slot_keys (sl : list (option (K * V))) : list K :=
    flat_map (fun o => match o with Some (k, _) => [k] | None => [] end) sl.

  (* the open list is a permutation of the slot numbers (length cap, entries < cap,
     pairwise distinct), the in-use slots are exactly the first rr_end entries of it,
     keys are distinct, and the number of keyed slots is rr_end *)
  Definition rr_inv (t : Z) (s : rr K V) : Prop :=
    1 <= rr_cap s /\ length (rr_slots s) = rr_cap s /\
    length (rr_open s) = rr_cap s /\
    (forall p, p < rr_cap s -> nth p (rr_open s) 0 < rr_cap s) /\
    (forall p q, p < rr_cap s -> q < rr_cap s ->
                 nth p (rr_open s) 0 = nth q (rr_open s) 0 -> p = q) /\
    rr_end s <= rr_cap s /\
    (forall p, p < rr_cap s ->
               (nth (nth p (rr_open s) 0) (rr_slots s) None <> None <-> p < rr_end s)) /\
    NoDup (slot_keys (rr_slots s)) /\
    length (slot_keys (rr_slots s)) = rr_end s.

  (* an insert that has to evict is handed a draw in [0, size-1] *)
  Definition rr_rnd_ok (s : rr K V) (rnd : list nat) : Prop :=
    rr_cap s <= rr_end s -> exists r rest, rnd = r :: rest /\ r < rr_end s.

  Definition rr_model : model K V := {|
    St := rr K V;
    m_step := rr_step;
    m_get := rr_get;
    m_view := rr_view;
    m_keys := fun s => slot_keys (rr_slots s);
    m_size := @rr_end K V;
    m_cap := @rr_cap K V;
    m_bounded := true;
    m_dl := fun _ _ _ => None;
    m_inv := rr_inv;
    m_rnd_ok := rr_rnd_ok;
    m_has_find_use := false;
    m_has_clean := false;
    m_has_clear := false
  |}.

  (* ---------------- list helpers: upd_nth, index_of, swap_nth ---------------- *)
  Lemma upd_nth_length : forall A (l : list A) i x, length (upd_nth i x l) = length l.
  Proof. induction l as [|y r IH]; intros [|j] x; simpl; auto. Qed.

  Lemma nth_upd_nth_eq : forall A (l : list A) i x d, i < length l -> nth i (upd_nth i x l) d = x.
  Proof.
    induction l as [|y r IH]; intros [|j] x d Hi; simpl in *; try lia; auto.
    apply IH; lia.
  Qed.

  Lemma nth_upd_nth_neq : forall A (l : list A) i j x d, j <> i -> nth j (upd_nth i x l) d = nth j l d.
  Proof.
    induction l as [|y r IH]; intros [|i] [|j] x d Hne; simpl; try congruence; auto.
  Qed.

  Lemma index_of_spec : forall l x, In x l -> index_of x l < length l /\ nth (index_of x l) l 0 = x.
  Proof.
    induction l as [|y r IH]; intros x Hin; simpl in *; [contradiction|].
    destruct (Nat.eqb_spec x y) as [E|NE].
    - split; [lia|auto].
    - destruct Hin as [E|Hin]; [congruence|].
      destruct (IH _ Hin) as [L N]. split; [lia|auto].
  Qed.

  Lemma swap_nth_length : forall i j l, length (swap_nth i j l) = length l.
  Proof. intros. unfold swap_nth. rewrite !upd_nth_length. reflexivity. Qed.

  Lemma nth_swap_nth : forall i j l q, i < length l -> j < length l ->
    nth q (swap_nth i j l) 0 =
    if Nat.eqb q j then nth i l 0 else if Nat.eqb q i then nth j l 0 else nth q l 0.
  Proof.
    intros i j l q Hi Hj. unfold swap_nth.
    destruct (Nat.eqb_spec q j) as [E|NE].
    - subst q. rewrite nth_upd_nth_eq; auto. rewrite upd_nth_length; auto.
    - rewrite nth_upd_nth_neq by auto.
      destruct (Nat.eqb_spec q i) as [E'|NE'].
      + subst q. rewrite nth_upd_nth_eq; auto.
      + rewrite nth_upd_nth_neq; auto.
  Qed.

  (* a duplicate-free list of n numbers below n contains every number below n *)
  Lemma perm_nth_surj : forall (l : list nat) n, length l = n ->
    (forall p, p < n -> nth p l 0 < n) ->
    (forall p q, p < n -> q < n -> nth p l 0 = nth q l 0 -> p = q) ->
    forall i, i < n -> In i l.
  Proof.
    intros l n Hlen Hb Hinj i Hi.
    assert (ND : NoDup l).
    { apply (NoDup_nth l 0). intros a b Ha Hb'. apply Hinj; lia. }
    assert (I1 : incl l (seq 0 n)).
    { intros x Hx. apply (In_nth _ _ 0) in Hx. destruct Hx as (p & Hp & E). subst x.
      apply in_seq. specialize (Hb p). lia. }
    assert (I2 : incl (seq 0 n) l).
    { apply NoDup_length_incl; auto. rewrite seq_length. lia. }
    apply I2. apply in_seq. lia.
  Qed.

  (* ---------------- slot array: keys, lookup ---------------- *)
  Definition okeys (o : option (K * V)) : list K :=
    match o with Some (k, _) => [k] | None => [] end.

  Lemma slot_keys_cons : forall o r, slot_keys (o :: r) = okeys o ++ slot_keys r.
  Proof. reflexivity. Qed.

  Lemma nth_some_lt : forall (sl : list (option (K * V))) i x,
    nth i sl None = Some x -> i < length sl.
  Proof.
    intros sl i x E. destruct (lt_dec i (length sl)) as [L|L]; auto.
    rewrite nth_overflow in E by lia. discriminate.
  Qed.

  Lemma slot_keys_upd : forall sl i x, i < length sl ->
    exists l1 l2, slot_keys sl = l1 ++ okeys (nth i sl None) ++ l2 /\
                  slot_keys (upd_nth i x sl) = l1 ++ okeys x ++ l2.
  Proof.
    induction sl as [|o r IH]; intros i x Hi; simpl in Hi; [lia|].
    destruct i as [|i].
    - exists [], (slot_keys r). split; reflexivity.
    - destruct (IH i x) as (l1 & l2 & E1 & E2); [lia|].
      exists (okeys o ++ l1), l2.
      change (upd_nth (S i) x (o :: r)) with (o :: upd_nth i x r).
      change (nth (S i) (o :: r) None) with (nth i r None).
      rewrite !slot_keys_cons, E1, E2, <- !app_assoc. split; reflexivity.
  Qed.

  Lemma in_slot_keys : forall (sl : list (option (K * V))) k,
    In k (slot_keys sl) <-> exists i v, nth i sl None = Some (k, v).
  Proof.
    induction sl as [|o r IH]; intros k.
    - simpl. split; [contradiction|]. intros (i & v & E). destruct i; discriminate.
    - rewrite slot_keys_cons, in_app_iff, IH. split.
      + intros [I | (i & v & E)].
        * destruct o as [[k' v']|]; simpl in I; [|contradiction].
          destruct I as [E|[]]. subst k'. exists 0, v'. reflexivity.
        * exists (S i), v. exact E.
      + intros (i & v & E). destruct i as [|i]; simpl in E.
        * subst o. left. simpl. auto.
        * right. eauto.
  Qed.

  Lemma lookup_from_some : forall (sl : list (option (K * V))) b k j v,
    rr_lookup_from b sl k = Some (j, v) -> b <= j /\ nth (j - b) sl None = Some (k, v).
  Proof.
    induction sl as [|o r IH]; intros b k j v E; simpl in E; [discriminate|].
    destruct o as [[k' v']|].
    - destruct (eqb_spec k k') as [Ek|Nk].
      + inversion E; subst. rewrite Nat.sub_diag. split; [lia|reflexivity].
      + apply IH in E. destruct E as [L E]. split; [lia|].
        replace (j - b) with (S (j - S b)) by lia. exact E.
    - apply IH in E. destruct E as [L E]. split; [lia|].
      replace (j - b) with (S (j - S b)) by lia. exact E.
  Qed.

  Lemma lookup_from_none : forall (sl : list (option (K * V))) b k,
    rr_lookup_from b sl k = None <-> ~ In k (slot_keys sl).
  Proof.
    induction sl as [|o r IH]; intros b k.
    - simpl. split; auto.
    - rewrite slot_keys_cons, in_app_iff. simpl rr_lookup_from.
      destruct o as [[k' v']|]; simpl okeys.
      + destruct (eqb_spec k k') as [Ek|Nk].
        * split; [discriminate|]. intros N. exfalso. apply N. left. left. auto.
        * rewrite IH. split.
          -- intros N [[E|[]]|I]; [congruence|auto].
          -- intros N I. apply N. right. exact I.
      + rewrite IH. split.
        * intros N [[]|I]. auto.
        * intros N I. apply N. right. exact I.
  Qed.

  Lemma lookup_from_nth : forall (sl : list (option (K * V))) b i k v, NoDup (slot_keys sl) ->
    nth i sl None = Some (k, v) -> rr_lookup_from b sl k = Some (b + i, v).
  Proof.
    induction sl as [|o r IH]; intros b i k v ND E.
    - destruct i; discriminate.
    - destruct i as [|i]; simpl in E.
      + subst o. simpl. destruct (eqb_spec k k) as [_|N]; [|congruence].
        f_equal. f_equal. lia.
      + rewrite slot_keys_cons in ND. simpl rr_lookup_from.
        destruct o as [[k' v']|]; simpl in ND.
        * inversion ND as [|x l NI ND']; subst.
          destruct (eqb_spec k k') as [Ek|Nk].
          -- subst k'. exfalso. apply NI. apply in_slot_keys. eauto.
          -- rewrite (IH (S b) i k v ND' E). f_equal. f_equal. lia.
        * rewrite (IH (S b) i k v ND E). f_equal. f_equal. lia.
  Qed.

  Lemma slots_key_inj : forall sl i j k v v', NoDup (slot_keys sl) ->
    nth i sl None = Some (k, v) -> nth j sl None = Some (k, v') -> i = j.
  Proof.
    intros sl i j k v v' ND Ei Ej.
    pose proof (lookup_from_nth sl 0 i k v ND Ei) as Li.
    pose proof (lookup_from_nth sl 0 j k v' ND Ej) as Lj.
    rewrite Li in Lj. inversion Lj. reflexivity.
  Qed.

  Lemma lookup_upd_other : forall (sl : list (option (K * V))) i x b k,
    (forall v, nth i sl None <> Some (k, v)) -> (forall v, x <> Some (k, v)) ->
    rr_lookup_from b (upd_nth i x sl) k = rr_lookup_from b sl k.
  Proof.
    induction sl as [|o r IH]; intros i x b k H1 H2.
    - destruct i; reflexivity.
    - destruct i as [|i]; simpl.
      + simpl in H1.
        assert (Ex : rr_lookup_from b (x :: r) k = rr_lookup_from (S b) r k).
        { simpl. destruct x as [[kx vx]|]; auto.
          destruct (eqb_spec k kx) as [E|N]; auto. subst kx. exfalso. eapply H2. reflexivity. }
        assert (Eo : rr_lookup_from b (o :: r) k = rr_lookup_from (S b) r k).
        { simpl. destruct o as [[ko vo]|]; auto.
          destruct (eqb_spec k ko) as [E|N]; auto. subst ko. exfalso. eapply H1. reflexivity. }
        simpl in Ex, Eo. rewrite Ex, Eo. reflexivity.
      + destruct o as [[ko vo]|].
        * destruct (eqb k ko); auto.
        * apply IH; auto.
  Qed.

  Lemma slot_keys_erase : forall sl i ki vi, NoDup (slot_keys sl) ->
    nth i sl None = Some (ki, vi) ->
    NoDup (slot_keys (upd_nth i None sl)) /\
    S (length (slot_keys (upd_nth i None sl))) = length (slot_keys sl) /\
    ~ In ki (slot_keys (upd_nth i None sl)).
  Proof.
    intros sl i ki vi ND E.
    destruct (slot_keys_upd sl i None) as (l1 & l2 & E1 & E2).
    { eapply nth_some_lt; eauto. }
    rewrite E in E1. simpl in E1, E2. rewrite E1 in ND. rewrite E1, E2.
    split; [eapply NoDup_remove_1; eauto|]. split.
    - rewrite !app_length. simpl. lia.
    - eapply NoDup_remove_2; eauto.
  Qed.

  Lemma slot_keys_claim : forall sl i k v, NoDup (slot_keys sl) -> i < length sl ->
    nth i sl None = None -> ~ In k (slot_keys sl) ->
    NoDup (slot_keys (upd_nth i (Some (k, v)) sl)) /\
    length (slot_keys (upd_nth i (Some (k, v)) sl)) = S (length (slot_keys sl)).
  Proof.
    intros sl i k v ND Hi E NI.
    destruct (slot_keys_upd sl i (Some (k, v)) Hi) as (l1 & l2 & E1 & E2).
    rewrite E in E1. simpl in E1, E2. rewrite E1 in ND, NI. rewrite E1, E2. split.
    - eapply Permutation_NoDup; [apply Permutation_middle|]. constructor; auto.
    - rewrite !app_length. simpl. lia.
  Qed.

  Lemma slot_keys_update : forall sl i k v v0, nth i sl None = Some (k, v0) ->
    slot_keys (upd_nth i (Some (k, v)) sl) = slot_keys sl.
  Proof.
    intros sl i k v v0 E.
    destruct (slot_keys_upd sl i (Some (k, v))) as (l1 & l2 & E1 & E2).
    { eapply nth_some_lt; eauto. }
    rewrite E in E1. simpl in E1, E2. congruence.
  Qed.

  Lemma slot_keys_repeat_none : forall n, slot_keys (repeat None n) = [].
  Proof. induction n; simpl; auto. Qed.

  (* ---------------- rr_get in terms of the slot array ---------------- *)
  Lemma rr_get_none_iff : forall (s : rr K V) k,
    rr_get s k = None <-> ~ In k (slot_keys (rr_slots s)).
  Proof.
    intros s k. rewrite <- (lookup_from_none (rr_slots s) 0 k).
    unfold rr_get, rr_find, rr_lookup.
    destruct (rr_lookup_from 0 (rr_slots s) k) as [[i v]|]; split; intros E; try discriminate; auto.
  Qed.

  Lemma rr_get_nth : forall (s : rr K V) i k v, NoDup (slot_keys (rr_slots s)) ->
    nth i (rr_slots s) None = Some (k, v) -> rr_get s k = Some (v, None).
  Proof.
    intros s i k v ND E. unfold rr_get, rr_find, rr_lookup.
    rewrite (lookup_from_nth _ 0 i k v ND E). reflexivity.
  Qed.

  Lemma rr_get_some : forall (s : rr K V) k x, rr_get s k = Some x ->
    exists i v, x = (v, None) /\ nth i (rr_slots s) None = Some (k, v).
  Proof.
    unfold rr_get, rr_find, rr_lookup. intros s k x.
    destruct (rr_lookup_from 0 (rr_slots s) k) as [[i v]|] eqn:L; [|discriminate].
    intros E; inversion E; subst. apply lookup_from_some in L. destruct L as [_ L].
    rewrite Nat.sub_0_r in L. eauto.
  Qed.

  Lemma rr_get_congr : forall (s s' : rr K V) k,
    rr_lookup_from 0 (rr_slots s') k = rr_lookup_from 0 (rr_slots s) k ->
    rr_get s' k = rr_get s k.
  Proof. intros s s' k E. unfold rr_get, rr_find, rr_lookup. rewrite E. reflexivity. Qed.

  Lemma rr_no_deadk : forall (s : rr K V) now k, ~ deadk (rr_get s) now k.
  Proof.
    intros s now k (v & d & E & _). apply rr_get_some in E.
    destruct E as (i & v' & E & _). discriminate.
  Qed.

  Lemma rr_view_eq : forall (s : rr K V) now k, rr_view s now k = view_of (rr_get s) now k.
  Proof. intros. unfold rr_view, view_of, rr_get. destruct (rr_find s k); reflexivity. Qed.

  Lemma rr_inv_t : forall t t' (s : rr K V), rr_inv t s -> rr_inv t' s.
  Proof. intros t t' s I. exact I. Qed.

  (* ---------------- the invariant ---------------- *)
  Lemma rr_inv_init : forall cap t, 1 <= cap -> rr_inv t (rr_init cap).
  Proof.
    intros cap t Hc. unfold rr_inv, rr_init; simpl.
    rewrite repeat_length, seq_length, slot_keys_repeat_none.
    repeat split; auto; try lia.
    - intros p Hp. rewrite seq_nth by lia. lia.
    - intros p q Hp Hq. rewrite !seq_nth by lia. lia.
    - intros N. exfalso. apply N. apply nth_repeat.
    - constructor.
  Qed.

  Lemma rr_inv_in_open : forall t (s : rr K V) i, rr_inv t s -> i < rr_cap s ->
    index_of i (rr_open s) < rr_cap s /\ nth (index_of i (rr_open s)) (rr_open s) 0 = i.
  Proof.
    intros t s i (Hc1 & Hls & Hlo & Hob & Hoi & Hec & Hiff & Hnd & Hlen) Hi.
    rewrite <- Hlo at 1. apply index_of_spec. eapply perm_nth_surj; eauto.
  Qed.

  (* when full, every slot is in use *)
  Lemma rr_inv_full_slot : forall t (s : rr K V) r, rr_inv t s -> rr_end s = rr_cap s ->
    r < rr_cap s -> exists kv vv, nth r (rr_slots s) None = Some (kv, vv).
  Proof.
    intros t s r I Hfull Hr. destruct (rr_inv_in_open t s r I Hr) as [Hp Hpn].
    destruct I as (Hc1 & Hls & Hlo & Hob & Hoi & Hec & Hiff & Hnd & Hlen).
    assert (N : nth r (rr_slots s) None <> None).
    { rewrite <- Hpn. apply Hiff; lia. }
    destruct (nth r (rr_slots s) None) as [[kv vv]|]; [eauto|congruence].
  Qed.

  (* the invariant in its "permutation / back-pointer" reading *)
  Lemma rr_inv_perm : forall t (s : rr K V), rr_inv t s ->
    Permutation (rr_open s) (seq 0 (rr_cap s)) /\ NoDup (rr_open s) /\
    (forall i, i < rr_cap s ->
               (nth i (rr_slots s) None <> None <-> index_of i (rr_open s) < rr_end s)).
  Proof.
    intros t s I.
    assert (I0 := I).
    destruct I as (Hc1 & Hls & Hlo & Hob & Hoi & Hec & Hiff & Hnd & Hlen).
    assert (ND : NoDup (rr_open s)).
    { apply (NoDup_nth (rr_open s) 0). intros a b Ha Hb. apply Hoi; lia. }
    split; [|split; [exact ND|]].
    - apply NoDup_Permutation; [exact ND|apply seq_NoDup|].
      intros x. rewrite in_seq. split.
      + intros Hx. apply (In_nth _ _ 0) in Hx. destruct Hx as (p & Hp & E). subst x.
        specialize (Hob p). lia.
      + intros Hx. eapply perm_nth_surj; eauto. lia.
    - intros i Hi. destruct (rr_inv_in_open t s i I0 Hi) as [Hp Hpn].
      rewrite <- (Hiff _ Hp), Hpn. reflexivity.
  Qed.

  (* do_erase on an in-use slot *)
  Lemma erase_slot_spec : forall t t' (s : rr K V) i ki vi,
    rr_inv t s -> nth i (rr_slots s) None = Some (ki, vi) ->
    rr_inv t' (rr_erase_slot s i) /\ rr_cap (rr_erase_slot s i) = rr_cap s /\
    S (rr_end (rr_erase_slot s i)) = rr_end s /\
    rr_get (rr_erase_slot s i) ki = None /\
    (forall k', k' <> ki -> rr_get (rr_erase_slot s i) k' = rr_get s k').
  Proof.
    intros t t' s i ki vi I Hnth.
    assert (Hi : i < rr_cap s).
    { destruct I as (_ & Hls & _). rewrite <- Hls. eapply nth_some_lt; eauto. }
    destruct (rr_inv_in_open t s i I Hi) as [Hp Hpn].
    destruct I as (Hc1 & Hls & Hlo & Hob & Hoi & Hec & Hiff & Hnd & Hlen).
    set (p := index_of i (rr_open s)) in *.
    assert (Hpe : p < rr_end s).
    { apply Hiff; auto. rewrite Hpn, Hnth. discriminate. }
    set (last := rr_end s - 1).
    set (s' := rr_erase_slot s i).
    assert (Hopen' : forall q, nth q (rr_open s') 0 =
              if q =? last then nth p (rr_open s) 0
              else if q =? p then nth last (rr_open s) 0 else nth q (rr_open s) 0).
    { intros q. unfold s', rr_erase_slot; simpl. fold p. fold last.
      destruct (Nat.eqb_spec p last) as [E|NE].
      - destruct (Nat.eqb_spec q last) as [E1|NE1]; [congruence|].
        destruct (Nat.eqb_spec q p) as [E2|NE2]; [lia|reflexivity].
      - rewrite nth_swap_nth by lia. reflexivity. }
    assert (Hl' : length (rr_open s') = rr_cap s).
    { unfold s', rr_erase_slot; simpl. destruct (index_of i (rr_open s) =? rr_end s - 1); auto.
      rewrite swap_nth_length. auto. }
    assert (Hs' : rr_slots s' = upd_nth i None (rr_slots s)) by reflexivity.
    assert (He' : rr_end s' = last) by reflexivity.
    assert (Hc' : rr_cap s' = rr_cap s) by reflexivity.
    clearbody s'.
    destruct (slot_keys_erase _ _ _ _ Hnd Hnth) as (ND' & Len' & NI').
    split; [|split; [|split; [|split]]].
    - unfold rr_inv. rewrite Hc', Hs', He'.
      split; [auto|]. split; [rewrite upd_nth_length; auto|]. split; [auto|].
      split; [|split; [|split; [|split; [|split]]]].
      + intros q Hq. rewrite Hopen'.
        destruct (Nat.eqb_spec q last); [apply Hob; lia|].
        destruct (Nat.eqb_spec q p); apply Hob; lia.
      + intros q1 q2 H1 H2. rewrite !Hopen'.
        destruct (Nat.eqb_spec q1 last), (Nat.eqb_spec q1 p),
                 (Nat.eqb_spec q2 last), (Nat.eqb_spec q2 p); intros E; try lia;
          apply Hoi in E; lia.
      + lia.
      + intros q Hq. rewrite Hopen'.
        destruct (Nat.eqb_spec q last) as [E1|NE1].
        * rewrite Hpn, nth_upd_nth_eq by lia. split; [congruence|lia].
        * destruct (Nat.eqb_spec q p) as [E2|NE2].
          -- assert (NJ : nth last (rr_open s) 0 <> i).
             { intros E. rewrite <- Hpn in E. apply Hoi in E; lia. }
             rewrite nth_upd_nth_neq by auto. rewrite Hiff by lia. lia.
          -- assert (NJ : nth q (rr_open s) 0 <> i).
             { intros E. rewrite <- Hpn in E. apply Hoi in E; lia. }
             rewrite nth_upd_nth_neq by auto. rewrite Hiff by lia. lia.
      + exact ND'.
      + lia.
    - exact Hc'.
    - rewrite He'. lia.
    - apply rr_get_none_iff. rewrite Hs'. exact NI'.
    - intros k' Nk. apply rr_get_congr. rewrite Hs'. apply lookup_upd_other.
      + intros v. rewrite Hnth. congruence.
      + intros v. discriminate.
  Qed.

  (* claiming the first free slot of the open list for a new key *)
  Lemma claim_spec : forall t t' (s : rr K V) k v,
    rr_inv t s -> rr_end s < rr_cap s -> rr_get s k = None ->
    let s' := {| rr_cap := rr_cap s;
                 rr_slots := upd_nth (nth (rr_end s) (rr_open s) 0) (Some (k, v)) (rr_slots s);
                 rr_open := rr_open s; rr_end := S (rr_end s) |} in
    rr_inv t' s' /\ rr_get s' k = Some (v, None) /\
    (forall k', k' <> k -> rr_get s' k' = rr_get s k').
  Proof.
    intros t t' s k v (Hc1 & Hls & Hlo & Hob & Hoi & Hec & Hiff & Hnd & Hlen) Hlt Hg s'.
    set (idx := nth (rr_end s) (rr_open s) 0) in *.
    assert (Hidx : idx < rr_cap s) by (apply Hob; lia).
    assert (Hfree : nth idx (rr_slots s) None = None).
    { destruct (nth idx (rr_slots s) None) eqn:E; auto.
      exfalso. assert (L : rr_end s < rr_end s); [|lia]. apply Hiff; [lia|].
      fold idx. congruence. }
    apply rr_get_none_iff in Hg.
    destruct (slot_keys_claim (rr_slots s) idx k v Hnd) as [ND' Len']; auto; try lia.
    assert (I' : rr_inv t' s').
    { unfold rr_inv, s'; simpl. rewrite upd_nth_length.
      split; [auto|]. split; [auto|]. split; [auto|]. split; [auto|]. split; [auto|].
      split; [lia|]. split; [|split; [auto|lia]].
      intros p Hp. destruct (Nat.eq_dec (nth p (rr_open s) 0) idx) as [E|NE].
      - assert (p = rr_end s) by (apply Hoi; auto; lia). subst p.
        rewrite E, nth_upd_nth_eq by lia. split; [lia|congruence].
      - rewrite nth_upd_nth_neq by auto. rewrite Hiff by auto.
        assert (p <> rr_end s) by (intros E; apply NE; subst p; reflexivity). lia. }
    split; [exact I'|]. split.
    - apply (rr_get_nth s' idx); [exact ND'|]. unfold s'; simpl. apply nth_upd_nth_eq. lia.
    - intros k' Nk. apply rr_get_congr. unfold s'; simpl. apply lookup_upd_other.
      + intros v'. rewrite Hfree. discriminate.
      + intros v' E. inversion E. congruence.
  Qed.

  (* overwriting the value of a resident key in place *)
  Lemma update_spec : forall t t' (s : rr K V) k v i v0,
    rr_inv t s -> nth i (rr_slots s) None = Some (k, v0) ->
    let s' := {| rr_cap := rr_cap s; rr_slots := upd_nth i (Some (k, v)) (rr_slots s);
                 rr_open := rr_open s; rr_end := rr_end s |} in
    rr_inv t' s' /\ rr_get s' k = Some (v, None) /\
    (forall k', k' <> k -> rr_get s' k' = rr_get s k').
  Proof.
    intros t t' s k v i v0 (Hc1 & Hls & Hlo & Hob & Hoi & Hec & Hiff & Hnd & Hlen) Hnth s'.
    assert (Hi : i < length (rr_slots s)) by (eapply nth_some_lt; eauto).
    pose proof (slot_keys_update (rr_slots s) i k v v0 Hnth) as SK.
    assert (I' : rr_inv t' s').
    { unfold rr_inv, s'; simpl. rewrite upd_nth_length, SK.
      split; [auto|]. split; [auto|]. split; [auto|]. split; [auto|]. split; [auto|].
      split; [lia|]. split; [|split; auto].
      intros p Hp. destruct (Nat.eq_dec (nth p (rr_open s) 0) i) as [E|NE].
      - rewrite E, nth_upd_nth_eq by lia. rewrite <- (Hiff p Hp), E, Hnth.
        split; congruence.
      - rewrite nth_upd_nth_neq by auto. apply Hiff; auto. }
    split; [exact I'|]. split.
    - apply (rr_get_nth s' i).
      + unfold s'; simpl. rewrite SK. exact Hnd.
      + unfold s'; simpl. apply nth_upd_nth_eq. lia.
    - intros k' Nk. apply rr_get_congr. unfold s'; simpl. apply lookup_upd_other.
      + intros v'. rewrite Hnth. congruence.
      + intros v' E. inversion E. congruence.
  Qed.

  (* ---------------- do_insert_update and erase: full effect on the content ------------- *)
  Lemma rr_ins_spec : forall t t' (s : rr K V) k v a rnd s' b rnd',
    rr_inv t s -> rr_rnd_ok s rnd -> rr_ins s k v a rnd = (s', b, rnd') ->
    rr_inv t' s' /\ rr_cap s' = rr_cap s /\
    ( (b = false /\ s' = s /\ rnd' = rnd /\
         ((rr_get s k <> None /\ a_upd a = false) \/ (rr_get s k = None /\ a_ins a = false)))
    \/ (b = true /\ rr_get s k <> None /\ a_upd a = true /\ rr_end s' = rr_end s /\ rnd' = rnd /\
         rr_get s' k = Some (v, None) /\ (forall k', k' <> k -> rr_get s' k' = rr_get s k'))
    \/ (b = true /\ rr_get s k = None /\ a_ins a = true /\ rr_end s < rr_cap s /\
         rr_end s' = S (rr_end s) /\ rnd' = rnd /\
         rr_get s' k = Some (v, None) /\ (forall k', k' <> k -> rr_get s' k' = rr_get s k'))
    \/ (b = true /\ rr_get s k = None /\ a_ins a = true /\ rr_end s = rr_cap s /\
         rr_end s' = rr_cap s /\ rnd' = tl rnd /\ rr_get s' k = Some (v, None) /\
         exists kv vv, hd 0 rnd < rr_cap s /\
           nth (hd 0 rnd) (rr_slots s) None = Some (kv, vv) /\ kv <> k /\
           rr_get s kv = Some (vv, None) /\ rr_get s' kv = None /\
           (forall k', k' <> k -> k' <> kv -> rr_get s' k' = rr_get s k')) ).
  Proof.
    intros t t' s k v a rnd s' b rnd' I Hrnd E. unfold rr_ins in E.
    destruct (rr_lookup s k) as [[i v0]|] eqn:L.
    - assert (Hnth : nth i (rr_slots s) None = Some (k, v0)).
      { unfold rr_lookup in L. apply lookup_from_some in L. destruct L as [_ L].
        rewrite Nat.sub_0_r in L. exact L. }
      assert (Hg : rr_get s k <> None).
      { unfold rr_get, rr_find. rewrite L. discriminate. }
      destruct (a_upd a) eqn:Ea.
      + injection E as Es Eb Er. subst s' b rnd'.
        destruct (update_spec t t' s k v i v0 I Hnth) as (I' & G1 & G2).
        split; [exact I'|]. split; [reflexivity|]. right; left.
        split; [reflexivity|]. split; [exact Hg|]. split; [reflexivity|].
        split; [reflexivity|]. split; [reflexivity|]. split; [exact G1|exact G2].
      + injection E as Es Eb Er. subst s' b rnd'.
        split; [exact I|]. split; [reflexivity|]. left. auto 10.
    - assert (Hg : rr_get s k = None).
      { unfold rr_get, rr_find. rewrite L. reflexivity. }
      destruct (a_ins a) eqn:Ea.
      + destruct (Nat.leb_spec (rr_cap s) (rr_end s)) as [Hfull|Hnf].
        * assert (Hend : rr_end s = rr_cap s).
          { destruct I as (_ & _ & _ & _ & _ & Hec & _). lia. }
          assert (Hc1 : 1 <= rr_cap s) by (destruct I as (Hc1 & _); exact Hc1).
          destruct (Nat.ltb_spec 0 (rr_end s)) as [Hpos|Hz]; [|lia].
          destruct (Hrnd Hfull) as (r & rest & Er & Hr). subst rnd.
          simpl hd in *. simpl tl in *.
          assert (Hrc : r < rr_cap s) by lia.
          destruct (rr_inv_full_slot t s r I Hend Hrc) as (kv & vv & Hv).
          destruct (erase_slot_spec t t s r kv vv I Hv) as (I1 & C1 & E1 & G1 & F1).
          assert (Gkv : rr_get s kv = Some (vv, None)).
          { eapply rr_get_nth; eauto. destruct I as (_ & _ & _ & _ & _ & _ & _ & Hnd & _). exact Hnd. }
          assert (Nk : kv <> k) by (intros Ek; subst kv; congruence).
          set (s1 := rr_erase_slot s r) in *.
          cbv beta iota zeta in E. injection E as Es Eb Er. subst s' b rnd'.
          destruct (claim_spec t t' s1 k v I1) as (I' & G' & F').
          { lia. }
          { rewrite F1 by auto. exact Hg. }
          split; [exact I'|]. split; [exact C1|]. right; right; right.
          split; [reflexivity|]. split; [exact Hg|]. split; [reflexivity|].
          split; [exact Hend|]. split; [simpl; lia|]. split; [reflexivity|].
          split; [exact G'|]. exists kv, vv.
          split; [exact Hrc|]. split; [exact Hv|]. split; [exact Nk|]. split; [exact Gkv|].
          split.
          -- rewrite F' by auto. exact G1.
          -- intros k' N1 N2. rewrite F' by auto. apply F1; auto.
        * injection E as Es Eb Er. subst s' b rnd'.
          destruct (claim_spec t t' s k v I Hnf Hg) as (I' & G' & F').
          split; [exact I'|]. split; [reflexivity|]. right; right; left.
          split; [reflexivity|]. split; [exact Hg|]. split; [reflexivity|].
          split; [exact Hnf|]. split; [reflexivity|]. split; [reflexivity|].
          split; [exact G'|exact F'].
      + injection E as Es Eb Er. subst s' b rnd'.
        split; [exact I|]. split; [reflexivity|]. left. auto 10.
  Qed.

  Lemma rr_erase_spec : forall t t' (s : rr K V) k s' b,
    rr_inv t s -> rr_erase s k = (s', b) ->
    rr_inv t' s' /\ rr_cap s' = rr_cap s /\ rr_get s' k = None /\
    (forall k', k' <> k -> rr_get s' k' = rr_get s k') /\
    (b = true -> rr_get s k <> None /\ S (rr_end s') = rr_end s) /\
    (b = false -> s' = s /\ rr_get s k = None).
  Proof.
    intros t t' s k s' b I E. unfold rr_erase in E.
    destruct (rr_lookup s k) as [[i v0]|] eqn:L.
    - assert (Hnth : nth i (rr_slots s) None = Some (k, v0)).
      { unfold rr_lookup in L. apply lookup_from_some in L. destruct L as [_ L].
        rewrite Nat.sub_0_r in L. exact L. }
      assert (Hg : rr_get s k <> None).
      { unfold rr_get, rr_find. rewrite L. discriminate. }
      injection E as Es Eb. subst s' b.
      destruct (erase_slot_spec t t' s i k v0 I Hnth) as (I1 & C1 & E1 & G1 & F1).
      split; [exact I1|]. split; [exact C1|]. split; [exact G1|]. split; [exact F1|].
      split; [auto|discriminate].
    - assert (Hg : rr_get s k = None).
      { unfold rr_get, rr_find. rewrite L. reflexivity. }
      injection E as Es Eb. subst s' b.
      split; [exact I|]. split; [reflexivity|]. split; [exact Hg|]. split; [auto|].
      split; [discriminate|auto].
  Qed.

  Lemma eqb_false_ne : forall a b : K, eqb a b = false -> a <> b.
  Proof. intros a b E. destruct (eqb_spec a b); congruence. Qed.

  Lemma lost_live_frame : forall (g g' : amap K V) now k, g' k = g k -> ~ lost_live g g' now k.
  Proof. intros g g' now k E [(v & d & G & _) N]. congruence. Qed.

  (* ---------------- the ModelOK fields ---------------- *)
  Lemma rr_ok_keys_get : forall t (s : rr K V) k, rr_inv t s ->
    (In k (slot_keys (rr_slots s)) <-> rr_get s k <> None).
  Proof.
    intros t s k _. pose proof (rr_get_none_iff s k) as E. split.
    - intros I N. apply E in N. auto.
    - intros N. destruct (in_dec (fun a b => reflect_dec _ _ (eqb_spec a b)) k (slot_keys (rr_slots s))) as [I|NI]; auto.
      exfalso. apply N. apply E. exact NI.
  Qed.

  Lemma rr_ok_inv_step : forall t (s : rr K V) o now rnd s' r,
    rr_inv t s -> (t <= now)%Z -> single o = true -> rr_rnd_ok s rnd ->
    rr_step s o now rnd = (s', r) -> rr_inv now s' /\ rr_cap s' = rr_cap s.
  Proof.
    intros t s o now rnd s' r I Ht Hs Hrnd E.
    destruct o; try discriminate Hs; unfold rr_step in E;
      try (inversion E; subst; split; [exact I|reflexivity]).
    - destruct (rr_ins s k v a rnd) as [[s1 b] rnd1] eqn:EI. inversion E; subst.
      destruct (rr_ins_spec t now _ _ _ _ _ _ _ _ I Hrnd EI) as (I' & C' & _). auto.
    - destruct (rr_erase s k) as [s1 b] eqn:EE. inversion E; subst.
      destruct (rr_erase_spec t now _ _ _ _ I EE) as (I' & C' & _). auto.
  Qed.

  Lemma rr_ok_no_appear : forall t (s : rr K V) o now rnd s' r k',
    rr_inv t s -> (t <= now)%Z -> single o = true -> rr_rnd_ok s rnd ->
    rr_step s o now rnd = (s', r) -> touches o k' = false ->
    rr_get s' k' <> None -> rr_get s' k' = rr_get s k'.
  Proof.
    intros t s o now rnd s' r k' I Ht Hs Hrnd E Htc Hg.
    destruct o; try discriminate Hs; try discriminate Htc; unfold rr_step in E;
      try (inversion E; subst; reflexivity).
    - simpl in Htc. apply eqb_false_ne in Htc.
      destruct (rr_ins s k v a rnd) as [[s1 b] rnd1] eqn:EI. inversion E; subst.
      destruct (rr_ins_spec t now _ _ _ _ _ _ _ _ I Hrnd EI) as (_ & _ & [C|[C|[C|C]]]).
      + destruct C as (_ & -> & _). reflexivity.
      + destruct C as (_ & _ & _ & _ & _ & _ & F). apply F. congruence.
      + destruct C as (_ & _ & _ & _ & _ & _ & _ & F). apply F. congruence.
      + destruct C as (_ & _ & _ & _ & _ & _ & _ & kv & vv & _ & _ & _ & _ & G & F).
        destruct (eqb_spec k' kv) as [Ek|Nk]; [subst k'; contradiction|].
        apply F; congruence.
    - simpl in Htc. apply eqb_false_ne in Htc.
      destruct (rr_erase s k) as [s1 b] eqn:EE. inversion E; subst.
      destruct (rr_erase_spec t now _ _ _ _ I EE) as (_ & _ & _ & F & _). apply F. congruence.
  Qed.

  Lemma rr_ok_loss : forall t (s : rr K V) o now rnd s' r k',
    rr_inv t s -> (t <= now)%Z -> single o = true -> rr_rnd_ok s rnd ->
    rr_step s o now rnd = (s', r) -> touches o k' = false ->
    lost_live (rr_get s) (rr_get s') now k' ->
    true = true /\
    (exists ttl k v a, o = Insert ttl k v a /\ r = RB true /\ rr_get s k = None) /\
    rr_end s = rr_cap s /\ rr_end s' = rr_cap s /\
    (forall k'', ~ deadk (rr_get s) now k'') /\
    (forall k'', touches o k'' = false -> lost_live (rr_get s) (rr_get s') now k'' -> k'' = k').
  Proof.
    intros t s o now rnd s' r k' I Ht Hs Hrnd E Htc HL.
    destruct o; try discriminate Hs; try discriminate Htc; unfold rr_step in E;
      try (inversion E; subst; exfalso; revert HL; apply lost_live_frame; reflexivity).
    - simpl in Htc. apply eqb_false_ne in Htc.
      destruct (rr_ins s k v a rnd) as [[s1 b] rnd1] eqn:EI. inversion E; subst.
      destruct (rr_ins_spec t now _ _ _ _ _ _ _ _ I Hrnd EI) as (_ & _ & [C|[C|[C|C]]]).
      + destruct C as (_ & -> & _). exfalso; revert HL; apply lost_live_frame; reflexivity.
      + destruct C as (_ & _ & _ & _ & _ & _ & F).
        exfalso; revert HL; apply lost_live_frame. apply F. congruence.
      + destruct C as (_ & _ & _ & _ & _ & _ & _ & F).
        exfalso; revert HL; apply lost_live_frame. apply F. congruence.
      + destruct C as (-> & Gk & _ & Hfull & Hfull' & _ & _ & kv & vv & _ & _ & _ & _ & G & F).
        assert (U : forall k'', k'' <> k -> lost_live (rr_get s) (rr_get s') now k'' -> k'' = kv).
        { intros k'' N1 HL'. destruct (eqb_spec k'' kv) as [Ek|Nk]; auto.
          exfalso; revert HL'; apply lost_live_frame. apply F; auto. }
        split; [reflexivity|]. split; [exists ttl, k, v, a; auto|].
        split; [exact Hfull|]. split; [exact Hfull'|]. split; [intros k''; apply rr_no_deadk|].
        intros k'' Htc' HL'. simpl in Htc'. apply eqb_false_ne in Htc'.
        rewrite (U k'), (U k''); auto; congruence.
    - simpl in Htc. apply eqb_false_ne in Htc.
      destruct (rr_erase s k) as [s1 b] eqn:EE. inversion E; subst.
      destruct (rr_erase_spec t now _ _ _ _ I EE) as (_ & _ & _ & F & _).
      exfalso; revert HL; apply lost_live_frame. apply F. congruence.
  Qed.

  Lemma rr_ok_ins : forall t (s : rr K V) ttl k v a now rnd s' r,
    rr_inv t s -> (t <= now)%Z -> rr_rnd_ok s rnd ->
    rr_step s (Insert ttl k v a) now rnd = (s', r) ->
    exists b, r = RB b /\
      (livek (rr_get s) now k -> b = a_upd a) /\
      (rr_get s k = None -> b = a_ins a) /\
      (deadk (rr_get s) now k -> (a_ins a = true -> b = true) /\
                                 (b = true -> a_ins a = true \/ a_upd a = true)) /\
      (b = true -> rr_get s' k = Some (v, @None Z)) /\
      (b = false -> keeps (rr_get s) (rr_get s') now k) /\
      (true = true -> b = true -> rr_get s k = None ->
         rr_end s' = if rr_end s <? rr_cap s then S (rr_end s) else rr_cap s).
  Proof.
    intros t s ttl k v a now rnd s' r I Ht Hrnd E. unfold rr_step in E.
    destruct (rr_ins s k v a rnd) as [[s1 b] rnd1] eqn:EI. inversion E; subst.
    exists b. split; [reflexivity|].
    assert (LV : livek (rr_get s') now k -> rr_get s' k <> None).
    { intros (v' & d & G & _). congruence. }
    assert (LK : livek (rr_get s) now k -> rr_get s k <> None).
    { intros (v' & d & G & _). congruence. }
    split; [|split; [|split; [intros D; exfalso; revert D; apply rr_no_deadk|]]].
    - intros Hl. apply LK in Hl.
      destruct (rr_ins_spec t now _ _ _ _ _ _ _ _ I Hrnd EI) as (_ & _ & [C|[C|[C|C]]]).
      + destruct C as (-> & _ & _ & [[_ Ea]|[G _]]); congruence.
      + destruct C as (-> & _ & Ea & _). congruence.
      + destruct C as (_ & G & _). congruence.
      + destruct C as (_ & G & _). congruence.
    - intros Hn.
      destruct (rr_ins_spec t now _ _ _ _ _ _ _ _ I Hrnd EI) as (_ & _ & [C|[C|[C|C]]]).
      + destruct C as (-> & _ & _ & [[G _]|[_ Ea]]); congruence.
      + destruct C as (_ & G & _). congruence.
      + destruct C as (-> & _ & Ea & _). congruence.
      + destruct C as (-> & _ & Ea & _). congruence.
    - destruct (rr_ins_spec t now _ _ _ _ _ _ _ _ I Hrnd EI) as (_ & _ & [C|[C|[C|C]]]).
      + destruct C as (-> & -> & _). split; [discriminate|]. split; [left; reflexivity|discriminate].
      + destruct C as (-> & G & _ & _ & _ & G' & _).
        split; [auto|]. split; [discriminate|]. intros _ _ Hn. congruence.
      + destruct C as (-> & _ & _ & Hlt & He & _ & G' & _).
        split; [auto|]. split; [discriminate|]. intros _ _ _.
        destruct (Nat.ltb_spec (rr_end s) (rr_cap s)); lia.
      + destruct C as (-> & _ & _ & Hfull & He & _ & G' & _).
        split; [auto|]. split; [discriminate|]. intros _ _ _.
        destruct (Nat.ltb_spec (rr_end s) (rr_cap s)); lia.
  Qed.

  Lemma rr_ok_erase : forall t (s : rr K V) k now rnd s' r,
    rr_inv t s -> (t <= now)%Z -> rr_rnd_ok s rnd ->
    rr_step s (Erase k) now rnd = (s', r) ->
    exists b, r = RB b /\ rr_get s' k = None /\
      (livek (rr_get s) now k -> b = true) /\ (b = true -> rr_get s k <> None).
  Proof.
    intros t s k now rnd s' r I Ht Hrnd E. unfold rr_step in E.
    destruct (rr_erase s k) as [s1 b] eqn:EE. inversion E; subst.
    destruct (rr_erase_spec t now _ _ _ _ I EE) as (_ & _ & G & _ & Bt & Bf).
    exists b. split; [reflexivity|]. split; [exact G|]. split.
    - intros (v' & d & Gk & _). destruct b; auto. destruct (Bf eq_refl) as [_ N]. congruence.
    - intros Eb. apply Bt; auto.
  Qed.

  Global Instance rr_ok : ModelOK rr_model.
  Proof.
    constructor; simpl.
    - intros t s (_ & _ & _ & _ & _ & _ & _ & Hnd & _). exact Hnd.
    - exact rr_ok_keys_get.
    - intros t s (_ & _ & _ & _ & _ & _ & _ & _ & Hlen). symmetry. exact Hlen.
    - intros t s (_ & _ & _ & _ & _ & Hec & _) _. exact Hec.
    - intros t t' s I _. exact I.
    - intros t s now k _ _. apply rr_view_eq.
    - exact rr_ok_inv_step.
    - exact rr_ok_no_appear.
    - exact rr_ok_loss.
    - intros t s k pk now rnd s' r _ _ _ E. inversion E; subst. split; [reflexivity|].
      unfold rr_view, rr_get. intros ->. reflexivity.
    - intros t s k pk now rnd s' r _ _ _ E. inversion E; subst. auto.
    - exact rr_ok_ins.
    - exact rr_ok_erase.
    - intros t s now rnd s' r _ _ _ E. inversion E; subst. auto.
    - intros t s now rnd s' r _ _ _ E. inversion E; subst. auto.
    - reflexivity.
    - reflexivity.
    - reflexivity.
    - intros t s now rnd s' r _ _ E k. inversion E; subst. reflexivity.
    - intros t s d now rnd s' r _ _ E k. inversion E; subst. reflexivity.
  Qed.

  (* ---------------- C15 ---------------- *)
  Definition rr_victim (s : rr K V) (r : nat) : option K :=
    match nth r (rr_slots s) None with Some (k, _) => Some k | None => None end.

  (* a successful insert of a new key into a full cache with draw r removes exactly the
     entry in slot r: one prior resident, never the new key, never a free slot; size stays *)
  Theorem rr_evicts_slot_r : forall t (s : rr K V) ttl k v a now r rest,
      rr_inv t s -> rr_end s = rr_cap s -> rr_get s k = None -> a_ins a = true -> r < rr_cap s ->
      exists s' kv,
        rr_step s (Insert ttl k v a) now (r :: rest) = (s', RB true) /\
        rr_victim s r = Some kv /\ kv <> k /\ rr_get s kv <> None /\ rr_get s' kv = None /\
        (forall k', k' <> k -> k' <> kv -> rr_get s' k' = rr_get s k') /\
        rr_get s' k = Some (v, None) /\ rr_end s' = rr_cap s.
  Proof.
    intros t s ttl k v a now r rest I Hfull Hg Ha Hr.
    assert (Hrnd : rr_rnd_ok s (r :: rest)).
    { intros _. exists r, rest. split; [reflexivity|lia]. }
    unfold rr_step.
    destruct (rr_ins s k v a (r :: rest)) as [[s1 b] rnd1] eqn:EI.
    destruct (rr_ins_spec t t _ _ _ _ _ _ _ _ I Hrnd EI) as (_ & _ & [C|[C|[C|C]]]).
    - destruct C as (_ & _ & _ & [[G _]|[_ Ea]]); congruence.
    - destruct C as (_ & G & _). congruence.
    - destruct C as (_ & _ & _ & Hlt & _). lia.
    - destruct C as (-> & _ & _ & _ & He & _ & G' & kv & vv & _ & Hv & Nk & Gkv & G1 & F).
      simpl hd in *. exists s1, kv. split; [reflexivity|].
      split; [unfold rr_victim; rewrite Hv; reflexivity|]. split; [exact Nk|].
      split; [congruence|]. split; [exact G1|]. split; [exact F|]. split; [exact G'|exact He].
  Qed.

  (* when the cache is full the map draw |-> victim is a bijection from [0, size) onto the
     residents: every resident is chosen by exactly one draw (a uniform draw gives a uniform
     victim; no position is immune, none is certain when size > 1) *)
  Theorem rr_victim_bijection : forall t (s : rr K V),
      rr_inv t s -> rr_end s = rr_cap s ->
      (forall r, r < rr_cap s -> exists kv, rr_victim s r = Some kv /\ rr_get s kv <> None) /\
      (forall r1 r2 kv, r1 < rr_cap s -> r2 < rr_cap s ->
                        rr_victim s r1 = Some kv -> rr_victim s r2 = Some kv -> r1 = r2) /\
      (forall kv, rr_get s kv <> None -> exists r, r < rr_cap s /\ rr_victim s r = Some kv).
  Proof.
    intros t s I Hfull.
    assert (Hnd : NoDup (slot_keys (rr_slots s))).
    { destruct I as (_ & _ & _ & _ & _ & _ & _ & Hnd & _). exact Hnd. }
    assert (Hls : length (rr_slots s) = rr_cap s).
    { destruct I as (_ & Hls & _). exact Hls. }
    split; [|split].
    - intros r Hr. destruct (rr_inv_full_slot t s r I Hfull Hr) as (kv & vv & Hv).
      exists kv. split; [unfold rr_victim; rewrite Hv; reflexivity|].
      rewrite (rr_get_nth s r kv vv Hnd Hv). discriminate.
    - intros r1 r2 kv _ _. unfold rr_victim.
      destruct (nth r1 (rr_slots s) None) as [[k1 v1]|] eqn:E1; [|discriminate].
      destruct (nth r2 (rr_slots s) None) as [[k2 v2]|] eqn:E2; [|discriminate].
      intros X1 X2. inversion X1; inversion X2; subst.
      eapply slots_key_inj; eauto.
    - intros kv Hg. destruct (rr_get s kv) as [x|] eqn:G; [|congruence].
      apply rr_get_some in G. destruct G as (i & v & _ & Hv).
      exists i. split.
      + rewrite <- Hls. eapply nth_some_lt; eauto.
      + unfold rr_victim. rewrite Hv. reflexivity.
  Qed.

  (* an insert into a non-full cache evicts nothing and consumes no draw *)
  Theorem rr_no_eviction_when_not_full : forall t (s : rr K V) ttl k v a now rnd s',
      rr_inv t s -> rr_end s < rr_cap s -> rr_get s k = None ->
      rr_step s (Insert ttl k v a) now rnd = (s', RB true) ->
      (forall k', k' <> k -> rr_get s' k' = rr_get s k') /\ rr_end s' = S (rr_end s).
  Proof.
    intros t s ttl k v a now rnd s' I Hlt Hg E.
    assert (Hrnd : rr_rnd_ok s rnd) by (intros L; lia).
    unfold rr_step in E.
    destruct (rr_ins s k v a rnd) as [[s1 b] rnd1] eqn:EI. inversion E; subst.
    destruct (rr_ins_spec t t _ _ _ _ _ _ _ _ I Hrnd EI) as (_ & _ & [C|[C|[C|C]]]).
    - destruct C as (Eb & _). discriminate.
    - destruct C as (_ & G & _). congruence.
    - destruct C as (_ & _ & _ & _ & He & _ & _ & F). auto.
    - destruct C as (_ & _ & _ & Hfull & _). lia.
  Qed.

  (* ---------------- C19 ---------------- *)
  Lemma rr_find_noop : forall (s : rr K V) k pk now rnd, fst (rr_step s (Find k pk) now rnd) = s.
  Proof. reflexivity. Qed.
  Lemma rr_rejected_insert_noop : forall (s : rr K V) ttl k v a now rnd s',
      rr_step s (Insert ttl k v a) now rnd = (s', RB false) -> s' = s.
  Proof.
    intros s ttl k v a now rnd s'. unfold rr_step, rr_ins.
    destruct (rr_lookup s k) as [[i v0]|].
    - destruct (a_upd a); intros E; inversion E; reflexivity.
    - destruct (a_ins a).
      + destruct (rr_cap s <=? rr_end s); [destruct (0 <? rr_end s)|]; intros E; inversion E.
      + intros E; inversion E; reflexivity.
  Qed.
  Lemma rr_erase_absent_noop : forall (s : rr K V) k now rnd s',
      rr_step s (Erase k) now rnd = (s', RB false) -> s' = s.
  Proof.
    intros s k now rnd s'. unfold rr_step, rr_erase.
    destruct (rr_lookup s k) as [[i v0]|]; intros E; inversion E; reflexivity.
  Qed.
End RrFacts.
