(* RrFacts.v — proofs about the rr_cache model (Rr.v): the representation invariant of
   the open-list permutation, the ModelOK instance (Spec.v), random replacement (C15),
   no-effect calls (C19). *)
Require Import Capp.Base Capp.Spec Capp.Rr.
From Coq Require Import Permutation.

Section RrFacts.
  Context {K V : Type} `{EqDec K}.

  Definition slot_keys (sl : list (option (K * V))) : list K :=
    flat_map (fun o => match o with Some (k, _) => [k] | None => [] end) sl.

  (* the open list is a permutation of the slot numbers, the in-use slots are exactly
     the first rr_end entries of it, keys are distinct *)
  Definition rr_inv (t : Z) (s : rr K V) : Prop :=
    1 <= rr_cap s /\ length (rr_slots s) = rr_cap s /\
    Permutation (rr_open s) (seq 0 (rr_cap s)) /\ rr_end s <= rr_cap s /\
    (forall i, i < rr_cap s ->
               (nth i (rr_slots s) None <> None <-> index_of i (rr_open s) < rr_end s)) /\
    NoDup (slot_keys (rr_slots s)).

  (* an insert that has to evict is handed a draw in [0, size-1] *)
  Definition rr_rnd_ok (s : rr K V) (rnd : list nat) : Prop :=
    rr_cap s <= rr_end s -> exists r rest, rnd = r :: rest /\ r < rr_end s.

  Definition rr_model : model K V := {|
    St := rr K V;
    m_step := rr_step;
    m_get := rr_get;
    m_view := rr_view;
    m_keys := fun s => slot_keys (rr_slots s);
    m_size := @rr_end K V;
    m_cap := @rr_cap K V;
    m_bounded := true;
    m_dl := fun _ _ _ => None;
    m_inv := rr_inv;
    m_rnd_ok := rr_rnd_ok;
    m_has_find_use := false;
    m_has_clean := false;
    m_has_clear := false
  |}.

  Lemma rr_inv_init : forall cap t, 1 <= cap -> rr_inv t (rr_init cap).
  Admitted.

  Global Instance rr_ok : ModelOK rr_model.
  Admitted.

  (* ---------------- C15 ---------------- *)
  Definition rr_victim (s : rr K V) (r : nat) : option K :=
    match nth r (rr_slots s) None with Some (k, _) => Some k | None => None end.

  (* a successful insert of a new key into a full cache with draw r removes exactly the
     entry in slot r: one prior resident, never the new key, never a free slot; size stays *)
  Theorem rr_evicts_slot_r : forall t (s : rr K V) ttl k v a now r rest,
      rr_inv t s -> rr_end s = rr_cap s -> rr_get s k = None -> a_ins a = true -> r < rr_cap s ->
      exists s' kv,
        rr_step s (Insert ttl k v a) now (r :: rest) = (s', RB true) /\
        rr_victim s r = Some kv /\ kv <> k /\ rr_get s kv <> None /\ rr_get s' kv = None /\
        (forall k', k' <> k -> k' <> kv -> rr_get s' k' = rr_get s k') /\
        rr_get s' k = Some (v, None) /\ rr_end s' = rr_cap s.
  Admitted.

  (* when the cache is full the map draw |-> victim is a bijection from [0, size) onto the
     residents: every resident is chosen by exactly one draw (a uniform draw gives a uniform
     victim; no position is immune, none is certain when size > 1) *)
  Theorem rr_victim_bijection : forall t (s : rr K V),
      rr_inv t s -> rr_end s = rr_cap s ->
      (forall r, r < rr_cap s -> exists kv, rr_victim s r = Some kv /\ rr_get s kv <> None) /\
      (forall r1 r2 kv, r1 < rr_cap s -> r2 < rr_cap s ->
                        rr_victim s r1 = Some kv -> rr_victim s r2 = Some kv -> r1 = r2) /\
      (forall kv, rr_get s kv <> None -> exists r, r < rr_cap s /\ rr_victim s r = Some kv).
  Admitted.

  (* an insert into a non-full cache evicts nothing and consumes no draw *)
  Theorem rr_no_eviction_when_not_full : forall t (s : rr K V) ttl k v a now rnd s',
      rr_inv t s -> rr_end s < rr_cap s -> rr_get s k = None ->
      rr_step s (Insert ttl k v a) now rnd = (s', RB true) ->
      (forall k', k' <> k -> rr_get s' k' = rr_get s k') /\ rr_end s' = S (rr_end s).
  Admitted.

  (* ---------------- C19 ---------------- *)
  Lemma rr_find_noop : forall (s : rr K V) k pk now rnd, fst (rr_step s (Find k pk) now rnd) = s.
  Admitted.
  Lemma rr_rejected_insert_noop : forall (s : rr K V) ttl k v a now rnd s',
      rr_step s (Insert ttl k v a) now rnd = (s', RB false) -> s' = s.
  Admitted.
  Lemma rr_erase_absent_noop : forall (s : rr K V) k now rnd s',
      rr_step s (Erase k) now rnd = (s', RB false) -> s' = s.
  Admitted.
End RrFacts.
