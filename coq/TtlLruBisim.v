(* TtlLruBisim.v — C19 for tlru / utlru: reaping already-expired entries is unobservable.
   Two states with the same configuration and the same LIVE entries in the same recency
   order (whatever expired entries each still holds) return the same result for every later
   call and stay related, except: size()/empty(); the count of clean_expired_values() (a
   size() difference); and an update-only insert or an erase addressed to a key that is
   expired-but-resident on one side — exactly the exceptions C19 names. *)
Require Import Capp.Base Capp.Spec Capp.TtlLru Capp.TtlLruFacts.

Section TlBisim.
  Context {K V : Type} `{EqDec K}.

  (* the live entries at [now], least recently used first *)
  Definition tl_core (now : Z) (s : tl K V) : list (K * (V * Z)) :=
    filter (fun x => (now <? snd (snd x))%Z) (tl_lru s).

  Definition tl_sim (u : bool) (t now : Z) (s1 s2 : tl K V) : Prop :=
    tl_inv u t s1 /\ tl_inv u t s2 /\ tl_cap s1 = tl_cap s2 /\ tl_ttl s1 = tl_ttl s2 /\
    tl_core now s1 = tl_core now s2.

  Definition dead_in (s : tl K V) (now : Z) (k : K) : Prop :=
    exists v e, assoc k (tl_lru s) = Some (v, e) /\ (e <= now)%Z.

  (* calls whose RESULT may legitimately differ *)
  Definition result_excepted (s1 s2 : tl K V) (now : Z) (o : op K V) : Prop :=
    match o with
    | Size | Empty | Clean => True
    | Insert _ k _ a => a_ins a = false /\ (dead_in s1 now k \/ dead_in s2 now k)
    | Erase k => dead_in s1 now k \/ dead_in s2 now k
    | _ => False
    end.
  (* calls after which the states may legitimately differ in a live entry: the update-only
     insert that revives an expired entry on one side only *)
  Definition effect_excepted (s1 s2 : tl K V) (now : Z) (o : op K V) : Prop :=
    match o with
    | Insert _ k _ a => a_ins a = false /\ (dead_in s1 now k \/ dead_in s2 now k)
    | _ => False
    end.

  (* a lookup that reaps an expired entry leads to a related state *)
  Theorem tl_reap_related : forall u t now (s : tl K V) k,
      tl_inv u t s -> dead_in s now k -> tl_sim u t now s (tl_erase_key s k).
  Admitted.

  Theorem tl_sim_refl : forall u t now (s : tl K V), tl_inv u t s -> tl_sim u t now s s.
  Admitted.

  (* relatedness survives the passage of time *)
  Theorem tl_sim_later : forall u t now now' (s1 s2 : tl K V),
      tl_sim u t now s1 s2 -> (now <= now')%Z -> tl_sim u t now' s1 s2.
  Admitted.

  (* the bisimulation step *)
  Theorem tl_reaping_unobservable : forall u t now (s1 s2 : tl K V) o rnd s1' r1 s2' r2,
      tl_sim u t now s1 s2 -> (t <= now)%Z -> single o = true ->
      tl_step s1 o now rnd = (s1', r1) -> tl_step s2 o now rnd = (s2', r2) ->
      (~ result_excepted s1 s2 now o -> r1 = r2) /\
      (~ effect_excepted s1 s2 now o -> tl_sim u now now s1' s2').
  Admitted.
End TlBisim.
