(* TtlLruBisim.v — C19 for tlru / utlru: reaping already-expired entries is unobservable.
   Two states with the same configuration and the same LIVE entries in the same recency
   order (whatever expired entries each still holds) return the same result for every later
   call and stay related, except: size()/empty(); the count of clean_expired_values() (a
   size() difference); and an update-only insert or an erase addressed to a key that is
   expired-but-resident on one side — exactly the exceptions C19 names. *)
Require Import Capp.Base Capp.Spec Capp.TtlLru Capp.TtlLruFacts.

Section TlBisim.
  Context {K V : Type} `{EqDec K}.

  (* the live entries at [now], least recently used first *)
  Definition tl_core (now : Z) (s : tl K V) : list (K * (V * Z)) :=
    filter (fun x => (now <? snd (snd x))%Z) (tl_lru s).

  Definition tl_sim (u : bool) (t now : Z) (s1 s2 : tl K V) : Prop :=
    tl_inv u t s1 /\ tl_inv u t s2 /\ tl_cap s1 = tl_cap s2 /\ tl_ttl s1 = tl_ttl s2 /\
    tl_core now s1 = tl_core now s2.

  Definition dead_in (s : tl K V) (now : Z) (k : K) : Prop :=
    exists v e, assoc k (tl_lru s) = Some (v, e) /\ (e <= now)%Z.

  (* calls whose RESULT may legitimately differ *)
  Definition result_excepted (s1 s2 : tl K V) (now : Z) (o : op K V) : Prop :=
    match o with
    | Size | Empty | Clean => True
    | Insert _ k _ a => a_ins a = false /\ (dead_in s1 now k \/ dead_in s2 now k)
    | Erase k => dead_in s1 now k \/ dead_in s2 now k
    | _ => False
    end.
  (* calls after which the states may legitimately differ in a live entry: the update-only
     insert that revives an expired entry on one side only *)
  Definition effect_excepted (s1 s2 : tl K V) (now : Z) (o : op K V) : Prop :=
    match o with
    | Insert _ k _ a => a_ins a = false /\ (dead_in s1 now k \/ dead_in s2 now k)
    | _ => False
    end.

  (* ------------------------------------------------------------------------- *)
  (* helpers                                                                    *)
  (* ------------------------------------------------------------------------- *)

  Lemma tlb_filter_remk : forall (A : Type) (p : K * A -> bool) k (l : list (K * A)),
      filter p (remk k l) = remk k (filter p l).
  Proof.
    intros A p k l. induction l as [|[k0 a0] l IH]; simpl; [reflexivity|].
    destruct (eqb k k0) eqn:E.
    - destruct (p (k0, a0)); simpl; [rewrite E|]; exact IH.
    - simpl. destruct (p (k0, a0)); simpl; [rewrite E; f_equal|]; exact IH.
  Qed.

  Lemma tlb_filter_len : forall (A : Type) (p : A -> bool) l, length (filter p l) <= length l.
  Proof.
    intros A p l. induction l as [|a l IH]; simpl; [lia|]. destruct (p a); simpl; lia.
  Qed.

  Lemma tlb_filter_full : forall (A : Type) (p : A -> bool) l,
      length l <= length (filter p l) -> filter p l = l.
  Proof.
    intros A p l. induction l as [|a l IH]; simpl; intros Hlen; [reflexivity|].
    destruct (p a); simpl in Hlen.
    - f_equal. apply IH. lia.
    - pose proof (tlb_filter_len A p l). lia.
  Qed.

  Lemma tlb_filter_later : forall now now' (l : list (K * (V * Z))), (now <= now')%Z ->
      filter (fun x => (now' <? snd (snd x))%Z) (filter (fun x => (now <? snd (snd x))%Z) l) =
      filter (fun x => (now' <? snd (snd x))%Z) l.
  Proof.
    intros now now' l Hle. induction l as [|[k [v e]] l IH]; simpl; [reflexivity|].
    destruct (Z.ltb_spec now e) as [H1|H1]; simpl.
    - destruct (Z.ltb_spec now' e) as [H2|H2]; [f_equal|]; exact IH.
    - destruct (Z.ltb_spec now' e) as [H2|H2]; [lia|exact IH].
  Qed.

  (* the live entry filed under k, if any *)
  Definition tl_livek (now : Z) (s : tl K V) (k : K) : option (V * Z) :=
    match assoc k (tl_lru s) with
    | Some (v, e) => if (now <? e)%Z then Some (v, e) else None
    | None => None
    end.

  Lemma tlb_core_assoc : forall u t now (s : tl K V) k, tl_inv u t s ->
      assoc k (tl_core now s) = tl_livek now s k.
  Proof.
    intros u t now s k (_ & _ & Hn & _). unfold tl_core, tl_livek.
    rewrite tl_assoc_filter by exact Hn.
    destruct (assoc k (tl_lru s)) as [[v e]|]; reflexivity.
  Qed.

  Lemma tlb_sim_livek : forall u t now (s1 s2 : tl K V) k, tl_sim u t now s1 s2 ->
      tl_livek now s1 k = tl_livek now s2 k.
  Proof.
    intros u t now s1 s2 k (Hi1 & Hi2 & _ & _ & Hcore).
    rewrite <- (tlb_core_assoc u t now s1 k Hi1), <- (tlb_core_assoc u t now s2 k Hi2).
    now rewrite Hcore.
  Qed.

  Lemma tlb_sim_sym : forall u t now (s1 s2 : tl K V), tl_sim u t now s1 s2 -> tl_sim u t now s2 s1.
  Proof.
    intros u t now s1 s2 (Hi1 & Hi2 & Hc & Ht & Hcore). unfold tl_sim. tl_splits; auto.
  Qed.

  Lemma tlb_core_not_live : forall u t now (s : tl K V) k, tl_inv u t s ->
      tl_livek now s k = None -> remk k (tl_core now s) = tl_core now s.
  Proof.
    intros u t now s k Hi Hl. apply tl_remk_absent. now rewrite (tlb_core_assoc u t now s k Hi).
  Qed.

  Lemma tlb_core_erase_key : forall now (s : tl K V) k,
      tl_core now (tl_erase_key s k) = remk k (tl_core now s).
  Proof. intros now s k. unfold tl_core. simpl. apply tlb_filter_remk. Qed.

  (* a full state without expired entries determines the other state's store *)
  Lemma tlb_full_live_eq : forall u t now (s1 s2 : tl K V),
      tl_sim u t now s1 s2 -> length (tl_lru s1) = tl_cap s1 ->
      (forall k v e, assoc k (tl_lru s1) = Some (v, e) -> (now < e)%Z) ->
      tl_lru s2 = tl_lru s1.
  Proof.
    intros u t now s1 s2 (Hi1 & Hi2 & Hc & _ & Hcore) Hlen Hnd.
    assert (E1 : tl_core now s1 = tl_lru s1).
    { apply tl_filter_all. intros [k [v e]] Hin. simpl.
      destruct Hi1 as (_ & _ & Hn & _). apply tl_in_assoc_nodup in Hin; [|exact Hn].
      apply Hnd in Hin. destruct (Z.ltb_spec now e); [reflexivity|lia]. }
    assert (E2 : tl_core now s2 = tl_lru s2).
    { apply tlb_filter_full. fold (tl_core now s2). rewrite <- Hcore, E1, Hlen, Hc.
      destruct Hi2 as (_ & _ & _ & Hl & _). exact Hl. }
    congruence.
  Qed.

  (* ---- insert ---- *)
  Lemma tlb_ins_result : forall (s : tl K V) k v a now e s' b,
      tl_ins s k v a now e = (s', b) ->
      b = match assoc k (tl_lru s) with
          | Some (_, e0) => a_upd a || (a_ins a && (e0 <=? now)%Z)
          | None => a_ins a
          end.
  Proof.
    intros s k v a now e s' b Hins. unfold tl_ins in Hins.
    destruct (assoc k (tl_lru s)) as [[v0 e0]|].
    - destruct (a_upd a); [inversion Hins; reflexivity|].
      destruct (a_ins a); [|inversion Hins; reflexivity].
      destruct (e0 <=? now)%Z; inversion Hins; reflexivity.
    - destruct (a_ins a); inversion Hins; reflexivity.
  Qed.

  Lemma tlb_ins_false : forall (s : tl K V) k v a now e s',
      tl_ins s k v a now e = (s', false) -> s' = s.
  Proof.
    intros s k v a now e s' Hins. unfold tl_ins in Hins.
    destruct (assoc k (tl_lru s)) as [[v0 e0]|].
    - destruct (a_upd a); [inversion Hins|].
      destruct (a_ins a); [|inversion Hins; reflexivity].
      destruct (e0 <=? now)%Z; inversion Hins; reflexivity.
    - destruct (a_ins a); inversion Hins; reflexivity.
  Qed.

  (* a successful insert either keeps the live core (moving/adding k at the recent end) or
     it evicts from a full store in which nothing is expired *)
  Lemma tlb_ins_true : forall u t (s : tl K V) k v a now e s', tl_inv u t s ->
      tl_ins s k v a now e = (s', true) ->
      tl_core now s' =
        remk k (tl_core now s) ++ filter (fun x => (now <? snd (snd x))%Z) [(k, (v, e))]
      \/ (assoc k (tl_lru s) = None /\ length (tl_lru s) = tl_cap s /\
          forall k1 v1 e1, assoc k1 (tl_lru s) = Some (v1, e1) -> (now < e1)%Z).
  Proof.
    intros u t s k v a now e s' Hi Hins.
    pose proof Hi as (_ & _ & Hn & _).
    destruct (tl_ins_cases _ _ _ _ _ _ _ _ _ _ Hi Hins)
      as [(Hb & _)|[(_ & Hs' & _)|[(_ & Ha & _ & _ & Hs')|
          (_ & Ha & _ & Hlen & kv & vv & ev & Hs' & Hkv & Hor)]]].
    - discriminate.
    - left. subst s'. unfold tl_core, tl_update, tl_with. cbn [tl_lru].
      rewrite filter_app, tlb_filter_remk. reflexivity.
    - left. subst s'. unfold tl_core, tl_with. cbn [tl_lru]. rewrite filter_app. f_equal.
      symmetry. apply tl_remk_absent. rewrite tl_assoc_filter by exact Hn. now rewrite Ha.
    - destruct Hor as [Hle|[_ Hnd]].
      + left. subst s'. unfold tl_core, tl_with. cbn [tl_lru]. rewrite filter_app. f_equal.
        rewrite (tl_filter_remk_false _ kv (vv, ev)); auto.
        * symmetry. apply tl_remk_absent. rewrite tl_assoc_filter by exact Hn. now rewrite Ha.
        * simpl. destruct (Z.ltb_spec now ev); [lia|reflexivity].
      + right. auto.
  Qed.

  Lemma tlb_ins_evict_live : forall u t (s : tl K V) k v a now e s', tl_inv u t s ->
      tl_ins s k v a now e = (s', true) ->
      assoc k (tl_lru s) = None -> length (tl_lru s) = tl_cap s ->
      (forall k1 v1 e1, assoc k1 (tl_lru s) = Some (v1, e1) -> (now < e1)%Z) ->
      exists kv x r, tl_lru s = (kv, x) :: r /\ tl_lru s' = remk kv (tl_lru s) ++ [(k, (v, e))].
  Proof.
    intros u t s k v a now e s' Hi Hins Ha Hlen Hnd.
    destruct (tl_ins_cases _ _ _ _ _ _ _ _ _ _ Hi Hins)
      as [(Hb & _)|[(_ & _ & v0 & e0 & Ha0 & _)|[(_ & _ & _ & Hlt & _)|
          (_ & _ & _ & _ & kv & vv & ev & Hs' & Hkv & Hor)]]].
    - discriminate.
    - congruence.
    - lia.
    - destruct Hor as [Hle|[(x & r & Hhead) _]].
      + apply Hnd in Hkv. lia.
      + exists kv, x, r. split; [exact Hhead|]. subst s'. reflexivity.
  Qed.

  Lemma tlb_ins_evict_pair : forall u t now (s1 s2 : tl K V) k v a e s1' s2',
      tl_sim u t now s1 s2 ->
      tl_ins s1 k v a now e = (s1', true) -> tl_ins s2 k v a now e = (s2', true) ->
      assoc k (tl_lru s1) = None -> length (tl_lru s1) = tl_cap s1 ->
      (forall k1 v1 e1, assoc k1 (tl_lru s1) = Some (v1, e1) -> (now < e1)%Z) ->
      tl_core now s1' = tl_core now s2'.
  Proof.
    intros u t now s1 s2 k v a e s1' s2' Hsim Hins1 Hins2 Ha Hlen Hnd.
    pose proof (tlb_full_live_eq u t now s1 s2 Hsim Hlen Hnd) as Hl.
    destruct Hsim as (Hi1 & Hi2 & Hc & _ & _).
    destruct (tlb_ins_evict_live u t s1 k v a now e s1' Hi1 Hins1 Ha Hlen Hnd)
      as (kv1 & x1 & r1 & Hh1 & Hs1).
    assert (Ha2 : assoc k (tl_lru s2) = None) by (rewrite Hl; exact Ha).
    assert (Hlen2 : length (tl_lru s2) = tl_cap s2) by (rewrite Hl; congruence).
    assert (Hnd2 : forall k1 v1 e1, assoc k1 (tl_lru s2) = Some (v1, e1) -> (now < e1)%Z)
      by (rewrite Hl; exact Hnd).
    destruct (tlb_ins_evict_live u t s2 k v a now e s2' Hi2 Hins2 Ha2 Hlen2 Hnd2)
      as (kv2 & x2 & r2 & Hh2 & Hs2).
    assert (Ekv : kv2 = kv1) by congruence.
    unfold tl_core. rewrite Hs1, Hs2, Hl, Ekv. reflexivity.
  Qed.

  Lemma tlb_ins_pair : forall u t now (s1 s2 : tl K V) k v a e s1' b1 s2' b2,
      tl_sim u t now s1 s2 ->
      tl_ins s1 k v a now e = (s1', b1) -> tl_ins s2 k v a now e = (s2', b2) ->
      (b1 = b2 /\ tl_core now s1' = tl_core now s2') \/
      (a_ins a = false /\ (dead_in s1 now k \/ dead_in s2 now k)).
  Proof.
    intros u t now s1 s2 k v a e s1' b1 s2' b2 Hsim Hins1 Hins2.
    assert (Hres : b1 = b2 \/ (a_ins a = false /\ (dead_in s1 now k \/ dead_in s2 now k))).
    { pose proof (tlb_ins_result _ _ _ _ _ _ _ _ Hins1) as Hb1.
      pose proof (tlb_ins_result _ _ _ _ _ _ _ _ Hins2) as Hb2.
      pose proof (tlb_sim_livek u t now s1 s2 k Hsim) as Hlk. unfold tl_livek in Hlk.
      unfold dead_in.
      destruct (assoc k (tl_lru s1)) as [[v1 e1]|] eqn:Ha1;
        destruct (assoc k (tl_lru s2)) as [[v2 e2]|] eqn:Ha2.
      - destruct (Z.ltb_spec now e1) as [L1|D1]; destruct (Z.ltb_spec now e2) as [L2|D2];
          try discriminate.
        + left. assert (e1 = e2) by congruence. subst. reflexivity.
        + left. rewrite (proj2 (Z.leb_le e1 now) D1) in Hb1.
          rewrite (proj2 (Z.leb_le e2 now) D2) in Hb2. congruence.
      - destruct (Z.ltb_spec now e1) as [L1|D1]; [discriminate|].
        rewrite (proj2 (Z.leb_le e1 now) D1) in Hb1.
        destruct (a_ins a) eqn:Hai.
        + left. rewrite orb_true_r in Hb1. congruence.
        + right. split; [reflexivity|]. left. exists v1, e1. auto.
      - destruct (Z.ltb_spec now e2) as [L2|D2]; [discriminate|].
        rewrite (proj2 (Z.leb_le e2 now) D2) in Hb2.
        destruct (a_ins a) eqn:Hai.
        + left. rewrite orb_true_r in Hb2. congruence.
        + right. split; [reflexivity|]. right. exists v2, e2. auto.
      - left. congruence. }
    destruct Hres as [Hbb|Hex]; [left|right; exact Hex].
    subst b2. split; [reflexivity|].
    pose proof Hsim as (Hi1 & Hi2 & Hc & _ & Hcore).
    destruct b1.
    - destruct (tlb_ins_true u t s1 k v a now e s1' Hi1 Hins1) as [N1|(A1 & L1 & D1)].
      + destruct (tlb_ins_true u t s2 k v a now e s2' Hi2 Hins2) as [N2|(A2 & L2 & D2)].
        * rewrite N1, N2, Hcore. reflexivity.
        * symmetry.
          exact (tlb_ins_evict_pair u t now s2 s1 k v a e s2' s1'
                   (tlb_sim_sym u t now s1 s2 Hsim) Hins2 Hins1 A2 L2 D2).
      + exact (tlb_ins_evict_pair u t now s1 s2 k v a e s1' s2' Hsim Hins1 Hins2 A1 L1 D1).
    - apply tlb_ins_false in Hins1. apply tlb_ins_false in Hins2. subst. exact Hcore.
  Qed.

  (* ---- find ---- *)
  Lemma tlb_find_one : forall u t (s : tl K V) k pk now s' r, tl_inv u t s ->
      tl_find s k pk now = (s', r) ->
      r = match tl_livek now s k with Some (v, _) => Some v | None => None end /\
      tl_core now s' =
        match tl_livek now s k with
        | Some (v, e) => if pk then tl_core now s else remk k (tl_core now s) ++ [(k, (v, e))]
        | None => tl_core now s
        end.
  Proof.
    intros u t s k pk now s' r Hi Hf. pose proof Hi as (_ & _ & Hn & _). unfold tl_livek.
    destruct (tl_find_cases _ _ _ _ _ _ Hf)
      as [(Ha & Hs' & Hr)|[(v & e & Ha & Hlt & Hr & Hs')|(v & e & Ha & Hle & Hr & Hs')]];
      subst; rewrite Ha.
    - split; reflexivity.
    - destruct (Z.ltb_spec now e) as [_|Hc]; [|lia]. split; [reflexivity|].
      destruct pk; [reflexivity|].
      unfold tl_core, tl_with. cbn [tl_lru]. rewrite filter_app, tlb_filter_remk. f_equal.
      simpl. destruct (Z.ltb_spec now e); [reflexivity|lia].
    - destruct (Z.ltb_spec now e) as [Hc|_]; [lia|]. split; [reflexivity|].
      unfold tl_core, tl_erase_key, tl_with. cbn [tl_lru].
      apply (tl_filter_remk_false _ k (v, e)); auto.
      simpl. destruct (Z.ltb_spec now e); [lia|reflexivity].
  Qed.

  (* ---- erase ---- *)
  Lemma tlb_erase_one : forall u t now (s : tl K V) k s' b, tl_inv u t s ->
      tl_erase s k = (s', b) ->
      b = (match assoc k (tl_lru s) with Some _ => true | None => false end) /\
      tl_core now s' = remk k (tl_core now s).
  Proof.
    intros u t now s k s' b Hi He. unfold tl_erase in He.
    destruct (assoc k (tl_lru s)) as [x|] eqn:Ha; injection He as E1 E2; rewrite <- E1, <- E2.
    - split; [reflexivity|]. apply tlb_core_erase_key.
    - split; [reflexivity|]. symmetry. apply (tlb_core_not_live u t now s k Hi).
      unfold tl_livek. now rewrite Ha.
  Qed.

  (* ---- configured TTL after a step ---- *)
  Lemma tlb_step_ttl : forall (s1 s2 : tl K V) o now rnd s1' r1 s2' r2,
      tl_uniform s1 = tl_uniform s2 -> tl_ttl s1 = tl_ttl s2 ->
      tl_step s1 o now rnd = (s1', r1) -> tl_step s2 o now rnd = (s2', r2) ->
      tl_ttl s1' = tl_ttl s2'.
  Proof.
    intros s1 s2 o now rnd s1' r1 s2' r2 Hu Ht H1 H2.
    assert (Hcases : (exists d, o = UpdateTtl d) \/ o = Clear \/
                     ((forall d, o <> UpdateTtl d) /\ o <> Clear)).
    { destruct o; try (right; right; split; [intros d0; discriminate|discriminate]).
      - left. eexists. reflexivity.
      - right. left. reflexivity. }
    destruct Hcases as [[d E]|[E|[N1 N2]]].
    - subst o. simpl in H1, H2. rewrite <- Hu in H2.
      destruct (tl_uniform s1); inversion H1; inversion H2; subst; simpl; auto.
    - subst o. simpl in H1, H2. rewrite <- Hu in H2.
      destruct (tl_uniform s1); inversion H1; inversion H2; subst; simpl; auto.
    - rewrite (tl_ttl_frame _ _ _ _ _ _ H1 N1 N2), (tl_ttl_frame _ _ _ _ _ _ H2 N1 N2). exact Ht.
  Qed.

  Lemma tlb_sim_after : forall u t now (s1 s2 : tl K V) o rnd s1' r1 s2' r2,
      tl_sim u t now s1 s2 -> single o = true ->
      tl_step s1 o now rnd = (s1', r1) -> tl_step s2 o now rnd = (s2', r2) ->
      tl_core now s1' = tl_core now s2' -> tl_sim u now now s1' s2'.
  Proof.
    intros u t now s1 s2 o rnd s1' r1 s2' r2 (Hi1 & Hi2 & Hc & Httl & Hcore) Hs H1 H2 Hcore'.
    destruct (tl_step_inv u t s1 o now rnd s1' r1 Hi1 Hs H1) as [Hi1' Hc1].
    destruct (tl_step_inv u t s2 o now rnd s2' r2 Hi2 Hs H2) as [Hi2' Hc2].
    unfold tl_sim. tl_splits; auto.
    - congruence.
    - eapply tlb_step_ttl; [|exact Httl|exact H1|exact H2].
      destruct Hi1 as (U1 & _). destruct Hi2 as (U2 & _). congruence.
  Qed.

  (* ------------------------------------------------------------------------- *)
  (* the theorems                                                               *)
  (* ------------------------------------------------------------------------- *)

  (* a lookup that reaps an expired entry leads to a related state *)
  Theorem tl_reap_related : forall u t now (s : tl K V) k,
      tl_inv u t s -> dead_in s now k -> tl_sim u t now s (tl_erase_key s k).
  Proof.
    intros u t now s k Hi (v & e & Ha & Hle). unfold tl_sim. tl_splits; auto.
    - now apply (tl_inv_erase_key u t).
    - rewrite tlb_core_erase_key. symmetry. apply (tlb_core_not_live u t now s k Hi).
      unfold tl_livek. rewrite Ha. destruct (Z.ltb_spec now e); [lia|reflexivity].
  Qed.

  Theorem tl_sim_refl : forall u t now (s : tl K V), tl_inv u t s -> tl_sim u t now s s.
  Proof. intros u t now s Hi. unfold tl_sim. tl_splits; auto. Qed.

  (* relatedness survives the passage of time *)
  Theorem tl_sim_later : forall u t now now' (s1 s2 : tl K V),
      tl_sim u t now s1 s2 -> (now <= now')%Z -> tl_sim u t now' s1 s2.
  Proof.
    intros u t now now' s1 s2 (Hi1 & Hi2 & Hc & Ht & Hcore) Hle. unfold tl_sim. tl_splits; auto.
    unfold tl_core in *.
    rewrite <- (tlb_filter_later now now' (tl_lru s1) Hle).
    rewrite <- (tlb_filter_later now now' (tl_lru s2) Hle).
    now rewrite Hcore.
  Qed.

  (* the bisimulation step *)
  Theorem tl_reaping_unobservable : forall u t now (s1 s2 : tl K V) o rnd s1' r1 s2' r2,
      tl_sim u t now s1 s2 -> (t <= now)%Z -> single o = true ->
      tl_step s1 o now rnd = (s1', r1) -> tl_step s2 o now rnd = (s2', r2) ->
      (~ result_excepted s1 s2 now o -> r1 = r2) /\
      (~ effect_excepted s1 s2 now o -> tl_sim u now now s1' s2').
  Proof.
    intros u t now s1 s2 o rnd s1' r1 s2' r2 Hsim Ht Hs H1 H2.
    assert (Hgoal : (~ result_excepted s1 s2 now o -> r1 = r2) /\
                    (~ effect_excepted s1 s2 now o -> tl_core now s1' = tl_core now s2')).
    { pose proof Hsim as (Hi1 & Hi2 & Hc & Httl & Hcore).
      assert (Hu : tl_uniform s2 = tl_uniform s1).
      { destruct Hi1 as (U1 & _). destruct Hi2 as (U2 & _). congruence. }
      destruct o; simpl in Hs; try discriminate; simpl in H1, H2.
      - (* Insert *)
        rewrite Hu, <- Httl in H2.
        destruct (tl_ins s1 k v a now (now + ms (if tl_uniform s1 then tl_ttl s1 else ttl)))
          as [x1 b1] eqn:Hins1.
        destruct (tl_ins s2 k v a now (now + ms (if tl_uniform s1 then tl_ttl s1 else ttl)))
          as [x2 b2] eqn:Hins2.
        inversion H1; subst; clear H1. inversion H2; subst; clear H2.
        destruct (tlb_ins_pair u t now s1 s2 k v a _ _ _ _ _ Hsim Hins1 Hins2)
          as [[Hb Hco]|Hex].
        + subst. split; intros _; [reflexivity|exact Hco].
        + simpl. split; intros Hn; exfalso; apply Hn; exact Hex.
      - (* Erase *)
        destruct (tl_erase s1 k) as [x1 b1] eqn:He1. destruct (tl_erase s2 k) as [x2 b2] eqn:He2.
        inversion H1; subst; clear H1. inversion H2; subst; clear H2.
        destruct (tlb_erase_one u t now s1 k _ _ Hi1 He1) as [Hb1 Hc1].
        destruct (tlb_erase_one u t now s2 k _ _ Hi2 He2) as [Hb2 Hc2].
        split.
        + simpl. intros Hn.
          pose proof (tlb_sim_livek u t now s1 s2 k Hsim) as Hlk. unfold tl_livek in Hlk.
          unfold dead_in in Hn.
          destruct (assoc k (tl_lru s1)) as [[v1 e1]|] eqn:Ha1;
            destruct (assoc k (tl_lru s2)) as [[v2 e2]|] eqn:Ha2; subst; try reflexivity.
          * destruct (Z.ltb_spec now e1) as [L1|D1]; [discriminate|].
            exfalso. apply Hn. left. exists v1, e1. auto.
          * destruct (Z.ltb_spec now e2) as [L2|D2]; [discriminate|].
            exfalso. apply Hn. right. exists v2, e2. auto.
        + intros _. rewrite Hc1, Hc2, Hcore. reflexivity.
      - (* Find *)
        destruct (tl_find s1 k peek now) as [x1 q1] eqn:Hf1.
        destruct (tl_find s2 k peek now) as [x2 q2] eqn:Hf2.
        inversion H1; subst; clear H1. inversion H2; subst; clear H2.
        destruct (tlb_find_one u t s1 k peek now _ _ Hi1 Hf1) as [Hr1 Hc1].
        destruct (tlb_find_one u t s2 k peek now _ _ Hi2 Hf2) as [Hr2 Hc2].
        rewrite (tlb_sim_livek u t now s1 s2 k Hsim) in Hr1, Hc1.
        split; intros _; [congruence|]. rewrite Hc1, Hc2, Hcore. reflexivity.
      - (* FindUse *)
        inversion H1; inversion H2; subst. split; intros _; [reflexivity|exact Hcore].
      - (* DynAge *)
        inversion H1; inversion H2; subst. split; intros _; [reflexivity|exact Hcore].
      - (* UpdateTtl *)
        rewrite Hu in H2.
        destruct (tl_uniform s1); inversion H1; inversion H2; subst;
          (split; intros _; [reflexivity|exact Hcore]).
      - (* Clear *)
        rewrite Hu in H2.
        destruct (tl_uniform s1); inversion H1; inversion H2; subst;
          (split; intros _; [reflexivity|]); [reflexivity|exact Hcore].
      - (* Clean *)
        destruct (tl_clean s1 now) as [x1 n1] eqn:Hc1. destruct (tl_clean s2 now) as [x2 n2] eqn:Hc2.
        inversion H1; subst; clear H1. inversion H2; subst; clear H2.
        destruct (tl_clean_exact u t s1 now _ _ Hi1 Ht Hc1) as (_ & Hl1 & _).
        destruct (tl_clean_exact u t s2 now _ _ Hi2 Ht Hc2) as (_ & Hl2 & _).
        split.
        + simpl. intros Hn. exfalso. apply Hn. exact I.
        + intros _. unfold tl_core in *. rewrite Hl1, Hl2, Hcore. reflexivity.
      - (* Size *)
        inversion H1; inversion H2; subst. split.
        + simpl. intros Hn. exfalso. apply Hn. exact I.
        + intros _. exact Hcore.
      - (* Empty *)
        inversion H1; inversion H2; subst. split.
        + simpl. intros Hn. exfalso. apply Hn. exact I.
        + intros _. exact Hcore.
      - (* Capacity *)
        inversion H1; inversion H2; subst. split; intros _; [congruence|exact Hcore]. }
    destruct Hgoal as [Hr Hco]. split; [exact Hr|].
    intros Hne. eapply tlb_sim_after; eauto.
  Qed.
End TlBisim.

Print Assumptions tl_reap_related.
Print Assumptions tl_sim_refl.
Print Assumptions tl_sim_later.
Print Assumptions tl_reaping_unobservable.
