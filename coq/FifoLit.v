(* FifoLit.v — LITERAL model (L3) of fifo_cache.hpp: std::list<element> m_fifo_list with stable
   node identities (the element lives IN the list node), m_keyed_elements mapping a key to a
   list iterator, each element holding std::optional<keyed_iterator>; do_insert / do_update /
   do_erase / do_find transcribed line by line into the undefined-behaviour monad. *)
Require Import Capp.Base Capp.Rr Capp.ListCache Capp.RrLit Capp.LruLit.
From Coq Require Import Strings.String.

Section FifoLit.
  Context {K V : Type} `{EqDec K}.
  Local Open Scope string_scope.
  Local Open Scope list_scope.
  Local Open Scope nat_scope.

  (* struct element { std::optional<keyed_iterator> m_keyed_position; value_type m_value; } *)
  Record fcell := {
    fc_keyed : option K;     (* nullopt, or an iterator to the index node of that key *)
    fc_val   : option V
  }.

  Record fifol := {
    fl_cap   : nat;               (* reserve(capacity) of the index *)
    fl_list  : list nat;          (* m_fifo_list: node identities in list order *)
    fl_cells : list fcell;        (* the element stored in node n, at position n *)
    fl_index : list (K * nat);    (* m_keyed_elements: key -> list iterator (node identity) *)
    fl_used  : nat                (* m_used_size *)
  }.

  Definition fifol_init (cap : nat) : fifol :=
    {| fl_cap := cap; fl_list := seq 0 cap;
       fl_cells := repeat {| fc_keyed := None; fc_val := None |} cap;
       fl_index := []; fl_used := 0 |}.

  (* *it for a list iterator: the element of that node *)
  Definition cell_of (s : fifol) (i : iter) : res (nat * fcell) :=
    do n <- l_deref (fl_list s) i;
    do c <- vget "list node" (fl_cells s) n;
    Ok (n, c).

  (* do_insert(key, value) *)
  Definition fl_do_insert (s : fifol) (k : K) (v : V) : res fifol :=
    (* m_fifo_list.splice(end(), m_fifo_list, begin()) *)
    do l <- l_splice (fl_list s) End (l_begin (fl_list s));
    (* last_element_position = std::prev(end()) *)
    do lastp <- l_prev l End;
    do nc <- cell_of {| fl_cap := fl_cap s; fl_list := l; fl_cells := fl_cells s; fl_index := fl_index s; fl_used := fl_used s |} lastp;
    let '(n, e) := nc in
    do r <- (match fc_keyed e with
             | Some k0 => do ix <- index_erase (fl_index s) (Some k0); Ok (ix, fl_used s)
             | None => Ok (fl_index s, S (fl_used s))
             end);
    let '(ix, used) := r in
    do ix2 <- index_emplace (fl_cap s) ix k n;
    do cs <- vset "list node" (fl_cells s) n {| fc_keyed := Some k; fc_val := Some v |};
    Ok {| fl_cap := fl_cap s; fl_list := l; fl_cells := cs; fl_index := ix2; fl_used := used |}.

  (* do_update(keyed_position, value) *)
  Definition fl_do_update (s : fifol) (n : nat) (v : V) : res fifol :=
    do nc <- cell_of s (It n);
    let '(_, e) := nc in
    do cs <- vset "list node" (fl_cells s) n {| fc_keyed := fc_keyed e; fc_val := Some v |};
    Ok {| fl_cap := fl_cap s; fl_list := fl_list s; fl_cells := cs; fl_index := fl_index s; fl_used := fl_used s |}.

  (* do_erase(fifo_position) *)
  Definition fl_do_erase (s : fifol) (n : nat) : res fifol :=
    do nc <- cell_of s (It n);
    let '(_, e) := nc in
    do l <- (if iter_eqb (It n) (l_begin (fl_list s)) then Ok (fl_list s)
             else l_splice (fl_list s) (l_begin (fl_list s)) (It n));
    do r <- (match fc_keyed e with
             | Some k0 => do ix <- index_erase (fl_index s) (Some k0);
                          do cs <- vset "list node" (fl_cells s) n {| fc_keyed := None; fc_val := fc_val e |};
                          Ok (ix, cs)
             | None => Ok (fl_index s, fl_cells s)
             end);
    let '(ix, cs) := r in
    if fl_used s =? 0 then UB "--m_used_size underflows" else
    Ok {| fl_cap := fl_cap s; fl_list := l; fl_cells := cs; fl_index := ix; fl_used := fl_used s - 1 |}.

  (* do_insert_update(key, value, allow) *)
  Definition fl_ins (s : fifol) (k : K) (v : V) (a : allow) : res (fifol * bool) :=
    match assoc k (fl_index s) with
    | Some n => if a_upd a then (do s1 <- fl_do_update s n v; Ok (s1, true)) else Ok (s, false)
    | None => if a_ins a then (do s1 <- fl_do_insert s k v; Ok (s1, true)) else Ok (s, false)
    end.

  (* erase(key) *)
  Definition fl_erase (s : fifol) (k : K) : res (fifol * bool) :=
    match assoc k (fl_index s) with
    | Some n => do s1 <- fl_do_erase s n; Ok (s1, true)
    | None => Ok (s, false)
    end.

  (* do_find(key) *)
  Definition fl_find (s : fifol) (k : K) : res (option V) :=
    match assoc k (fl_index s) with
    | Some n => do nc <- cell_of s (It n); Ok (fc_val (snd nc))
    | None => Ok None
    end.

  Fixpoint fl_ins_range (s : fifol) (l : list (Z * K * V)) (a : allow) (n : nat) : res (fifol * nat) :=
    match l with
    | [] => Ok (s, n)
    | (_, k, v) :: r => do x <- fl_ins s k v a; let '(s1, b) := x in fl_ins_range s1 r a (if b then S n else n)
    end.
  Fixpoint fl_erase_range (s : fifol) (l : list K) (n : nat) : res (fifol * nat) :=
    match l with
    | [] => Ok (s, n)
    | k :: r => do x <- fl_erase s k; let '(s1, b) := x in fl_erase_range s1 r (if b then S n else n)
    end.
  Fixpoint fl_find_range (s : fifol) (l : list K) : res (list (K * option V)) :=
    match l with
    | [] => Ok []
    | k :: r => do o <- fl_find s k; do os <- fl_find_range s r; Ok ((k, o) :: os)
    end.

  Definition fl_step (s : fifol) (o : op K V) (now : Z) (rnd : list nat) : res (fifol * ret K V) :=
    match o with
    | Insert _ k v a => do x <- fl_ins s k v a; let '(s1, b) := x in Ok (s1, RB b)
    | InsertRange l a => do x <- fl_ins_range s l a 0; let '(s1, n) := x in Ok (s1, RN n)
    | Erase k => do x <- fl_erase s k; let '(s1, b) := x in Ok (s1, RB b)
    | EraseRange l => do x <- fl_erase_range s l 0; let '(s1, n) := x in Ok (s1, RN n)
    | Find k _ => do r <- fl_find s k; Ok (s, RO r)
    | FindRange l _ => do r <- fl_find_range s l; Ok (s, RL r)
    | FindRangeFill l _ => do r <- fl_find_range s l; Ok (s, RL r)
    | Size => Ok (s, RN (fl_used s))
    | Empty => Ok (s, RB (Nat.eqb (fl_used s) 0))
    | Capacity => Ok (s, RN (List.length (fl_list s)))
    | _ => Ok (s, RUnsupported)
    end.

  (* representation: free nodes (no key) form a prefix of the list, the used nodes follow in
     insertion order and, read through their cells, are the mid-level list; the index maps a
     key to a node exactly when that node is used and its cell holds that key *)
  Definition fl_entry (s : fifol) (n : nat) : option (K * V) :=
    match nth_error (fl_cells s) n with
    | Some {| fc_keyed := Some k; fc_val := Some v |} => Some (k, v)
    | _ => None
    end.
  Definition fl_rep (l : fifol) (s : lc K V) : Prop :=
    exists free used,
      fl_list l = free ++ used /\
      fl_cap l = lc_cap s /\ List.length (fl_cells l) = lc_cap s /\
      NoDup (fl_list l) /\ List.length (fl_list l) = lc_cap s /\ (forall n, In n (fl_list l) -> n < lc_cap s) /\
      fl_used l = List.length used /\ List.length (fl_index l) = List.length used /\ NoDup (keys (fl_index l)) /\
      (forall n, In n free -> exists c, nth_error (fl_cells l) n = Some c /\ fc_keyed c = None) /\
      map (fl_entry l) used = map (@Some (K * V)) (lc_items s) /\
      (forall n k v, In n used -> fl_entry l n = Some (k, v) -> assoc k (fl_index l) = Some n) /\
      (forall k n, assoc k (fl_index l) = Some n -> In n used /\ exists v, fl_entry l n = Some (k, v)).
End FifoLit.

Arguments fifol : clear implicits.
Arguments fcell : clear implicits.
