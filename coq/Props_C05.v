(* C05 TTL retention: nothing expires early; every write restarts the TTL. *)
Require Import Capp.Base Capp.Spec Capp.Generic Capp.Container Capp.AllKinds Capp.Lift.

(* While an entry is stored and its deadline has not been reached, every lookup returns its
   value, the stored (value, deadline) is exactly what its latest write recorded, and the
   lookup leaves it stored.  (It stops being stored only as C03 allows.) *)
Theorem C05_served_until_deadline :
  forall (K V : Type) (E : EqDec K) (kd : kind) (cfg : config), valid_config kd cfg ->
  forall tr t s k v d pk now rnd s' r,
    let M := kind_model (K:=K) (V:=V) kd in
    wruns M 0 (kind_init kd cfg) tr t s -> (t <= now)%Z -> m_rnd_ok M s rnd ->
    m_get M s k = Some (v, d) -> alive now d = true ->
    m_step M s (Find k pk) now rnd = (s', r) ->
    r = RO (Some v) /\ lastw M k tr = Some (v, d) /\ m_get M s' k = Some (v, d).
Proof. intros K V E kd cfg Hv. exact (L_served kd cfg Hv). Qed.
Print Assumptions C05_served_until_deadline.

(* every successful write — an update, an insert, or allow::insert over an expired entry —
   stores the new value with deadline = now + the TTL in force (m_dl, see C04) *)
Theorem C05_every_write_restarts_the_ttl :
  forall (K V : Type) (E : EqDec K) (kd : kind) (cfg : config), valid_config kd cfg ->
  forall tr t s ttl k v a now rnd s' r,
    let M := kind_model (K:=K) (V:=V) kd in
    wruns M 0 (kind_init kd cfg) tr t s ->
    (t <= now)%Z -> m_rnd_ok M s rnd -> m_step M s (Insert ttl k v a) now rnd = (s', r) ->
    exists b, r = RB b /\
      (livek (m_get M s) now k -> b = a_upd a) /\
      (m_get M s k = None -> b = a_ins a) /\
      (deadk (m_get M s) now k -> (a_ins a = true -> b = true) /\
                                  (b = true -> a_ins a = true \/ a_upd a = true)) /\
      (b = true -> m_get M s' k = Some (v, m_dl M s ttl now)) /\
      (b = false -> keeps (m_get M s) (m_get M s') now k).
Proof. intros K V E kd cfg Hv. exact (L_allow kd cfg Hv). Qed.
Print Assumptions C05_every_write_restarts_the_ttl.

(* update_ttl changes the lifetime of no entry already written *)
Theorem C05_update_ttl_keeps_stored_deadlines :
  forall (K V : Type) (E : EqDec K) (kd : kind) (cfg : config), valid_config kd cfg ->
  forall tr t s d now rnd s' r,
    let M := kind_model (K:=K) (V:=V) kd in
    wruns M 0 (kind_init kd cfg) tr t s -> (t <= now)%Z ->
    m_step M s (UpdateTtl d) now rnd = (s', r) -> forall k, m_get M s' k = m_get M s k.
Proof. intros K V E kd cfg Hv. exact (L_updttl_keeps_entries kd cfg Hv). Qed.
Print Assumptions C05_update_ttl_keeps_stored_deadlines.
