(* C01 Lookup integrity: a hit returns the latest value written for that key.
   This file holds the property's theorems only; proofs are [exact] of lemmas elsewhere. *)
Require Import Capp.Base Capp.Spec Capp.Container Capp.AllKinds Capp.Lift Capp.Range.
Require Import Capp.ListCache Capp.Rr Capp.Lfuda Capp.TtlLru Capp.UtMap Capp.UtMapFacts.

(* For every container kind, every valid configuration, every finite history [tr] of single
   calls at non-decreasing clock readings from the fresh container: a lookup that reports a
   value for k reports the value of the most recent successful insert/update of k that has
   not since been undone by a successful erase, a clear(), or been seen missing (evicted or
   expired), and only before that write's expiry instant.  [lastw] is that history function
   (Spec.v); the value can only come from a write of k itself. *)
Theorem C01_hit_reports_latest_write :
  forall (K V : Type) (E : EqDec K) (kd : kind) (cfg : config), valid_config kd cfg ->
  forall tr t s k pk now rnd s' v,
    wruns (kind_model kd) 0 (kind_init kd cfg) tr t s -> (t <= now)%Z ->
    m_rnd_ok (kind_model kd) s rnd ->
    m_step (kind_model kd) s (Find k pk) now rnd = (s', RO (Some v)) ->
    exists d, lastw (kind_model (K:=K) (V:=V) kd) k tr = Some (v, d) /\ alive now d = true.
Proof. intros K V E kd cfg Hv. exact (L_hit kd cfg Hv). Qed.
Print Assumptions C01_hit_reports_latest_write.

(* the same for find_with_use_count *)
Theorem C01_hit_with_use_count_reports_latest_write :
  forall (K V : Type) (E : EqDec K) (kd : kind) (cfg : config), valid_config kd cfg ->
  forall tr t s k pk now rnd s' v c,
    wruns (kind_model kd) 0 (kind_init kd cfg) tr t s -> (t <= now)%Z ->
    m_rnd_ok (kind_model kd) s rnd ->
    m_step (kind_model kd) s (FindUse k pk) now rnd = (s', RU (Some (v, c))) ->
    exists d, lastw (kind_model (K:=K) (V:=V) kd) k tr = Some (v, d) /\ alive now d = true.
Proof. intros K V E kd cfg Hv. exact (L_hit_use kd cfg Hv). Qed.
Print Assumptions C01_hit_with_use_count_reports_latest_write.

(* a key never inserted, or erased, cleared, evicted or expired since its last write, is
   reported absent *)
Theorem C01_no_write_no_hit :
  forall (K V : Type) (E : EqDec K) (kd : kind) (cfg : config), valid_config kd cfg ->
  forall tr t s k pk now rnd s' r,
    wruns (kind_model kd) 0 (kind_init kd cfg) tr t s -> (t <= now)%Z ->
    m_rnd_ok (kind_model kd) s rnd ->
    lastw (kind_model (K:=K) (V:=V) kd) k tr = None ->
    m_step (kind_model kd) s (Find k pk) now rnd = (s', r) -> r = RO None.
Proof. intros K V E kd cfg Hv. exact (L_no_write_no_hit kd cfg Hv). Qed.
Print Assumptions C01_no_write_no_hit.

(* find_range / find_range_fill (and fifo's iterator-pair find) are those single lookups in
   input order: C18 *)
Theorem C01_range_lookups_are_single_lookups :
  forall (K V : Type) (E : EqDec K),
    (forall p (s : lc K V) o now rnd, range_ok (lc_step p) no_rest s o now rnd) /\
    (forall (s : rr K V) o now rnd, range_ok rr_step rr_rest s o now rnd) /\
    (forall (s : lf K V) o now rnd, range_ok lf_step no_rest s o now rnd) /\
    (forall (s : lf K V) o now rnd, range_ok lfu_step no_rest s o now rnd) /\
    (forall (s : tl K V) o now rnd, range_ok tl_step no_rest s o now rnd).
Proof.
  intros K V E.
  exact (conj (@lc_range_is_singles K V E) (conj (@rr_range_is_singles K V E)
        (conj (@lf_range_is_singles K V E) (conj (@lfu_range_is_singles K V E) (@tl_range_is_singles K V E))))).
Qed.
Print Assumptions C01_range_lookups_are_single_lookups.

(* non-vacuity: a concrete lru history ending in a hit *)
Example C01_example_lru_hit :
  let cfg := {| c_cap := 2; c_ttl := 0; c_tick := 0; c_rnum := 0; c_rk := 0 |} in
  let both := {| a_ins := true; a_upd := true |} in
  let s0 := c_init (K := Z) (V := Z) KLru cfg in
  let '(s1, _) := c_step s0 (Insert 0 1 10 both)%Z 0%Z [] in
  let '(s2, _) := c_step s1 (Insert 0 2 20 both)%Z 0%Z [] in
  let '(s3, _) := c_step s2 (Insert 0 3 30 both)%Z 0%Z [] in
  (snd (c_step s3 (Find 1 false)%Z 0%Z []), snd (c_step s3 (Find 3 false)%Z 0%Z []))
  = (RO None, RO (Some 30%Z)).
Proof. vm_compute. reflexivity. Qed.
