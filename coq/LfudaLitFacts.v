(* LfudaLitFacts.v — C08 for lfuda_cache: the literal machine (LfudaLit.v, da = true) never
   reaches UB — the aging loop terminates — and computes exactly what the mid-level model
   (Lfuda.v) computes. *)
Require Import Capp.Base Capp.Spec Capp.Rr Capp.Lfuda Capp.LfudaFacts Capp.RrLit Capp.LruLit Capp.LfudaLit.
From Coq Require Import Strings.String.
From Coq Require Import Permutation.

(* ------------------------------------------------------------------------------------ *)
(* the std::list model on a list  used ++ free  whose partition iterator is begin(free)  *)
(* (as in LruLitFacts.v)                                                                 *)
(* ------------------------------------------------------------------------------------ *)
Section StlFacts.
  Local Open Scope list_scope.
  Local Open Scope nat_scope.

  Lemma iter_eqb_true a b : iter_eqb a b = true -> a = b.
  Proof.
    destruct a as [x|], b as [y|]; simpl; intros E; try discriminate; auto.
    apply Nat.eqb_eq in E. subst; auto.
  Qed.
  Lemma iter_eqb_refl a : iter_eqb a a = true.
  Proof. destruct a; simpl; auto. apply Nat.eqb_refl. Qed.
  Lemma iter_eqb_neq a b : a <> b -> iter_eqb a b = false.
  Proof.
    intros N. destruct (iter_eqb a b) eqn:E; auto. apply iter_eqb_true in E. contradiction.
  Qed.

  Lemma mem_nat_true n l : mem_nat n l = true <-> In n l.
  Proof.
    induction l as [|x r IH]; simpl.
    - split; [discriminate|tauto].
    - rewrite orb_true_iff, IH, Nat.eqb_eq. split; intros [E|I]; auto.
  Qed.
  Lemma mem_nat_in n l : In n l -> mem_nat n l = true.
  Proof. apply mem_nat_true. Qed.

  (* no node of [a] is the first node of [free] *)
  Definition sep (a free : list nat) : Prop := forall x, In x a -> l_begin free <> It x.

  Lemma nodup_sep a free : NoDup (a ++ free) -> sep a free.
  Proof.
    intros N x I E. destruct free as [|m f]; simpl in E; [discriminate|].
    inversion E; subst m. apply NoDup_remove_2 in N. apply N. apply in_or_app; left; auto.
  Qed.

  Lemma sep_tail x a free : sep (x :: a) free -> sep a free.
  Proof. intros S y I. apply S. right; auto. Qed.

  Lemma valid_begin_app used free : valid_it (used ++ free) (l_begin free) = true.
  Proof.
    destruct free as [|m f]; simpl; auto. apply mem_nat_in. apply in_or_app. right; left; auto.
  Qed.

  Lemma before_app u n free : sep (u ++ [n]) free ->
    before (l_begin free) (u ++ n :: free) = Some n.
  Proof.
    induction u as [|x u IH]; intros S.
    - simpl. destruct free as [|m f]; simpl; auto. rewrite Nat.eqb_refl; auto.
    - assert (S' : sep (u ++ [n]) free) by (eapply sep_tail; exact S).
      specialize (IH S').
      change ((x :: u) ++ n :: free) with (x :: (u ++ n :: free)).
      destruct u as [|y u'].
      + simpl app in *. simpl before at 1.
        rewrite iter_eqb_neq by (apply S; simpl; auto). exact IH.
      + simpl app in *. simpl before at 1.
        rewrite iter_eqb_neq by (apply S; simpl; auto). exact IH.
  Qed.

  Lemma l_begin_in a b : a <> [] -> exists h, l_begin (a ++ b) = It h /\ In h a.
  Proof. destruct a as [|h a]; [congruence|]. intros _. exists h. simpl; auto. Qed.

  Lemma l_prev_app u n free : NoDup (u ++ n :: free) ->
    l_prev (u ++ n :: free) (l_begin free) = Ok (It n).
  Proof.
    intros N.
    assert (E : u ++ n :: free = (u ++ [n]) ++ free) by (rewrite <- app_assoc; reflexivity).
    assert (S : sep (u ++ [n]) free) by (apply nodup_sep; rewrite <- E; exact N).
    unfold l_prev. rewrite E at 1. rewrite valid_begin_app.
    destruct (l_begin_in (u ++ [n]) free) as (h & Eh & Ih). { destruct u; discriminate. }
    rewrite E at 1. rewrite Eh. rewrite iter_eqb_neq by (apply S; exact Ih).
    rewrite before_app by exact S. reflexivity.
  Qed.

  Lemma after_app u n free : ~ In n u -> after n (u ++ n :: free) = l_begin free.
  Proof.
    induction u as [|x u IH]; intros NI; simpl.
    - rewrite Nat.eqb_refl. reflexivity.
    - destruct (Nat.eqb_spec n x) as [E|Nx]; [exfalso; apply NI; left; auto|].
      apply IH. intros I. apply NI. right; auto.
  Qed.

  (* remove_nat *)
  Lemma remove_nat_app_in n a b : In n a -> remove_nat n (a ++ b) = remove_nat n a ++ b.
  Proof.
    induction a as [|x a IH]; simpl; intros I; [tauto|].
    destruct (Nat.eqb_spec n x) as [E|Nx]; auto.
    destruct I as [E|I]; [congruence|]. simpl. f_equal. auto.
  Qed.
  Lemma remove_nat_app_notin n a b : ~ In n a -> remove_nat n (a ++ b) = a ++ remove_nat n b.
  Proof.
    induction a as [|x a IH]; simpl; intros NI; auto.
    destruct (Nat.eqb_spec n x) as [E|Nx]; [exfalso; apply NI; auto|].
    f_equal. apply IH. intros I; apply NI; auto.
  Qed.
  Lemma remove_nat_notin n a : ~ In n a -> remove_nat n a = a.
  Proof.
    intros NI. rewrite <- (app_nil_r a) at 1. rewrite remove_nat_app_notin by auto.
    simpl. apply app_nil_r.
  Qed.
  Lemma remove_nat_last n u : ~ In n u -> remove_nat n (u ++ [n]) = u.
  Proof.
    intros NI. rewrite remove_nat_app_notin by auto. simpl. rewrite Nat.eqb_refl. apply app_nil_r.
  Qed.
  Lemma perm_remove_nat n l : In n l -> Permutation (n :: remove_nat n l) l.
  Proof.
    induction l as [|x r IH]; simpl; intros I; [tauto|].
    destruct (Nat.eqb_spec n x) as [E|Nx]; [subst; reflexivity|].
    destruct I as [E|I]; [congruence|].
    eapply perm_trans; [apply perm_swap|]. apply perm_skip. auto.
  Qed.
  Lemma in_remove_nat n l x : NoDup l -> (In x (remove_nat n l) <-> In x l /\ x <> n).
  Proof.
    induction l as [|y r IH]; simpl; intros N; [tauto|].
    inversion N as [|y' r' Hni Hnd]; subst.
    destruct (Nat.eqb_spec n y) as [E|Ny].
    - subst y. split.
      + intros I. split; auto. intros E; subst; auto.
      + intros [[E|I] Nx]; [congruence|auto].
    - simpl. rewrite IH by auto. split.
      + intros [E|[I Nx]]; [subst; split; auto|auto].
      + intros [[E|I] Nx]; auto.
  Qed.
  Lemma in_remove_nat_weak n l x : In x (remove_nat n l) -> In x l.
  Proof.
    induction l as [|y r IH]; simpl; auto.
    destruct (Nat.eqb_spec n y) as [E|Ny]; simpl; auto. intros [E|I]; auto.
  Qed.
  Lemma nodup_remove_nat n l : NoDup l -> NoDup (remove_nat n l).
  Proof.
    induction l as [|y r IH]; simpl; intros N; auto.
    inversion N as [|y' r' Hni Hnd]; subst.
    destruct (Nat.eqb_spec n y) as [E|Ny]; auto.
    constructor; auto. intros I. apply Hni. eapply in_remove_nat_weak; eauto.
  Qed.
  Lemma perm_remove_snoc n l : In n l -> Permutation (remove_nat n l ++ [n]) l.
  Proof.
    intros I. eapply perm_trans; [|apply perm_remove_nat; eauto].
    symmetry. apply Permutation_cons_append.
  Qed.

  Lemma insert_before_app a n free : sep a free ->
    insert_before (l_begin free) n (a ++ free) = a ++ n :: free.
  Proof.
    induction a as [|x a IH]; intros S; simpl.
    - destruct free as [|m f]; simpl; auto. rewrite Nat.eqb_refl; auto.
    - rewrite iter_eqb_neq by (apply S; left; auto). f_equal. apply IH. eapply sep_tail; eauto.
  Qed.

  (* splice(partition point, list, n) for a used node n *)
  Lemma l_splice_end used free n : NoDup (used ++ free) -> In n used ->
    l_splice (used ++ free) (l_begin free) (It n) = Ok (remove_nat n used ++ n :: free).
  Proof.
    intros N I. pose proof (nodup_sep _ _ N) as S.
    unfold l_splice. rewrite mem_nat_in by (apply in_or_app; auto).
    rewrite valid_begin_app. rewrite iter_eqb_neq by (apply S; auto).
    rewrite remove_nat_app_in by auto. rewrite insert_before_app; auto.
    intros x Ix. apply S. eapply in_remove_nat_weak; eauto.
  Qed.

  (* the "move n just in front of the partition point unless it is there" idiom *)
  Lemma move_to_end used free n : NoDup (used ++ free) -> In n used ->
    exists b, l_prev (used ++ free) (l_begin free) = Ok (It b) /\
      (if iter_eqb (It n) (It b) then Ok (used ++ free)
       else l_splice (used ++ free) (l_begin free) (It n)) = Ok (remove_nat n used ++ n :: free).
  Proof.
    intros N I.
    destruct (@exists_last _ used) as (u & b & Eu). { intros E0; rewrite E0 in I; destruct I. }
    exists b. split.
    - rewrite Eu. rewrite <- app_assoc. simpl. apply l_prev_app.
      rewrite Eu in N. rewrite <- app_assoc in N. exact N.
    - simpl iter_eqb. destruct (Nat.eqb_spec n b) as [Enb|Nnb].
      + subst b. rewrite Eu. rewrite remove_nat_last.
        * rewrite <- app_assoc. reflexivity.
        * rewrite Eu in N. rewrite <- app_assoc in N. apply NoDup_remove_2 in N.
          intros X. apply N. apply in_or_app; auto.
      + apply l_splice_end; auto.
  Qed.

  Lemma nodup_app_l A (a b : list A) : NoDup (a ++ b) -> NoDup a.
  Proof.
    induction a as [|x a IH]; simpl; intros N; [constructor|].
    inversion N as [|y r Hni Hnd]; subst. constructor; auto.
    intros I. apply Hni. apply in_or_app; auto.
  Qed.
  Lemma nodup_app_r A (a b : list A) : NoDup (a ++ b) -> NoDup b.
  Proof.
    induction a as [|x a IH]; simpl; intros N; auto. inversion N; subst; auto.
  Qed.
  Lemma nodup_app_disj A (a b : list A) x : NoDup (a ++ b) -> In x a -> In x b -> False.
  Proof.
    induction a as [|y a IH]; simpl; intros N Ia Ib; [tauto|].
    inversion N as [|y' r Hni Hnd]; subst. destruct Ia as [E|Ia]; [|eauto].
    subst. apply Hni. apply in_or_app; auto.
  Qed.
End StlFacts.

Section VecFacts.
  Local Open Scope list_scope.
  Local Open Scope nat_scope.

  Lemma nth_error_upd_eq A (l : list A) : forall i x, i < List.length l ->
    nth_error (upd_nth i x l) i = Some x.
  Proof.
    induction l as [|y r IH]; intros [|j] x Hi; simpl in *; try lia; auto. apply IH; lia.
  Qed.
  Lemma nth_error_upd_neq A (l : list A) : forall i j x, j <> i ->
    nth_error (upd_nth i x l) j = nth_error l j.
  Proof.
    induction l as [|y r IH]; intros [|i] [|j] x Hne; simpl; try congruence; auto.
  Qed.
  Lemma upd_nth_len A (l : list A) : forall i x, List.length (upd_nth i x l) = List.length l.
  Proof. induction l as [|y r IH]; intros [|i] x; simpl; auto. Qed.
  Lemma vget_ok A what (l : list A) i a : nth_error l i = Some a -> vget what l i = Ok a.
  Proof. intros E. unfold vget. rewrite E. reflexivity. Qed.
  Lemma vset_ok A what (l : list A) i a : i < List.length l -> vset what l i a = Ok (upd_nth i a l).
  Proof. intros Hi. unfold vset. destruct (Nat.ltb_spec i (List.length l)); [reflexivity|lia]. Qed.
End VecFacts.

(* ------------------------------------------------------------------------------------ *)
(* a node sequence read through the cells; the multimap read through the cells' keys     *)
(* ------------------------------------------------------------------------------------ *)
Section ReadFacts.
  Context {K : Type} `{EqDec K} {A : Type}.
  Local Open Scope list_scope.
  Local Open Scope nat_scope.

  Lemma length_remk_S k (l : list (K * A)) i : NoDup (keys l) -> assoc k l = Some i ->
    S (List.length (remk k l)) = List.length l.
  Proof.
    intros N E. apply length_remk; auto. apply assoc_Some_keys. congruence.
  Qed.

  Lemma in_pair_keys k a (l : list (K * A)) : In (k, a) l -> In k (keys l).
  Proof. intros I. unfold keys. apply in_map_iff. exists (k, a). auto. Qed.

  Variable f : nat -> option (K * A).

  Lemma reads_in ns (items : list (K * A)) n k a :
    map f ns = map (@Some (K * A)) items -> In n ns -> f n = Some (k, a) -> In (k, a) items.
  Proof.
    intros E I Fn. assert (I' : In (f n) (map f ns)) by (apply in_map; auto).
    rewrite E, Fn in I'. apply in_map_iff in I'. destruct I' as (x & Ex & Ix).
    inversion Ex; subst. auto.
  Qed.

  Lemma reads_in_inv ns (items : list (K * A)) k a :
    map f ns = map (@Some (K * A)) items -> In (k, a) items -> exists n, In n ns /\ f n = Some (k, a).
  Proof.
    intros E I. assert (I' : In (Some (k, a)) (map (@Some (K * A)) items)) by (apply in_map; auto).
    rewrite <- E in I'. apply in_map_iff in I'. destruct I' as (n & En & In'). eauto.
  Qed.

  Lemma reads_some ns (items : list (K * A)) n :
    map f ns = map (@Some (K * A)) items -> In n ns -> exists k a, f n = Some (k, a).
  Proof.
    intros E I. assert (I' : In (f n) (map f ns)) by (apply in_map; auto).
    rewrite E in I'. apply in_map_iff in I'. destruct I' as ([k a] & Ex & Ix). eauto.
  Qed.

  Lemma reads_len ns (items : list (K * A)) :
    map f ns = map (@Some (K * A)) items -> List.length ns = List.length items.
  Proof. intros E. apply (f_equal (@List.length _)) in E. rewrite !map_length in E. exact E. Qed.

  Lemma reads_split ns1 ns2 (i1 i2 : list (K * A)) :
    map f (ns1 ++ ns2) = map (@Some (K * A)) (i1 ++ i2) -> List.length ns1 = List.length i1 ->
    map f ns1 = map (@Some (K * A)) i1 /\ map f ns2 = map (@Some (K * A)) i2.
  Proof.
    revert i1. induction ns1 as [|x r IH]; intros [|y i1] E L; simpl in *; try discriminate; auto.
    injection E as E1 E2. injection L as L. destruct (IH i1 E2 L) as [Ea Eb].
    split; auto. f_equal; auto.
  Qed.

  Lemma reads_remove ns : forall (items : list (K * A)) n k a,
    map f ns = map (@Some (K * A)) items -> NoDup (keys items) -> In n ns -> f n = Some (k, a) ->
    map f (remove_nat n ns) = map (@Some (K * A)) (remk k items).
  Proof.
    induction ns as [|x r IH]; intros items n k a E Nk I Fn; [destruct I|].
    destruct items as [|[k' a'] it]; simpl in E; [discriminate|].
    injection E as E1 E2. simpl in Nk. inversion Nk as [|y q Hni Hnd]; subst.
    simpl. destruct (Nat.eqb_spec n x) as [Enx|Nnx].
    - subst x. rewrite Fn in E1. inversion E1; subst k' a'. rewrite LfudaFacts.eqb_rfl.
      rewrite remk_notin by auto. exact E2.
    - destruct I as [I|I]; [congruence|].
      assert (Nkk : k <> k').
      { intros Ek; subst k'. apply Hni. eapply in_pair_keys. eapply reads_in; eauto. }
      rewrite LfudaFacts.eqb_neq by auto. simpl. f_equal; [exact E1|]. eapply IH; eauto.
  Qed.
End ReadFacts.

Section MmFacts.
  Context {K : Type} `{EqDec K}.
  Local Open Scope list_scope.
  Local Open Scope nat_scope.

  Definition rdmm (f : nat -> option K) (m : list (nat * nat)) : list (option (nat * K)) :=
    map (fun cn => match f (snd cn) with Some k => Some (fst cn, k) | None => None end) m.

  Lemma rdmm_ext f g m : (forall x, In x (map snd m) -> f x = g x) -> rdmm f m = rdmm g m.
  Proof.
    intros E. unfold rdmm. apply map_ext_in. intros [c x] I. simpl.
    rewrite E; auto. apply in_map_iff. exists (c, x). auto.
  Qed.

  Lemma rdmm_in_key f m o k : rdmm f m = map (@Some (nat * K)) o -> In k (map snd o) ->
    exists x, In x (map snd m) /\ f x = Some k.
  Proof.
    revert o. induction m as [|[c x] r IH]; intros [|[c' k'] o] E I; simpl in *; try discriminate; [tauto|].
    injection E as E1 E2. destruct I as [I|I].
    - subst k'. exists x. split; auto. destruct (f x); inversion E1; auto.
    - destruct (IH o E2 I) as (y & Iy & Fy). exists y. auto.
  Qed.

  Lemma rdmm_key_in f m o x : rdmm f m = map (@Some (nat * K)) o -> In x (map snd m) ->
    exists k, f x = Some k /\ In k (map snd o).
  Proof.
    revert o. induction m as [|[c y] r IH]; intros [|[c' k'] o] E I; simpl in *; try discriminate; [tauto|].
    injection E as E1 E2. destruct I as [I|I].
    - subst y. exists k'. split; auto. destruct (f x); inversion E1; auto.
    - destruct (IH o E2 I) as (k & Fk & Ik). exists k. auto.
  Qed.

  Lemma rdmm_emplace f c n k m : forall o, f n = Some k -> rdmm f m = map (@Some (nat * K)) o ->
    rdmm f (mm_emplace c n m) = map (@Some (nat * K)) (ord_insert c k o).
  Proof.
    induction m as [|[c' x] r IH]; intros [|[c'' k'] o] Fn E; simpl in E; try discriminate.
    - simpl. rewrite Fn. reflexivity.
    - injection E as E1 E2.
      assert (Ec : c'' = c' /\ f x = Some k').
      { destruct (f x); inversion E1; auto. }
      destruct Ec as [Ec Fx]. subst c''. simpl.
      destruct (c' <=? c).
      + simpl. rewrite Fx. f_equal. apply IH; auto.
      + simpl. rewrite Fn, Fx. f_equal. f_equal. exact E2.
  Qed.

  Lemma rdmm_remove f n k m : forall o, f n = Some k ->
    (forall x, In x (map snd m) -> f x = Some k -> x = n) -> NoDup (map snd m) ->
    rdmm f m = map (@Some (nat * K)) o ->
    rdmm f (mm_remove n m) = map (@Some (nat * K)) (rem2 k o).
  Proof.
    induction m as [|[c' x] r IH]; intros [|[c'' k'] o] Fn Inj N E; simpl in E; try discriminate.
    - reflexivity.
    - injection E as E1 E2.
      assert (Ec : c'' = c' /\ f x = Some k').
      { destruct (f x); inversion E1; auto. }
      destruct Ec as [Ec Fx]. subst c''. simpl in N. inversion N as [|y q Hni Hnd]; subst.
      simpl. destruct (Nat.eqb_spec n x) as [Enx|Nnx].
      + subst x. rewrite Fn in Fx. inversion Fx; subst k'. rewrite LfudaFacts.eqb_rfl.
        assert (Nk : ~ In k (map snd o)).
        { intros I. destruct (rdmm_in_key _ _ _ _ E2 I) as (y & Iy & Fy).
          assert (y = n) by (apply Inj; simpl; auto). subst y. auto. }
        assert (R : rem2 k o = o).
        { clear - Nk. induction o as [|[a k0] o IH]; simpl; auto.
          destruct (Base.eqb_spec k k0) as [E|E]; [exfalso; apply Nk; simpl; auto|].
          f_equal. apply IH. intros I. apply Nk. simpl; auto. }
        rewrite R. exact E2.
      + assert (Nk : k <> k').
        { intros Ek. subst k'. apply Nnx. symmetry. apply Inj; simpl; auto. }
        rewrite LfudaFacts.eqb_neq by auto. simpl. rewrite Fx. f_equal.
        apply IH; auto. intros y Iy Fy. apply Inj; simpl; auto.
  Qed.

  Lemma rdmm_count f n k m : forall o, f n = Some k ->
    (forall x, In x (map snd m) -> f x = Some k -> x = n) ->
    rdmm f m = map (@Some (nat * K)) o -> mm_count n m = assoc2 k o.
  Proof.
    induction m as [|[c' x] r IH]; intros [|[c'' k'] o] Fn Inj E; simpl in E; try discriminate.
    - reflexivity.
    - injection E as E1 E2.
      assert (Ec : c'' = c' /\ f x = Some k').
      { destruct (f x); inversion E1; auto. }
      destruct Ec as [Ec Fx]. subst c''. simpl.
      destruct (Nat.eqb_spec n x) as [Enx|Nnx].
      + subst x. rewrite Fn in Fx. inversion Fx; subst k'. rewrite LfudaFacts.eqb_rfl. reflexivity.
      + assert (Nk : k <> k').
        { intros Ek. subst k'. apply Nnx. symmetry. apply Inj; simpl; auto. }
        rewrite LfudaFacts.eqb_neq by auto. apply IH; auto. intros y Iy Fy. apply Inj; simpl; auto.
  Qed.

  Lemma mm_count_in n m : In n (map snd m) -> exists c, mm_count n m = Some c.
  Proof.
    induction m as [|[c x] r IH]; simpl; intros I; [tauto|].
    destruct (Nat.eqb_spec n x) as [E|N]; eauto. destruct I as [I|I]; [congruence|auto].
  Qed.

  Lemma snd_mm_remove n m : map snd (mm_remove n m) = remove_nat n (map snd m).
  Proof.
    induction m as [|[c x] r IH]; simpl; auto.
    destruct (Nat.eqb n x); simpl; auto. f_equal; auto.
  Qed.

  Lemma perm_mm_emplace c n m : Permutation (map snd (mm_emplace c n m)) (n :: map snd m).
  Proof.
    induction m as [|[c' x] r IH]; simpl; auto.
    destruct (c' <=? c); simpl; auto.
    eapply perm_trans; [apply perm_skip; exact IH|]. apply perm_swap.
  Qed.
End MmFacts.

(* ------------------------------------------------------------------------------------ *)
(* the representation relation with the decomposition  list = used ++ free  explicit      *)
(* ------------------------------------------------------------------------------------ *)
Section RepFacts.
  Context {K V : Type} `{EqDec K}.
  Local Open Scope list_scope.
  Local Open Scope nat_scope.

  Definition kf (cs : list (dcell K V)) (n : nat) : option K :=
    match nth_error cs n with Some c => dc_keyed c | None => None end.
  Definition ef (cs : list (dcell K V)) (n : nat) : option (K * (V * Z)) :=
    match nth_error cs n with
    | Some {| dc_keyed := Some k; dc_lfu := _; dc_age := a; dc_val := Some v |} => Some (k, (v, a))
    | _ => None
    end.

  Record rep3 (l : lfdl K V) (s : lf K V) (used free : list nat) : Prop := {
    r_list : dl_list l = used ++ free;
    r_end : dl_end l = l_begin free;
    r_cap : dl_cap l = lf_cap s;
    r_tick : dl_tick l = lf_tick s;
    r_rnum : dl_rnum l = lf_rnum s;
    r_rk : dl_rk l = lf_rk s;
    r_clen : List.length (dl_cells l) = lf_cap s;
    r_nd : NoDup (used ++ free);
    r_llen : List.length (used ++ free) = lf_cap s;
    r_bnd : forall n, In n (used ++ free) -> n < lf_cap s;
    r_used : dl_used l = List.length used;
    r_ixlen : List.length (dl_index l) = List.length used;
    r_ixnd : NoDup (keys (dl_index l));
    r_ents : map (ef (dl_cells l)) used = map (@Some (K * (V * Z))) (lf_ents s);
    r_mm : rdmm (kf (dl_cells l)) (dl_mm l) = map (@Some (nat * K)) (lf_ord s);
    r_mmnd : NoDup (map snd (dl_mm l));
    r_mmused : forall n, In n used <-> In n (map snd (dl_mm l));
    r_cell : forall n k v a, In n used -> ef (dl_cells l) n = Some (k, (v, a)) ->
               assoc k (dl_index l) = Some n /\
               exists c, nth_error (dl_cells l) n = Some c /\ dc_lfu c = Some n;
    r_ix : forall k n, assoc k (dl_index l) = Some n -> In n used /\ kf (dl_cells l) n = Some k
  }.

  Lemma rep3_intro l s used free : rep3 l s used free -> dl_rep l s.
  Proof.
    intros R. destruct R. exists used, free.
    rewrite r_list0. split; [reflexivity|].
    repeat (split; [assumption|]). assumption.
  Qed.

  Lemma rep3_elim l s : dl_rep l s -> exists used free, rep3 l s used free.
  Proof.
    intros (used & free & H1 & H2 & H3 & H4 & H5 & H6 & H7 & H8 & H9 & H10 & H11 & H12 & H13 & H14 &
            H15 & H16 & H17 & H18 & H19).
    exists used, free. rewrite H1 in H8, H9, H10.
    constructor; assumption.
  Qed.

  Lemma ef_cell cs n k lf a v :
    nth_error cs n = Some {| dc_keyed := Some k; dc_lfu := lf; dc_age := a; dc_val := Some v |} ->
    ef cs n = Some (k, (v, a)).
  Proof. intros E. unfold ef. rewrite E. reflexivity. Qed.

  Lemma ef_inv cs n k v a : ef cs n = Some (k, (v, a)) ->
    exists lf, nth_error cs n = Some {| dc_keyed := Some k; dc_lfu := lf; dc_age := a; dc_val := Some v |}.
  Proof.
    unfold ef. destruct (nth_error cs n) as [[[k'|] lf a' [v'|]]|]; intros E; inversion E; subst. eauto.
  Qed.

  Lemma kf_cell cs n c : nth_error cs n = Some c -> kf cs n = dc_keyed c.
  Proof. intros E. unfold kf. rewrite E. reflexivity. Qed.

  Lemma ef_ext cs cs' n : nth_error cs' n = nth_error cs n -> ef cs' n = ef cs n.
  Proof. intros E. unfold ef. rewrite E. reflexivity. Qed.
  Lemma kf_ext cs cs' n : nth_error cs' n = nth_error cs n -> kf cs' n = kf cs n.
  Proof. intros E. unfold kf. rewrite E. reflexivity. Qed.

  Definition mkcell (k : K) (n : nat) (a : Z) (v : V) : dcell K V :=
    {| dc_keyed := Some k; dc_lfu := Some n; dc_age := a; dc_val := Some v |}.

  Lemma ef_mkcell cs n k m a v : nth_error cs n = Some (mkcell k m a v) -> ef cs n = Some (k, (v, a)).
  Proof. intros E. unfold ef. rewrite E. reflexivity. Qed.

  (* a used node: its cell, its index entry, its entry *)
  Lemma used_cell l s used free n : rep3 l s used free -> In n used ->
    exists k v a, nth_error (dl_cells l) n = Some (mkcell k n a v) /\
                  assoc k (dl_index l) = Some n /\ In (k, (v, a)) (lf_ents s).
  Proof.
    intros R I.
    destruct (reads_some _ _ _ _ (r_ents _ _ _ _ R) I) as (k & [v a] & E).
    destruct (r_cell _ _ _ _ R n k v a I E) as (Ei & c & Ec & El).
    destruct (ef_inv _ _ _ _ _ E) as (lf & Ec').
    exists k, v, a. split; [|split; [exact Ei|]].
    - rewrite Ec' in Ec. inversion Ec; subst c. simpl in El. subst lf. exact Ec'.
    - eapply reads_in; [exact (r_ents _ _ _ _ R)|exact I|exact E].
  Qed.

  Lemma used_key l s used free n k : rep3 l s used free -> In n used -> kf (dl_cells l) n = Some k ->
    exists v a, nth_error (dl_cells l) n = Some (mkcell k n a v) /\
                assoc k (dl_index l) = Some n /\ In (k, (v, a)) (lf_ents s).
  Proof.
    intros R I Kn. destruct (used_cell _ _ _ _ _ R I) as (k' & v & a & Ec & Ei & Ie).
    rewrite (kf_cell _ _ _ Ec) in Kn. simpl in Kn. inversion Kn; subst k'. eauto.
  Qed.

  Lemma used_inj l s used free x n k : rep3 l s used free -> In x used -> In n used ->
    kf (dl_cells l) x = Some k -> kf (dl_cells l) n = Some k -> x = n.
  Proof.
    intros R Ix In' Kx Kn.
    destruct (used_key _ _ _ _ _ _ R Ix Kx) as (_ & _ & _ & E1 & _).
    destruct (used_key _ _ _ _ _ _ R In' Kn) as (_ & _ & _ & E2 & _).
    congruence.
  Qed.

  Lemma rep3_nodup_used l s used free : rep3 l s used free -> NoDup used.
  Proof. intros R. eapply nodup_app_l. exact (r_nd _ _ _ _ R). Qed.

  Lemma rep3_len l s used free : rep3 l s used free -> List.length used = List.length (lf_ents s).
  Proof. intros R. eapply reads_len. exact (r_ents _ _ _ _ R). Qed.

  Lemma rep3_lookup l s used free k n : rep3 l s used free -> NoDup (keys (lf_ents s)) ->
    assoc k (dl_index l) = Some n ->
    In n used /\ exists v a, nth_error (dl_cells l) n = Some (mkcell k n a v) /\
                             assoc k (lf_ents s) = Some (v, a).
  Proof.
    intros R Nk E. destruct (r_ix _ _ _ _ R k n E) as [I Kn]. split; auto.
    destruct (used_key _ _ _ _ _ _ R I Kn) as (v & a & Ec & _ & Ie).
    exists v, a. split; auto. apply In_assoc; auto.
  Qed.

  Lemma rep3_lookup_none l s used free k : rep3 l s used free ->
    assoc k (dl_index l) = None -> assoc k (lf_ents s) = None.
  Proof.
    intros R E. destruct (assoc k (lf_ents s)) as [[v a]|] eqn:Ea; auto. exfalso.
    apply assoc_In in Ea.
    destruct (reads_in_inv _ _ _ _ _ (r_ents _ _ _ _ R) Ea) as (n & I & Fn).
    destruct (r_cell _ _ _ _ R n k v a I Fn) as (Ei & _). congruence.
  Qed.

  (* the use count of a used node *)
  Lemma rep3_count l s used free n k : rep3 l s used free -> In n used -> kf (dl_cells l) n = Some k ->
    exists c, mm_count n (dl_mm l) = Some c /\ assoc2 k (lf_ord s) = Some c.
  Proof.
    intros R I Kn.
    destruct (mm_count_in n (dl_mm l)) as (c & Ec). { apply (r_mmused _ _ _ _ R). exact I. }
    exists c. split; auto. rewrite <- Ec. symmetry.
    eapply rdmm_count; [exact Kn| |exact (r_mm _ _ _ _ R)].
    intros x Ix Kx. eapply used_inj; eauto. apply (r_mmused _ _ _ _ R). exact Ix.
  Qed.

  (* node n (key k) is re-filed: moved inside the used part, its cell rewritten with the same
     key, its multimap pair re-emplaced with count c' *)
  Lemma rep3_refile l s used free n k cs' c' used' ents' L :
    rep3 l s used free -> In n used -> kf (dl_cells l) n = Some k ->
    Permutation used' used -> L = used' ++ free ->
    List.length cs' = lf_cap s ->
    (exists a v, nth_error cs' n = Some (mkcell k n a v)) ->
    (forall m, m <> n -> nth_error cs' m = nth_error (dl_cells l) m) ->
    map (ef cs') used' = map (@Some (K * (V * Z))) ents' ->
    rep3 {| dl_cap := dl_cap l; dl_tick := dl_tick l; dl_rnum := dl_rnum l; dl_rk := dl_rk l;
            dl_list := L; dl_cells := cs'; dl_end := dl_end l; dl_index := dl_index l;
            dl_mm := mm_emplace c' n (mm_remove n (dl_mm l)); dl_used := dl_used l |}
         (lf_with s (ord_insert c' k (rem2 k (lf_ord s))) ents') used' free.
  Proof.
    intros R I Kn P EL Hlen (a' & v' & Hn) Hm Hents.
    destruct (used_key _ _ _ _ _ _ R I Kn) as (v0 & a0 & Ec0 & Ei0 & Ie0).
    assert (P' : Permutation (used' ++ free) (used ++ free)) by (apply Permutation_app_tail; exact P).
    assert (KF : forall m, kf cs' m = kf (dl_cells l) m).
    { intros m. destruct (Nat.eq_dec m n) as [E|N].
      - subst m. rewrite (kf_cell _ _ _ Hn), Kn. reflexivity.
      - apply kf_ext. apply Hm. exact N. }
    assert (IM : forall x, In x (map snd (mm_emplace c' n (mm_remove n (dl_mm l)))) <->
                           x = n \/ (In x (map snd (dl_mm l)) /\ x <> n)).
    { intros x. split.
      - intros Ix. eapply Permutation_in in Ix; [|apply perm_mm_emplace].
        destruct Ix as [E|Ix]; [left; auto|right].
        rewrite snd_mm_remove in Ix. apply in_remove_nat in Ix; [exact Ix|exact (r_mmnd _ _ _ _ R)].
      - intros Ix. eapply Permutation_in; [symmetry; apply perm_mm_emplace|].
        destruct Ix as [E|Ix]; [left; auto|right].
        rewrite snd_mm_remove. apply in_remove_nat; [exact (r_mmnd _ _ _ _ R)|exact Ix]. }
    constructor; cbn [dl_cap dl_tick dl_rnum dl_rk dl_list dl_cells dl_end dl_index dl_mm dl_used
                      lf_with lf_cap lf_tick lf_rnum lf_rk lf_ord lf_ents].
    - exact EL.
    - exact (r_end _ _ _ _ R).
    - exact (r_cap _ _ _ _ R).
    - exact (r_tick _ _ _ _ R).
    - exact (r_rnum _ _ _ _ R).
    - exact (r_rk _ _ _ _ R).
    - exact Hlen.
    - eapply Permutation_NoDup; [symmetry; exact P'|exact (r_nd _ _ _ _ R)].
    - rewrite (Permutation_length P'). exact (r_llen _ _ _ _ R).
    - intros m Im. apply (r_bnd _ _ _ _ R). eapply Permutation_in; eauto.
    - rewrite (Permutation_length P). exact (r_used _ _ _ _ R).
    - rewrite (Permutation_length P). exact (r_ixlen _ _ _ _ R).
    - exact (r_ixnd _ _ _ _ R).
    - exact Hents.
    - rewrite (rdmm_ext (kf cs') (kf (dl_cells l))) by (intros; apply KF).
      apply rdmm_emplace; [exact Kn|].
      apply rdmm_remove; [exact Kn| |exact (r_mmnd _ _ _ _ R)|exact (r_mm _ _ _ _ R)].
      intros x Ix Kx. eapply used_inj; eauto. apply (r_mmused _ _ _ _ R). exact Ix.
    - eapply Permutation_NoDup; [symmetry; apply perm_mm_emplace|].
      rewrite snd_mm_remove. constructor.
      + intros X. apply in_remove_nat in X; [|exact (r_mmnd _ _ _ _ R)]. destruct X as [_ X]. auto.
      + apply nodup_remove_nat. exact (r_mmnd _ _ _ _ R).
    - intros x. rewrite IM. rewrite <- (r_mmused _ _ _ _ R). split.
      + intros Ix. destruct (Nat.eq_dec x n) as [E|N]; [left; auto|right].
        split; auto. eapply Permutation_in; eauto.
      + intros [E|[Ix _]]; (eapply Permutation_in; [symmetry; exact P|]); [subst; auto|auto].
    - intros m k0 v0' a0' Im Em.
      assert (Im' : In m used) by (eapply Permutation_in; eauto).
      destruct (Nat.eq_dec m n) as [E|N].
      + subst m. rewrite (ef_cell _ _ _ _ _ _ Hn) in Em. inversion Em; subst k0 v0' a0'.
        split; [exact Ei0|]. exists (mkcell k n a' v'). split; auto.
      + rewrite (ef_ext (dl_cells l) cs' m (Hm m N)) in Em.
        destruct (r_cell _ _ _ _ R m k0 v0' a0' Im' Em) as (Ea & c & Ec & El).
        split; auto. exists c. rewrite Hm by exact N. auto.
    - intros k0 m Em. destruct (r_ix _ _ _ _ R k0 m Em) as [Im Km]. split.
      + eapply Permutation_in; [symmetry; exact P|exact Im].
      + rewrite KF. exact Km.
  Qed.

  (* node n (key k) is released: it becomes the first free node *)
  Lemma rep3_erase l s used free n k L :
    rep3 l s used free -> NoDup (keys (lf_ents s)) -> In n used -> kf (dl_cells l) n = Some k ->
    L = remove_nat n used ++ n :: free ->
    rep3 {| dl_cap := dl_cap l; dl_tick := dl_tick l; dl_rnum := dl_rnum l; dl_rk := dl_rk l;
            dl_list := L; dl_cells := dl_cells l; dl_end := It n; dl_index := remk k (dl_index l);
            dl_mm := mm_remove n (dl_mm l); dl_used := dl_used l - 1 |}
         (lf_erase_key s k) (remove_nat n used) (n :: free).
  Proof.
    intros R Nk I Kn EL.
    pose proof (rep3_nodup_used _ _ _ _ R) as Nu.
    destruct (used_key _ _ _ _ _ _ R I Kn) as (v0 & a0 & Ec0 & Ei0 & Ie0).
    assert (P1 : Permutation (n :: remove_nat n used) used) by (apply perm_remove_nat; auto).
    assert (P : Permutation (remove_nat n used ++ n :: free) (used ++ free)).
    { eapply perm_trans; [symmetry; apply Permutation_middle|].
      change (n :: remove_nat n used ++ free) with ((n :: remove_nat n used) ++ free).
      apply Permutation_app_tail. exact P1. }
    assert (L1 : S (List.length (remove_nat n used)) = List.length used).
    { apply Permutation_length in P1. simpl in P1. exact P1. }
    constructor; cbn [dl_cap dl_tick dl_rnum dl_rk dl_list dl_cells dl_end dl_index dl_mm dl_used
                      lf_erase_key lf_with lf_cap lf_tick lf_rnum lf_rk lf_ord lf_ents].
    - exact EL.
    - reflexivity.
    - exact (r_cap _ _ _ _ R).
    - exact (r_tick _ _ _ _ R).
    - exact (r_rnum _ _ _ _ R).
    - exact (r_rk _ _ _ _ R).
    - exact (r_clen _ _ _ _ R).
    - eapply Permutation_NoDup; [symmetry; exact P|exact (r_nd _ _ _ _ R)].
    - rewrite (Permutation_length P). exact (r_llen _ _ _ _ R).
    - intros m Im. apply (r_bnd _ _ _ _ R). eapply Permutation_in; eauto.
    - rewrite (r_used _ _ _ _ R). lia.
    - pose proof (length_remk_S k (dl_index l) n (r_ixnd _ _ _ _ R) Ei0) as L2.
      pose proof (r_ixlen _ _ _ _ R). lia.
    - apply NoDup_remk. exact (r_ixnd _ _ _ _ R).
    - eapply reads_remove; [exact (r_ents _ _ _ _ R)|exact Nk|exact I|].
      eapply ef_cell. exact Ec0.
    - apply rdmm_remove; [exact Kn| |exact (r_mmnd _ _ _ _ R)|exact (r_mm _ _ _ _ R)].
      intros x Ix Kx. eapply used_inj; eauto. apply (r_mmused _ _ _ _ R). exact Ix.
    - rewrite snd_mm_remove. apply nodup_remove_nat. exact (r_mmnd _ _ _ _ R).
    - intros x. rewrite snd_mm_remove.
      rewrite in_remove_nat by exact Nu. rewrite in_remove_nat by exact (r_mmnd _ _ _ _ R).
      rewrite (r_mmused _ _ _ _ R). tauto.
    - intros m k0 v1 a1 Im Em. apply in_remove_nat in Im; [|exact Nu]. destruct Im as [Im Nmn].
      destruct (r_cell _ _ _ _ R m k0 v1 a1 Im Em) as (Ea & c & Ec & El).
      split; [|eauto]. rewrite assoc_remk_other; auto.
      intros Ek. subst k0. rewrite Ei0 in Ea. inversion Ea. auto.
    - intros k0 m Em. destruct (Base.eqb_spec k0 k) as [Ek|Nkk].
      { subst k0. rewrite assoc_remk_same in Em. discriminate. }
      rewrite assoc_remk_other in Em by auto.
      destruct (r_ix _ _ _ _ R k0 m Em) as [Im Km]. split; auto.
      apply in_remove_nat; auto. split; auto. intros Emn; subst m. congruence.
  Qed.

  (* the first free node n is claimed for (k, v) *)
  Lemma rep3_claim l s used n free' k v now :
    rep3 l s used (n :: free') -> assoc k (dl_index l) = None ->
    rep3 {| dl_cap := dl_cap l; dl_tick := dl_tick l; dl_rnum := dl_rnum l; dl_rk := dl_rk l;
            dl_list := dl_list l; dl_cells := upd_nth n (mkcell k n now v) (dl_cells l);
            dl_end := l_begin free'; dl_index := dl_index l ++ [(k, n)];
            dl_mm := mm_emplace 1 n (dl_mm l); dl_used := S (dl_used l) |}
         (lf_with s (ord_insert 1 k (lf_ord s)) (lf_ents s ++ [(k, (v, now))])) (used ++ [n]) free'.
  Proof.
    intros R E.
    pose proof (rep3_nodup_used _ _ _ _ R) as Nu.
    assert (EA : (used ++ [n]) ++ free' = used ++ n :: free') by (rewrite <- app_assoc; reflexivity).
    assert (Nn : ~ In n used).
    { pose proof (r_nd _ _ _ _ R) as N. apply NoDup_remove_2 in N. intros I. apply N.
      apply in_or_app; auto. }
    assert (Hn : n < List.length (dl_cells l)).
    { rewrite (r_clen _ _ _ _ R). apply (r_bnd _ _ _ _ R). apply in_or_app. right; left; auto. }
    assert (Nm : ~ In n (map snd (dl_mm l))).
    { intros I. apply Nn. apply (r_mmused _ _ _ _ R). exact I. }
    assert (KF : forall m, m <> n -> kf (upd_nth n (mkcell k n now v) (dl_cells l)) m = kf (dl_cells l) m).
    { intros m N. apply kf_ext. apply nth_error_upd_neq. exact N. }
    assert (KN : kf (upd_nth n (mkcell k n now v) (dl_cells l)) n = Some k).
    { rewrite (kf_cell _ _ _ (nth_error_upd_eq _ _ _ _ Hn)). reflexivity. }
    constructor; cbn [dl_cap dl_tick dl_rnum dl_rk dl_list dl_cells dl_end dl_index dl_mm dl_used
                      lf_with lf_cap lf_tick lf_rnum lf_rk lf_ord lf_ents].
    - rewrite EA. exact (r_list _ _ _ _ R).
    - reflexivity.
    - exact (r_cap _ _ _ _ R).
    - exact (r_tick _ _ _ _ R).
    - exact (r_rnum _ _ _ _ R).
    - exact (r_rk _ _ _ _ R).
    - rewrite upd_nth_len. exact (r_clen _ _ _ _ R).
    - rewrite EA. exact (r_nd _ _ _ _ R).
    - rewrite EA. exact (r_llen _ _ _ _ R).
    - rewrite EA. exact (r_bnd _ _ _ _ R).
    - rewrite app_length. simpl. rewrite (r_used _ _ _ _ R). lia.
    - rewrite !app_length. simpl. rewrite (r_ixlen _ _ _ _ R). lia.
    - rewrite keys_app. simpl. apply NoDup_snoc; [exact (r_ixnd _ _ _ _ R)|].
      apply assoc_None_iff. exact E.
    - rewrite !map_app. f_equal.
      + rewrite <- (r_ents _ _ _ _ R). apply map_ext_in. intros m Im. apply ef_ext.
        apply nth_error_upd_neq. intros Emn; subst; auto.
      + simpl. f_equal. eapply ef_mkcell. apply nth_error_upd_eq. exact Hn.
    - apply rdmm_emplace; [exact KN|].
      rewrite (rdmm_ext _ (kf (dl_cells l))); [exact (r_mm _ _ _ _ R)|].
      intros x Ix. apply KF. intros Exn; subst; auto.
    - eapply Permutation_NoDup; [symmetry; apply perm_mm_emplace|].
      constructor; [exact Nm|exact (r_mmnd _ _ _ _ R)].
    - intros x. rewrite in_app_iff. simpl. split.
      + intros Ix. eapply Permutation_in; [symmetry; apply perm_mm_emplace|].
        destruct Ix as [Ix|[Ix|[]]]; [right; apply (r_mmused _ _ _ _ R); auto|left; auto].
      + intros Ix. eapply Permutation_in in Ix; [|apply perm_mm_emplace].
        destruct Ix as [Ix|Ix]; [right; left; auto|left; apply (r_mmused _ _ _ _ R); auto].
    - intros m k0 v0 a0 Im Em. apply in_app_or in Im. destruct Im as [Im|[Im|[]]].
      + assert (Nmn : m <> n) by (intros Emn; subst; auto).
        rewrite (ef_ext (dl_cells l)) in Em by (apply nth_error_upd_neq; exact Nmn).
        destruct (r_cell _ _ _ _ R m k0 v0 a0 Im Em) as (Ea & c & Ec & El).
        split.
        * rewrite assoc_app, Ea. reflexivity.
        * exists c. rewrite nth_error_upd_neq by exact Nmn. auto.
      + subst m. rewrite (ef_mkcell _ _ _ _ _ _ (nth_error_upd_eq _ _ _ _ Hn)) in Em.
        inversion Em; subst k0 v0 a0. split.
        * rewrite assoc_app, E. simpl. rewrite LfudaFacts.eqb_rfl. reflexivity.
        * exists (mkcell k n now v). split; [apply nth_error_upd_eq; exact Hn|reflexivity].
    - intros k0 m Em. rewrite assoc_app in Em.
      destruct (assoc k0 (dl_index l)) as [m0|] eqn:A0.
      + inversion Em; subst m0. destruct (r_ix _ _ _ _ R k0 m A0) as [Im Km]. split.
        * apply in_or_app; auto.
        * rewrite KF; auto. intros Emn; subst; auto.
      + simpl in Em. destruct (Base.eqb_spec k0 k) as [Ek|Nk]; [|discriminate].
        inversion Em; subst m k0. split; [apply in_or_app; right; left; auto|exact KN].
  Qed.
End RepFacts.

(* ------------------------------------------------------------------------------------ *)
(* the do_* helpers                                                                      *)
(* ------------------------------------------------------------------------------------ *)
Section OpFacts.
  Context {K V : Type} `{EqDec K}.
  Local Open Scope list_scope.
  Local Open Scope nat_scope.

  Lemma dcell_of_ok (s : lfdl K V) n e : In n (dl_list s) -> nth_error (dl_cells s) n = Some e ->
    dcell_of s (It n) = Ok (n, e).
  Proof.
    intros I E. unfold dcell_of, l_deref. rewrite (mem_nat_in _ _ I). cbn [bind].
    rewrite (vget_ok _ _ _ _ _ E). reflexivity.
  Qed.

  Lemma with_cells_id (l : lfdl K V) : with_cells l (dl_cells l) = l.
  Proof. destruct l; reflexivity. Qed.

  (* do_access on a used node: the computation *)
  Lemma dl_access_ok (s : lfdl K V) used free n e k c now :
    dl_list s = used ++ free -> dl_end s = l_begin free -> NoDup (used ++ free) -> In n used ->
    nth_error (dl_cells s) n = Some e -> dc_lfu e = Some n -> dc_keyed e = Some k ->
    assoc k (dl_index s) = Some n -> mm_count n (dl_mm s) = Some c ->
    dl_access true s n now =
      Ok {| dl_cap := dl_cap s; dl_tick := dl_tick s; dl_rnum := dl_rnum s; dl_rk := dl_rk s;
            dl_list := remove_nat n used ++ n :: free;
            dl_cells := upd_nth n {| dc_keyed := dc_keyed e; dc_lfu := Some n; dc_age := now;
                                     dc_val := dc_val e |} (dl_cells s);
            dl_end := dl_end s; dl_index := dl_index s;
            dl_mm := mm_emplace (S c) n (mm_remove n (dl_mm s)); dl_used := dl_used s |}.
  Proof.
    intros Hl He N I Ec El Ek Ei Em.
    assert (Il : In n (dl_list s)) by (rewrite Hl; apply in_or_app; auto).
    assert (Hn : n < List.length (dl_cells s)) by (apply nth_error_Some; congruence).
    destruct (move_to_end used free n N I) as (b & Hp & Hs).
    unfold dl_access. rewrite (dcell_of_ok s n e Il Ec). cbn [bind].
    unfold mm_deref, mm_erase. rewrite El, Em. cbn [bind].
    unfold keyed_second. rewrite Ek, Ei. cbn [bind].
    rewrite Hl, He, Hp. cbn [bind]. rewrite Hs. cbn [bind].
    rewrite vset_ok by exact Hn. reflexivity.
  Qed.

  (* do_erase on a used node: the computation *)
  Lemma dl_do_erase_ok (s : lfdl K V) used free n e k c :
    dl_list s = used ++ free -> dl_end s = l_begin free -> NoDup (used ++ free) -> In n used ->
    nth_error (dl_cells s) n = Some e -> dc_lfu e = Some n -> dc_keyed e = Some k ->
    assoc k (dl_index s) = Some n -> mm_count n (dl_mm s) = Some c -> dl_used s = List.length used ->
    dl_do_erase s n =
      Ok {| dl_cap := dl_cap s; dl_tick := dl_tick s; dl_rnum := dl_rnum s; dl_rk := dl_rk s;
            dl_list := remove_nat n used ++ n :: free; dl_cells := dl_cells s;
            dl_end := It n; dl_index := remk k (dl_index s);
            dl_mm := mm_remove n (dl_mm s); dl_used := dl_used s - 1 |}.
  Proof.
    intros Hl He N I Ec El Ek Ei Em Hu.
    assert (Il : In n (dl_list s)) by (rewrite Hl; apply in_or_app; auto).
    destruct (move_to_end used free n N I) as (b & Hp & Hs).
    assert (N' : NoDup (remove_nat n used ++ n :: free)).
    { eapply Permutation_NoDup; [|exact N].
      eapply perm_trans; [|apply Permutation_middle].
      change (n :: remove_nat n used ++ free) with ((n :: remove_nat n used) ++ free).
      apply Permutation_app_tail. symmetry. apply perm_remove_nat. exact I. }
    unfold dl_do_erase. rewrite (dcell_of_ok s n e Il Ec). cbn [bind].
    rewrite Hl, He, Hp. cbn [bind]. rewrite Hs. cbn [bind].
    rewrite (l_prev_app _ _ _ N'). cbn [bind].
    unfold index_erase. rewrite Ek, Ei. cbn [bind].
    unfold mm_erase. rewrite El, Em. cbn [bind].
    destruct (Nat.eqb_spec (dl_used s) 0) as [Ez|Nz].
    { exfalso. rewrite Hu in Ez. destruct used; [destruct I|discriminate]. }
    reflexivity.
  Qed.

  (* do_access of node n (key k), its cell possibly rewritten with a new value before *)
  Lemma access_ref t (l : lfdl K V) (s : lf K V) used free n k v0 a v cs0 now :
    rep3 l s used free -> lf_inv t s -> In n used ->
    nth_error (dl_cells l) n = Some (mkcell k n a v0) ->
    List.length cs0 = lf_cap s -> nth_error cs0 n = Some (mkcell k n a v) ->
    (forall m, m <> n -> nth_error cs0 m = nth_error (dl_cells l) m) ->
    exists l', dl_access true (with_cells l cs0) n now = Ok l' /\
               rep3 l' (lf_access s k v now) (remove_nat n used ++ [n]) free /\
               dl_index l' = dl_index l.
  Proof.
    intros R Inv I Ec Hlen Hn0 Hm0.
    assert (Nk : NoDup (keys (lf_ents s))) by (destruct Inv as (_ & _ & X & _); exact X).
    pose proof (rep3_nodup_used _ _ _ _ R) as Nu.
    assert (Kn : kf (dl_cells l) n = Some k) by (rewrite (kf_cell _ _ _ Ec); reflexivity).
    destruct (rep3_count _ _ _ _ _ _ R I Kn) as (c & Em & Ea2).
    destruct (used_key _ _ _ _ _ _ R I Kn) as (v1 & a1 & Ec1 & Ei & Ie).
    pose proof (dl_access_ok (with_cells l cs0) used free n (mkcell k n a v) k c now
                  (r_list _ _ _ _ R) (r_end _ _ _ _ R) (r_nd _ _ _ _ R) I Hn0 eq_refl eq_refl Ei Em) as HA.
    rewrite HA. eexists. split; [reflexivity|]. split; [|reflexivity].
    cbn [with_cells dl_cap dl_tick dl_rnum dl_rk dl_list dl_cells dl_end dl_index dl_mm dl_used
         mkcell dc_keyed dc_val].
    unfold lf_access, lf_count. rewrite Ea2.
    assert (Hn : n < List.length cs0) by (apply nth_error_Some; congruence).
    apply (rep3_refile l s used free n k _ (S c) (remove_nat n used ++ [n]) _ _ R I Kn).
    - apply perm_remove_snoc. exact I.
    - rewrite <- app_assoc. reflexivity.
    - rewrite upd_nth_len. exact Hlen.
    - exists now, v. apply nth_error_upd_eq. exact Hn.
    - intros m Nm. rewrite nth_error_upd_neq by exact Nm. apply Hm0. exact Nm.
    - rewrite !map_app. f_equal.
      + erewrite map_ext_in.
        * eapply reads_remove; [exact (r_ents _ _ _ _ R)|exact Nk|exact I|].
          eapply ef_mkcell. exact Ec.
        * intros m Im. apply in_remove_nat in Im; [|exact Nu]. destruct Im as [_ Nm].
          apply ef_ext. rewrite nth_error_upd_neq by exact Nm. apply Hm0. exact Nm.
      + simpl. f_equal. eapply ef_mkcell. apply nth_error_upd_eq. exact Hn.
  Qed.

  (* do_erase of the used node n holding key k *)
  Lemma erase_ref t (l : lfdl K V) (s : lf K V) used free n k :
    rep3 l s used free -> lf_inv t s -> In n used -> kf (dl_cells l) n = Some k ->
    exists l', dl_do_erase l n = Ok l' /\
               rep3 l' (lf_erase_key s k) (remove_nat n used) (n :: free).
  Proof.
    intros R Inv I Kn.
    assert (Nk : NoDup (keys (lf_ents s))) by (destruct Inv as (_ & _ & X & _); exact X).
    destruct (rep3_count _ _ _ _ _ _ R I Kn) as (c & Em & Ea2).
    destruct (used_key _ _ _ _ _ _ R I Kn) as (v1 & a1 & Ec1 & Ei & Ie).
    rewrite (dl_do_erase_ok l used free n (mkcell k n a1 v1) k c
               (r_list _ _ _ _ R) (r_end _ _ _ _ R) (r_nd _ _ _ _ R) I Ec1 eq_refl eq_refl Ei Em
               (r_used _ _ _ _ R)).
    eexists. split; [reflexivity|].
    apply rep3_erase; auto.
  Qed.

  (* ---- do_dynamic_age: the loop ---- *)
  Lemma age_loop_ref now : forall rest_e rest (l : lfdl K V) (s : lf K V) moved moved_e free fuel aged,
    rep3 l s (rest ++ moved) free ->
    lf_ents s = rest_e ++ moved_e -> List.length rest = List.length rest_e ->
    Forall (fun x => stampof x = now) moved_e -> (0 <= lf_tick s)%Z ->
    List.length rest < fuel ->
    exists l' used',
      dl_age_loop fuel l (l_begin (moved ++ free)) now aged
        = Ok (l', snd (lf_age_loop now (lf_tick s) (lf_rnum s) (lf_rk s) rest_e (lf_ord s) moved_e aged)) /\
      rep3 l' (lf_with s (snd (fst (lf_age_loop now (lf_tick s) (lf_rnum s) (lf_rk s) rest_e (lf_ord s) moved_e aged)))
                         (fst (fst (lf_age_loop now (lf_tick s) (lf_rnum s) (lf_rk s) rest_e (lf_ord s) moved_e aged))))
           used' free.
  Proof.
    induction rest_e as [|[k [v a]] re IH]; intros rest l s moved moved_e free fuel aged R E L F T Hf.
    - destruct rest as [|x r]; [|discriminate]. simpl app in *. simpl lf_age_loop. cbn [fst snd].
      destruct fuel as [|f]; [lia|]. cbn [dl_age_loop].
      destruct moved as [|m mv].
      + assert (B : iter_eqb (l_begin (dl_list l)) (dl_end l) = true).
        { rewrite (r_list _ _ _ _ R), (r_end _ _ _ _ R). simpl. apply iter_eqb_refl. }
        rewrite B. exists l, []. split; [reflexivity|]. rewrite <- E, lf_with_id. exact R.
      + assert (Im : In m (m :: mv)) by (left; reflexivity).
        assert (B : l_begin (dl_list l) = It m) by (rewrite (r_list _ _ _ _ R); reflexivity).
        assert (B2 : iter_eqb (It m) (dl_end l) = false).
        { rewrite (r_end _ _ _ _ R). apply iter_eqb_neq. intros X.
          apply (nodup_sep _ _ (r_nd _ _ _ _ R) m Im). auto. }
        destruct (used_cell _ _ _ _ _ R Im) as (k & v & a & Ec & Ei & Ie).
        assert (Il : In m (dl_list l)) by (rewrite (r_list _ _ _ _ R); apply in_or_app; auto).
        rewrite B, B2, (dcell_of_ok l m _ Il Ec). cbn [bind mkcell dc_age].
        assert (Ea : a = now).
        { rewrite E in Ie. rewrite Forall_forall in F. apply (F _ Ie). }
        assert (B3 : (a + ms (dl_tick l) <? now)%Z = false).
        { rewrite (r_tick _ _ _ _ R), Ea. apply Z.ltb_ge. unfold ms. lia. }
        rewrite B3. exists l, (m :: mv). split; [reflexivity|]. rewrite <- E, lf_with_id. exact R.
    - destruct rest as [|x r]; [discriminate|]. simpl in L. injection L as L.
      assert (Ix : In x ((x :: r) ++ moved)) by (left; reflexivity).
      pose proof (r_ents _ _ _ _ R) as HE. rewrite E in HE. simpl in HE. injection HE as HE1 HE2.
      destruct (ef_inv _ _ _ _ _ HE1) as (lf & Ec0).
      assert (Kn : kf (dl_cells l) x = Some k) by (rewrite (kf_cell _ _ _ Ec0); reflexivity).
      destruct (used_key _ _ _ _ _ _ R Ix Kn) as (v1 & a1 & Ec & Ei & Ie).
      assert (Eva : v1 = v /\ a1 = a).
      { pose proof (ef_mkcell _ _ _ _ _ _ Ec) as X. rewrite HE1 in X. inversion X; auto. }
      destruct Eva as [Ev Ea]. subst v1 a1. clear Ec0 lf.
      destruct (rep3_count _ _ _ _ _ _ R Ix Kn) as (c & Em & Ea2).
      assert (Il : In x (dl_list l)) by (rewrite (r_list _ _ _ _ R); apply in_or_app; auto).
      assert (B : l_begin (dl_list l) = It x) by (rewrite (r_list _ _ _ _ R); reflexivity).
      assert (B2 : iter_eqb (It x) (dl_end l) = false).
      { rewrite (r_end _ _ _ _ R). apply iter_eqb_neq. intros X.
        apply (nodup_sep _ _ (r_nd _ _ _ _ R) x Ix). auto. }
      assert (B3 : (a + ms (dl_tick l) <? now)%Z = (a + ms (lf_tick s) <? now)%Z)
        by (rewrite (r_tick _ _ _ _ R); reflexivity).
      destruct fuel as [|f]; [lia|]. cbn [dl_age_loop].
      rewrite B, B2, (dcell_of_ok l x _ Il Ec). cbn [bind mkcell dc_age dc_lfu dc_keyed dc_val].
      rewrite B3. simpl lf_age_loop.
      destruct (a + ms (lf_tick s) <? now)%Z eqn:EP.
      + pose proof (r_nd _ _ _ _ R) as N. rewrite <- app_assoc in N.
        assert (SP : (if iter_eqb (It x) (l_begin (moved ++ free)) then Ok (dl_list l)
                      else l_splice (dl_list l) (l_begin (moved ++ free)) (It x))
                     = Ok ((r ++ x :: moved) ++ free)).
        { rewrite iter_eqb_neq.
          - rewrite (r_list _ _ _ _ R), <- app_assoc.
            rewrite (l_splice_end (x :: r) (moved ++ free) x N (or_introl eq_refl)).
            simpl remove_nat. rewrite Nat.eqb_refl. rewrite <- app_assoc. reflexivity.
          - intros X. apply (nodup_sep _ _ N x (or_introl eq_refl)). auto. }
        rewrite SP. cbn [bind]. unfold mm_deref, mm_erase. rewrite Em. cbn [bind].
        assert (Hn : x < List.length (dl_cells l)) by (apply nth_error_Some; congruence).
        rewrite vset_ok by exact Hn. cbn [bind].
        rewrite Ea2.
        assert (B4 : scale (dl_rnum l) (dl_rk l) c = scale (lf_rnum s) (lf_rk s) c)
          by (rewrite (r_rnum _ _ _ _ R), (r_rk _ _ _ _ R); reflexivity).
        rewrite B4.
        set (s1 := lf_with s (ord_insert (scale (lf_rnum s) (lf_rk s) c) k (rem2 k (lf_ord s)))
                           (re ++ (k, (v, now)) :: moved_e)).
        match goal with |- context [dl_age_loop f ?l1 _ _ _] =>
          assert (R1 : rep3 l1 s1 (r ++ x :: moved) free) end.
        { unfold s1.
          apply (rep3_refile l s ((x :: r) ++ moved) free x k _ _ (r ++ x :: moved) _ _ R Ix Kn).
          - symmetry. simpl. apply Permutation_middle.
          - reflexivity.
          - rewrite upd_nth_len. exact (r_clen _ _ _ _ R).
          - exists now, v. apply nth_error_upd_eq. exact Hn.
          - intros m Nm. apply nth_error_upd_neq. exact Nm.
          - pose proof (r_nd _ _ _ _ R) as N0. simpl in N0. inversion N0 as [|y q Hni Hnd]; subst.
            assert (EX : forall m, In m (r ++ moved) ->
                         ef (upd_nth x (mkcell k x now v) (dl_cells l)) m = ef (dl_cells l) m).
            { intros m Im. apply ef_ext. apply nth_error_upd_neq. intros Emx; subst m.
              apply Hni. apply in_or_app; auto. }
            destruct (reads_split _ _ _ _ _ HE2 L) as [Ha Hb].
            rewrite !map_app. simpl map. f_equal; [|f_equal].
            + rewrite <- Ha. apply map_ext_in. intros m Im. apply EX. apply in_or_app; auto.
            + f_equal. eapply ef_mkcell. apply nth_error_upd_eq. exact Hn.
            + rewrite <- Hb. apply map_ext_in. intros m Im. apply EX. apply in_or_app; auto. }
        assert (F' : Forall (fun y : K * (V * Z) => stampof y = now) ((k, (v, now)) :: moved_e))
          by (constructor; auto).
        assert (Hf' : List.length r < f) by (simpl in Hf; lia).
        destruct (IH r _ s1 (x :: moved) ((k, (v, now)) :: moved_e) free f (S aged) R1 eq_refl L F' T Hf')
          as (l' & u' & D & R').
        exists l', u'. split; [exact D|exact R'].
      + exists l, ((x :: r) ++ moved). split; [reflexivity|].
        cbn [fst snd]. change ((k, (v, a)) :: re ++ moved_e) with (((k, (v, a)) :: re) ++ moved_e).
        rewrite <- E, lf_with_id. exact R.
  Qed.

  Lemma dyn_age_ref (l : lfdl K V) (s : lf K V) used free now :
    rep3 l s used free -> (0 <= lf_tick s)%Z ->
    exists l' used', dl_dynamic_age l now = Ok (l', snd (lf_dyn_age s now)) /\
                     rep3 l' (fst (lf_dyn_age s now)) used' free.
  Proof.
    intros R T. unfold dl_dynamic_age, lf_dyn_age.
    assert (R0 : rep3 l s (used ++ []) free) by (rewrite app_nil_r; exact R).
    assert (E0 : lf_ents s = lf_ents s ++ []) by (rewrite app_nil_r; reflexivity).
    assert (Hf : List.length used < S (List.length (dl_list l))).
    { rewrite (r_list _ _ _ _ R), app_length. lia. }
    destruct (age_loop_ref now (lf_ents s) used l s [] [] free (S (List.length (dl_list l))) 0
                R0 E0 (rep3_len _ _ _ _ R) (Forall_nil _) T Hf) as (l' & u' & D & R').
    simpl app in D. rewrite <- (r_end _ _ _ _ R) in D.
    destruct (lf_age_loop now (lf_tick s) (lf_rnum s) (lf_rk s) (lf_ents s) (lf_ord s) [] 0) as [[e o] n].
    cbn [fst snd] in *. exists l', u'. split; [exact D|exact R'].
  Qed.

  (* ---- do_prune on a non-empty cache: aging, then the multimap's first pair is erased ---- *)
  Lemma prune_ref t (l : lfdl K V) (s : lf K V) used free now c kv rest :
    rep3 l s used free -> lf_inv t s -> (t <= now)%Z -> used <> [] ->
    lf_ord (fst (lf_dyn_age s now)) = (c, kv) :: rest ->
    exists l' used' n, dl_do_prune true l now = Ok l' /\
       rep3 l' (lf_erase_key (fst (lf_dyn_age s now)) kv) used' (n :: free).
  Proof.
    intros R Inv Lt Hne HO.
    assert (T : (0 <= lf_tick s)%Z) by (destruct Inv as (_ & X & _); exact X).
    assert (I1 : lf_inv now (fst (lf_dyn_age s now))) by (apply (lf_inv_dyn_age t); auto).
    destruct (dyn_age_ref l s used free now R T) as (l1 & u1 & D & R1).
    unfold dl_do_prune.
    assert (C : (0 <? dl_used l) = true).
    { apply Nat.ltb_lt. rewrite (r_used _ _ _ _ R). destruct used; [congruence|simpl; lia]. }
    rewrite C, D. cbn [bind fst].
    pose proof (r_mm _ _ _ _ R1) as HM. rewrite HO in HM.
    destruct (dl_mm l1) as [|[c1 n] mm'] eqn:EM; simpl in HM; [discriminate|].
    injection HM as HM1 HM2.
    assert (Kn : kf (dl_cells l1) n = Some kv).
    { destruct (kf (dl_cells l1) n); inversion HM1; auto. }
    assert (In1 : In n u1). { apply (r_mmused _ _ _ _ R1). rewrite EM. left; reflexivity. }
    destruct (erase_ref now l1 _ u1 free n kv R1 I1 In1 Kn) as (l' & D' & R').
    exists l', (remove_nat n u1), n. split; [exact D'|exact R'].
  Qed.

  (* do_insert when there is a free node *)
  Lemma insert_nonfull (l : lfdl K V) (s : lf K V) used free k v now :
    rep3 l s used free -> List.length (lf_ents s) < lf_cap s -> assoc k (dl_index l) = None ->
    exists l' used' free', dl_do_insert true l k v now = Ok l' /\
                           rep3 l' (lf_add s k v now) used' free'.
  Proof.
    intros R Hlt E. pose proof (rep3_len _ _ _ _ R) as Lu.
    destruct free as [|n free'].
    { exfalso. pose proof (r_llen _ _ _ _ R) as X. rewrite app_nil_r in X. lia. }
    assert (Il : In n (dl_list l)).
    { rewrite (r_list _ _ _ _ R). apply in_or_app. right; left; reflexivity. }
    assert (Nn : ~ In n used).
    { pose proof (r_nd _ _ _ _ R) as N. apply NoDup_remove_2 in N. intros I. apply N.
      apply in_or_app; auto. }
    assert (Hn : n < List.length (dl_cells l)).
    { rewrite (r_clen _ _ _ _ R). apply (r_bnd _ _ _ _ R). apply in_or_app. right; left; auto. }
    destruct (nth_error (dl_cells l) n) as [e|] eqn:Ec; [|apply nth_error_None in Ec; lia].
    assert (C1 : (List.length (dl_list l) <=? dl_used l) = false).
    { apply Nat.leb_gt. rewrite (r_list _ _ _ _ R), (r_llen _ _ _ _ R), (r_used _ _ _ _ R). lia. }
    assert (D1 : dcell_of l (dl_end l) = Ok (n, e)).
    { rewrite (r_end _ _ _ _ R). simpl l_begin. apply dcell_of_ok; auto. }
    assert (C2 : (List.length (dl_index l) <? dl_cap l) = true).
    { apply Nat.ltb_lt. rewrite (r_ixlen _ _ _ _ R), (r_cap _ _ _ _ R). lia. }
    assert (D2 : l_next (dl_list l) (dl_end l) = Ok (l_begin free')).
    { rewrite (r_end _ _ _ _ R). simpl l_begin. unfold l_next. rewrite (mem_nat_in _ _ Il).
      rewrite (r_list _ _ _ _ R), after_app by exact Nn. reflexivity. }
    unfold dl_do_insert. rewrite C1. cbn [bind]. rewrite D1. cbn [bind].
    unfold index_emplace. rewrite C2. cbn [bind]. rewrite vset_ok by exact Hn. cbn [bind].
    rewrite D2. cbn [bind].
    eexists. exists (used ++ [n]), free'. split; [reflexivity|].
    exact (rep3_claim l s used n free' k v now R E).
  Qed.

  Lemma rep3_ix_none (l : lfdl K V) (s : lf K V) used free k :
    rep3 l s used free -> ~ In k (keys (lf_ents s)) -> assoc k (dl_index l) = None.
  Proof.
    intros R N. destruct (assoc k (dl_index l)) as [n|] eqn:A; auto. exfalso.
    destruct (r_ix _ _ _ _ R k n A) as [I Kn].
    destruct (used_key _ _ _ _ _ _ R I Kn) as (v & a & _ & _ & Ie).
    apply N. eapply in_pair_keys. exact Ie.
  Qed.

  (* do_insert_update *)
  Lemma ins_ref t (l : lfdl K V) (s : lf K V) k v a now :
    lf_inv t s -> (t <= now)%Z -> dl_rep l s ->
    exists l', dl_ins true l k v a now = Ok (l', snd (lf_ins s k v a now)) /\
               dl_rep l' (fst (lf_ins s k v a now)).
  Proof.
    intros Inv Lt Rp. destruct (rep3_elim _ _ Rp) as (used & free & R).
    assert (Nk : NoDup (keys (lf_ents s))) by (destruct Inv as (_ & _ & X & _); exact X).
    destruct (lf_ins s k v a now) as [s' b] eqn:EI. cbn [fst snd].
    unfold dl_ins. destruct (assoc k (dl_index l)) as [n|] eqn:A.
    - destruct (rep3_lookup _ _ _ _ _ _ R Nk A) as (I & v0 & a0 & Ec & EA).
      unfold lf_ins in EI. rewrite EA in EI. destruct (a_upd a).
      + inversion EI; subst s' b. clear EI.
        assert (Il : In n (dl_list l)) by (rewrite (r_list _ _ _ _ R); apply in_or_app; auto).
        assert (Hn : n < List.length (dl_cells l)) by (apply nth_error_Some; congruence).
        destruct (access_ref t l s used free n k v0 a0 v (upd_nth n (mkcell k n a0 v) (dl_cells l)) now
                    R Inv I Ec) as (l' & D & R' & _).
        { rewrite upd_nth_len. exact (r_clen _ _ _ _ R). }
        { apply nth_error_upd_eq. exact Hn. }
        { intros m Nm. apply nth_error_upd_neq. exact Nm. }
        unfold dl_do_update. rewrite (dcell_of_ok l n _ Il Ec). cbn [bind].
        rewrite vset_ok by exact Hn. cbn [bind mkcell dc_keyed dc_lfu dc_age dc_val].
        unfold mkcell in D. rewrite D. cbn [bind].
        exists l'. split; [reflexivity|]. eapply rep3_intro; eauto.
      + inversion EI; subst s' b. exists l. auto.
    - pose proof (rep3_lookup_none _ _ _ _ _ R A) as EA.
      assert (HG : lf_get s k = None) by (apply lf_get_None; exact EA).
      destruct (lf_ins_cases t s k v a now s' b Inv Lt EI)
        as [(HG' & _)|[(HB & ES & HC)|[(_ & HI & HB & HSz & ES)|(_ & HI & HB & HSz & c & kv & rest & HO & ES)]]].
      + congruence.
      + destruct HC as [(HG' & _)|(_ & HI)]; [congruence|]. rewrite HI. subst s' b. exists l. auto.
      + rewrite HI. subst s' b. unfold lf_size in HSz.
        destruct (insert_nonfull l s used free k v now R HSz A) as (l' & u' & f' & D & R').
        rewrite D. cbn [bind]. exists l'. split; [reflexivity|]. eapply rep3_intro; eauto.
      + rewrite HI. subst s' b.
        destruct (lf_evict_facts t s k now c kv rest Inv Lt HSz HG HO)
          as (I1 & G1 & I2 & Nk2 & Hlen2 & Hcap2 & _).
        pose proof (rep3_len _ _ _ _ R) as Lu. unfold lf_size in HSz.
        assert (Hne : used <> []).
        { intros X. subst used. simpl in Lu. destruct Inv as (Hc & _). lia. }
        destruct (prune_ref t l s used free now c kv rest R Inv Lt Hne HO) as (l1 & u1 & n1 & D1 & R1).
        set (s2 := lf_erase_key (fst (lf_dyn_age s now)) kv) in *.
        assert (A1 : assoc k (dl_index l1) = None) by (eapply rep3_ix_none; eauto).
        assert (Hlt : List.length (lf_ents s2) < lf_cap s2) by lia.
        destruct (insert_nonfull l1 s2 u1 (n1 :: free) k v now R1 Hlt A1) as (l' & u' & f' & D & R').
        assert (DI : dl_do_insert true l k v now = dl_do_insert true l1 k v now).
        { unfold dl_do_insert.
          assert (Ca : (List.length (dl_list l) <=? dl_used l) = true).
          { apply Nat.leb_le. rewrite (r_list _ _ _ _ R), (r_llen _ _ _ _ R), (r_used _ _ _ _ R). lia. }
          assert (Cb : (List.length (dl_list l1) <=? dl_used l1) = false).
          { apply Nat.leb_gt. rewrite (r_list _ _ _ _ R1), (r_llen _ _ _ _ R1), (r_used _ _ _ _ R1).
            rewrite (rep3_len _ _ _ _ R1). exact Hlt. }
          rewrite Ca, Cb, D1. reflexivity. }
        rewrite DI, D. cbn [bind]. exists l'. split; [reflexivity|]. eapply rep3_intro; eauto.
  Qed.

  (* erase(key) *)
  Lemma erase_key_ref t (l : lfdl K V) (s : lf K V) k :
    lf_inv t s -> dl_rep l s ->
    exists l', dl_erase l k = Ok (l', snd (lf_erase s k)) /\ dl_rep l' (fst (lf_erase s k)).
  Proof.
    intros Inv Rp. destruct (rep3_elim _ _ Rp) as (used & free & R).
    assert (Nk : NoDup (keys (lf_ents s))) by (destruct Inv as (_ & _ & X & _); exact X).
    unfold dl_erase, lf_erase. destruct (assoc k (dl_index l)) as [n|] eqn:A.
    - destruct (rep3_lookup _ _ _ _ _ _ R Nk A) as (I & v0 & a0 & Ec & EA). rewrite EA.
      assert (Kn : kf (dl_cells l) n = Some k) by (rewrite (kf_cell _ _ _ Ec); reflexivity).
      destruct (erase_ref t l s used free n k R Inv I Kn) as (l' & D & R').
      rewrite D. cbn [bind fst snd]. exists l'. split; [reflexivity|]. eapply rep3_intro; eauto.
    - rewrite (rep3_lookup_none _ _ _ _ _ R A). exists l. auto.
  Qed.

  (* reading the node the index gives for a key: its value and its use count *)
  Lemma read_node (l : lfdl K V) (s : lf K V) used free k n :
    rep3 l s used free -> NoDup (keys (lf_ents s)) -> assoc k (dl_index l) = Some n ->
    exists e v a, dcell_of l (It n) = Ok (n, e) /\ dc_val e = Some v /\
                  mm_deref (dl_mm l) (dc_lfu e) = Ok (lf_count s k) /\
                  assoc k (lf_ents s) = Some (v, a).
  Proof.
    intros R Nk A. destruct (rep3_lookup _ _ _ _ _ _ R Nk A) as (I & v0 & a0 & Ec & EA).
    assert (Kn : kf (dl_cells l) n = Some k) by (rewrite (kf_cell _ _ _ Ec); reflexivity).
    destruct (rep3_count _ _ _ _ _ _ R I Kn) as (c & Em & Ea2).
    assert (Il : In n (dl_list l)) by (rewrite (r_list _ _ _ _ R); apply in_or_app; auto).
    exists (mkcell k n a0 v0), v0, a0. split; [apply dcell_of_ok; auto|]. split; [reflexivity|].
    split; [|exact EA]. unfold mm_deref, lf_count. cbn [mkcell dc_lfu]. rewrite Em, Ea2. reflexivity.
  Qed.

  (* do_find_with_use_count *)
  Lemma find_use_ref t (l : lfdl K V) (s : lf K V) k pk now :
    lf_inv t s -> (t <= now)%Z -> dl_rep l s ->
    exists l', dl_find_use true l k pk now = Ok (l', snd (lf_find_use s k pk now)) /\
               dl_rep l' (fst (lf_find_use s k pk now)).
  Proof.
    intros Inv Lt Rp. destruct (rep3_elim _ _ Rp) as (used & free & R).
    assert (Nk : NoDup (keys (lf_ents s))) by (destruct Inv as (_ & _ & X & _); exact X).
    unfold dl_find_use, lf_find_use. destruct (assoc k (dl_index l)) as [n|] eqn:A.
    - destruct (rep3_lookup _ _ _ _ _ _ R Nk A) as (I & v0 & a0 & Ec & EA). rewrite EA.
      destruct pk.
      + cbn [bind fst snd].
        destruct (read_node l s used free k n R Nk A) as (e & v1 & a1 & D1 & Ev & Dm & EA1).
        rewrite D1. cbn [bind]. rewrite Dm. cbn [bind]. rewrite Ev.
        rewrite EA in EA1. inversion EA1; subst v1 a1.
        exists l. split; [reflexivity|exact Rp].
      + destruct (access_ref t l s used free n k v0 a0 v0 (dl_cells l) now R Inv I Ec
                    (r_clen _ _ _ _ R) Ec (fun m _ => eq_refl)) as (l' & D & R' & Ex).
        rewrite with_cells_id in D. rewrite D. cbn [bind fst snd].
        assert (I1 : lf_inv now (lf_access s k v0 now)).
        { apply (lf_inv_access t); auto. apply assoc_Some_keys. congruence. }
        assert (Nk1 : NoDup (keys (lf_ents (lf_access s k v0 now))))
          by (destruct I1 as (_ & _ & X & _); exact X).
        assert (A' : assoc k (dl_index l') = Some n) by (rewrite Ex; exact A).
        destruct (read_node l' _ _ free k n R' Nk1 A') as (e & v1 & a1 & D1 & Ev & Dm & EA1).
        rewrite D1. cbn [bind]. rewrite Dm. cbn [bind]. rewrite Ev.
        rewrite ents_access_same in EA1. inversion EA1; subst v1 a1.
        exists l'. split; [reflexivity|]. eapply rep3_intro; eauto.
    - rewrite (rep3_lookup_none _ _ _ _ _ R A). exists l. auto.
  Qed.

  (* do_find *)
  Lemma find_ref t (l : lfdl K V) (s : lf K V) k pk now :
    lf_inv t s -> (t <= now)%Z -> dl_rep l s ->
    exists l', dl_find true l k pk now = Ok (l', snd (lf_find s k pk now)) /\
               dl_rep l' (fst (lf_find s k pk now)).
  Proof.
    intros Inv Lt Rp. destruct (rep3_elim _ _ Rp) as (used & free & R).
    assert (Nk : NoDup (keys (lf_ents s))) by (destruct Inv as (_ & _ & X & _); exact X).
    unfold dl_find, lf_find, lf_find_use. destruct (assoc k (dl_index l)) as [n|] eqn:A.
    - destruct (rep3_lookup _ _ _ _ _ _ R Nk A) as (I & v0 & a0 & Ec & EA). rewrite EA.
      destruct pk.
      + cbn [bind fst snd].
        destruct (read_node l s used free k n R Nk A) as (e & v1 & a1 & D1 & Ev & Dm & EA1).
        rewrite D1. cbn [bind snd]. rewrite Ev.
        rewrite EA in EA1. inversion EA1; subst v1 a1.
        exists l. split; [reflexivity|exact Rp].
      + destruct (access_ref t l s used free n k v0 a0 v0 (dl_cells l) now R Inv I Ec
                    (r_clen _ _ _ _ R) Ec (fun m _ => eq_refl)) as (l' & D & R' & Ex).
        rewrite with_cells_id in D. rewrite D. cbn [bind fst snd].
        assert (I1 : lf_inv now (lf_access s k v0 now)).
        { apply (lf_inv_access t); auto. apply assoc_Some_keys. congruence. }
        assert (Nk1 : NoDup (keys (lf_ents (lf_access s k v0 now))))
          by (destruct I1 as (_ & _ & X & _); exact X).
        assert (A' : assoc k (dl_index l') = Some n) by (rewrite Ex; exact A).
        destruct (read_node l' _ _ free k n R' Nk1 A') as (e & v1 & a1 & D1 & Ev & Dm & EA1).
        rewrite D1. cbn [bind snd]. rewrite Ev.
        rewrite ents_access_same in EA1. inversion EA1; subst v1 a1.
        exists l'. split; [reflexivity|]. eapply rep3_intro; eauto.
    - rewrite (rep3_lookup_none _ _ _ _ _ R A). exists l. auto.
  Qed.
End OpFacts.

(* ------------------------------------------------------------------------------------ *)
(* range calls (each element at the same clock reading)                                  *)
(* ------------------------------------------------------------------------------------ *)
Section RangeFacts.
  Context {K V : Type} `{EqDec K}.
  Local Open Scope list_scope.
  Local Open Scope nat_scope.

  Lemma lf_ins_inv t (s : lf K V) k v a now : lf_inv t s -> (t <= now)%Z ->
    lf_inv now (fst (lf_ins s k v a now)).
  Proof.
    intros I L. destruct (lf_ins s k v a now) as [s1 b] eqn:E.
    apply (lf_inv_step t s (Insert 0%Z k v a) now [] s1 (RB b) I L eq_refl).
    simpl. rewrite E. reflexivity.
  Qed.
  Lemma lf_erase_inv t (s : lf K V) k now : lf_inv t s -> (t <= now)%Z ->
    lf_inv now (fst (lf_erase s k)).
  Proof.
    intros I L. destruct (lf_erase s k) as [s1 b] eqn:E.
    apply (lf_inv_step t s (Erase k) now [] s1 (RB b) I L eq_refl).
    simpl. rewrite E. reflexivity.
  Qed.
  Lemma lf_find_inv t (s : lf K V) k pk now : lf_inv t s -> (t <= now)%Z ->
    lf_inv now (fst (lf_find s k pk now)).
  Proof.
    intros I L. destruct (lf_find s k pk now) as [s1 r] eqn:E.
    apply (lf_inv_step t s (Find k pk) now [] s1 (RO r) I L eq_refl).
    simpl. rewrite E. reflexivity.
  Qed.
  Lemma lf_find_use_inv t (s : lf K V) k pk now : lf_inv t s -> (t <= now)%Z ->
    lf_inv now (fst (lf_find_use s k pk now)).
  Proof.
    intros I L. destruct (lf_find_use s k pk now) as [s1 r] eqn:E.
    apply (lf_inv_step t s (FindUse k pk) now [] s1 (RU r) I L eq_refl).
    simpl. rewrite E. reflexivity.
  Qed.

  Lemma ins_range_ref now xs : forall t (l : lfdl K V) (s : lf K V) a n,
    lf_inv t s -> (t <= now)%Z -> dl_rep l s ->
    exists l', dl_ins_range true l xs a now n = Ok (l', snd (lf_ins_range s xs a now n)) /\
               dl_rep l' (fst (lf_ins_range s xs a now n)) /\
               lf_inv now (fst (lf_ins_range s xs a now n)).
  Proof.
    induction xs as [|[[z k] v] r IH]; intros t l s a n I L R; simpl.
    - exists l. split; [reflexivity|]. split; [exact R|]. eapply lf_inv_mono; eauto.
    - destruct (ins_ref t l s k v a now I L R) as (l1 & D1 & R1).
      pose proof (lf_ins_inv t s k v a now I L) as I1.
      destruct (lf_ins s k v a now) as [s1 b]. cbn [fst snd] in *.
      rewrite D1. cbn [bind].
      apply (IH now l1 s1 a (if b then S n else n) I1 (Z.le_refl now) R1).
  Qed.

  Lemma erase_range_ref now ks : forall t (l : lfdl K V) (s : lf K V) n,
    lf_inv t s -> (t <= now)%Z -> dl_rep l s ->
    exists l', dl_erase_range l ks n = Ok (l', snd (lf_erase_range s ks n)) /\
               dl_rep l' (fst (lf_erase_range s ks n)) /\
               lf_inv now (fst (lf_erase_range s ks n)).
  Proof.
    induction ks as [|k r IH]; intros t l s n I L R; simpl.
    - exists l. split; [reflexivity|]. split; [exact R|]. eapply lf_inv_mono; eauto.
    - destruct (erase_key_ref t l s k I R) as (l1 & D1 & R1).
      pose proof (lf_erase_inv t s k now I L) as I1.
      destruct (lf_erase s k) as [s1 b]. cbn [fst snd] in *.
      rewrite D1. cbn [bind].
      apply (IH now l1 s1 (if b then S n else n) I1 (Z.le_refl now) R1).
  Qed.

  Lemma find_range_ref now pk ks : forall t (l : lfdl K V) (s : lf K V),
    lf_inv t s -> (t <= now)%Z -> dl_rep l s ->
    exists l', dl_find_range true l ks pk now = Ok (l', snd (lf_find_range s ks pk now)) /\
               dl_rep l' (fst (lf_find_range s ks pk now)) /\
               lf_inv now (fst (lf_find_range s ks pk now)).
  Proof.
    induction ks as [|k r IH]; intros t l s I L R; simpl.
    - exists l. split; [reflexivity|]. split; [exact R|]. eapply lf_inv_mono; eauto.
    - destruct (find_ref t l s k pk now I L R) as (l1 & D1 & R1).
      pose proof (lf_find_inv t s k pk now I L) as I1.
      destruct (lf_find s k pk now) as [s1 o]. cbn [fst snd] in *.
      rewrite D1. cbn [bind].
      destruct (IH now l1 s1 I1 (Z.le_refl now) R1) as (l2 & D2 & R2 & I2).
      rewrite D2. cbn [bind].
      destruct (lf_find_range s1 r pk now) as [s2 os]. cbn [fst snd] in *.
      exists l2. split; [reflexivity|]. split; assumption.
  Qed.
End RangeFacts.

Section LfudaLitFacts.
  Context {K V : Type} `{EqDec K}.

  Theorem dl_rep_init : forall cap tick rnum rk,
      1 <= cap -> dl_rep (K := K) (V := V) (lfdl_init cap tick rnum rk) (lf_init cap tick rnum rk).
  Proof.
    intros cap tick rnum rk Hc. apply (rep3_intro _ _ [] (seq 0 cap)).
    constructor; unfold lfdl_init, lf_init;
      cbn [dl_cap dl_tick dl_rnum dl_rk dl_list dl_cells dl_end dl_index dl_mm dl_used
           lf_cap lf_tick lf_rnum lf_rk lf_ord lf_ents app]; try reflexivity.
    - apply repeat_length.
    - apply seq_NoDup.
    - apply seq_length.
    - intros n I. apply in_seq in I. lia.
    - constructor.
    - constructor.
    - intros n k v a [].
    - intros k n E. discriminate.
  Qed.

  Lemma rep_sizes (l : lfdl K V) (s : lf K V) : dl_rep l s ->
    dl_used l = lf_size s /\ List.length (dl_list l) = lf_cap s /\ List.length (dl_cells l) = lf_cap s.
  Proof.
    intros Rp. destruct (rep3_elim _ _ Rp) as (used & free & R).
    split; [|split].
    - rewrite (r_used _ _ _ _ R). unfold lf_size. apply (rep3_len _ _ _ _ R).
    - rewrite (r_list _ _ _ _ R). exact (r_llen _ _ _ _ R).
    - exact (r_clen _ _ _ _ R).
  Qed.

  (* one public call at a clock reading not earlier than the previous one *)
  Theorem dl_step_refines : forall t (l : lfdl K V) (s : lf K V) o now rnd,
      lf_inv t s -> (t <= now)%Z -> dl_rep l s ->
      exists l', dl_step true l o now rnd = Ok (l', snd (lf_step s o now rnd)) /\
                 dl_rep l' (fst (lf_step s o now rnd)) /\ lf_inv now (fst (lf_step s o now rnd)).
  Proof.
    intros t l s o now rnd I L R.
    pose proof (lf_inv_mono t now s I L) as I'.
    destruct (rep_sizes l s R) as (Hsz & Hcap & _).
    destruct o as [ttl k v a|xs a|k|ks|k pk|ks pk|ks pk|k pk| |d| | | | | ]; simpl;
      try (exists l; split; [reflexivity|split; [exact R|exact I']]).
    - destruct (ins_ref t l s k v a now I L R) as (l1 & D1 & R1).
      pose proof (lf_ins_inv t s k v a now I L) as I1.
      destruct (lf_ins s k v a now) as [s1 b]. cbn [fst snd] in *.
      rewrite D1. cbn [bind]. exists l1. auto.
    - destruct (ins_range_ref now xs t l s a 0 I L R) as (l1 & D1 & R1 & I1).
      destruct (lf_ins_range s xs a now 0) as [s1 n]. cbn [fst snd] in *.
      rewrite D1. cbn [bind]. exists l1. auto.
    - destruct (erase_key_ref t l s k I R) as (l1 & D1 & R1).
      pose proof (lf_erase_inv t s k now I L) as I1.
      destruct (lf_erase s k) as [s1 b]. cbn [fst snd] in *.
      rewrite D1. cbn [bind]. exists l1. auto.
    - destruct (erase_range_ref now ks t l s 0 I L R) as (l1 & D1 & R1 & I1).
      destruct (lf_erase_range s ks 0) as [s1 n]. cbn [fst snd] in *.
      rewrite D1. cbn [bind]. exists l1. auto.
    - destruct (find_ref t l s k pk now I L R) as (l1 & D1 & R1).
      pose proof (lf_find_inv t s k pk now I L) as I1.
      destruct (lf_find s k pk now) as [s1 r]. cbn [fst snd] in *.
      rewrite D1. cbn [bind]. exists l1. auto.
    - destruct (find_range_ref now pk ks t l s I L R) as (l1 & D1 & R1 & I1).
      destruct (lf_find_range s ks pk now) as [s1 r]. cbn [fst snd] in *.
      rewrite D1. cbn [bind]. exists l1. auto.
    - destruct (find_range_ref now pk ks t l s I L R) as (l1 & D1 & R1 & I1).
      destruct (lf_find_range s ks pk now) as [s1 r]. cbn [fst snd] in *.
      rewrite D1. cbn [bind]. exists l1. auto.
    - destruct (find_use_ref t l s k pk now I L R) as (l1 & D1 & R1).
      pose proof (lf_find_use_inv t s k pk now I L) as I1.
      destruct (lf_find_use s k pk now) as [s1 r]. cbn [fst snd] in *.
      rewrite D1. cbn [bind]. exists l1. auto.
    - destruct (rep3_elim _ _ R) as (used & free & R3).
      assert (T : (0 <= lf_tick s)%Z) by (destruct I as (_ & X & _); exact X).
      destruct (dyn_age_ref l s used free now R3 T) as (l1 & u1 & D1 & R1).
      pose proof (lf_inv_dyn_age t s now I L) as I1.
      destruct (lf_dyn_age s now) as [s1 n]. cbn [fst snd] in *.
      rewrite D1. cbn [bind]. exists l1. split; [reflexivity|]. split; [|exact I1].
      eapply rep3_intro; eauto.
    - exists l. rewrite Hsz. split; [reflexivity|split; [exact R|exact I']].
    - exists l. rewrite Hsz. split; [reflexivity|split; [exact R|exact I']].
    - exists l. rewrite Hcap. split; [reflexivity|split; [exact R|exact I']].
  Qed.

  Fixpoint dl_run (l : lfdl K V) (h : list (ev K V)) : res (lfdl K V * list (ret K V)) :=
    match h with
    | [] => Ok (l, [])
    | e :: r => do x <- dl_step true l (e_op e) (e_now e) (e_rnd e);
                let '(l1, y) := x in
                do z <- dl_run l1 r; let '(l2, ys) := z in Ok (l2, y :: ys)
    end.

  Lemma dl_run_refines : forall h t (l : lfdl K V) (s : lf K V),
      lf_inv t s -> mono_from t h -> dl_rep l s ->
      exists l', dl_run l h = Ok (l', snd (run lf_step s h)) /\
                 dl_rep l' (fst (run lf_step s h)).
  Proof.
    induction h as [|e r IH]; intros t l s I M R; simpl.
    - exists l. auto.
    - destruct M as [L M].
      destruct (dl_step_refines t l s (e_op e) (e_now e) (e_rnd e) I L R) as (l1 & D1 & R1 & I1).
      rewrite D1. cbn [bind]. unfold step_ev.
      destruct (lf_step s (e_op e) (e_now e) (e_rnd e)) as [s1 y1]. cbn [fst snd] in *.
      destruct (IH (e_now e) l1 s1 I1 M R1) as (l2 & D2 & R2).
      rewrite D2. cbn [bind].
      destruct (run lf_step s1 r) as [s2 ys]. cbn [fst snd] in *.
      exists l2. split; [reflexivity|exact R2].
  Qed.

  (* whole histories at non-decreasing clock readings from a fresh cache (tick >= 0): never UB,
     same results as the mid-level model *)
  Theorem dl_no_UB_on_any_history : forall cap tick rnum rk h,
      1 <= cap -> (0 <= tick)%Z -> mono_from 0 h ->
      exists l', dl_run (lfdl_init cap tick rnum rk) h
                 = Ok (l', snd (run lf_step (lf_init cap tick rnum rk) h)) /\
                 dl_rep l' (fst (run lf_step (lf_init cap tick rnum rk) h)).
  Proof.
    intros cap tick rnum rk h Hc Ht M.
    apply (dl_run_refines h 0%Z); auto.
    - apply lf_inv_init; auto.
    - apply dl_rep_init; auto.
  Qed.

  (* the capacity of the mid-level state never changes *)
  Lemma cap_prune (s : lf K V) now : lf_cap (lf_prune s now) = lf_cap s.
  Proof.
    unfold lf_prune. destruct (lf_ents s); auto.
    destruct (lf_ord (fst (lf_dyn_age s now))) as [|[c k] r]; simpl; apply (dyn_age_params s now).
  Qed.
  Lemma cap_ins (s : lf K V) k v a now : lf_cap (fst (lf_ins s k v a now)) = lf_cap s.
  Proof.
    unfold lf_ins. destruct (assoc k (lf_ents s)).
    - destruct (a_upd a); reflexivity.
    - destruct (a_ins a); [|reflexivity].
      destruct (lf_cap s <=? List.length (lf_ents s)); simpl; auto. apply cap_prune.
  Qed.
  Lemma cap_erase (s : lf K V) k : lf_cap (fst (lf_erase s k)) = lf_cap s.
  Proof. unfold lf_erase. destruct (assoc k (lf_ents s)); reflexivity. Qed.
  Lemma cap_find_use (s : lf K V) k pk now : lf_cap (fst (lf_find_use s k pk now)) = lf_cap s.
  Proof.
    unfold lf_find_use. destruct (assoc k (lf_ents s)) as [[v a]|]; [|reflexivity].
    destruct pk; reflexivity.
  Qed.
  Lemma cap_find (s : lf K V) k pk now : lf_cap (fst (lf_find s k pk now)) = lf_cap s.
  Proof.
    unfold lf_find. pose proof (cap_find_use s k pk now) as X.
    destruct (lf_find_use s k pk now) as [s1 r]. exact X.
  Qed.
  Lemma cap_ins_range xs : forall (s : lf K V) a now n,
    lf_cap (fst (lf_ins_range s xs a now n)) = lf_cap s.
  Proof.
    induction xs as [|[[z k] v] r IH]; intros s a now n; simpl; auto.
    pose proof (cap_ins s k v a now) as X. destruct (lf_ins s k v a now) as [s1 b].
    rewrite IH. exact X.
  Qed.
  Lemma cap_erase_range ks : forall (s : lf K V) n, lf_cap (fst (lf_erase_range s ks n)) = lf_cap s.
  Proof.
    induction ks as [|k r IH]; intros s n; simpl; auto.
    pose proof (cap_erase s k) as X. destruct (lf_erase s k) as [s1 b]. rewrite IH. exact X.
  Qed.
  Lemma cap_find_range ks : forall (s : lf K V) pk now,
    lf_cap (fst (lf_find_range s ks pk now)) = lf_cap s.
  Proof.
    induction ks as [|k r IH]; intros s pk now; simpl; auto.
    pose proof (cap_find s k pk now) as X. destruct (lf_find s k pk now) as [s1 o].
    pose proof (IH s1 pk now) as Y. destruct (lf_find_range s1 r pk now) as [s2 os].
    simpl in *. congruence.
  Qed.

  Lemma lf_step_cap : forall (s : lf K V) o now rnd, lf_cap (fst (lf_step s o now rnd)) = lf_cap s.
  Proof.
    intros s o now rnd.
    destruct o as [ttl k v a|xs a|k|ks|k pk|ks pk|ks pk|k pk| |d| | | | | ]; simpl; try reflexivity.
    - pose proof (cap_ins s k v a now) as X. destruct (lf_ins s k v a now); exact X.
    - pose proof (cap_ins_range xs s a now 0) as X. destruct (lf_ins_range s xs a now 0); exact X.
    - pose proof (cap_erase s k) as X. destruct (lf_erase s k); exact X.
    - pose proof (cap_erase_range ks s 0) as X. destruct (lf_erase_range s ks 0); exact X.
    - pose proof (cap_find s k pk now) as X. destruct (lf_find s k pk now); exact X.
    - pose proof (cap_find_range ks s pk now) as X. destruct (lf_find_range s ks pk now); exact X.
    - pose proof (cap_find_range ks s pk now) as X. destruct (lf_find_range s ks pk now); exact X.
    - pose proof (cap_find_use s k pk now) as X. destruct (lf_find_use s k pk now); exact X.
    - pose proof (dyn_age_params s now) as X. destruct (lf_dyn_age s now); apply X.
  Qed.

  Lemma lf_run_cap : forall h (s : lf K V), lf_cap (fst (run lf_step s h)) = lf_cap s.
  Proof.
    induction h as [|e r IH]; intros s; simpl; auto.
    unfold step_ev. pose proof (lf_step_cap s (e_op e) (e_now e) (e_rnd e)) as X.
    destruct (lf_step s (e_op e) (e_now e) (e_rnd e)) as [s1 y].
    pose proof (IH s1) as Y. destruct (run lf_step s1 r) as [s2 ys]. simpl in *. congruence.
  Qed.

  (* the number of list nodes / value cells never changes *)
  Theorem dl_value_cells_constant : forall cap tick rnum rk h l' rs,
      1 <= cap -> (0 <= tick)%Z -> mono_from 0 h ->
      dl_run (lfdl_init cap tick rnum rk) h = Ok (l', rs) ->
      List.length (dl_cells l') = cap /\ List.length (dl_list l') = cap.
  Proof.
    intros cap tick rnum rk h l' rs Hc Ht M E.
    destruct (dl_no_UB_on_any_history cap tick rnum rk h Hc Ht M) as (l2 & D & R).
    rewrite D in E. injection E as E1 E2. subst l2.
    destruct (rep_sizes _ _ R) as (_ & Hl & Hcl).
    rewrite lf_run_cap in Hl, Hcl. simpl in Hl, Hcl. auto.
  Qed.
End LfudaLitFacts.
