(* C08 Memory safety: no UB on any valid call sequence; values destroyed exactly once.
   Machine-checked part: rr_cache, whose literal model (RrLit.v) transcribes every do_*
   helper of rr_cache.hpp over vectors/index with stored back-pointers into an
   undefined-behaviour monad.  (The other nine containers: sanitizer correspondence only,
   see DESIGN.md §4-C08 and the evidence file.) *)
Require Import Capp.Base Capp.Spec Capp.Rr Capp.RrFacts Capp.RrLit Capp.RrLitFacts.

(* no history of public calls with in-range draws reaches UB — no out-of-range index, no erase
   through a singular or dead index iterator, no emplace beyond the reserved index size — and
   the literal machine returns exactly the results of the mid-level model *)
Theorem C08_rr_no_UB_on_any_history :
  forall (K V : Type) (E : EqDec K) cap (h : list (ev K V)),
    1 <= cap -> Forall (fun e => rnd_in_range cap (e_rnd e)) h ->
    exists l', l_run (rrl_init cap) h = Ok (l', snd (run rr_step (rr_init cap) h)) /\
               rep l' (fst (run rr_step (rr_init cap) h)).
Proof. exact @no_UB_on_any_history. Qed.
Print Assumptions C08_rr_no_UB_on_any_history.

(* one call from any related pair of states *)
Theorem C08_rr_step_refines :
  forall (K V : Type) (E : EqDec K) t (l : rrl K V) (s : rr K V) o now rnd,
    rr_inv t s -> rep l s -> rnd_in_range (rr_cap s) rnd ->
    exists l', l_step true l o now rnd = Ok (l', snd (rr_step s o now rnd)) /\
               rep l' (fst (rr_step s o now rnd)) /\ rr_inv now (fst (rr_step s o now rnd)).
Proof. exact @lit_step_refines. Qed.
Print Assumptions C08_rr_step_refines.

(* the number of value cells is constant: a value handed in is moved into one of the [cap]
   cells, ending the previous occupant, or dropped with a rejected insert *)
Theorem C08_rr_value_cells_constant :
  forall (K V : Type) (E : EqDec K) cap (h : list (ev K V)) l' rs,
    1 <= cap -> Forall (fun e => rnd_in_range cap (e_rnd e)) h ->
    l_run (rrl_init cap) h = Ok (l', rs) -> List.length (l_elems l') = cap.
Proof. exact @value_cells_constant. Qed.
Print Assumptions C08_rr_value_cells_constant.

(* ---- lru_cache / mru_cache (LruLit.v: std::list<size_t> with stable node identities, the
   partition iterator, stored list and index iterators; [mru] selects the header) ---- *)
Require Import Capp.ListCache Capp.ListCacheFacts Capp.LruLit Capp.LruLitFacts.

Theorem C08_lru_mru_no_UB_on_any_history :
  forall (K V : Type) (E : EqDec K) (mru : bool) cap (h : list (ev K V)),
    1 <= cap ->
    exists l', ll_run mru (lrul_init cap) h = Ok (l', snd (run (lc_step (pol mru)) (lc_init cap) h)) /\
               ll_rep mru l' (fst (run (lc_step (pol mru)) (lc_init cap) h)).
Proof. exact @ll_no_UB_on_any_history. Qed.
Print Assumptions C08_lru_mru_no_UB_on_any_history.

Theorem C08_lru_mru_value_cells_constant :
  forall (K V : Type) (E : EqDec K) (mru : bool) cap (h : list (ev K V)) l' rs,
    1 <= cap -> ll_run mru (lrul_init cap) h = Ok (l', rs) -> List.length (ll_elems l') = cap.
Proof. exact @ll_value_cells_constant. Qed.
Print Assumptions C08_lru_mru_value_cells_constant.

(* ---- fifo_cache (FifoLit.v: std::list<element>, optional<keyed_iterator>, key -> list iterator) ---- *)
Require Import Capp.FifoLit Capp.FifoLitFacts.

Theorem C08_fifo_no_UB_on_any_history :
  forall (K V : Type) (E : EqDec K) cap (h : list (ev K V)),
    1 <= cap ->
    exists l', fl_run (fifol_init cap) h = Ok (l', snd (run (lc_step fifo_policy) (lc_init cap) h)) /\
               fl_rep l' (fst (run (lc_step fifo_policy) (lc_init cap) h)).
Proof. exact @fl_no_UB_on_any_history. Qed.
Print Assumptions C08_fifo_no_UB_on_any_history.

Theorem C08_fifo_value_cells_constant :
  forall (K V : Type) (E : EqDec K) cap (h : list (ev K V)) l' rs,
    1 <= cap -> fl_run (fifol_init cap) h = Ok (l', rs) ->
    List.length (fl_cells l') = cap /\ List.length (fl_list l') = cap.
Proof. exact @fl_value_cells_constant. Qed.
Print Assumptions C08_fifo_value_cells_constant.

(* ---- lfuda_cache (LfudaLit.v: std::list<element>, multimap<size_t, list iterator> with stored
   iterators, the aging loop) ---- *)
Require Import Capp.Lfuda Capp.LfudaFacts Capp.LfudaLit Capp.LfudaLitFacts.

Theorem C08_lfuda_no_UB_on_any_history :
  forall (K V : Type) (E : EqDec K) cap tick rnum rk (h : list (ev K V)),
    1 <= cap -> (0 <= tick)%Z -> mono_from 0 h ->
    exists l', dl_run (lfdl_init cap tick rnum rk) h
               = Ok (l', snd (run lf_step (lf_init cap tick rnum rk) h)) /\
               dl_rep l' (fst (run lf_step (lf_init cap tick rnum rk) h)).
Proof. exact @dl_no_UB_on_any_history. Qed.
Print Assumptions C08_lfuda_no_UB_on_any_history.

Theorem C08_lfuda_value_cells_constant :
  forall (K V : Type) (E : EqDec K) cap tick rnum rk (h : list (ev K V)) l' rs,
    1 <= cap -> (0 <= tick)%Z -> mono_from 0 h ->
    dl_run (lfdl_init cap tick rnum rk) h = Ok (l', rs) ->
    List.length (dl_cells l') = cap /\ List.length (dl_list l') = cap.
Proof. exact @dl_value_cells_constant. Qed.
Print Assumptions C08_lfuda_value_cells_constant.

(* ---- ut_map / ut_set (UmLit.v: std::map with stored list iterators, std::list of ttl elements
   with stored map iterators, nodes created and destroyed dynamically) ---- *)
Require Import Capp.UtMap Capp.UtMapFacts Capp.UmLit Capp.UmLitFacts.

Theorem C08_utmap_no_UB_on_any_history :
  forall (K V : Type) (E : EqDec K) ttl (h : list (ev K V)),
    (0 <= ttl)%Z -> mono_from 0 h ->
    exists l', ul_run (uml_init ttl) h = Ok (l', snd (run um_step (um_init ttl) h)) /\
               ul_rep l' (fst (run um_step (um_init ttl) h)).
Proof. exact @ul_no_UB_on_any_history. Qed.
Print Assumptions C08_utmap_no_UB_on_any_history.

(* one list node and one ttl element per index entry at all times: nothing leaks, nothing is
   destroyed twice *)
Theorem C08_utmap_cells_match_entries :
  forall (K V : Type) (E : EqDec K) ttl (h : list (ev K V)) l' rs,
    (0 <= ttl)%Z -> mono_from 0 h -> ul_run (uml_init ttl) h = Ok (l', rs) ->
    List.length (ul_map l') = List.length (ul_list l') /\ List.length (ul_nodes l') = List.length (ul_list l').
Proof. exact @ul_cells_match_entries. Qed.
Print Assumptions C08_utmap_cells_match_entries.

(* ---- tlru_cache (uni = false) and utlru_cache (uni = true) (TtlLit.v: slots with stored list, ttl
   and index iterators, the LRU list with its partition iterator, the deadline multimap / the
   sorted deadline list with do_ttl_position, clean_expired_values, update_ttl, clear) ---- *)
Require Import Capp.TtlLru Capp.TtlLruFacts Capp.TtlLit Capp.TtlLitFacts.

Theorem C08_tlru_utlru_no_UB_on_any_history :
  forall (K V : Type) (E : EqDec K) (uni : bool) cap ttl (h : list (ev K V)),
    1 <= cap -> mono_from 0 h ->
    exists l', tt_run uni (ttll_init cap ttl) h = Ok (l', snd (run tl_step (tl_init uni cap ttl) h)) /\
               tt_rep uni l' (fst (run tl_step (tl_init uni cap ttl) h)).
Proof. exact @tt_no_UB_on_any_history. Qed.
Print Assumptions C08_tlru_utlru_no_UB_on_any_history.

Theorem C08_tlru_utlru_value_cells_constant :
  forall (K V : Type) (E : EqDec K) (uni : bool) cap ttl (h : list (ev K V)) l' rs,
    1 <= cap -> mono_from 0 h ->
    tt_run uni (ttll_init cap ttl) h = Ok (l', rs) -> List.length (tt_elems l') = cap.
Proof. exact @tt_value_cells_constant. Qed.
Print Assumptions C08_tlru_utlru_value_cells_constant.

(* ---- lfu_cache (LfudaLit.v with da = false: the same code without the aging parts; the
   mid-level age list is related to the open list up to permutation, its order being
   unobservable in lfu) ---- *)
Require Import Capp.LfuLitFacts.

Theorem C08_lfu_no_UB_on_any_history :
  forall (K V : Type) (E : EqDec K) cap (h : list (ev K V)),
    1 <= cap -> Forall (fun e => (0 <= e_now e)%Z) h ->
    exists l', fu_run (lfdl_init cap 1 1 0) h = Ok (l', snd (run lfu_step (lfu_init cap) h)) /\
               fu_rep l' (fst (run lfu_step (lfu_init cap) h)).
Proof. exact @fu_no_UB_on_any_history. Qed.
Print Assumptions C08_lfu_no_UB_on_any_history.

Theorem C08_lfu_value_cells_constant :
  forall (K V : Type) (E : EqDec K) cap (h : list (ev K V)) l' rs,
    1 <= cap -> Forall (fun e => (0 <= e_now e)%Z) h ->
    fu_run (lfdl_init cap 1 1 0) h = Ok (l', rs) ->
    List.length (dl_cells l') = cap /\ List.length (dl_list l') = cap.
Proof. exact @fu_value_cells_constant. Qed.
Print Assumptions C08_lfu_value_cells_constant.
