(* RrLit.v — LITERAL model (L3) of rr_cache.hpp: the structures the header has
   (m_elements with their stored back-pointers, m_keyed_elements, m_open_list,
   m_open_list_end) and every do_* helper transcribed line by line into an error monad in
   which violating a precondition the C++ standard states — index out of range, erase
   through an iterator that is singular or whose node has been erased, emplace beyond the
   reserved size of the index (rehash while iterators are stored), unsigned underflow used
   as an index — yields [UB reason].  C08 for rr_cache: no history reaches UB, and the
   literal machine computes exactly what the mid-level model Rr.v computes.  *)
Require Import Capp.Base Capp.Rr.
From Coq Require Import Strings.String.

Inductive res (A : Type) := Ok (a : A) | UB (why : string).
Arguments Ok {A} a.
Arguments UB {A} why.

Definition bind {A B} (x : res A) (f : A -> res B) : res B :=
  match x with Ok a => f a | UB w => UB w end.
Notation "'do' x <- e ; f" := (bind e (fun x => f)) (at level 200, x pattern, e at level 100, f at level 200).

Section RrLit.
  Context {K V : Type} `{EqDec K}.

  (* struct element { keyed_iterator m_keyed_position; size_t m_open_list_position; value_type m_value; } *)
  Record relem := {
    e_keyed : option K;      (* the index node the iterator points at: its key; None = singular *)
    e_pos   : nat;
    e_val   : option V       (* None = the default-constructed value of a never-used slot *)
  }.

  Record rrl := {
    l_cap   : nat;                 (* reserve(capacity) of the index / size of the vectors *)
    l_elems : list relem;          (* m_elements *)
    l_index : list (K * nat);      (* m_keyed_elements: key -> slot; an iterator to key k is valid iff k is here *)
    l_open  : list nat;            (* m_open_list *)
    l_end   : nat                  (* m_open_list_end *)
  }.

  Definition rrl_init (cap : nat) : rrl :=
    {| l_cap := cap;
       l_elems := repeat {| e_keyed := None; e_pos := 0; e_val := None |} cap;
       l_index := [];
       l_open := seq 0 cap;
       l_end := 0 |}.

  Local Open Scope string_scope.
  Local Open Scope list_scope.
  Local Open Scope nat_scope.

  Definition vget {A} (what : string) (l : list A) (i : nat) : res A :=
    match nth_error l i with Some a => Ok a | None => UB (String.append "index out of range: " what) end.
  Definition vset {A} (what : string) (l : list A) (i : nat) (a : A) : res (list A) :=
    if i <? List.length l then Ok (upd_nth i a l) else UB (String.append "index out of range: " what).

  (* m_keyed_elements.erase(iterator) *)
  Definition index_erase (ix : list (K * nat)) (it : option K) : res (list (K * nat)) :=
    match it with
    | None => UB "erase through a singular iterator"
    | Some k => match assoc k ix with
                | Some _ => Ok (remk k ix)
                | None => UB "erase through an iterator whose node was erased"
                end
    end.
  (* m_keyed_elements.emplace(key, idx) with stored iterators outstanding: must not rehash *)
  Definition index_emplace (cap : nat) (ix : list (K * nat)) (k : K) (i : nat) : res (list (K * nat)) :=
    if List.length ix <? cap then Ok (ix ++ [(k, i)]) else UB "emplace beyond reserve(capacity): rehash invalidates stored iterators".

  Definition with_elems (s : rrl) (e : list relem) : rrl :=
    {| l_cap := l_cap s; l_elems := e; l_index := l_index s; l_open := l_open s; l_end := l_end s |}.

  (* do_erase(element_idx).  [fixed] = the line added by the fix: commit "rr_cache do_erase
     must refresh the open-list position of the element it swaps" *)
  Definition l_do_erase (fixed : bool) (s : rrl) (idx : nat) : res rrl :=
    do e <- vget "m_elements[element_idx]" (l_elems s) idx;
    if l_end s =? 0 then UB "m_open_list_end - 1 underflows" else
    let last := l_end s - 1 in
    do r <- (if e_pos e =? last then Ok (l_open s, l_elems s)
             else
               do a <- vget "m_open_list[e.m_open_list_position]" (l_open s) (e_pos e);
               do b <- vget "m_open_list[m_open_list_end - 1]" (l_open s) last;
               let op := upd_nth last a (upd_nth (e_pos e) b (l_open s)) in
               if fixed then
                 (* m_elements[m_open_list[e.pos]].m_open_list_position = e.pos *)
                 do moved <- vget "m_elements[m_open_list[pos]]" (l_elems s) b;
                 do es <- vset "m_elements[m_open_list[pos]]" (l_elems s) b
                               {| e_keyed := e_keyed moved; e_pos := e_pos e; e_val := e_val moved |};
                 Ok (op, es)
               else Ok (op, l_elems s));
    let '(op, es) := r in
    do ix <- index_erase (l_index s) (e_keyed e);
    Ok {| l_cap := l_cap s; l_elems := es; l_index := ix; l_open := op; l_end := last |}.

  (* do_prune(): draws r uniformly from [0, m_open_list_end - 1] *)
  Definition l_do_prune (fixed : bool) (s : rrl) (r : nat) : res rrl :=
    if 0 <? l_end s then
      (if r <? l_end s then l_do_erase fixed s r else UB "draw outside [0, size-1]")
    else Ok s.

  (* do_insert(key, value) *)
  Definition l_do_insert (fixed : bool) (s : rrl) (k : K) (v : V) (rnd : list nat) : res (rrl * list nat) :=
    do sr <- (if List.length (l_elems s) <=? l_end s
              then (do s1 <- l_do_prune fixed s (hd 0 rnd); Ok (s1, tl rnd))
              else Ok (s, rnd));
    let '(s1, rnd1) := sr in
    do idx <- vget "m_open_list[m_open_list_end]" (l_open s1) (l_end s1);
    do ix <- index_emplace (l_cap s1) (l_index s1) k idx;
    do es <- vset "m_elements[element_idx]" (l_elems s1) idx
                  {| e_keyed := Some k; e_pos := l_end s1; e_val := Some v |};
    Ok ({| l_cap := l_cap s1; l_elems := es; l_index := ix; l_open := l_open s1; l_end := S (l_end s1) |}, rnd1).

  (* do_update(keyed_position, value) *)
  Definition l_do_update (s : rrl) (idx : nat) (v : V) : res rrl :=
    do e <- vget "m_elements[keyed_position->second]" (l_elems s) idx;
    do es <- vset "m_elements[keyed_position->second]" (l_elems s) idx
                  {| e_keyed := e_keyed e; e_pos := e_pos e; e_val := Some v |};
    Ok (with_elems s es).

  (* do_insert_update(key, value, allow) *)
  Definition l_ins (fixed : bool) (s : rrl) (k : K) (v : V) (a : allow) (rnd : list nat)
    : res (rrl * bool * list nat) :=
    match assoc k (l_index s) with
    | Some idx => if a_upd a then (do s1 <- l_do_update s idx v; Ok (s1, true, rnd)) else Ok (s, false, rnd)
    | None => if a_ins a then (do sr <- l_do_insert fixed s k v rnd; let '(s1, rnd1) := sr in Ok (s1, true, rnd1))
              else Ok (s, false, rnd)
    end.

  (* erase(key) *)
  Definition l_erase (fixed : bool) (s : rrl) (k : K) : res (rrl * bool) :=
    match assoc k (l_index s) with
    | Some idx => do s1 <- l_do_erase fixed s idx; Ok (s1, true)
    | None => Ok (s, false)
    end.

  (* do_find(key) *)
  Definition l_find (s : rrl) (k : K) : res (option V) :=
    match assoc k (l_index s) with
    | Some idx => do e <- vget "m_elements[element_idx]" (l_elems s) idx; Ok (e_val e)
    | None => Ok None
    end.

  Fixpoint l_ins_range (fixed : bool) (s : rrl) (l : list (Z * K * V)) (a : allow) (rnd : list nat) (n : nat)
    : res (rrl * nat) :=
    match l with
    | [] => Ok (s, n)
    | (_, k, v) :: r => do x <- l_ins fixed s k v a rnd;
                        let '(s1, b, rnd1) := x in
                        l_ins_range fixed s1 r a rnd1 (if b then S n else n)
    end.
  Fixpoint l_erase_range (fixed : bool) (s : rrl) (l : list K) (n : nat) : res (rrl * nat) :=
    match l with
    | [] => Ok (s, n)
    | k :: r => do x <- l_erase fixed s k; let '(s1, b) := x in l_erase_range fixed s1 r (if b then S n else n)
    end.
  Fixpoint l_find_range (s : rrl) (l : list K) : res (list (K * option V)) :=
    match l with
    | [] => Ok []
    | k :: r => do o <- l_find s k; do os <- l_find_range s r; Ok ((k, o) :: os)
    end.

  Definition l_step (fixed : bool) (s : rrl) (o : op K V) (now : Z) (rnd : list nat) : res (rrl * ret K V) :=
    match o with
    | Insert _ k v a => do x <- l_ins fixed s k v a rnd; let '(s1, b, _) := x in Ok (s1, RB b)
    | InsertRange l a => do x <- l_ins_range fixed s l a rnd 0; let '(s1, n) := x in Ok (s1, RN n)
    | Erase k => do x <- l_erase fixed s k; let '(s1, b) := x in Ok (s1, RB b)
    | EraseRange l => do x <- l_erase_range fixed s l 0; let '(s1, n) := x in Ok (s1, RN n)
    | Find k _ => do r <- l_find s k; Ok (s, RO r)
    | FindRange l _ => do r <- l_find_range s l; Ok (s, RL r)
    | FindRangeFill l _ => do r <- l_find_range s l; Ok (s, RL r)
    | Size => Ok (s, RN (l_end s))
    | Empty => Ok (s, RB (Nat.eqb (l_end s) 0))
    | Capacity => Ok (s, RN (List.length (l_elems s)))
    | _ => Ok (s, RUnsupported)
    end.

  (* ---------------- representation relation: literal state vs mid-level state ------------ *)
  Definition rep (l : rrl) (s : rr K V) : Prop :=
    l_cap l = rr_cap s /\ List.length (l_elems l) = rr_cap s /\ l_open l = rr_open s /\ l_end l = rr_end s /\
    NoDup (keys (l_index l)) /\ List.length (l_index l) = rr_end s /\
    (* the index maps k to slot i  iff  slot i holds (k, v), v being the cell's value,
       and then the cell's stored iterator points at k's node and its stored position is
       where slot i sits in the open list *)
    (forall k i, assoc k (l_index l) = Some i <->
                 exists v, nth i (rr_slots s) None = Some (k, v) /\ i < rr_cap s) /\
    (forall k i, assoc k (l_index l) = Some i ->
                 exists e, nth_error (l_elems l) i = Some e /\ e_keyed e = Some k /\
                           e_pos e = index_of i (rr_open s) /\
                           exists v, e_val e = Some v /\ nth i (rr_slots s) None = Some (k, v)).

  (* draws handed to a call are in range whenever it may have to evict, for every element of
     a range insert (at most one draw per element) *)
  Definition rnd_in_range (cap : nat) (rnd : list nat) : Prop := Forall (fun r => r < cap) rnd.
End RrLit.

Arguments rrl : clear implicits.
Arguments relem : clear implicits.
